/* c05_solve.c -- C05: one complete mps_mpsolve of the real library, built with every pthread call of
 * libmps redirected to the deterministic scheduler shim (vf_sched), run under a chosen schedule with
 * N worker threads.  Each run happens in a forked child and prints
 *
 *     # result <seq>
 *     <exact export of vf_solve.c: POLY/COEF..., META, ROOT, ACCM, ACCD, ACCA, OUTPUT>      (child)
 *     # result-end
 *     # run <seq> mode <m> seed <s> status <st> rc <rc> cost <c> div <d> what <w> nsched <n> [sched <csv>]
 *     <scheduler trace, one event per line, see vf_sched.h>                                   (parent)
 *     # end
 *
 * A run that deadlocks / exceeds the step limit / crashes has status != 0 (and the schedule is printed).
 *
 * Lock classes.  Most mutexes of the solver are created inside libmps, so they cannot be named by
 * address from outside.  The harness is linked with -Wl,--wrap=vf_mutex_init,--wrap=vf_mutex_lock,
 * --wrap=vf_mutex_destroy,--wrap=vf_mutex_unlock,--wrap=mps_mpsolve: the wrappers see the return address of the libmps call site, resolve it to
 * the enclosing function through the symbol table of this very binary (`nm -S -n`, passed with --syms),
 * and name the mutex with vf_name_object(ptr, "<class>.<index>"): class from the table below (function,
 * ordinal of the call site inside it by order of first execution), index = position in the array the
 * call site initialises (consecutive addresses).  Statically initialised mutexes (gs_mutex, the global
 * Aberth mutex, the system pool lock) are named at their first lock by the function that locks them.
 * Unknown call sites get the class "<function>#<ordinal>", so a new mutex shows up as a new class.
 *
 * usage: c05_solve FILE [vf_solve options: -a u|s -G i|a|c -o D -t f|d ...] -j N --syms FILE
 *          (--random K | --pct K [--depth d] | --replay-file F | --dfs B [--free-switch] [--max-runs M])
 *          [--seed S] [--max-steps n] [--timeout s] [--notrace] [--sched] [--pool0 K]
 */
#define _GNU_SOURCE
#include <stdio.h>
#include <stdlib.h>
#include <string.h>
#include <stdint.h>
#include <unistd.h>
#include <pthread.h>
#include "vf_sched.h"

/* the exact exporter, verbatim */
#define main vf_solve_main
#include "vf_solve.c"
#undef main

/* ------------------------------------------------------------------ symbol table */
typedef struct { uintptr_t a; unsigned long sz; char name[72]; } sym;
static sym *syms = NULL; static int n_syms = 0; static intptr_t slide = 0;
int main (int argc, char **argv);
static void load_syms (const char *path)
{
  FILE *f = fopen (path, "r"); char line[512]; int cap = 0; uintptr_t main_a = 0;
  if (!f) { perror (path); exit (2); }
  while (fgets (line, sizeof line, f)) {
    unsigned long a, sz; char ty; char nm[256];
    if (sscanf (line, "%lx %lx %c %255s", &a, &sz, &ty, nm) != 4) continue;
    if (ty != 't' && ty != 'T') continue;
    if (n_syms == cap) { cap = cap ? cap * 2 : 4096; syms = (sym *) realloc (syms, (size_t) cap * sizeof (sym)); }
    syms[n_syms].a = a; syms[n_syms].sz = sz; strncpy (syms[n_syms].name, nm, 71); syms[n_syms].name[71] = 0;
    if (!strcmp (nm, "main")) main_a = a;
    n_syms++;
  }
  fclose (f);
  if (!main_a) { fprintf (stderr, "c05_solve: no `main` in %s\n", path); exit (2); }
  slide = (intptr_t) (uintptr_t) &main - (intptr_t) main_a;
}
static const char *fn_of (void *ra)
{
  uintptr_t a = (uintptr_t) ((intptr_t) (uintptr_t) ra - slide); int lo = 0, hi = n_syms - 1, best = -1;
  while (lo <= hi) { int mid = (lo + hi) / 2; if (syms[mid].a <= a) { best = mid; lo = mid + 1; } else hi = mid - 1; }
  while (best >= 0 && !(a >= syms[best].a && a < syms[best].a + (syms[best].sz ? syms[best].sz : 1))) {
    if (a - syms[best].a > 0x40000) return "?";
    best--;
  }
  return best >= 0 ? syms[best].name : "?";
}

/* ------------------------------------------------------------------ class table */
typedef struct { const char *fn; const char *cls[3]; } cls_row;
static const cls_row init_tab[] = {
  { "mps_thread_pool_new", { "pool.qc", "pool.wc", 0 } },
  { "mps_thread_new", { "pool.busy", 0, 0 } },
  { "mps_thread_job_queue_new", { "queue", 0, 0 } },
  { "mps_thread_fpolzer", { "root", "aberth", 0 } },
  { "mps_thread_dpolzer", { "aberth", "root", 0 } },
  { "mps_thread_mpolzer", { "aberth", "root", 0 } },
  { "mps_secular_ga_fiterate", { "root", "aberth", 0 } },
  { "mps_secular_ga_diterate", { "root", "aberth", 0 } },
  { "mps_secular_ga_miterate", { "root", "aberth", 0 } },
  { "mps_monomial_poly_new", { "regenerating", "coeff", 0 } },
  { "mps_secular_equation_new_raw", { "ampc", "bmpc", "sec.prec" } },
  { "mps_chebyshev_poly_new", { "cheb.prec", 0, 0 } },
  { "mps_cluster_empty", { "cluster", 0, 0 } },
  { "mps_cluster_with_root", { "cluster", 0, 0 } },
  { "mps_mcluster", { "block", 0, 0 } },
  { "mps_allocate_data", { "ctx.prec", "data_prec_max", 0 } },
  { 0, { 0, 0, 0 } }
};
/* statically initialised mutexes: named by the function of their first lock */
static const char *const first_lock_tab[][2] = {
  { "mps_thread_mpolzer_worker", "gaberth" },
  { "__mps_secular_ga_fiterate_worker", "gs" }, { "__mps_secular_ga_diterate_worker", "gs" },
  { "__mps_secular_ga_miterate_worker", "gs" }, { "mps_secular_ga_miterate_worker", "gs" },
  { "mps_thread_pool_get_system_pool", "syspool" },
  { 0, 0 }
};

/* call sites seen so far */
typedef struct { void *ra; const char *fn; int ord; const void *last; int idx; } site;
static site sites[256]; static int n_sites = 0;
static site *site_of (void *ra)
{
  int i, ord = 0; const char *fn;
  for (i = 0; i < n_sites; i++) if (sites[i].ra == ra) return &sites[i];
  fn = fn_of (ra);
  for (i = 0; i < n_sites; i++) if (!strcmp (sites[i].fn, fn)) ord++;
  if (n_sites == 256) return &sites[255];
  sites[n_sites].ra = ra; sites[n_sites].fn = fn; sites[n_sites].ord = ord; sites[n_sites].last = 0; sites[n_sites].idx = 0;
  return &sites[n_sites++];
}

/* pointers we have named (open addressing) */
#define PH 16384
static const void *pk[PH]; static unsigned char pcode[PH]; static int pidx[PH];   /* code: 1 queue, 2 root, 3 aberth, 4 gaberth, 5 gs */
static unsigned pslot (const void *p) { return (unsigned) (((uintptr_t) p >> 3) * 2654435761u) & (PH - 1); }
static int pknown (const void *p) { unsigned i = pslot (p); while (pk[i]) { if (pk[i] == p) return 1; i = (i + 1) & (PH - 1); } return 0; }
static void pput (const void *p, int code, int idx) { unsigned i = pslot (p); while (pk[i] && pk[i] != (void *) 1 && pk[i] != p) i = (i + 1) & (PH - 1); pk[i] = p; pcode[i] = (unsigned char) code; pidx[i] = idx; }
static int pcode_of (const void *p, int *idx) { unsigned i = pslot (p); while (pk[i]) { if (pk[i] == p) { *idx = pidx[i]; return pcode[i]; } i = (i + 1) & (PH - 1); } return 0; }
static void pdel (const void *p) { unsigned i = pslot (p); while (pk[i]) { if (pk[i] == p) { pk[i] = (void *) 1; return; } i = (i + 1) & (PH - 1); } }

int __real_vf_mutex_init (pthread_mutex_t *m, const pthread_mutexattr_t *a);
int __real_vf_mutex_lock (pthread_mutex_t *m);
int __real_vf_mutex_unlock (pthread_mutex_t *m);
int __real_vf_mutex_destroy (pthread_mutex_t *m);
int vf_cond_init (pthread_cond_t *c, const pthread_condattr_t *a);
int vf_cond_destroy (pthread_cond_t *c);
int vf_cond_wait (pthread_cond_t *c, pthread_mutex_t *m);
int vf_cond_broadcast (pthread_cond_t *c);

/* Mutexes of class "block" (mps_mcluster) are locked by the client thread and unlocked by the worker:
 * the code uses a default mutex as a binary semaphore.  POSIX leaves that undefined; glibc's default
 * mutex behaves as a binary semaphore.  The shim's mutex model (owner must unlock) would stop the run
 * as `misuse unlock-not-owner`, so these mutexes are emulated here as binary semaphores on top of a
 * shim mutex + condition variable (all scheduling points are kept); every release by a thread other
 * than the acquirer is recorded as `ev xunlock <idx>` (reported by the check as a finding). */
typedef struct { const void *m; pthread_mutex_t aux; pthread_cond_t cv; int held, owner, idx, live; } semx;
static semx sems[128]; static int n_sems = 0;
static semx *sem_of (const void *m) { int i; for (i = 0; i < n_sems; i++) if (sems[i].live && sems[i].m == m) return &sems[i]; return NULL; }
static void sem_new (const void *m, int idx)
{
  semx *s; char b[32];
  if (n_sems == 128) vf_fail ("c05-harness:too-many-semaphores");
  s = &sems[n_sems++]; s->m = m; s->held = 0; s->owner = -1; s->idx = idx; s->live = 1;
  __real_vf_mutex_init (&s->aux, NULL); vf_cond_init (&s->cv, NULL);
  snprintf (b, sizeof b, "sem.aux.%d", idx); vf_name_object (&s->aux, b);
}

static void name_it (const void *m, const char *cls, int idx)
{
  char buf[128];
  snprintf (buf, sizeof buf, "%s.%d", cls, idx);
  vf_name_object (m, buf);
  pput (m, !strcmp (cls, "queue") ? 1 : !strcmp (cls, "root") ? 2 : !strcmp (cls, "aberth") ? 3 : !strcmp (cls, "gaberth") ? 4 : !strcmp (cls, "gs") ? 5 : 0, idx);
}

/* the context being solved (captured by --wrap=mps_mpsolve): lets the harness export, at the creation
 * of every job queue (= start of an iteration packet), the clusterisation the queue walks and the
 * `again` flags, and the flag of root i whenever roots_mutex[i] is locked / unlocked. */
static mps_context *g_ctx = NULL;
void __real_mps_mpsolve (mps_context *s);
void __wrap_mps_mpsolve (mps_context *s) { g_ctx = s; __real_mps_mpsolve (s); g_ctx = NULL; }
static void packet_begin (void)
{
  mps_context *s = g_ctx; mps_cluster_item *it; mps_root *r; int i;
  if (!s || !s->clusterization) return;
  vf_event ("pk_begin", s->n); vf_event ("pk_maxit", s->max_it); vf_event ("pk_pooln", s->pool ? (long) s->pool->n : 0);
  vf_event ("pk_tasks", s->n_threads);
  for (it = s->clusterization->first; it; it = it->next) {
    vf_event ("pk_cl", it->cluster->n);
    for (r = it->cluster->first; r; r = r->next) vf_event ("pk_r", r->k);
  }
  for (i = 0; i < s->n; i++) vf_event ("pk_ag", 2 * i + (s->root[i]->again ? 1 : 0));
  vf_event ("pk_go", 0);
}
static void packet_end (void)
{
  mps_context *s = g_ctx; int i;
  if (!s) return;
  for (i = 0; i < s->n; i++) vf_event ("pk_agend", 2 * i + (s->root[i]->again ? 1 : 0));
  vf_event ("pk_end", 0);
}


/* ------------------------------------------------------------------ observations for the REFINED worker model
 * (coq/Conc/WorkerRefined.v).  -Wl,--wrap=mps_thread_pool_assign: a task whose body is one of the six iteration
 * workers is started through a trampoline that marks, ON THE EXECUTING THREAD, the begin and the end of the task:
 *     ev w_req <required_zeros>   ev w_nz <*nzeros>   ev w_ex <*excep>   ev w_begin <variant 0..5>   ...   ev w_end 0
 * -Wl,--wrap=mps_thread_job_queue_next:   ev job <-1 | iter*1024 + i>   (the job the worker was handed)
 * and before every lock / unlock call of a worker on a queue / root / Aberth / global Aberth / gs mutex:
 *     ev st <8*(*nzeros) + 4*(has a job) + 2*(*excep) + root[i]->again>       (i = root of the current job)
 *     ev vh <j*2^24 + hash24 (root[j]->fvalue, dvalue, mvalue)>               (root / Aberth mutex number j only)
 * (events are not scheduling points; they sit in the atomic block that ends with the call). */
typedef struct { mps_thread_work fn; void *args; int variant; } tramp_arg;
static __thread mps_thread_worker_data *tl_data = NULL; static __thread int tl_root = -1; static __thread int tl_variant = -1;
/* mps_secular_ga_{d,m}iterate leave data->excep (and every secular packet data->required_zeros) uninitialised: the d / m secular
 * bodies never read them, so the harness must not either */
#define TL_EXCEP(d) ((tl_variant >= 0 && tl_variant <= 3 && (d)->excep && *(d)->excep) ? 1 : 0)
static const char *const worker_names[6] = { "mps_thread_fpolzer_worker", "mps_thread_dpolzer_worker", "mps_thread_mpolzer_worker",
  "__mps_secular_ga_fiterate_worker", "__mps_secular_ga_diterate_worker", "__mps_secular_ga_miterate_worker" };
static int variant_of_fn (void *fn)
{
  const char *nm; int v;
  if (!n_syms) return -1;
  nm = fn_of (fn);
  for (v = 0; v < 6; v++) { size_t k = strlen (worker_names[v]); if (!strncmp (nm, worker_names[v], k) && (nm[k] == 0 || nm[k] == '.')) return v; }
  return -1;
}
static void *tramp (void *p)
{
  tramp_arg a = *(tramp_arg *) p; void *r; mps_thread_worker_data *d = (mps_thread_worker_data *) a.args;
  free (p);
  tl_data = d; tl_root = -1; tl_variant = a.variant;
  vf_event ("w_req", a.variant <= 2 ? d->required_zeros : 0); vf_event ("w_nz", d->nzeros ? *d->nzeros : 0); vf_event ("w_ex", TL_EXCEP (d));
  vf_event ("w_begin", a.variant);
  r = a.fn (a.args);
  vf_event ("w_end", 0);
  tl_data = NULL; tl_root = -1; tl_variant = -1;
  return r;
}
void __real_mps_thread_pool_assign (mps_context *s, mps_thread_pool *pool, mps_thread_work work, void *args);
void __wrap_mps_thread_pool_assign (mps_context *s, mps_thread_pool *pool, mps_thread_work work, void *args)
{
  int v = (vf_self () >= 0 && g_ctx) ? variant_of_fn ((void *) work) : -1;
  if (v >= 0) {
    tramp_arg *a = (tramp_arg *) malloc (sizeof (tramp_arg)); a->fn = work; a->args = args; a->variant = v;
    __real_mps_thread_pool_assign (s, pool, tramp, a);
  } else __real_mps_thread_pool_assign (s, pool, work, args);
}
mps_thread_job __real_mps_thread_job_queue_next (mps_context *s, mps_thread_job_queue *q);
mps_thread_job __wrap_mps_thread_job_queue_next (mps_context *s, mps_thread_job_queue *q)
{
  mps_thread_job j = __real_mps_thread_job_queue_next (s, q);
  if (tl_data) { tl_root = (j.iter == MPS_THREAD_JOB_EXCEP) ? -1 : j.i; vf_event ("job", j.iter == MPS_THREAD_JOB_EXCEP ? -1L : (long) j.iter * 1024L + j.i); }
  return j;
}
static uint32_t hmix (uint32_t h, const void *p, size_t n) { const unsigned char *c = (const unsigned char *) p; size_t i; for (i = 0; i < n; i++) { h ^= c[i]; h *= 16777619u; } return h; }
static uint32_t hmpf (uint32_t h, mpf_srcptr f)
{
  long sz = f->_mp_size, ex = f->_mp_exp; size_t k = (size_t) (sz < 0 ? -sz : sz);
  h = hmix (h, &sz, sizeof sz); if (k) { h = hmix (h, &ex, sizeof ex); h = hmix (h, f->_mp_d, k * sizeof (mp_limb_t)); }
  return h;
}
static void observe (pthread_mutex_t *m)
{
  int ix, code; mps_thread_worker_data *d = tl_data; mps_context *s = g_ctx;
  if (!d || !s || vf_self () < 0) return;
  code = pcode_of (m, &ix);
  if (code < 1 || code > 5) return;
  vf_event ("st", 8L * (d->nzeros ? *d->nzeros : 0) + (tl_root >= 0 ? 4 : 0) + (TL_EXCEP (d) ? 2 : 0)
                  + ((tl_root >= 0 && tl_root < s->n && s->root[tl_root]->again) ? 1 : 0));
  if ((code == 2 || code == 3) && ix >= 0 && ix < s->n) {
    mps_approximation *r = s->root[ix]; uint32_t h = 2166136261u;
    h = hmix (h, r->fvalue, sizeof (cplx_t)); h = hmix (h, r->dvalue, sizeof (cdpe_t));
    h = hmpf (h, r->mvalue->r); h = hmpf (h, r->mvalue->i);
    vf_event ("vh", ((long) ix << 24) + (long) (h & 0xffffffu));   /* vf_event keeps 32 bits */
  }
}

int __wrap_vf_mutex_init (pthread_mutex_t *m, const pthread_mutexattr_t *a)
{
  void *ra = __builtin_return_address (0);
  int r = __real_vf_mutex_init (m, a);
  if (vf_self () >= 0 && n_syms) {
    site *s = site_of (ra); const char *cls = NULL; char raw[100]; int i;
    for (i = 0; init_tab[i].fn; i++) if (!strcmp (init_tab[i].fn, s->fn) && s->ord < 3) cls = init_tab[i].cls[s->ord];
    if (!cls) { snprintf (raw, sizeof raw, "%s#%d", s->fn, s->ord); cls = raw; }
    if (s->last && (const char *) m == (const char *) s->last + sizeof (pthread_mutex_t)) s->idx++; else s->idx = 0;
    s->last = m;
    name_it (m, cls, s->idx);
    if (!strcmp (cls, "block")) sem_new (m, s->idx);
    if (!strcmp (cls, "queue")) packet_begin ();
  }
  return r;
}
int __wrap_vf_mutex_unlock (pthread_mutex_t *m)
{
  semx *s = (vf_self () >= 0 && n_sems) ? sem_of (m) : NULL;
  if (!s) {
    int ix;
    observe (m);
    if (vf_self () >= 0 && g_ctx && pcode_of (m, &ix) == 2 && ix < g_ctx->n) vf_event ("again_u", 2 * ix + (g_ctx->root[ix]->again ? 1 : 0));
    return __real_vf_mutex_unlock (m);
  }
  __real_vf_mutex_lock (&s->aux);
  if (s->owner != vf_self ()) vf_event ("xunlock", s->idx);
  s->held = 0; s->owner = -1; vf_event ("sem_rel", s->idx);
  vf_cond_broadcast (&s->cv);
  __real_vf_mutex_unlock (&s->aux);
  return 0;
}
int __wrap_vf_mutex_destroy (pthread_mutex_t *m)
{
  if (vf_self () >= 0) {
    semx *s = n_sems ? sem_of (m) : NULL; int ix;
    if (pcode_of (m, &ix) == 1) packet_end ();
    pdel (m);
    if (s) { if (s->held) vf_fail ("destroy-of-held-block-semaphore"); s->live = 0; __real_vf_mutex_destroy (&s->aux); vf_cond_destroy (&s->cv); }
  }
  return __real_vf_mutex_destroy (m);
}
int __wrap_vf_mutex_lock (pthread_mutex_t *m)
{
  void *ra = __builtin_return_address (0);
  int first = (vf_self () >= 0 && n_syms && !pknown (m));
  semx *sx = (vf_self () >= 0 && n_sems) ? sem_of (m) : NULL;
  int r;
  if (sx) {
    __real_vf_mutex_lock (&sx->aux);
    while (sx->held) vf_cond_wait (&sx->cv, &sx->aux);
    sx->held = 1; sx->owner = vf_self (); vf_event ("sem_acq", sx->idx);
    __real_vf_mutex_unlock (&sx->aux);
    return 0;
  }
  if (!first) observe (m);
  r = __real_vf_mutex_lock (m);
  if (!first && g_ctx) { int ix; if (pcode_of (m, &ix) == 2 && ix < g_ctx->n) vf_event ("again_l", 2 * ix + (g_ctx->root[ix]->again ? 1 : 0)); }
  if (first) {
    const char *fn = fn_of (ra), *cls = NULL; char raw[100]; int i;
    for (i = 0; first_lock_tab[i][0]; i++) if (!strcmp (first_lock_tab[i][0], fn)) cls = first_lock_tab[i][1];
    if (!cls) { snprintf (raw, sizeof raw, "static@%s", fn); cls = raw; }
    name_it (m, cls, 0);
  }
  return r;
}

/* ------------------------------------------------------------------ runs */
static int s_argc; static char **s_argv; static long cur_seq = 0;
static int notrace = 0, want_sched = 0; static const char *cur_mode = "?"; static unsigned long cur_seed = 0;

static int scenario (void *unused)
{
  int rc;
  (void) unused;
  n_sites = 0; n_sems = 0; g_ctx = NULL; memset (pk, 0, sizeof pk);
  printf ("# result %ld\n", cur_seq); fflush (stdout);
  rc = vf_solve_main (s_argc, s_argv);
  printf ("# result-end\n"); fflush (stdout);
  if (vf_sched_unfinished () != 0) vf_fail ("worker-thread-not-joined-after-context-free");
  return rc;
}

typedef struct { long runs, bad; } acc;
static int on_run (const vf_run *r, void *user)
{
  acc *a = (acc *) user; int i;
  a->runs++; if (r->status != 0 || r->rc != 0) a->bad++;
  printf ("# run %ld mode %s seed %lu status %d rc %d cost %d div %d what %s nsched %d", cur_seq, cur_mode, cur_seed, r->status, r->rc, r->cost, r->diverged,
          (r->what && r->what[0]) ? r->what : "-", r->n_schedule);
  if (want_sched || r->status != 0 || r->rc != 0) {
    printf (" sched ");
    for (i = 0; i < r->n_schedule; i++) printf ("%s%d", i ? "," : "", r->schedule[i]);
    if (r->n_schedule == 0) printf ("-");
  }
  printf ("\n");
  if (!notrace || r->status != 0) fwrite (r->trace, 1, r->trace_len, stdout);
  printf ("# end\n");
  cur_seq++;
  return 0;
}

int main (int argc, char **argv)
{
  int i, dfs = -1, free_switch = 0, depth = 3, timeout_s = 60, nthreads = 0, pool0 = 0; long nrandom = 0, npct = 0, max_runs = 0, max_steps = 400000, pct_steps = 0;
  unsigned long seed = 1; const char *replay_file = NULL, *symfile = NULL; acc a = { 0, 0 }; vf_opts so; vf_explore_stats st = { 0, 0, 0, 0 };
  char **sv = (char **) calloc ((size_t) argc + 1, sizeof (char *)); int sc = 0;
  sv[sc++] = argv[0];
  for (i = 1; i < argc; i++) {
    if (!strcmp (argv[i], "--syms") && i + 1 < argc) symfile = argv[++i];
    else if (!strcmp (argv[i], "--dfs") && i + 1 < argc) dfs = atoi (argv[++i]);
    else if (!strcmp (argv[i], "--free-switch")) free_switch = 1;
    else if (!strcmp (argv[i], "--random") && i + 1 < argc) nrandom = atol (argv[++i]);
    else if (!strcmp (argv[i], "--pct") && i + 1 < argc) npct = atol (argv[++i]);
    else if (!strcmp (argv[i], "--depth") && i + 1 < argc) depth = atoi (argv[++i]);
    else if (!strcmp (argv[i], "--pct-steps") && i + 1 < argc) pct_steps = atol (argv[++i]);
    else if (!strcmp (argv[i], "--replay-file") && i + 1 < argc) replay_file = argv[++i];
    else if (!strcmp (argv[i], "--seed") && i + 1 < argc) seed = strtoul (argv[++i], NULL, 10);
    else if (!strcmp (argv[i], "--max-runs") && i + 1 < argc) max_runs = atol (argv[++i]);
    else if (!strcmp (argv[i], "--max-steps") && i + 1 < argc) max_steps = atol (argv[++i]);
    else if (!strcmp (argv[i], "--timeout") && i + 1 < argc) timeout_s = atoi (argv[++i]);
    else if (!strcmp (argv[i], "--notrace")) notrace = 1;
    else if (!strcmp (argv[i], "--sched")) want_sched = 1;
    else if (!strcmp (argv[i], "--pool0") && i + 1 < argc) pool0 = atoi (argv[++i]);
    else {
      if (!strcmp (argv[i], "-j") && i + 1 < argc) nthreads = atoi (argv[i + 1]);
      sv[sc++] = argv[i];
    }
  }
  s_argc = sc; s_argv = sv;
  /* the pool of a new context has MPS_JOBS threads.  Default: exactly the -j value (the limit is then neither raised nor
   * lowered by -j).  --pool0 K: the context starts with K threads and `-j N` RAISES the limit through the grow branch of
   * mps_thread_pool_set_concurrency_limit; the library lowers it again by itself when the degree is below N. */
  if (pool0 > 0) { char b[16]; snprintf (b, sizeof b, "%d", pool0); setenv ("MPS_JOBS", b, 1); }
  else if (nthreads > 0) { char b[16]; snprintf (b, sizeof b, "%d", nthreads); setenv ("MPS_JOBS", b, 1); }
  if (symfile) load_syms (symfile);
  vf_opts_default (&so); so.max_steps = max_steps; so.pct_depth = depth; so.pct_steps = pct_steps > 0 ? (int) pct_steps : 3000;
  if (replay_file) {
    static uint8_t buf[70000]; static char text[400000]; int n; FILE *f = fopen (replay_file, "r"); size_t k;
    if (!f) { perror (replay_file); return 2; }
    k = fread (text, 1, sizeof text - 1, f); text[k] = 0; fclose (f);
    n = (text[0] == '-' || text[0] == 0 || text[0] == '\n') ? 0 : vf_parse_schedule (text, buf, 70000);
    cur_mode = "replay"; cur_seed = 0; want_sched = 1;
    vf_run_once (scenario, NULL, VF_REPLAY, 1, &so, buf, n, timeout_s, on_run, &a);
  } else if (dfs >= 0) {
    vf_explore_opts eo; vf_explore_opts_default (&eo);
    eo.bound = dfs; eo.free_switch = free_switch; eo.max_runs = max_runs; eo.sched = so; eo.timeout_s = timeout_s;
    cur_mode = "dfs"; want_sched = 1;
    vf_explore (scenario, NULL, &eo, on_run, &a, &st);
  } else {
    long k;
    cur_mode = "random";
    for (k = 0; k < nrandom; k++) { cur_seed = seed * 1000003UL + (unsigned long) k; vf_run_once (scenario, NULL, VF_RANDOM, cur_seed, &so, NULL, 0, timeout_s, on_run, &a); }
    cur_mode = "pct";
    for (k = 0; k < npct; k++) { cur_seed = seed * 7000003UL + (unsigned long) k; vf_run_once (scenario, NULL, VF_PCT, cur_seed, &so, NULL, 0, timeout_s, on_run, &a); }
  }
  fflush (stdout);
  fprintf (stderr, "c05_solve: runs=%ld bad=%ld max_decisions=%ld truncated=%ld\n", a.runs, a.bad, st.max_decisions, st.truncated);
  return 0;
}
