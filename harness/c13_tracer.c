/* C13 translator (trace based, DESIGN.md 2.7).  Linked with a copy of mpc.c compiled
 * with -include c13_trace.h.  Calls every public arithmetic mpc_* function once per
 * aliasing pattern of its pointer arguments and prints, one line per call,
 *   name|function|pattern|spec|args|instr;instr;...
 * (and of gmptools.c for the mpf_*_si helpers)
 * where operands are named by address (RcRe RcIm C1Re C1Im C2Re C2Im F1 F2, fresh T n for
 * anything else: thread-local cache slots, stack temporaries).  checks/C13.py renders
 * the lines as coq/Mpc/Gen/MpcGen.v. */
#define C13_TRACER_IMPL 1
#include "c13_trace.h"
#include <string.h>

static int tr_on = 0;
static const void *known[10]; static const char *known_name[10]; static int nknown;
static const void *temps[256]; static int ntemps;
static char buf[1 << 16]; static size_t blen;

static const char *nm (const void *p)
{
  static char tmp[8][32]; static int k = 0; int i;
  for (i = 0; i < nknown; i++) if (known[i] == p) return known_name[i];
  for (i = 0; i < ntemps; i++) if (temps[i] == p) break;
  if (i == ntemps) { if (ntemps >= 256) { fprintf (stderr, "too many temporaries\n"); exit (3); } temps[ntemps++] = p; }
  k = (k + 1) % 8; snprintf (tmp[k], 32, "(T %d)", i); return tmp[k];
}
static void emit (const char *s)
{
  size_t n = strlen (s);
  if (blen + n + 2 >= sizeof buf) { fprintf (stderr, "trace too long\n"); exit (3); }
  if (blen) buf[blen++] = ';';
  memcpy (buf + blen, s, n); blen += n; buf[blen] = 0;
}
#define LOG(...) do { if (tr_on) { char l_[200]; snprintf (l_, sizeof l_, __VA_ARGS__); emit (l_); } } while (0)

void vf_tr_set (mpf_ptr d, mpf_srcptr a) { LOG ("Iset %s %s", nm (d), nm (a)); __gmpf_set (d, a); }
void vf_tr_neg (mpf_ptr d, mpf_srcptr a) { LOG ("Ineg %s %s", nm (d), nm (a)); __gmpf_neg (d, a); }
void vf_tr_abs (mpf_ptr d, mpf_srcptr a) { LOG ("Iabs %s %s", nm (d), nm (a)); __gmpf_abs (d, a); }
void vf_tr_sqrt (mpf_ptr d, mpf_srcptr a) { LOG ("Isqrt %s %s", nm (d), nm (a)); __gmpf_sqrt (d, a); }
void vf_tr_add (mpf_ptr d, mpf_srcptr a, mpf_srcptr b) { LOG ("Iadd %s %s %s", nm (d), nm (a), nm (b)); __gmpf_add (d, a, b); }
void vf_tr_sub (mpf_ptr d, mpf_srcptr a, mpf_srcptr b) { LOG ("Isub %s %s %s", nm (d), nm (a), nm (b)); __gmpf_sub (d, a, b); }
void vf_tr_mul (mpf_ptr d, mpf_srcptr a, mpf_srcptr b) { LOG ("Imul %s %s %s", nm (d), nm (a), nm (b)); __gmpf_mul (d, a, b); }
void vf_tr_div (mpf_ptr d, mpf_srcptr a, mpf_srcptr b) { LOG ("Idiv %s %s %s", nm (d), nm (a), nm (b)); __gmpf_div (d, a, b); }
void vf_tr_mul_2exp (mpf_ptr d, mpf_srcptr a, mp_bitcnt_t k) { LOG ("Imul2 %s %s %lu", nm (d), nm (a), (unsigned long)k); __gmpf_mul_2exp (d, a, k); }
void vf_tr_div_2exp (mpf_ptr d, mpf_srcptr a, mp_bitcnt_t k) { LOG ("Idiv2 %s %s %lu", nm (d), nm (a), (unsigned long)k); __gmpf_div_2exp (d, a, k); }
void vf_tr_add_ui (mpf_ptr d, mpf_srcptr a, unsigned long n) { LOG ("Iaddui %s %s %lu", nm (d), nm (a), n); __gmpf_add_ui (d, a, n); }
void vf_tr_sub_ui (mpf_ptr d, mpf_srcptr a, unsigned long n) { LOG ("Isubui %s %s %lu", nm (d), nm (a), n); __gmpf_sub_ui (d, a, n); }
void vf_tr_ui_sub (mpf_ptr d, unsigned long n, mpf_srcptr a) { LOG ("Iuisub %s %lu %s", nm (d), n, nm (a)); __gmpf_ui_sub (d, n, a); }
void vf_tr_mul_ui (mpf_ptr d, mpf_srcptr a, unsigned long n) { LOG ("Imului %s %s %lu", nm (d), nm (a), n); __gmpf_mul_ui (d, a, n); }
void vf_tr_div_ui (mpf_ptr d, mpf_srcptr a, unsigned long n) { LOG ("Idivui %s %s %lu", nm (d), nm (a), n); __gmpf_div_ui (d, a, n); }
void vf_tr_ui_div (mpf_ptr d, unsigned long n, mpf_srcptr a) { LOG ("Iuidiv %s %lu %s", nm (d), n, nm (a)); __gmpf_ui_div (d, n, a); }
void vf_tr_set_ui (mpf_ptr d, unsigned long n) { LOG ("Isetui %s %lu", nm (d), n); __gmpf_set_ui (d, n); }
void vf_tr_init2 (mpf_ptr d, mp_bitcnt_t p) { LOG ("Iinit %s", nm (d)); __gmpf_init2 (d, p); }
void vf_tr_init (mpf_ptr d) { LOG ("Iinit %s", nm (d)); __gmpf_init (d); }
void vf_tr_set_prec (mpf_ptr d, mp_bitcnt_t p) { LOG ("Isetprec %s", nm (d)); __gmpf_set_prec (d, p); }
void vf_tr_clear (mpf_ptr d) { LOG ("Iclear %s", nm (d)); __gmpf_clear (d); }
void vf_tr_move (mpf_ptr d, mpf_srcptr a) { LOG ("Imove %s %s", nm (d), nm (a)); *d = *a; }
void vf_tr_other (const char *what, mpf_ptr d) { LOG ("Iother %s", nm (d)); (void)what; }

enum sig { S_CC, S_CCC, S_CCF, S_CFC, S_CCU, S_CCUU, S_CUUC, S_CUC, S_FC, S_C, S_CCS, S_CUU, S_HFS };
struct fn { const char *name; enum sig sig; long p1, p2; };
#define UR 3
#define UI 5
#define UN 7
#define UK 5
static const struct fn fns[] = {
  {"mpc_set", S_CC}, {"mpc_set_ui", S_CUU, UR, UI}, {"mpc_neg", S_CC}, {"mpc_con", S_CC},
  {"mpc_inv", S_CC}, {"mpc_inv2", S_CC}, {"mpc_sqr", S_CC}, {"mpc_rot", S_CC}, {"mpc_flip", S_CC},
  {"mpc_smod", S_FC}, {"mpc_mod", S_FC},
  {"mpc_add", S_CCC}, {"mpc_add_f", S_CCF}, {"mpc_add_ui", S_CCUU, UR, UI},
  {"mpc_sub", S_CCC}, {"mpc_sub_f", S_CCF}, {"mpc_f_sub", S_CFC}, {"mpc_sub_ui", S_CCUU, UR, UI},
  {"mpc_ui_sub", S_CUUC, UR, UI},
  {"mpc_mul", S_CCC}, {"mpc_mul_f", S_CCF}, {"mpc_mul_ui", S_CCU, UN}, {"mpc_mul_2exp", S_CCU, UK},
  {"mpc_div", S_CCC}, {"mpc_div_f", S_CCF}, {"mpc_f_div", S_CFC}, {"mpc_div_ui", S_CCU, UN},
  {"mpc_ui_div", S_CUC, UN}, {"mpc_div_2exp", S_CCU, UK},
  {"mpc_pow_si", S_CCS, -3}, {"mpc_pow_si", S_CCS, -1}, {"mpc_pow_si", S_CCS, 0}, {"mpc_pow_si", S_CCS, 1},
  {"mpc_pow_si", S_CCS, 2}, {"mpc_pow_si", S_CCS, 3}, {"mpc_pow_si", S_CCS, 5}, {"mpc_pow_si", S_CCS, 6},
  {"mpc_smod_eq", S_C}, {"mpc_mod_eq", S_C}, {"mpc_rot_eq", S_C}, {"mpc_flip_eq", S_C},
  /* gmptools.c helpers (h, f, long): a positive, zero, a negative argument and LONG_MIN */
#define HFS(N) {N, S_HFS, 7}, {N, S_HFS, 0}, {N, S_HFS, -7}, {N, S_HFS, (-9223372036854775807L - 1)}
  HFS ("mpf_add_si"), HFS ("mpf_sub_si"), HFS ("mpf_si_sub"), HFS ("mpf_mul_si"),
  {"mpf_div_si", S_HFS, 7}, {"mpf_div_si", S_HFS, -7}, {"mpf_div_si", S_HFS, (-9223372036854775807L - 1)},
  HFS ("mpf_si_div"),
};

static void call (const struct fn *f, mpc_t rc, mpc_t c1, mpc_t c2, mpf_ptr g, mpf_ptr h)
{
  const char *n = f->name;
#define IS(x) (!strcmp (n, x))
  if (IS ("mpc_set")) mpc_set (rc, c1);
  else if (IS ("mpc_set_ui")) mpc_set_ui (rc, f->p1, f->p2);
  else if (IS ("mpc_neg")) mpc_neg (rc, c1);
  else if (IS ("mpc_con")) mpc_con (rc, c1);
  else if (IS ("mpc_inv")) mpc_inv (rc, c1);
  else if (IS ("mpc_inv2")) mpc_inv2 (rc, c1);
  else if (IS ("mpc_sqr")) mpc_sqr (rc, c1);
  else if (IS ("mpc_rot")) mpc_rot (rc, c1);
  else if (IS ("mpc_flip")) mpc_flip (rc, c1);
  else if (IS ("mpc_smod")) mpc_smod (g, c1);
  else if (IS ("mpc_mod")) mpc_mod (g, c1);
  else if (IS ("mpc_add")) mpc_add (rc, c1, c2);
  else if (IS ("mpc_add_f")) mpc_add_f (rc, c1, g);
  else if (IS ("mpc_add_ui")) mpc_add_ui (rc, c1, f->p1, f->p2);
  else if (IS ("mpc_sub")) mpc_sub (rc, c1, c2);
  else if (IS ("mpc_sub_f")) mpc_sub_f (rc, c1, g);
  else if (IS ("mpc_f_sub")) mpc_f_sub (rc, g, c1);
  else if (IS ("mpc_sub_ui")) mpc_sub_ui (rc, c1, f->p1, f->p2);
  else if (IS ("mpc_ui_sub")) mpc_ui_sub (rc, f->p1, f->p2, c1);
  else if (IS ("mpc_mul")) mpc_mul (rc, c1, c2);
  else if (IS ("mpc_mul_f")) mpc_mul_f (rc, c1, g);
  else if (IS ("mpc_mul_ui")) mpc_mul_ui (rc, c1, f->p1);
  else if (IS ("mpc_mul_2exp")) mpc_mul_2exp (rc, c1, f->p1);
  else if (IS ("mpc_div")) mpc_div (rc, c1, c2);
  else if (IS ("mpc_div_f")) mpc_div_f (rc, c1, g);
  else if (IS ("mpc_f_div")) mpc_f_div (rc, g, c1);
  else if (IS ("mpc_div_ui")) mpc_div_ui (rc, c1, f->p1);
  else if (IS ("mpc_ui_div")) mpc_ui_div (rc, f->p1, c1);
  else if (IS ("mpc_div_2exp")) mpc_div_2exp (rc, c1, f->p1);
  else if (IS ("mpc_pow_si")) mpc_pow_si (rc, c1, f->p1);
  else if (IS ("mpc_smod_eq")) mpc_smod_eq (rc);
  else if (IS ("mpc_mod_eq")) mpc_mod_eq (rc);
  else if (IS ("mpc_rot_eq")) mpc_rot_eq (rc);
  else if (IS ("mpc_flip_eq")) mpc_flip_eq (rc);
  else if (IS ("mpf_add_si")) mpf_add_si (h, g, f->p1);
  else if (IS ("mpf_sub_si")) mpf_sub_si (h, g, f->p1);
  else if (IS ("mpf_si_sub")) mpf_si_sub (h, f->p1, g);
  else if (IS ("mpf_mul_si")) mpf_mul_si (h, g, f->p1);
  else if (IS ("mpf_div_si")) mpf_div_si (h, g, f->p1);
  else if (IS ("mpf_si_div")) mpf_si_div (h, f->p1, g);
  else { fprintf (stderr, "unknown function %s\n", n); exit (3); }
}

/* aliasing patterns: class index of (rc, c1, c2); -1 = argument not present */
struct pat { const char *desc; int rc, c1, c2; };
static const struct pat pats3[] = { {"rc,c1,c2", 0, 1, 2}, {"rc=c1,c2", 0, 0, 2}, {"rc=c2,c1", 0, 1, 0},
                                    {"rc,c1=c2", 0, 1, 1}, {"rc=c1=c2", 0, 0, 0} };
static const struct pat pats2[] = { {"rc,c", 0, 1, -1}, {"rc=c", 0, 0, -1} };
static const struct pat pats1c[] = { {"c", 0, 0, -1} };      /* op= forms: c is destination and source */
static const struct pat pats1r[] = { {"rc", 0, -1, -1} };    /* set_ui */
static const struct pat patsf[] = { {"f,c", -1, 1, -1} };    /* smod/mod: destination is the mpf */
static const struct pat patsh[] = { {"h,f", -1, -1, -1}, {"h=f", -1, -1, -1} };   /* gmptools helpers: destination mpf h, source mpf f */

/* fov: partial-overlap survey, the mpf argument is a component of an mpc argument:
 * 0 none, 1 f = Re(rc), 2 f = Im(rc), 3 f = Re(c), 4 f = Im(c) */
static void one (const struct fn *f, const struct pat *p, int pi, unsigned long prec, int fov)
{
  mpc_t o[3]; mpf_t g, h2; int i, pass; mpf_ptr gp = g; char gname[32] = "F1";
  static const char *re_n[3] = { "RcRe", "C1Re", "C2Re" }, *im_n[3] = { "RcIm", "C1Im", "C2Im" };
  for (pass = 0; pass < 2; pass++)      /* pass 0 warms the thread-local cache, pass 1 is logged */
    {
      for (i = 0; i < 3; i++) { mpc_init2 (o[i], prec); }
      __gmpf_init2 (g, prec); __gmpf_init2 (h2, prec); __gmpf_set_d (h2, 13.0);
      __gmpf_set_d (mpc_Re (o[0]), 1.0); __gmpf_set_d (mpc_Im (o[0]), 1.0);
      __gmpf_set_d (mpc_Re (o[1]), 3.0); __gmpf_set_d (mpc_Im (o[1]), 2.0);
      __gmpf_set_d (mpc_Re (o[2]), 5.0); __gmpf_set_d (mpc_Im (o[2]), -7.0);
      __gmpf_set_d (g, 11.0);
      nknown = 0; ntemps = 0; blen = 0; buf[0] = 0;
      for (i = 0; i < 3; i++)
        {
          known[nknown] = mpc_Re (o[i]); known_name[nknown++] = re_n[i];
          known[nknown] = mpc_Im (o[i]); known_name[nknown++] = im_n[i];
        }
      known[nknown] = g; known_name[nknown++] = "F1";
      known[nknown] = h2; known_name[nknown++] = "F2";
      {
        __mpc_struct *orc = o[p->rc < 0 ? 0 : p->rc], *oc1 = o[p->c1 < 0 ? 1 : p->c1];
        gp = fov == 1 ? mpc_Re (orc) : fov == 2 ? mpc_Im (orc) : fov == 3 ? mpc_Re (oc1) : fov == 4 ? mpc_Im (oc1) : g;
        snprintf (gname, sizeof gname, "%s", nm (gp));
      }
      tr_on = pass;
      call (f, o[p->rc < 0 ? 0 : p->rc], o[p->c1 < 0 ? 1 : p->c1], o[p->c2 < 0 ? 2 : p->c2], gp,
            (f->sig == S_HFS && pi == 1) ? gp : h2);
      tr_on = 0;
      for (i = 0; i < 3; i++) { __gmpf_clear (mpc_Re (o[i])); __gmpf_clear (mpc_Im (o[i])); }
      __gmpf_clear (g); __gmpf_clear (h2);
    }
  {
    char name[96], spec[96]; int c1 = p->c1 < 0 ? 1 : p->c1, c2 = p->c2 < 0 ? 2 : p->c2;
    switch (f->sig)
      {
      case S_CCS: case S_HFS:
        snprintf (name, sizeof name, "%s_%s%lu_p%d", f->name, f->p1 < 0 ? "m" : "",
                  f->p1 < 0 ? -(unsigned long)f->p1 : (unsigned long)f->p1, pi);
        snprintf (spec, sizeof spec, "spec_%s (%ld)", f->name, f->p1); break;
      case S_CCU: case S_CUC:
        snprintf (name, sizeof name, "%s_p%d", f->name, pi);
        snprintf (spec, sizeof spec, "spec_%s (%ld)", f->name, f->p1); break;
      case S_CCUU: case S_CUUC: case S_CUU:
        snprintf (name, sizeof name, "%s_p%d", f->name, pi);
        snprintf (spec, sizeof spec, "spec_%s (%ld) (%ld)", f->name, f->p1, f->p2); break;
      default:
        snprintf (name, sizeof name, "%s_p%d", f->name, pi);
        snprintf (spec, sizeof spec, "spec_%s", f->name);
      }
    if (fov)
      {
        char nn[128]; static const char *fd[5] = { "", "f=Re(rc)", "f=Im(rc)", "f=Re(c)", "f=Im(c)" };
        snprintf (nn, sizeof nn, "ov_%s_f%s", name, gname);
        printf ("%s|%s|%s;%s|%s|mkargs (RcRe, RcIm) (%s, %s) (%s, %s) %s F2|%s\n", nn, f->name, p->desc, fd[fov], spec,
                re_n[c1], im_n[c1], re_n[c2], im_n[c2], gname, buf);
      }
    else
      printf ("%s|%s|%s|%s|mkargs (RcRe, RcIm) (%s, %s) (%s, %s) F1 %s|%s\n", name, f->name, p->desc, spec,
              re_n[c1], im_n[c1], re_n[c2], im_n[c2], (f->sig == S_HFS && pi == 1) ? "F1" : "F2", buf);
  }
}

int main (int argc, char **argv)
{
  unsigned long prec = argc > 1 ? strtoul (argv[1], 0, 10) : 128;
  size_t k; int i;
  for (k = 0; k < sizeof fns / sizeof fns[0]; k++)
    {
      const struct fn *f = &fns[k]; const struct pat *ps; int np;
      switch (f->sig)
        {
        case S_CCC: ps = pats3; np = 5; break;
        case S_FC: ps = patsf; np = 1; break;
        case S_C: ps = pats1c; np = 1; break;
        case S_CUU: ps = pats1r; np = 1; break;
        case S_HFS: ps = patsh; np = 2; break;
        default: ps = pats2; np = 2;
        }
      for (i = 0; i < np; i++) one (f, &ps[i], i, prec, 0);
      if (argc > 2 && !strcmp (argv[2], "overlap"))
        {
          /* survey only (not obligations): the mpf argument overlapping a component of an mpc argument */
          int v;
          if (f->sig == S_CCF || f->sig == S_CFC)
            for (i = 0; i < np; i++)
              for (v = 1; v <= (ps[i].c1 == ps[i].rc ? 2 : 4); v++) one (f, &ps[i], i, prec, v);
          if (f->sig == S_FC)
            for (v = 3; v <= 4; v++) one (f, &ps[0], 0, prec, v);
        }
    }
  return 0;
}
