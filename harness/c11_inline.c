/* C11 harness: one inline expression per input line -> exact parsed polynomial or ERR.
 *
 * For every line of stdin (newline stripped, the string is passed verbatim) a fresh
 * mps_context is created, mps_parse_inline_poly_from_string is called, and one result
 * line is written:
 *     @@ <lineno> ERR                      error flag set on the context (or NULL result)
 *     @@ <lineno> OK <deg> <re0> <im0> <re1> <im1> ...   exact mpq strings, ascending degree
 *     @@ <lineno> NULLNOERR                NULL returned but no error flag (never expected)
 *     @@ <lineno> POLYERR                  non-NULL polynomial returned together with an error flag
 * The "@@" prefix after a forced newline separates results from whatever the library
 * itself writes to stdout (flex's default rule ECHOes unmatched characters there).
 * Output is flushed per line so that the driver can tell which input crashed the process.
 */
#include <mps/mps.h>
#include <stdio.h>
#include <stdlib.h>
#include <string.h>
#include <gmp.h>

int main (int argc, char **argv)
{
  char *line = NULL;
  size_t cap = 0;
  ssize_t n;
  long lineno = 0;
  long start = (argc > 1) ? atol (argv[1]) : 0;   /* skip the first <start> lines (restart after a crash) */

  while ((n = getline (&line, &cap, stdin)) >= 0)
    {
      if (n > 0 && line[n - 1] == '\n')
        line[--n] = '\0';
      if (lineno < start) { lineno++; continue; }

      mps_context *ctx = mps_context_new ();
      mps_polynomial *p = mps_parse_inline_poly_from_string (ctx, line);
      int err = mps_context_has_errors (ctx) ? 1 : 0;

      fflush (stdout);
      if (p == NULL)
        printf ("\n@@ %ld %s\n", lineno, err ? "ERR" : "NULLNOERR");
      else if (err)
        printf ("\n@@ %ld POLYERR\n", lineno);
      else
        {
          mps_monomial_poly *mp = MPS_MONOMIAL_POLY (p);
          long d = p->degree, i;
          printf ("\n@@ %ld OK %ld", lineno, d);
          for (i = 0; i <= d; i++)
            {
              char *r = mpq_get_str (NULL, 10, mp->initial_mqp_r[i]);
              char *im = mpq_get_str (NULL, 10, mp->initial_mqp_i[i]);
              printf (" %s %s", r, im);
              free (r); free (im);
            }
          printf ("\n");
        }
      fflush (stdout);
      if (p != NULL)
        mps_polynomial_free (ctx, p);
      mps_context_free (ctx);
      lineno++;
    }
  free (line);
  return 0;
}
