/* c17_out: call the real mps_output() on a memory stream for a context whose results were put there by hand
 * (values, radii, inclusion state, attributes, print order, number of zero roots), and export the state
 * losslessly in the same line format as vf_solve.c (META / ORDER / ROOT ... / OUTPUT-BEGIN), so that
 * lib/solve.py parses it.  Used by checks/C17.py to aim at the case splits of mps_outfloat / mps_outroot
 * that a solve does not reach on demand (digit <= 0 with |x| >= 1, rounding across a power of ten,
 * components exactly 0, huge exponents ...).
 *
 * usage: c17_out FORMAT(c|b|v|f|g|gf) GOAL(i|a|c) PREC_OUT_BITS SEARCHSET(int) ZERO_ROOTS  < state
 * state lines:  R <re_mant> <re_exp2> <im_mant> <im_exp2> <prec_bits> <rad_mant_decimal_double> <rad_exp2> <inclusion> <attrs>
 *               O i0 i1 ...            (print order; default identity)
 *   value = mant * 2^exp2 with mant a decimal integer (exact in prec_bits or it is rounded by GMP: the export shows
 *   what is stored).  radius = rdpe_set_2dl (mant, exp2).
 */
#include <mps/mps.h>
#include <stdio.h>
#include <stdlib.h>
#include <string.h>
#include <stdint.h>
#include <gmp.h>

static void out_d (FILE *f, double d) { uint64_t u; memcpy (&u, &d, 8); fprintf (f, "%016lx", (unsigned long)u); }
static void out_rdpe (FILE *f, const rdpe_t e) { out_d (f, rdpe_Mnt (e)); fprintf (f, ":%ld", rdpe_Esp (e)); }
static void out_mpf (FILE *f, mpf_t x)
{
  mp_exp_t e; char *s = mpf_get_str (NULL, &e, 16, 0, x);
  if (s[0] == 0) fprintf (f, "0:0"); else fprintf (f, "%s:%ld", s, (long)e);
  fprintf (f, "@%lu", (unsigned long)mpf_get_prec (x)); free (s);
}
static void out_mpf_exact (FILE *f, mpf_t x)
{
  mp_size_t n = x->_mp_size; int neg = n < 0; mpz_t z;
  if (neg) n = -n;
  if (n == 0) { fprintf (f, "0:0"); return; }
  mpz_init (z); mpz_import (z, (size_t)n, -1, sizeof (mp_limb_t), 0, 0, x->_mp_d);
  gmp_fprintf (f, "%s%Zx:%ld", neg ? "-" : "", z, (long)GMP_NUMB_BITS * ((long)x->_mp_exp - (long)n));
  mpz_clear (z);
}
static void set_mpf (mpf_t x, const char *mant, long e2)
{
  mpz_t z; mpz_init (z); mpz_set_str (z, mant, 10); mpf_set_z (x, z); mpz_clear (z);
  if (e2 >= 0) mpf_mul_2exp (x, x, (unsigned long)e2); else mpf_div_2exp (x, x, (unsigned long)(-e2));
}

#define MAXR 64
int main (int argc, char **argv)
{
  static char re[MAXR][4096], im[MAXR][4096]; long ree[MAXR], ime[MAXR], prec[MAXR], rade[MAXR]; double radm[MAXR];
  int inc[MAXR], att[MAXR], order[MAXR], n = 0, i, have_order = 0;
  char line[20000];
  if (argc < 6) { fprintf (stderr, "usage\n"); return 2; }
  while (fgets (line, sizeof line, stdin))
    {
      if (line[0] == 'R' && n < MAXR)
        {
          if (sscanf (line, "R %4000s %ld %4000s %ld %ld %lf %ld %d %d", re[n], &ree[n], im[n], &ime[n], &prec[n], &radm[n], &rade[n], &inc[n], &att[n]) != 9)
            { fprintf (stderr, "bad R line\n"); return 2; }
          n++;
        }
      else if (line[0] == 'O')
        {
          char *p = line + 1; int k = 0;
          while (k < MAXR) { char *q; long v = strtol (p, &q, 10); if (q == p) break; order[k++] = (int)v; p = q; }
          have_order = 1;
        }
    }
  if (n < 1) { fprintf (stderr, "no roots\n"); return 2; }
  mps_context *s = mps_context_new ();
  mps_monomial_poly *p = mps_monomial_poly_new (s, n);
  mps_monomial_poly_set_coefficient_int (s, p, 0, -1, 0);
  mps_monomial_poly_set_coefficient_int (s, p, n, 1, 0);
  mps_context_set_input_poly (s, MPS_POLYNOMIAL (p));
  mps_context_select_algorithm (s, MPS_ALGORITHM_STANDARD_MPSOLVE);
  mps_context_set_output_goal (s, argv[2][0] == 'a' ? MPS_OUTPUT_GOAL_APPROXIMATE : argv[2][0] == 'c' ? MPS_OUTPUT_GOAL_COUNT : MPS_OUTPUT_GOAL_ISOLATE);
  mps_context_set_output_prec (s, atol (argv[3]));
  switch (argv[1][0])
    {
    case 'f': mps_context_set_output_format (s, MPS_OUTPUT_FORMAT_FULL); break;
    case 'b': mps_context_set_output_format (s, MPS_OUTPUT_FORMAT_BARE); break;
    case 'g': mps_context_set_output_format (s, argv[1][1] == 'f' ? MPS_OUTPUT_FORMAT_GNUPLOT_FULL : MPS_OUTPUT_FORMAT_GNUPLOT);
      s->gnuplot_format = "xyerrorbars"; break;
    case 'v': mps_context_set_output_format (s, MPS_OUTPUT_FORMAT_VERBOSE); break;
    default: mps_context_set_output_format (s, MPS_OUTPUT_FORMAT_COMPACT); break;
    }
  mps_mpsolve (s);
  if (mps_context_has_errors (s)) { printf ("SOLVE-ERR msg=%s\n", mps_context_error_msg (s)); return 0; }
  s->output_config->search_set = (mps_search_set)atoi (argv[4]);
  s->zero_roots = atoi (argv[5]);
  for (i = 0; i < n; i++)
    {
      mps_approximation *r = s->root[i];
      mpc_set_prec (r->mvalue, (unsigned long)prec[i]);
      set_mpf (mpc_Re (r->mvalue), re[i], ree[i]);
      set_mpf (mpc_Im (r->mvalue), im[i], ime[i]);
      rdpe_set_2dl (r->drad, radm[i], rade[i]);
      r->inclusion = (mps_root_inclusion)inc[i];
      r->attrs = (mps_root_attrs)att[i];
      s->order[i] = have_order ? order[i] : i;
    }
  char *obuf = NULL; size_t olen = 0; FILE *ostr = open_memstream (&obuf, &olen); FILE *f = stdout;
  s->outstr = ostr;
  fprintf (f, "META degree=%d n=%d zero_roots=%d over_max=%d lastphase=%d prec_out=%ld goal=%d search_set=%d data_prec_max=%ld mpwp=%ld\n",
           n + s->zero_roots, s->n, s->zero_roots, 0, (int)s->lastphase, s->output_config->prec, (int)s->output_config->goal,
           (int)s->output_config->search_set, 0L, s->mpwp);
  fprintf (f, "ORDER"); for (i = 0; i < n; i++) fprintf (f, " %d", s->order[i]); fprintf (f, "\n");
  for (i = 0; i < n; i++)
    {
      mps_approximation *r = s->root[i];
      fprintf (f, "ROOT %d status=%d inclusion=%d attrs=%d again=%d approximated=%d wp=%ld M ", i, (int)r->status, (int)r->inclusion,
               (int)r->attrs, (int)r->again, (int)r->approximated, r->wp);
      out_mpf (f, mpc_Re (r->mvalue)); fputc (' ', f); out_mpf (f, mpc_Im (r->mvalue));
      fprintf (f, " DR "); out_rdpe (f, r->drad);
      fprintf (f, " FR "); out_d (f, r->frad);
      fprintf (f, " FV "); out_d (f, cplx_Re (r->fvalue)); fputc (' ', f); out_d (f, cplx_Im (r->fvalue));
      fprintf (f, " DV "); out_rdpe (f, cdpe_Re (r->dvalue)); fputc (' ', f); out_rdpe (f, cdpe_Im (r->dvalue));
      fputc ('\n', f);
      fprintf (f, "MVX %d ", i); out_mpf_exact (f, mpc_Re (r->mvalue)); fputc (' ', f); out_mpf_exact (f, mpc_Im (r->mvalue)); fputc ('\n', f);
    }
  fflush (f);
  mps_output (s);
  fflush (ostr);
  fprintf (f, "OUTPUT-BEGIN %zu\n", olen);
  fwrite (obuf, 1, olen, f);
  fprintf (f, "\nOUTPUT-END\n");
  fflush (f);
  _exit (0);   /* the zero_roots / n overwritten by hand do not match what was allocated: skip teardown */
}
