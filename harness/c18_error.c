/* C18 harness (i): drive mps_error call sites through the public API and export the retrievable message.
 * stdin, one case per line:   file <path> | opt <option text> | inline <polynomial text>
 * stdout per case:            flag=<0|1> len=<n> msg=<hex bytes of mps_context_error_msg>  */
#include <mps/mps.h>
#include <stdio.h>
#include <stdlib.h>
#include <string.h>

int main (void)
{
  char *line = NULL; size_t cap = 0; ssize_t len;
  setvbuf (stdout, NULL, _IOLBF, 0);
  while ((len = getline (&line, &cap, stdin)) > 0)
    {
      while (len > 0 && (line[len - 1] == '\n' || line[len - 1] == '\r')) line[--len] = 0;
      char *sp = strchr (line, ' ');
      const char *arg = sp ? sp + 1 : "";
      if (sp) *sp = 0;
      mps_context *ctx = mps_context_new ();
      mps_polynomial *p = NULL;
      if (!strcmp (line, "file")) p = mps_parse_file (ctx, arg);
      else if (!strcmp (line, "opt"))
        {
          char *txt = malloc (strlen (arg) + 64);
          sprintf (txt, "%s;\nDegree=1;\nMonomial;\nInteger;\nReal;\nDense;\n\n1 1\n", arg);
          p = mps_parse_string (ctx, txt);
          free (txt);
        }
      else if (!strcmp (line, "inline")) p = mps_parse_inline_poly_from_string (ctx, arg);
      char *msg = mps_context_error_msg (ctx);
      printf ("flag=%d len=%zu msg=", (int)mps_context_has_errors (ctx), msg ? strlen (msg) : 0);
      if (msg) { size_t i; for (i = 0; msg[i]; i++) printf ("%02x", (unsigned char)msg[i]); }
      else printf ("NULL");
      printf ("\n");
      free (msg);
      if (p) mps_polynomial_free (ctx, p);
      mps_context_free (ctx);
    }
  free (line);
  return 0;
}
