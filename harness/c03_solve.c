/* c03_solve: harness/vf_solve.c (included unchanged) with two additions for C03, made by wrapping three calls of its main():
 *
 *  (1) environment variable C03_PHASE=n|m overrides the starting phase handed to mps_context_set_starting_phase():
 *      n = no_phase (what the mpsolve command line does without -t: mps_check_data() is then called by secular-ga.c;
 *      vf_solve.c always requests float_phase or dpe_phase), m = mp_phase (reachable through the API only: the secular
 *      driver answers "Unrecognized starting phase").
 *  (2) with -T, after mps_mpsolve() returns, the library's debug log (the memory stream vf_solve.c attached to s->logstr)
 *      is scanned for the program points of mps_secular_ga_mpsolve and one `EVX <tag> <number>` line per hit is printed,
 *      in log order, before vf_solve.c prints its own `EV` lines.  The tags are the events of coq/Total/SecExtAccept.v.
 */
#define _GNU_SOURCE
#include <mps/mps.h>
#include <stdio.h>
#include <stdlib.h>
#include <string.h>

#define C03_MAXSTREAMS 8
static struct { FILE *f; char **buf; size_t *len; } c03_streams[C03_MAXSTREAMS];
static int c03_nstreams = 0;

static FILE *
c03_open_memstream (char **buf, size_t *len)
{
  FILE *f = open_memstream (buf, len);

  if (c03_nstreams < C03_MAXSTREAMS)
    {
      c03_streams[c03_nstreams].f = f; c03_streams[c03_nstreams].buf = buf; c03_streams[c03_nstreams].len = len;
      c03_nstreams++;
    }
  return f;
}

static void
c03_set_starting_phase (mps_context *s, mps_phase phase)
{
  const char *o = getenv ("C03_PHASE");

  if (o && o[0] == 'n') phase = no_phase;
  if (o && o[0] == 'm') phase = mp_phase;
  mps_context_set_starting_phase (s, phase);
}

static void
c03_scan (FILE *out, const char *log, size_t len)
{
  /* first match wins: longer needles before their prefixes */
  static const struct { const char *needle; const char *tag; } K[] = {
    { "Generated initial coefficients for the secular equation", "seceq" },
    { "Check data suggests starting phase should be floating", "cd-f" },
    { "Check data suggests starting phase should be DPE", "cd-d" },
    { "Computing starting points and performing first Aberth packet", "pre" },
    { "Aberth has failed due to floating point exceptions", "pre-fpe" },
    { "Going back to float_phase", "back" },
    { "Switching to DPE phase since initial regeneration", "swd" },
    { "Initial generation of the secular equation coefficients did not succeed", "regfail" },
    { "Computing starting points", "starts" },
    { "Returning since some errors have been detected", "cleanerr" },
    { "Starting floating point iterations", "it-f" },
    { "Starting DPE iterations", "it-d" },
    { "Starting MP iterations", "it-m" },
    { "Switching to DPE arithmetic since there are roots not representable", "it-fpe" },
    { "Stop conditions were satisfied", "stop" },
    { "Multiprecision has been manually disabled", "avoid" },
    { "Called mps_secular_switch_phase", "switch" },
    { "Called mps_secular_raise_precision", "raise" },
    { "Raising precision because regeneration failed", "regraise" },
    { "Regeneration failed", "reg1fail" },
    { "Validating the inclusions", "cleanup" },
    { "Step of improvement, precision = ", "improve" },
    { NULL, NULL } };
  size_t i = 0;

  while (i < len)
    {
      size_t j = i; int k;
      while (j < len && log[j] != '\n') j++;
      for (k = 0; K[k].needle; k++)
        {
          size_t nl = strlen (K[k].needle), t;
          const char *hit = NULL;
          for (t = i; t + nl <= j; t++)
            if (memcmp (log + t, K[k].needle, nl) == 0) { hit = log + t + nl; break; }
          if (hit)
            {
              long v = -1; const char *q = hit;
              while (q < log + j && (*q < '0' || *q > '9')) q++;
              if (q < log + j) v = strtol (q, NULL, 10);
              fprintf (out, "EVX %s %ld\n", K[k].tag, v);
              break;
            }
        }
      i = j + 1;
    }
}

static void
c03_mpsolve (mps_context *s)
{
  int k;

  mps_mpsolve (s);

  for (k = 0; k < c03_nstreams; k++)
    if (s->DOLOG && c03_streams[k].f == s->logstr)
      {
        fflush (s->logstr);
        c03_scan (stdout, *c03_streams[k].buf, *c03_streams[k].len);
        fprintf (stdout, "EVXEND algorithm=%d\n", (int)s->algorithm);
      }
}

#define open_memstream(b, l) c03_open_memstream (b, l)
#define mps_context_set_starting_phase(s, p) c03_set_starting_phase (s, p)
#define mps_mpsolve(s) c03_mpsolve (s)
#include "vf_solve.c"
