/* vf_sched.h -- deterministic scheduler shim for libmps built with -DVF_SHIM
 * (lib/build_repo.sh mode `shim` / `shimsan`).  Shared by C06 (thread pool),
 * C05, C07-parallel, C18-async.  Independent of any particular check.
 *
 * ---------------------------------------------------------------------------
 * WHAT IT DOES
 *
 * In a shim build every pthread_mutex_{init,destroy,lock,trylock,unlock},
 * pthread_cond_{init,destroy,wait,signal,broadcast}, pthread_{create,join,exit}
 * and sched_yield *inside libmps* calls vf_* (harness/vf_hooks.h).  Every thread
 * is a real pthread, but only the holder of a baton runs.  Each intercepted call
 * is a *scheduling point*:
 *   1. the calling thread announces the operation it is about to perform,
 *   2. the scheduler chooses, from the schedule source, one thread whose
 *      announced operation is enabled (mutex free, join target finished, cond
 *      waiter signalled and its mutex free, ...), hands it the baton,
 *   3. the chosen thread performs its operation on the shim's own model of
 *      mutex owners / condition wait sets / finished threads, appends one event
 *      to the in-memory trace and runs (alone) up to its next intercepted call.
 * Code between two intercepted calls is therefore executed atomically, attached
 * to the operation that *precedes* it.  Exception: after an `unlock` the thread
 * stops again (pseudo operation `cont`, always enabled) before it runs the code
 * that follows the unlock, so that unprotected code after a critical section
 * can interleave with other threads (option post_unlock, default on; when off,
 * `cont` is emitted immediately after the unlock without a scheduling point, so
 * the trace format does not change).
 * Between scheduling points the program is deterministic, hence a list of
 * choices replays an execution exactly.
 * If the shim has not been initialised (vf_sched_init not called, or after
 * vf_sched_fini) every vf_* call falls through to the real pthread function.
 *
 * Threads: the thread that calls vf_sched_init becomes tid 0 ("main"/client).
 * Threads created through vf_create (i.e. by libmps, or by a harness that calls
 * vf_create itself) get tids 1,2,... in creation order.  A harness that wants
 * additional client threads creates them with vf_create (never with the real
 * pthread_create while the shim is active).
 *
 * Object ids: mutexes are m0,m1,..., condition variables c0,c1,... numbered in
 * order of pthread_*_init (or of first use for statically initialised ones);
 * destroy forgets the address so that a recycled address gets a fresh id.
 * vf_name_object(ptr,"class") attaches a lock-class name (for C05 lock-order
 * reasoning); it appears in the trace as `name m3 class`.
 *
 * ---------------------------------------------------------------------------
 * TRACE FORMAT (vf_sched_trace_dump), one event per line, `<tid> <op> <args>`:
 *   T begin                    first step of a created thread
 *   T create U                 T created thread U
 *   T join U                   T joined finished thread U
 *   T exit                     pthread_exit or return from the thread function
 *   T lock mI | trylock mI R   (R = 0 acquired, 16 = EBUSY)
 *   T unlock mI                followed (later) by  T cont
 *   T cont                     T resumes after its unlock
 *   T cwait cJ mI              T released mI and entered the wait set of cJ
 *   T cwake cJ mI S            T left cond_wait holding mI again (S=0 signalled, 1 spurious)
 *   T signal cJ U              U = tid taken out of the wait set, -1 if it was empty
 *   T bcast cJ N               N = number of waiters released
 *   T yield
 *   T minit mI | mdestroy mI | cinit cJ | cdestroy cJ     (not scheduling points)
 *   T name mI CLASS
 *   T ev TAG A                 user event from vf_event(TAG, A)  (not a scheduling point)
 * and, on abnormal termination, a last line
 *   # deadlock | # steplimit | # misuse <what>
 *
 * ---------------------------------------------------------------------------
 * SCHEDULES
 *
 * A *decision* is taken whenever there is more than one option:
 *   - thread decision: options = enabled threads (value = tid) plus, while the
 *     spurious wake-up budget lasts, waiters that could be woken spuriously
 *     (value = 64 + tid);
 *   - signal decision: which waiter a pthread_cond_signal releases (value = tid).
 * A schedule is the list of values chosen at the successive decisions.  It is
 * what vf_sched_get_schedule returns and what VF_REPLAY consumes; once a
 * replayed schedule is exhausted (or names a value that is not an option) the
 * *default policy* is followed: keep running the current thread if it is
 * enabled, otherwise the next enabled tid in cyclic order after it; signal
 * releases the longest waiter; never spurious.
 *
 * Sources (vf_mode):
 *   VF_RANDOM  uniform choice among the options, PRNG(seed); spurious wake-ups
 *              with probability 1/16 while the budget lasts.
 *   VF_PCT     PCT (Burckhardt et al.): random distinct priorities per thread,
 *              pct_depth-1 priority change points at random steps in
 *              [0,pct_steps); always runs the highest-priority enabled thread.
 *   VF_REPLAY  prefix given by vf_sched_set_schedule, then default policy.
 *              This is also the mode used by the DFS explorer for its children.
 *
 * DFS (vf_explore): stateless depth-first enumeration by re-execution in forked
 * children.  Each child replays a prefix and then follows the default policy;
 * the parent derives new prefixes from the recorded decisions: at decision i
 * (i >= length of the prefix) every non-default option gives the prefix
 * chosen[0..i) ++ [option], provided the *cost* stays within `bound`:
 *   cost 1  choosing another thread although the current one is enabled (a preemption),
 *   cost 1  a spurious wake-up,
 *   cost (free_switch ? 0 : 1)  a non-default thread when the current one is
 *           blocked/finished, or a non-default signal target.
 * free_switch=1 is preemption bounding (Musuvathi & Qadeer); free_switch=0 is
 * delay bounding (Emmi et al.), which is much smaller.  Every schedule within
 * the bound is produced exactly once.
 *
 * ---------------------------------------------------------------------------
 * API
 */
#ifndef VF_SCHED_H
#define VF_SCHED_H
#include <stdio.h>
#include <stdint.h>
#include <pthread.h>
#ifdef __cplusplus
extern "C" {
#endif

typedef enum { VF_RANDOM = 0, VF_PCT = 1, VF_REPLAY = 2 } vf_mode;

typedef struct {
  int post_unlock;     /* 1: scheduling point after every unlock (default 1) */
  int max_spurious;    /* budget of spurious cond_wait wake-ups per run (default 0) */
  long max_steps;      /* abort the run as `steplimit` after this many events (default 200000) */
  int pct_depth;       /* VF_PCT: bug depth d (default 3) */
  int pct_steps;       /* VF_PCT: estimated number of steps k (default 200) */
} vf_opts;

/* Fill *o with the defaults above. */
void vf_opts_default (vf_opts *o);

/* Start scheduling.  The caller becomes tid 0.  o may be NULL (defaults). */
void vf_sched_init (vf_mode mode, uint64_t seed, const vf_opts *o);
/* Register the calling thread as tid 0 with the defaults (VF_REPLAY, empty schedule =
 * default policy) unless the shim is already active, in which case this is a no-op. */
void vf_register_main (void);
/* Stop scheduling: all later vf_* calls go to the real pthread functions.  Only
 * legal when every created thread has finished (returns -1 otherwise). */
int vf_sched_fini (void);
/* Number of created threads (tid >= 1) that have not finished (exit / return). */
int vf_sched_unfinished (void);

/* VF_REPLAY: the schedule prefix to follow (copied). */
void vf_sched_set_schedule (const uint8_t *choices, int n);
/* Alternative to a schedule (any mode): the tid to run at *every* scheduling point, forced
 * or not, in order (one entry per begin/create/join/exit/lock/trylock/cont/cwait/cwake/
 * signal/bcast/yield event of the intended trace; 64+tid for a spurious cwake).  Used to replay
 * a trace produced by a model.  Entries that are not enabled count as divergences
 * (vf_sched_diverged) and the mode's own choice is used instead.  Copied; survives vf_sched_init. */
void vf_sched_set_follow (const uint8_t *tids, int n);
int vf_sched_diverged (void);
/* Parse "3,0,65,1" into buf (at most cap values); returns the count. */
int vf_parse_schedule (const char *text, uint8_t *buf, int cap);
/* The decisions taken so far in this run: values chosen.  Returns the count
 * (copies at most cap). */
int vf_sched_get_schedule (uint8_t *buf, int cap);
/* Print the schedule as "3,0,65,1". */
void vf_sched_print_schedule (FILE *f);

/* Trace. */
void vf_sched_trace_dump (FILE *f);
long vf_sched_trace_len (void);
/* User event, recorded in the trace as `T ev TAG A`.  TAG must not contain blanks.
 * Not a scheduling point.  Callable from any scheduled thread (and a no-op when
 * the shim is inactive). */
void vf_event (const char *tag, long a);
/* Name the lock class of a mutex / condition variable (before or after init). */
void vf_name_object (const void *ptr, const char *cls);
/* tid of the calling thread (-1 if not a scheduled thread). */
int vf_self (void);

/* 1 if the run ended in a state where no thread was enabled although some had
 * not finished.  By default the shim then calls the abort handler (below). */
int vf_sched_deadlocked (void);
/* Status of the run: 0 running/ok, VF_ST_* otherwise. */
enum { VF_ST_OK = 0, VF_ST_DEADLOCK = 1, VF_ST_STEPLIMIT = 2, VF_ST_MISUSE = 3,
       VF_ST_ASSERT = 4, VF_ST_CRASH = 5, VF_ST_TIMEOUT = 6 };
int vf_sched_status (void);
/* Called (from whatever thread detected it, which holds the baton) on deadlock,
 * step limit or misuse (unlock of a mutex not owned, ...).  It must not return.
 * Default: dump the trace and the schedule to stderr and _exit(3).  vf_explore
 * installs its own handler in the children. */
void vf_sched_on_abort (void (*handler)(int status, const char *what));
/* For harness assertions: records status VF_ST_ASSERT with `what` and calls the
 * abort handler (does not return).  Usable from any scheduled thread. */
void vf_fail (const char *what) __attribute__((noreturn));

/* ---- DFS explorer -------------------------------------------------------- */
typedef struct {
  int bound;           /* cost bound (see above) */
  int free_switch;     /* 1 preemption bounding, 0 delay bounding */
  long max_runs;       /* stop after this many runs (0 = unlimited) */
  int timeout_s;       /* per-run wall clock limit (default 20) */
  vf_opts sched;       /* options for the children */
  /* optional: split the work.  Only first-level subtrees i with
   * i % shard_n == shard_i are explored (the root run belongs to shard 0). */
  int shard_i, shard_n;
} vf_explore_opts;

typedef struct {
  long run;            /* sequence number */
  int status;          /* VF_ST_* */
  int rc;              /* value returned by the scenario (only if status==VF_ST_OK) */
  const char *what;    /* message for status != OK */
  const uint8_t *schedule; int n_schedule;   /* full schedule of this run (replayable) */
  const char *trace; size_t trace_len;       /* text as vf_sched_trace_dump prints it */
  int cost;            /* cost of this schedule */
  int diverged;        /* replay/follow entries that were not options (0 = replayed faithfully) */
} vf_run;

typedef struct { long runs, failed, max_decisions, truncated; } vf_explore_stats;

/* scenario: runs with the shim already initialised in the (forked) child; returns
 * 0 if all harness-level assertions held.  on_run is called in the parent for every
 * run; returning nonzero from it stops the exploration. */
typedef int (*vf_scenario) (void *arg);
typedef int (*vf_on_run) (const vf_run *r, void *user);
void vf_explore_opts_default (vf_explore_opts *o);
int vf_explore (vf_scenario fn, void *arg, const vf_explore_opts *o,
                vf_on_run on_run, void *user, vf_explore_stats *st);
/* Run `fn` once in a forked child under the given mode/schedule and report it through
 * on_run exactly like vf_explore does (used for random/PCT sampling and replay). */
int vf_run_once (vf_scenario fn, void *arg, vf_mode mode, uint64_t seed, const vf_opts *so,
                 const uint8_t *schedule, int n_schedule, int timeout_s,
                 vf_on_run on_run, void *user);

#ifdef __cplusplus
}
#endif
#endif
