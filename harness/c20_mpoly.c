/* C20 harness: the matrix polynomial API of src/libmps/monomial/monomial-matrix-poly.c through its public
 * entry points (mps_monomial_matrix_poly_new / _set_coefficient_d / _meval / _free), ASan+UBSan build.
 *
 * Every block obtained from mps_malloc is filled with the byte 0x3f first (link with -Wl,--wrap=mps_malloc), so
 * that "whatever malloc left" in the coefficient array P is a known finite double (0x3f3f3f3f3f3f3f3f) and the
 * caller can predict what an evaluation reads when the coefficient of degree 0 was never stored.
 *
 * input, one case per line:   <id> <degree> <m> <op>*
 *     op = S <i> <re> <im> ... (m*m entries, row major, doubles as 16 hex digits)   set_coefficient_d (i may be < 0)
 *        | E <wp> <x_re> <x_im>                                                     meval with value at wp bits
 * output (flushed line by line):
 *     S <id> <k> <0|1>                     k-th op was a set; 1 = mps_error was raised by it (state then cleared)
 *     V <id> <k> <wp_eff> <re digits> <re exp> <im digits> <im exp> <err mantissa> <err exp>
 *     Z <id>                               case done (polynomial freed)
 */
#include <mps/mps.h>
#include <stdio.h>
#include <stdlib.h>
#include <string.h>
#include <stdint.h>

void *__real_mps_malloc (size_t size);
void *
__wrap_mps_malloc (size_t size)
{
  void *p = __real_mps_malloc (size);
  if (p)
    memset (p, 0x3f, size);
  return p;
}

static double
hex2d (const char *s)
{
  uint64_t u = strtoull (s, NULL, 16);
  double d;
  memcpy (&d, &u, 8);
  return d;
}

static void
print_mpf (mpf_t x)
{
  mp_exp_t e;
  char *s = mpf_get_str (NULL, &e, 16, 0, x);
  if (s[0] == '\0' || (s[0] == '-' && s[1] == '\0'))
    printf (" 0 0");
  else
    printf (" %s %ld", s, (long)e);
  free (s);
}

int
main (void)
{
  size_t cap = 1 << 22;
  char *line = malloc (cap);
  mps_context *ctx = mps_context_new ();

  while (fgets (line, cap, stdin))
    {
      char *save = NULL;
      char *tok = strtok_r (line, " \n", &save);
      if (!tok)
        continue;
      char id[64];
      strncpy (id, tok, 63);
      id[63] = 0;
      int degree = atoi (strtok_r (NULL, " \n", &save));
      int m = atoi (strtok_r (NULL, " \n", &save));
      mps_monomial_matrix_poly *mp = mps_monomial_matrix_poly_new (ctx, degree, m, false);
      int k = 0;
      while ((tok = strtok_r (NULL, " \n", &save)))
        {
          if (tok[0] == 'S')
            {
              int i = atoi (strtok_r (NULL, " \n", &save));
              cplx_t *mat = malloc (sizeof (cplx_t) * m * m);
              int j;
              for (j = 0; j < m * m; j++)
                {
                  double re = hex2d (strtok_r (NULL, " \n", &save));
                  double im = hex2d (strtok_r (NULL, " \n", &save));
                  cplx_set_d (mat[j], re, im);
                }
              ctx->error_state = false;
              mps_monomial_matrix_poly_set_coefficient_d (ctx, mp, i, mat);
              printf ("S %s %d %d\n", id, k, mps_context_has_errors (ctx) ? 1 : 0);
              fflush (stdout);
              ctx->error_state = false;
              free (mat);
            }
          else if (tok[0] == 'E')
            {
              long wp = atol (strtok_r (NULL, " \n", &save));
              double xre = hex2d (strtok_r (NULL, " \n", &save));
              double xim = hex2d (strtok_r (NULL, " \n", &save));
              mpc_t x, value;
              rdpe_t err;
              char b[32];
              uint64_t u;
              mpc_init2 (x, wp);
              mpc_init2 (value, wp);
              mpc_set_d (x, xre, xim);
              rdpe_set (err, rdpe_zero);
              mps_monomial_matrix_poly_meval (ctx, MPS_POLYNOMIAL (mp), x, value, err);
              printf ("V %s %d %ld", id, k, (long)mpc_get_prec (value));
              print_mpf (mpc_Re (value));
              print_mpf (mpc_Im (value));
              double mn = rdpe_Mnt (err);
              memcpy (&u, &mn, 8);
              sprintf (b, "%016llx", (unsigned long long)u);
              printf (" %s %ld\n", b, rdpe_Esp (err));
              fflush (stdout);
              mpc_clear (x);
              mpc_clear (value);
            }
          k++;
        }
      mps_monomial_matrix_poly_free (ctx, MPS_POLYNOMIAL (mp));
      printf ("Z %s\n", id);
      fflush (stdout);
    }
  mps_context_free (ctx);
  return 0;
}
