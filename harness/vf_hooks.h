/* Force-included (-include) into every libmps translation unit that the checks
 * compile from a snapshot of /repo.  Nothing in /repo is edited: the guard
 * ROBOL_MPSOLVE_VERIF is defined on the command line by lib/build_repo.sh and
 * only selects what this header adds.
 *
 * VF_SHIM: redirect the pthread synchronisation calls of libmps to the
 * deterministic scheduler shim (harness/vf_sched.c).
 */
#ifndef VF_HOOKS_H
#define VF_HOOKS_H
#ifdef ROBOL_MPSOLVE_VERIF

#ifdef VF_SHIM
#ifdef __cplusplus
extern "C" {
#endif
#include <pthread.h>
#include <sched.h>
int vf_mutex_init (pthread_mutex_t *m, const pthread_mutexattr_t *a);
int vf_mutex_destroy (pthread_mutex_t *m);
int vf_mutex_lock (pthread_mutex_t *m);
int vf_mutex_trylock (pthread_mutex_t *m);
int vf_mutex_unlock (pthread_mutex_t *m);
int vf_cond_init (pthread_cond_t *c, const pthread_condattr_t *a);
int vf_cond_destroy (pthread_cond_t *c);
int vf_cond_wait (pthread_cond_t *c, pthread_mutex_t *m);
int vf_cond_signal (pthread_cond_t *c);
int vf_cond_broadcast (pthread_cond_t *c);
int vf_create (pthread_t *t, const pthread_attr_t *a, void *(*fn)(void *), void *arg);
int vf_join (pthread_t t, void **ret);
void vf_exit (void *ret) __attribute__((noreturn));
int vf_yield (void);
#ifdef __cplusplus
}
#endif
#ifndef VF_SHIM_IMPL
#define pthread_mutex_init     vf_mutex_init
#define pthread_mutex_destroy  vf_mutex_destroy
#define pthread_mutex_lock     vf_mutex_lock
#define pthread_mutex_trylock  vf_mutex_trylock
#define pthread_mutex_unlock   vf_mutex_unlock
#define pthread_cond_init      vf_cond_init
#define pthread_cond_destroy   vf_cond_destroy
#define pthread_cond_wait      vf_cond_wait
#define pthread_cond_signal    vf_cond_signal
#define pthread_cond_broadcast vf_cond_broadcast
#define pthread_create         vf_create
#define pthread_join           vf_join
#define pthread_exit           vf_exit
#define sched_yield            vf_yield
#endif
#endif /* VF_SHIM */

#endif /* ROBOL_MPSOLVE_VERIF */
#endif
