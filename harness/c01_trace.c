/* c01_trace: harness/vf_solve.c (same command line, same exact export) with the six Newton entry points of libmps
 * wrapped at link time (-Wl,--wrap=..., nothing in /repo is edited, the normal build of the snapshot is used):
 *   mps_polynomial_fnewton / dnewton / mnewton   (classic workers in monomial-threading.c and solve.c, improve_root,
 *                                                  the Jacobi-Aberth packets, validation)
 *   mps_secular_fnewton / dnewton / mnewton       (secular iteration)
 * At ENTRY and at EXIT of every outermost call on one of the context's approximations s->root[i] the disc that
 * approximation holds in the arithmetic of the call is printed exactly:
 *   RE <f|d|m> <entry|exit> <i> <site> <again> <re> <im> <radius>
 *      f: fvalue/frad as IEEE bits (16 hex digits each)
 *      d: dvalue/drad as hexbits:exponent
 *      m: mvalue as every stored limb (HEX:EXP2, see out_mpf_exact) and drad as hexbits:exponent
 *      site: W classic worker / other, I inside mps_improve, J inside a Jacobi-Aberth packet, S secular iteration,
 *            V inside mps_validate_inclusions
 * Calls on approximations that are not in s->root[] (local copies: root conditioning, starting strategies) are not
 * traced.  checks/C01.py groups the lines per root, appends the returned disc, and feeds them to bin/trc.
 */
#include "vf_solve.c"
#include <pthread.h>

static pthread_mutex_t c01_mx = PTHREAD_MUTEX_INITIALIZER;
static __thread int c01_depth = 0;
static volatile int c01_in_improve = 0, c01_in_jacobi = 0, c01_in_validate = 0;

static int c01_root_index (mps_context *s, mps_approximation *r)
{
  int i;
  if (!s->root) return -1;
  for (i = 0; i < s->n; i++)
    if (s->root[i] == r) return i;
  return -1;
}

static void c01_emit (mps_context *s, mps_approximation *r, char ar, const char *ev, char site)
{
  int i = c01_root_index (s, r);
  FILE *f = stdout;
  if (i < 0) return;
  if (c01_in_improve) site = 'I';
  else if (c01_in_validate) site = 'V';
  else if (c01_in_jacobi) site = 'J';
  pthread_mutex_lock (&c01_mx);
  fprintf (f, "RE %c %s %d %c %d ", ar, ev, i, site, (int)r->again);
  switch (ar)
    {
    case 'f':
      out_d (f, cplx_Re (r->fvalue)); fputc (' ', f); out_d (f, cplx_Im (r->fvalue)); fputc (' ', f); out_d (f, r->frad);
      break;
    case 'd':
      out_rdpe (f, cdpe_Re (r->dvalue)); fputc (' ', f); out_rdpe (f, cdpe_Im (r->dvalue)); fputc (' ', f); out_rdpe (f, r->drad);
      break;
    default:
      out_mpf_exact (f, mpc_Re (r->mvalue)); fputc (' ', f); out_mpf_exact (f, mpc_Im (r->mvalue)); fputc (' ', f); out_rdpe (f, r->drad);
      break;
    }
  fputc ('\n', f);
  pthread_mutex_unlock (&c01_mx);
}

#define C01_WRAP3(NAME, AR, SITE, CORRT)                                                                   \
  void __real_##NAME (mps_context *s, mps_polynomial *p, mps_approximation *root, CORRT corr);           \
  void __wrap_##NAME (mps_context *s, mps_polynomial *p, mps_approximation *root, CORRT corr)            \
  {                                                                                                        \
    int outer = (c01_depth++ == 0);                                                                        \
    if (outer) c01_emit (s, root, AR, "entry", SITE);                                                      \
    __real_##NAME (s, p, root, corr);                                                                      \
    if (outer) c01_emit (s, root, AR, "exit", SITE);                                                       \
    c01_depth--;                                                                                           \
  }
#define C01_WRAP4(NAME, AR, SITE)                                                                          \
  void __real_##NAME (mps_context *s, mps_polynomial *p, mps_approximation *root, mpc_t corr, long wp);  \
  void __wrap_##NAME (mps_context *s, mps_polynomial *p, mps_approximation *root, mpc_t corr, long wp)   \
  {                                                                                                        \
    int outer = (c01_depth++ == 0);                                                                        \
    if (outer) c01_emit (s, root, AR, "entry", SITE);                                                      \
    __real_##NAME (s, p, root, corr, wp);                                                                  \
    if (outer) c01_emit (s, root, AR, "exit", SITE);                                                       \
    c01_depth--;                                                                                           \
  }

C01_WRAP3 (mps_polynomial_fnewton, 'f', 'W', cplx_t)
C01_WRAP3 (mps_polynomial_dnewton, 'd', 'W', cdpe_t)
C01_WRAP4 (mps_polynomial_mnewton, 'm', 'W')
C01_WRAP3 (mps_secular_fnewton, 'f', 'S', cplx_t)
C01_WRAP3 (mps_secular_dnewton, 'd', 'S', cdpe_t)
C01_WRAP4 (mps_secular_mnewton, 'm', 'S')

void __real_mps_improve (mps_context *s);
void __wrap_mps_improve (mps_context *s)
{
  c01_in_improve = 1; __real_mps_improve (s); c01_in_improve = 0;
}
void __real_mps_validate_inclusions (mps_context *s);
void __wrap_mps_validate_inclusions (mps_context *s)
{
  c01_in_validate = 1; __real_mps_validate_inclusions (s); c01_in_validate = 0;
}
int __real_mps_faberth_packet (mps_context *s, mps_polynomial *p, mps_boolean jr);
int __wrap_mps_faberth_packet (mps_context *s, mps_polynomial *p, mps_boolean jr)
{
  int r; c01_in_jacobi = 1; r = __real_mps_faberth_packet (s, p, jr); c01_in_jacobi = 0; return r;
}
int __real_mps_daberth_packet (mps_context *s, mps_polynomial *p, mps_boolean jr);
int __wrap_mps_daberth_packet (mps_context *s, mps_polynomial *p, mps_boolean jr)
{
  int r; c01_in_jacobi = 1; r = __real_mps_daberth_packet (s, p, jr); c01_in_jacobi = 0; return r;
}
int __real_mps_maberth_packet (mps_context *s, mps_polynomial *p, mps_boolean jr);
int __wrap_mps_maberth_packet (mps_context *s, mps_polynomial *p, mps_boolean jr)
{
  int r; c01_in_jacobi = 1; r = __real_mps_maberth_packet (s, p, jr); c01_in_jacobi = 0; return r;
}
