/* c17_rad: the real DPE printing path on generated inputs, one answer line per input line (fields separated by TABs).
 *
 *   D <mbits> <esp>            a DPE with mantissa = the double with these IEEE bits (16 hex digits), exponent esp (long), put
 *                              into an rdpe_t as it is (the caller hands in normalised DPEs and the canonical zero)
 *       -> D <dbits> <l> <lgbits> <frbits> <pwbits> <text of rdpe_out_str> <text of rdpe_out_str_u>
 *          (d, l) from the real rdpe_get_dl; lg = this libm's log10 (|m|), fr = the fraction modf delivers for
 *          log10 (|m|) + esp * LOG10_2 and pw = pow (10.0, fr), recomputed here with the same expressions so that the check can
 *          compare the libm of harness and model driver and measure its error against a multiprecision reference.
 *   M <mant> <exp2> <prec>     an mpf of prec bits holding mant * 2^exp2 (mant a decimal integer)
 *       -> M <mbits> <esp> <hex mantissa>:<exp2>        mpf_get_rdpe of it, and every stored limb (what the mpf really holds)
 *   G <mant> <exp2> <prec>     -> G <text> <hex mantissa>:<exp2>     mpf_get_rdpe + rdpe_out_str_u, as the gnuplot branch of mps_outfloat does
 */
#include <mps/mps.h>
#include <stdio.h>
#include <stdlib.h>
#include <string.h>
#include <stdint.h>
#include <math.h>
#include <gmp.h>

#ifndef LOG10_2
#define LOG10_2  0.30102999566398119521
#endif

static void out_d (FILE *f, double d) { uint64_t u; memcpy (&u, &d, 8); fprintf (f, "%016lx", (unsigned long)u); }
static double d_of_bits (const char *s) { uint64_t u = strtoull (s, NULL, 16); double d; memcpy (&d, &u, 8); return d; }
static void out_mpf_exact (FILE *f, mpf_t x)
{
  mp_size_t n = x->_mp_size; int neg = n < 0; mpz_t z;
  if (neg) n = -n;
  if (n == 0) { fprintf (f, "0:0"); return; }
  mpz_init (z); mpz_import (z, (size_t)n, -1, sizeof (mp_limb_t), 0, 0, x->_mp_d);
  gmp_fprintf (f, "%s%Zx:%ld", neg ? "-" : "", z, (long)GMP_NUMB_BITS * ((long)x->_mp_exp - (long)n));
  mpz_clear (z);
}
static void set_mpf (mpf_t x, const char *mant, long e2)
{
  mpz_t z; mpz_init (z); mpz_set_str (z, mant, 10); mpf_set_z (x, z); mpz_clear (z);
  if (e2 >= 0) mpf_mul_2exp (x, x, (unsigned long)e2); else mpf_div_2exp (x, x, (unsigned long)(-e2));
}
/* text a printing function writes, through a memory stream */
static char *text_of (int (*fn)(FILE *, const rdpe_t), const rdpe_t e)
{
  char *buf = NULL; size_t len = 0; FILE *ms = open_memstream (&buf, &len);
  fn (ms, e); fclose (ms); return buf;
}

int main (void)
{
  static char line[70000], a[65536];
  while (fgets (line, sizeof line, stdin))
    {
      long e2, prec;
      if (line[0] == 'D')
        {
          char mb[64]; long esp; rdpe_t e; double d, lg, t, x, fr, pw, am; long l; char *t1, *t2;
          if (sscanf (line, "D %60s %ld", mb, &esp) != 2) { fprintf (stderr, "bad D line\n"); return 2; }
          rdpe_Mnt (e) = d_of_bits (mb); rdpe_Esp (e) = esp;
          rdpe_get_dl (&d, &l, e);
          am = fabs (rdpe_Mnt (e));
          if (am == 0.0) { lg = 0.0; fr = 0.0; pw = 0.0; }
          else { lg = log10 (am); t = lg + esp * LOG10_2; fr = modf (t, &x); pw = pow (10.0, fr); }
          t1 = text_of (rdpe_out_str, e); t2 = text_of (rdpe_out_str_u, e);
          printf ("D\t"); out_d (stdout, d); printf ("\t%ld\t", l); out_d (stdout, lg); printf ("\t"); out_d (stdout, fr);
          printf ("\t"); out_d (stdout, pw); printf ("\t%s\t%s\n", t1, t2);
          free (t1); free (t2);
        }
      else if (line[0] == 'M' || line[0] == 'G')
        {
          mpf_t f; rdpe_t e;
          if (sscanf (line + 1, " %65000s %ld %ld", a, &e2, &prec) != 3) { fprintf (stderr, "bad M line\n"); return 2; }
          mpf_init2 (f, (unsigned long)prec); set_mpf (f, a, e2);
          mpf_get_rdpe (e, f);
          if (line[0] == 'M')
            { printf ("M\t"); out_d (stdout, rdpe_Mnt (e)); printf ("\t%ld\t", rdpe_Esp (e)); }
          else
            { char *t1 = text_of (rdpe_out_str_u, e); printf ("G\t%s\t", t1); free (t1); }
          out_mpf_exact (stdout, f); printf ("\n");
          mpf_clear (f);
        }
      else if (line[0] != '\n') { fprintf (stderr, "bad line\n"); return 2; }
    }
  return 0;
}
