/* C15 harness: interpret an operation script against the real libmps.
 *
 * One op per line on stdin:
 *   new | threads <k> | algo u|s | goal i|a|c | prec <digits>
 *   poly m <deg> c0 .. cdeg        monomial, integer coefficients (c0.. = 0 gives zero roots)
 *   poly s <n> a1 b1 .. an bn      secular equation sum a_i/(x-b_i) = 1, integer data
 *   poly p <text>                  inline polynomial through the parser
 *   bad <text>                     malformed inline polynomial (error injection)
 *   solve | solve_async | get_roots | free_poly | free | leakcheck | mark
 *
 * After each op one line
 *   st <lineno> <op> ctx=<0|1> init= n= deg= zr= err= exitreq= sec= bmpc= heap=<bytes> thr=<threads>
 * is printed (fields from the private struct mps_context), and after each solve
 *   roots <lineno> <count> phase=<p> err=<0|1>
 *   r <i> <status> <re:hexmant@exp16> <im> <radius mantissa %a> <radius exp2>
 * Values are exported exactly (base-16 mantissa of the mpf, DPE radius as mantissa+exponent).
 */
#include <mps/mps.h>
#include <stdio.h>
#include <stdlib.h>
#include <string.h>
#include <pthread.h>
#include <malloc.h>
#include <dirent.h>
#include <unistd.h>

size_t __sanitizer_get_current_allocated_bytes (void) __attribute__((weak));
int __lsan_do_recoverable_leak_check (void) __attribute__((weak));

static size_t heap_bytes (void)
{
  if (__sanitizer_get_current_allocated_bytes)
    return __sanitizer_get_current_allocated_bytes ();
  struct mallinfo2 mi = mallinfo2 ();
  return mi.uordblks + mi.hblkhd;
}

static int n_threads_now (void)
{
  int k = 0;
  DIR *d = opendir ("/proc/self/task");
  struct dirent *e;
  if (!d) return -1;
  while ((e = readdir (d))) if (e->d_name[0] != '.') k++;
  closedir (d);
  return k;
}

#define MAXPOLY 4096
static mps_context *ctx = NULL;
static mps_polynomial *polys[MAXPOLY];
static int npolys = 0;
static int have_poly = 0;       /* the active polynomial of ctx is alive */

static pthread_mutex_t cb_m = PTHREAD_MUTEX_INITIALIZER;
static pthread_cond_t cb_c = PTHREAD_COND_INITIALIZER;
static int cb_count = 0;

static void *on_done (mps_context *s, void *ud)
{
  pthread_mutex_lock (&cb_m);
  cb_count++;
  pthread_cond_broadcast (&cb_c);
  pthread_mutex_unlock (&cb_m);
  return NULL;
}

static void print_mpf (mpf_t x)
{
  mp_exp_t e;
  char *s = mpf_get_str (NULL, &e, 16, 0, x);
  printf (" %s@%ld", s[0] ? s : "0", (long)e);
  free (s);
}

static void dump_roots (int lineno)
{
  int i, n = mps_context_get_degree (ctx);
  if (!ctx->initialized || ctx->root == NULL)
    {
      printf ("roots %d -1 phase=%d err=%d\n", lineno, (int)ctx->lastphase, (int)mps_context_has_errors (ctx));
      return;
    }
  mpc_t *roots = NULL; rdpe_t *rad = NULL;
  mps_context_get_roots_m (ctx, &roots, &rad);
  printf ("roots %d %d phase=%d err=%d\n", lineno, n, (int)ctx->lastphase, (int)mps_context_has_errors (ctx));
  for (i = 0; i < n; i++)
    {
      printf ("r %d %d", i, (int)mps_context_get_root_status (ctx, i));
      print_mpf (mpc_Re (roots[i]));
      print_mpf (mpc_Im (roots[i]));
      printf (" %a %ld\n", rdpe_Mnt (rad[i]), (long)rdpe_Esp (rad[i]));
    }
  mpc_vclear (roots, n); free (roots); free (rad);
}

static void free_polys (void)
{
  int i;
  for (i = 0; i < npolys; i++)
    if (polys[i]) { mps_polynomial_free (ctx, polys[i]); polys[i] = NULL; }
  npolys = 0;
  have_poly = 0;
}

static void keep (mps_polynomial *p)
{
  if (npolys < MAXPOLY) polys[npolys++] = p;
}

int main (int argc, char **argv)
{
  char *line = NULL; size_t cap = 0; ssize_t len;
  int lineno = 0;
  setvbuf (stdout, NULL, _IOLBF, 0);
  while ((len = getline (&line, &cap, stdin)) > 0)
    {
      lineno++;
      while (len > 0 && (line[len - 1] == '\n' || line[len - 1] == '\r')) line[--len] = 0;
      if (!len || line[0] == '#') continue;
      char op[32] = ""; int off = 0;
      sscanf (line, "%31s %n", op, &off);
      char *rest = line + off;
      const char *note = "";

      if (!strcmp (op, "new"))
        {
          if (ctx) { note = "ignored"; }
          else { ctx = mps_context_new (); have_poly = 0; }
        }
      else if (!strcmp (op, "leakcheck"))
        {
          int l = __lsan_do_recoverable_leak_check ? __lsan_do_recoverable_leak_check () : -1;
          printf ("leak %d %d\n", lineno, l);
        }
      else if (!strcmp (op, "mark")) { }
      else if (!ctx) { note = "noctx"; }
      else if (!strcmp (op, "threads"))
        mps_thread_pool_set_concurrency_limit (ctx, NULL, atoi (rest));
      else if (!strcmp (op, "algo"))
        mps_context_select_algorithm (ctx, rest[0] == 's' ? MPS_ALGORITHM_SECULAR_GA : MPS_ALGORITHM_STANDARD_MPSOLVE);
      else if (!strcmp (op, "goal"))
        mps_context_set_output_goal (ctx, rest[0] == 'a' ? MPS_OUTPUT_GOAL_APPROXIMATE :
                                     rest[0] == 'c' ? MPS_OUTPUT_GOAL_COUNT : MPS_OUTPUT_GOAL_ISOLATE);
      else if (!strcmp (op, "prec"))
        mps_context_set_output_prec (ctx, atol (rest));
      else if (!strcmp (op, "poly"))
        {
          char kind = rest[0];
          char *p = rest + 1;
          mps_polynomial *P = NULL;
          if (kind == 'm')
            {
              long deg = strtol (p, &p, 10), i;
              mps_monomial_poly *mp = mps_monomial_poly_new (ctx, deg);
              for (i = 0; i <= deg; i++)
                {
                  long c = strtol (p, &p, 10);
                  if (c) mps_monomial_poly_set_coefficient_int (ctx, mp, i, c, 0);
                }
              P = MPS_POLYNOMIAL (mp);
            }
          else if (kind == 's')
            {
              long n = strtol (p, &p, 10), i;
              cplx_t *a = cplx_valloc (n), *b = cplx_valloc (n);
              for (i = 0; i < n; i++)
                {
                  long ai = strtol (p, &p, 10), bi = strtol (p, &p, 10);
                  cplx_set_d (a[i], (double)ai, 0.0);
                  cplx_set_d (b[i], (double)bi, 0.0);
                }
              P = MPS_POLYNOMIAL (mps_secular_equation_new (ctx, a, b, n));
              cplx_vfree (a); cplx_vfree (b);
            }
          else if (kind == 'p')
            {
              while (*p == ' ') p++;
              P = mps_parse_inline_poly_from_string (ctx, p);
            }
          else if (kind == 'f')
            {
              /* .pol text through mps_parse_string; "\n" in the script stands for a newline */
              char *q, *w;
              while (*p == ' ') p++;
              for (q = w = p; *q; q++)
                if (q[0] == '\\' && q[1] == 'n') { *w++ = '\n'; q++; }
                else *w++ = *q;
              *w = 0;
              P = mps_parse_string (ctx, p);
            }
          if (P)
            {
              keep (P);
              mps_context_set_input_poly (ctx, P);
              have_poly = !mps_context_has_errors (ctx) || ctx->active_poly == P;
            }
          else note = "nopoly";
        }
      else if (!strcmp (op, "bad"))
        {
          mps_polynomial *P = mps_parse_inline_poly_from_string (ctx, rest);
          if (P) { keep (P); note = "parsed"; }
        }
      else if (!strcmp (op, "solve"))
        {
          if (!have_poly) note = "skipped";
          else { mps_mpsolve (ctx); dump_roots (lineno); }
        }
      else if (!strcmp (op, "solve_async"))
        {
          if (!have_poly) note = "skipped";
          else
            {
              pthread_mutex_lock (&cb_m);
              int before = cb_count;
              pthread_mutex_unlock (&cb_m);
              mps_mpsolve_async (ctx, on_done, NULL);
              pthread_mutex_lock (&cb_m);
              while (cb_count == before) pthread_cond_wait (&cb_c, &cb_m);
              pthread_mutex_unlock (&cb_m);
              dump_roots (lineno);
            }
        }
      else if (!strcmp (op, "get_roots"))
        {
          if (!ctx->initialized) note = "skipped";
          else
            {
              int n = mps_context_get_degree (ctx), i, z = mps_context_get_zero_roots (ctx);
              cplx_t *r = NULL; double *rad = NULL;
              mps_context_get_roots_d (ctx, &r, &rad);
              double acc = 0; for (i = 0; i < n; i++) acc += rad[i] + cplx_Re (r[i]);
              free (r); free (rad);
              mps_approximation **ap = mps_context_get_approximations (ctx);
              if (ap)
                {
                  for (i = 0; i < n + z; i++) mps_approximation_free (ctx, ap[i]);
                  free (ap);
                }
              printf ("got %d %d %d %s\n", lineno, n, z, acc == acc ? "num" : "nan");
            }
        }
      else if (!strcmp (op, "free_poly"))
        free_polys ();
      else if (!strcmp (op, "free"))
        {
          mps_context *c = ctx;
          /* polynomials first need the context for their free method */
          free_polys ();
          mps_context_free (c);
          ctx = NULL;
          /* the pool's worker threads end asynchronously: give them time before counting */
          { int k; for (k = 0; k < 2000 && n_threads_now () > 1; k++) usleep (500); }
        }
      else note = "unknown";

      if (ctx)
        printf ("st %d %s ctx=1 init=%d n=%d deg=%d zr=%d err=%d exitreq=%d sec=%d bmpc=%d heap=%zu thr=%d %s\n",
                lineno, op, (int)ctx->initialized, ctx->n, ctx->deg, ctx->zero_roots, (int)ctx->error_state,
                (int)ctx->exit_required, ctx->secular_equation != NULL, ctx->bmpc != NULL,
                heap_bytes (), n_threads_now (), note);
      else
        printf ("st %d %s ctx=0 init=0 n=0 deg=0 zr=0 err=0 exitreq=0 sec=0 bmpc=0 heap=%zu thr=%d %s\n",
                lineno, op, heap_bytes (), n_threads_now (), note);
    }
  free (line);
  printf ("end cb=%d\n", cb_count);
  return 0;
}
