/* C15 harness: interpret an operation script against the real libmps.
 *
 * One op per line on stdin:
 *   new | threads <k> | algo u|s | goal i|a|c | prec <bits>
 *   setdeg <n>                     mps_context_set_degree called directly (public API); the active polynomial counts as
 *                                  no longer usable when <n> differs from its degree
 *   format <0..4> | startphase <0..3> | jacobi <0|1> | crude <0|1> | avoidmp <0|1> | abort
 *   poly d <deg> <inprec> c0 .. cdeg  monomial, double coefficients, mps_context_set_input_prec (<inprec>) afterwards
 *   poly c <deg> c0 .. cdeg        polynomial in the Chebyshev base, integer coefficients
 *   poly m <deg> c0 .. cdeg        monomial, integer coefficients (c0.. = 0 gives zero roots)
 *   poly s <n> a1 b1 .. an bn      secular equation sum a_i/(x-b_i) = 1, integer data
 *   poly p <text>                  inline polynomial through the parser
 *   poly r <n> r1 .. rn            prod (x - r_i), integer roots, repetitions = multiple roots
 *   (after each step of an initialised context also: sz <lineno> <exact 0|1> <elements of the 12 work arrays>)
 *   bad <text>                     malformed inline polynomial (error injection)
 *   solve | solve_async | get_roots | free_poly | free | leakcheck | mark
 *
 * After each op one line
 *   st <lineno> <op> ctx=<0|1> init= n= deg= zr= err= exitreq= sec= bmpc= heap=<bytes> thr=<threads> <note>
 *   fl <lineno> over=<mps_context_get_over_max> phase=<lastphase> haserr=<mps_context_has_errors> algo= goal= oprec= fmt= sph= jac= crude= avoid= secdeg=
 * is printed (fields from the private struct mps_context), and after each solve
 *   roots <lineno> <count> phase=<p> err=<0|1>
 *   r <i> <status> <re:hexmant@exp16> <im> <radius mantissa %a> <radius exp2>
 * Values are exported exactly (base-16 mantissa of the mpf, DPE radius as mantissa+exponent).
 */
#include <mps/mps.h>
#include <gmp.h>
#include <stdio.h>
#include <stdlib.h>
#include <string.h>
#include <pthread.h>
#include <malloc.h>
#include <dirent.h>
#include <unistd.h>

size_t __sanitizer_get_current_allocated_bytes (void) __attribute__((weak));
int __lsan_do_recoverable_leak_check (void) __attribute__((weak));

static size_t heap_bytes (void)
{
  if (__sanitizer_get_current_allocated_bytes)
    return __sanitizer_get_current_allocated_bytes ();
  struct mallinfo2 mi = mallinfo2 ();
  return mi.uordblks + mi.hblkhd;
}

size_t __sanitizer_get_allocated_size (const volatile void *p) __attribute__((weak));

/* elements currently allocated for a work array: exact under ASan, usable size (>= requested) otherwise */
static long elems (void *p, size_t el)
{
  if (!p) return 0;
  if (__sanitizer_get_allocated_size) return (long)(__sanitizer_get_allocated_size (p) / el);
  return (long)(malloc_usable_size (p) / el);
}

static int n_threads_now (void)
{
  int k = 0;
  DIR *d = opendir ("/proc/self/task");
  struct dirent *e;
  if (!d) return -1;
  while ((e = readdir (d))) if (e->d_name[0] != '.') k++;
  closedir (d);
  return k;
}

/* ---- guard around GMP's allocations ------------------------------------------------------------
 * libgmp is not instrumented, so a write past the limbs of an mpf_t (e.g. after mpf_set_prec_raw with a
 * precision larger than the allocation) is invisible to ASan.  Every GMP block gets a header and a
 * 16 byte canary behind it; all live blocks are swept after each operation.  VF_GMP_GUARD=0 disables. */
#define VF_MAGIC 0x56464d5047414c4cUL
#define VF_CAN 16
typedef struct vf_hdr { size_t size; unsigned long magic; struct vf_hdr *prev, *next; } vf_hdr;
static vf_hdr vf_head = { 0, 0, &vf_head, &vf_head };
static pthread_mutex_t vf_mx = PTHREAD_MUTEX_INITIALIZER;
static long vf_size_mismatch = 0;

static void *vf_alloc (size_t n)
{
  vf_hdr *h = malloc (sizeof (vf_hdr) + n + VF_CAN);
  if (!h) abort ();
  h->size = n; h->magic = VF_MAGIC;
  memset ((char *)(h + 1) + n, 0xA5, VF_CAN);
  pthread_mutex_lock (&vf_mx);
  h->next = vf_head.next; h->prev = &vf_head; vf_head.next->prev = h; vf_head.next = h;
  pthread_mutex_unlock (&vf_mx);
  return h + 1;
}

static int vf_canary_ok (vf_hdr *h)
{
  unsigned char *c = (unsigned char *)(h + 1) + h->size; int i;
  for (i = 0; i < VF_CAN; i++) if (c[i] != 0xA5) return 0;
  return 1;
}

void __sanitizer_print_stack_trace (void) __attribute__((weak));
static volatile int vf_lineno = 0;

static void vf_report (const char *when, vf_hdr *h)
{
  printf ("gmpguard %d %s block_size=%zu\n", vf_lineno, when, h->size);
  fprintf (stderr, "ERROR: GmpGuard: overflow-past-gmp-block\n");
  if (__sanitizer_print_stack_trace) __sanitizer_print_stack_trace ();
  fflush (stdout);
  _exit (96);
}

static void vf_free (void *q, size_t given)
{
  vf_hdr *h = (vf_hdr *)q - 1;
  if (h->magic != VF_MAGIC) { printf ("gmpguard bad-pointer given=%zu\n", given); fflush (stdout); _exit (96); }
  if (h->size != given) __sync_fetch_and_add (&vf_size_mismatch, 1);
  if (!vf_canary_ok (h)) vf_report ("at-free", h);
  pthread_mutex_lock (&vf_mx);
  h->prev->next = h->next; h->next->prev = h->prev;
  pthread_mutex_unlock (&vf_mx);
  h->magic = 0;
  free (h);
}

static void *vf_realloc (void *q, size_t old, size_t n)
{
  vf_hdr *h = (vf_hdr *)q - 1;
  void *r = vf_alloc (n);
  if (h->magic == VF_MAGIC) memcpy (r, q, h->size < n ? h->size : n);
  vf_free (q, old);
  return r;
}

static void vf_sweep (int lineno)
{
  vf_hdr *h;
  pthread_mutex_lock (&vf_mx);
  for (h = vf_head.next; h != &vf_head; h = h->next)
    if (!vf_canary_ok (h)) { printf ("gmpguard %d after-op block_size=%zu\n", lineno, h->size); fflush (stdout); _exit (96); }
  pthread_mutex_unlock (&vf_mx);
}

#define MAXPOLY 4096
static mps_context *ctx = NULL;
static mps_polynomial *polys[MAXPOLY];
static int npolys = 0;
static int have_poly = 0;       /* the active polynomial of ctx is alive */

static pthread_mutex_t cb_m = PTHREAD_MUTEX_INITIALIZER;
static pthread_cond_t cb_c = PTHREAD_COND_INITIALIZER;
static int cb_count = 0;

static void *on_done (mps_context *s, void *ud)
{
  pthread_mutex_lock (&cb_m);
  cb_count++;
  pthread_cond_broadcast (&cb_c);
  pthread_mutex_unlock (&cb_m);
  return NULL;
}

static void print_mpf (mpf_t x)
{
  mp_exp_t e;
  char *s = mpf_get_str (NULL, &e, 16, 0, x);
  printf (" %s@%ld", s[0] ? s : "0", (long)e);
  { void (*fr)(void *, size_t); mp_get_memory_functions (NULL, NULL, &fr); fr (s, strlen (s) + 1); }
}

static void dump_roots (int lineno)
{
  int i, n = mps_context_get_degree (ctx);
  if (!ctx->initialized || ctx->root == NULL)
    {
      printf ("roots %d -1 phase=%d err=%d\n", lineno, (int)ctx->lastphase, (int)mps_context_has_errors (ctx));
      return;
    }
  mpc_t *roots = NULL; rdpe_t *rad = NULL;
  mps_context_get_roots_m (ctx, &roots, &rad);
  printf ("roots %d %d phase=%d err=%d\n", lineno, n, (int)ctx->lastphase, (int)mps_context_has_errors (ctx));
  for (i = 0; i < n; i++)
    {
      printf ("r %d %d", i, (int)mps_context_get_root_status (ctx, i));
      print_mpf (mpc_Re (roots[i]));
      print_mpf (mpc_Im (roots[i]));
      printf (" %a %ld\n", rdpe_Mnt (rad[i]), (long)rdpe_Esp (rad[i]));
    }
  mpc_vclear (roots, n); free (roots); free (rad);
}

static void free_polys (void)
{
  int i;
  for (i = 0; i < npolys; i++)
    if (polys[i]) { mps_polynomial_free (ctx, polys[i]); polys[i] = NULL; }
  npolys = 0;
  have_poly = 0;
}

static void keep (mps_polynomial *p)
{
  if (npolys < MAXPOLY) polys[npolys++] = p;
}

int main (int argc, char **argv)
{
  char *line = NULL; size_t cap = 0; ssize_t len;
  int lineno = 0;
  setvbuf (stdout, NULL, _IOLBF, 0);
  int guard = !(getenv ("VF_GMP_GUARD") && getenv ("VF_GMP_GUARD")[0] == '0');
  if (guard) mp_set_memory_functions (vf_alloc, vf_realloc, vf_free);
  while ((len = getline (&line, &cap, stdin)) > 0)
    {
      lineno++; vf_lineno = lineno;
      while (len > 0 && (line[len - 1] == '\n' || line[len - 1] == '\r')) line[--len] = 0;
      if (!len || line[0] == '#') continue;
      char op[32] = ""; int off = 0;
      sscanf (line, "%31s %n", op, &off);
      char *rest = line + off;
      const char *note = "";

      if (!strcmp (op, "new"))
        {
          if (ctx) { note = "ignored"; }
          else { ctx = mps_context_new (); have_poly = 0; }
        }
      else if (!strcmp (op, "leakcheck"))
        {
          int l = __lsan_do_recoverable_leak_check ? __lsan_do_recoverable_leak_check () : -1;
          printf ("leak %d %d\n", lineno, l);
        }
      else if (!strcmp (op, "mark")) { }
      else if (!ctx) { note = "noctx"; }
      else if (!strcmp (op, "threads"))
        mps_thread_pool_set_concurrency_limit (ctx, NULL, atoi (rest));
      else if (!strcmp (op, "algo"))
        mps_context_select_algorithm (ctx, rest[0] == 's' ? MPS_ALGORITHM_SECULAR_GA : MPS_ALGORITHM_STANDARD_MPSOLVE);
      else if (!strcmp (op, "goal"))
        mps_context_set_output_goal (ctx, rest[0] == 'a' ? MPS_OUTPUT_GOAL_APPROXIMATE :
                                     rest[0] == 'c' ? MPS_OUTPUT_GOAL_COUNT : MPS_OUTPUT_GOAL_ISOLATE);
      else if (!strcmp (op, "prec"))
        mps_context_set_output_prec (ctx, atol (rest));
      else if (!strcmp (op, "setdeg"))
        {
          int k = atoi (rest);
          if (k != ctx->n) have_poly = 0;
          mps_context_set_degree (ctx, k);
        }
      else if (!strcmp (op, "format"))
        mps_context_set_output_format (ctx, (mps_output_format) atoi (rest));
      else if (!strcmp (op, "startphase"))
        mps_context_set_starting_phase (ctx, (mps_phase) atoi (rest));
      else if (!strcmp (op, "jacobi"))
        mps_context_set_jacobi_iterations (ctx, atoi (rest) != 0);
      else if (!strcmp (op, "crude"))
        mps_context_set_crude_approximation_mode (ctx, atoi (rest) != 0);
      else if (!strcmp (op, "avoidmp"))
        mps_context_set_avoid_multiprecision (ctx, atoi (rest) != 0);
      else if (!strcmp (op, "abort"))
        mps_context_abort (ctx);
      else if (!strcmp (op, "poly"))
        {
          char kind = rest[0];
          char *p = rest + 1;
          long inprec = -1;
          mps_polynomial *P = NULL;
          if (kind == 'm')
            {
              long deg = strtol (p, &p, 10), i;
              mps_monomial_poly *mp = mps_monomial_poly_new (ctx, deg);
              for (i = 0; i <= deg; i++)
                {
                  long c = strtol (p, &p, 10);
                  if (c) mps_monomial_poly_set_coefficient_int (ctx, mp, i, c, 0);
                }
              P = MPS_POLYNOMIAL (mp);
            }
          else if (kind == 's')
            {
              long n = strtol (p, &p, 10), i;
              cplx_t *a = cplx_valloc (n), *b = cplx_valloc (n);
              for (i = 0; i < n; i++)
                {
                  long ai = strtol (p, &p, 10), bi = strtol (p, &p, 10);
                  cplx_set_d (a[i], (double)ai, 0.0);
                  cplx_set_d (b[i], (double)bi, 0.0);
                }
              P = MPS_POLYNOMIAL (mps_secular_equation_new (ctx, a, b, n));
              cplx_vfree (a); cplx_vfree (b);
            }
          else if (kind == 'r')
            {
              /* prod (x - r_i), integer roots (repetitions give multiple roots), built exactly */
              long n = strtol (p, &p, 10), i, j, dg = 0;
              mpz_t *c = malloc (sizeof (mpz_t) * (n + 1)), tt;
              mpq_t re, im;
              for (i = 0; i <= n; i++) mpz_init (c[i]);
              mpz_init (tt); mpq_init (re); mpq_init (im);
              mpz_set_ui (c[0], 1);
              for (i = 0; i < n; i++)
                {
                  long r = strtol (p, &p, 10);
                  mpz_set (c[dg + 1], c[dg]);
                  for (j = dg; j >= 1; j--) { mpz_mul_si (tt, c[j], r); mpz_sub (c[j], c[j - 1], tt); }
                  mpz_mul_si (tt, c[0], r); mpz_neg (c[0], tt);
                  dg++;
                }
              mps_monomial_poly *mp = mps_monomial_poly_new (ctx, n);
              for (i = 0; i <= n; i++) { mpq_set_z (re, c[i]); mps_monomial_poly_set_coefficient_q (ctx, mp, i, re, im); }
              for (i = 0; i <= n; i++) mpz_clear (c[i]);
              free (c); mpz_clear (tt); mpq_clear (re); mpq_clear (im);
              P = MPS_POLYNOMIAL (mp);
            }
          else if (kind == 'p')
            {
              while (*p == ' ') p++;
              P = mps_parse_inline_poly_from_string (ctx, p);
            }
          else if (kind == 'd')
            {
              long deg = strtol (p, &p, 10), i;
              inprec = strtol (p, &p, 10);
              mps_monomial_poly *mp = mps_monomial_poly_new (ctx, deg);
              for (i = 0; i <= deg; i++)
                {
                  double c = strtod (p, &p);
                  mps_monomial_poly_set_coefficient_d (ctx, mp, i, c, 0.0);
                }
              P = MPS_POLYNOMIAL (mp);
            }
          else if (kind == 'c')
            {
              long deg = strtol (p, &p, 10), i;
              mps_chebyshev_poly *cp = mps_chebyshev_poly_new (ctx, deg, MPS_STRUCTURE_REAL_INTEGER);
              for (i = 0; i <= deg; i++)
                {
                  long c = strtol (p, &p, 10);
                  mps_chebyshev_poly_set_coefficient_i (ctx, cp, i, c, 0);
                }
              P = MPS_POLYNOMIAL (cp);
            }
          else if (kind == 'f')
            {
              /* .pol text through mps_parse_string; "\n" in the script stands for a newline */
              char *q, *w;
              while (*p == ' ') p++;
              for (q = w = p; *q; q++)
                if (q[0] == '\\' && q[1] == 'n') { *w++ = '\n'; q++; }
                else *w++ = *q;
              *w = 0;
              P = mps_parse_string (ctx, p);
            }
          if (P)
            {
              keep (P);
              mps_context_set_input_poly (ctx, P);
              if (inprec >= 0) mps_context_set_input_prec (ctx, inprec);
              have_poly = !mps_context_has_errors (ctx) || ctx->active_poly == P;
            }
          else note = "nopoly";
        }
      else if (!strcmp (op, "bad"))
        {
          mps_polynomial *P = mps_parse_inline_poly_from_string (ctx, rest);
          if (P) { keep (P); note = "parsed"; }
        }
      else if (!strcmp (op, "solve"))
        {
          if (!have_poly) note = "skipped";
          else { mps_mpsolve (ctx); dump_roots (lineno); }
        }
      else if (!strcmp (op, "solve_async"))
        {
          if (!have_poly) note = "skipped";
          else
            {
              pthread_mutex_lock (&cb_m);
              int before = cb_count;
              pthread_mutex_unlock (&cb_m);
              mps_mpsolve_async (ctx, on_done, NULL);
              pthread_mutex_lock (&cb_m);
              while (cb_count == before) pthread_cond_wait (&cb_c, &cb_m);
              pthread_mutex_unlock (&cb_m);
              dump_roots (lineno);
            }
        }
      else if (!strcmp (op, "get_roots"))
        {
          if (!ctx->initialized) note = "skipped";
          else
            {
              int n = mps_context_get_degree (ctx), i, z = mps_context_get_zero_roots (ctx);
              cplx_t *r = NULL; double *rad = NULL;
              mps_context_get_roots_d (ctx, &r, &rad);
              double acc = 0; for (i = 0; i < n; i++) acc += rad[i] + cplx_Re (r[i]);
              free (r); free (rad);
              mps_approximation **ap = mps_context_get_approximations (ctx);
              if (ap)
                {
                  for (i = 0; i < n + z; i++) mps_approximation_free (ctx, ap[i]);
                  free (ap);
                }
              printf ("got %d %d %d %s\n", lineno, n, z, acc == acc ? "num" : "nan");
            }
        }
      else if (!strcmp (op, "free_poly"))
        free_polys ();
      else if (!strcmp (op, "free"))
        {
          mps_context *c = ctx;
          /* polynomials first need the context for their free method */
          free_polys ();
          mps_context_free (c);
          ctx = NULL;
          /* the pool's worker threads end asynchronously: give them time before counting */
          { int k; for (k = 0; k < 2000 && n_threads_now () > 1; k++) usleep (500); }
        }
      else note = "unknown";

      if (guard) vf_sweep (lineno);
      if (ctx && ctx->initialized)
        printf ("sz %d %d %ld,%ld,%ld,%ld,%ld,%ld,%ld,%ld,%ld,%ld,%ld,%ld\n", lineno, __sanitizer_get_allocated_size ? 1 : 0,
                elems (ctx->root, sizeof (mps_approximation *)), elems (ctx->order, sizeof (int)), elems (ctx->fppc1, sizeof (cplx_t)),
                elems (ctx->mfpc1, sizeof (mpc_t)), elems (ctx->mfppc1, sizeof (mpc_t)), elems (ctx->spar1, sizeof (mps_boolean)),
                elems (ctx->again_old, sizeof (mps_boolean)), elems (ctx->fap1, sizeof (double)), elems (ctx->fap2, sizeof (double)),
                elems (ctx->dap1, sizeof (rdpe_t)), elems (ctx->dpc1, sizeof (cdpe_t)), elems (ctx->dpc2, sizeof (cdpe_t)));
      if (ctx)
        printf ("fl %d over=%d phase=%d haserr=%d algo=%d goal=%d oprec=%ld fmt=%d sph=%d jac=%d crude=%d avoid=%d secdeg=%d\n", lineno,
                (int)mps_context_get_over_max (ctx), (int)ctx->lastphase, (int)mps_context_has_errors (ctx),
                ctx->algorithm == MPS_ALGORITHM_SECULAR_GA, (int)ctx->output_config->goal, (long)ctx->output_config->prec,
                (int)ctx->output_config->format, (int)ctx->input_config->starting_phase, (int)ctx->jacobi_iterations,
                (int)ctx->crude_approximation_mode, (int)ctx->avoid_multiprecision,
                ctx->secular_equation ? MPS_POLYNOMIAL (ctx->secular_equation)->degree : -1);
      if (ctx)
        printf ("st %d %s ctx=1 init=%d n=%d deg=%d zr=%d err=%d exitreq=%d sec=%d bmpc=%d heap=%zu thr=%d %s\n",
                lineno, op, (int)ctx->initialized, ctx->n, ctx->deg, ctx->zero_roots, (int)ctx->error_state,
                (int)ctx->exit_required, ctx->secular_equation != NULL, ctx->bmpc != NULL,
                heap_bytes (), n_threads_now (), note);
      else
        printf ("st %d %s ctx=0 init=0 n=0 deg=0 zr=0 err=0 exitreq=0 sec=0 bmpc=0 heap=%zu thr=%d %s\n",
                lineno, op, heap_bytes (), n_threads_now (), note);
    }
  free (line);
  printf ("end cb=%d gmp_size_mismatch=%ld\n", cb_count, vf_size_mismatch);
  return 0;
}
