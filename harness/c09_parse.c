/* C09 harness: run MPSolve's parsers / tokenizer pieces on arbitrary bytes, one
 * forked child per case (ASan+UBSan build, 5 s CPU limit + 60 s wall alarm), and print one canonical
 * outcome line per case.
 *
 *   c09_parse batch <listfile> <tmpdir>
 *       listfile: one case per line "<mode> <path>"
 *       output  : "CASE <i> <mode> | <status> | <payload>"
 *         status : OK | TIMEOUT | SIG <n> | SAN <summary> | EXIT <n>
 *         payload: the single line printed by the child (see below)
 *   c09_parse one <mode> <path>       (no fork, for debugging)
 *
 * modes and child payload
 *   string | stream | file | inline   whole parsers:
 *        POLY <type> deg=<d> structure=<n> density=<n> prec=<p>   poly returned, flag clear
 *        ERR <escaped message>                                NULL returned, flag set
 *        BAD null-without-flag | BAD poly-with-flag <msg> | BAD flag-without-message
 *   tokmem | tokfile    mps_input_buffer_next_token until NULL:  TOKENS <n> <hex>,<hex>...
 *   optline             mps_parse_option_line on the bytes (one line containing ';'):
 *        OPT flag=<NAME> value=<hex|-> err=<0|1> msg=<escaped>
 *   skipc               mps_skip_comments on a FILE*:  SKIP pos=<offset of next unread byte>
 *   fmt                 mps_raise_parsing_error(ctx, buffer(line 7), token=<bytes>, "C09MSG"):
 *        MSG <escaped message>
 *   gmp                 what GMP and glibc do with the bytes as one token (tie of coq/ParseTotal/Gmp621.v):
 *        GMP f=<mpf_set_str==0> q=<mpq_set_str==0> num=<n> den=<d> d=<sscanf %d|-> ld=<sscanf %ld|-> atoi=<n> mul=<(long)(atoi*LOG2_10)>
 *            pl=<v|-> pd=<v|-> pp=<v|-> pq=<v|-> mulq=<(long)(pq*LOG2_10)|-> pn=<v|->
 *        the second line of fields only with -DC09_HAVE_PARSE_LONG (the check defines it when common/utils.c has
 *        mps_utils_parse_long): the value it stores, or '-' when it refuses, for the five ranges used by the parsers:
 *        pl LONG_MIN..LONG_MAX (sparse indices), pd 1..INT_MAX-1 (Degree=), pp 1..INT_MAX (Precision=),
 *        pq LONG_MIN..LONG_MAX/4 (2.x precision word; mulq = that long times LOG2_10, as `prec *= LOG2_10`),
 *        pn 0..INT_MAX-1 (2.x degree word)
 */
#define _GNU_SOURCE
#include <mps/mps.h>
#include <stdio.h>
#include <stdlib.h>
#include <string.h>
#include <unistd.h>
#include <signal.h>
#include <sys/wait.h>
#include <sys/types.h>
#include <sys/stat.h>
#include <fcntl.h>
#include <ctype.h>
#include <limits.h>
#include <sys/resource.h>

#define C09_ALARM 5

static FILE *RES;   /* outcome line; libmps (flex ECHO, debug) may write to stdout itself */

static unsigned char *
read_all (const char *path, size_t *len)
{
  FILE *f = fopen (path, "rb");
  if (!f) { perror (path); exit (3); }
  fseek (f, 0, SEEK_END);
  long n = ftell (f);
  fseek (f, 0, SEEK_SET);
  unsigned char *b = malloc ((size_t)n + 1);
  if (n > 0 && fread (b, 1, (size_t)n, f) != (size_t)n) { perror ("fread"); exit (3); }
  b[n] = 0;
  fclose (f);
  *len = (size_t)n;
  return b;
}

static void
put_escaped (FILE *o, const char *s)
{
  const unsigned char *p = (const unsigned char *)s;
  for (; *p; p++)
    {
      if (*p < 0x20 || *p > 0x7e || *p == '\\')
        fprintf (o, "\\x%02x", *p);
      else
        fputc (*p, o);
    }
}

static void
put_hex (FILE *o, const char *s, size_t n)
{
  size_t i;
  if (n == 0) fputc ('.', o);   /* empty string */
  for (i = 0; i < n; i++) fprintf (o, "%02x", (unsigned char)s[i]);
}

static const char *
flag_name (mps_option_key k)
{
  switch (k)
    {
    case MPS_FLAG_UNDEFINED: return "UNDEFINED";
    case MPS_FLAG_INTEGER: return "INTEGER";
    case MPS_FLAG_REAL: return "REAL";
    case MPS_FLAG_COMPLEX: return "COMPLEX";
    case MPS_FLAG_RATIONAL: return "RATIONAL";
    case MPS_FLAG_FP: return "FP";
    case MPS_FLAG_SECULAR: return "SECULAR";
    case MPS_FLAG_MONOMIAL: return "MONOMIAL";
    case MPS_FLAG_DENSE: return "DENSE";
    case MPS_FLAG_SPARSE: return "SPARSE";
    case MPS_KEY_DEGREE: return "DEGREE";
    case MPS_KEY_PRECISION: return "PRECISION";
    case MPS_FLAG_CHEBYSHEV: return "CHEBYSHEV";
    default: return "OTHER";
    }
}

static FILE *
file_of_bytes (const unsigned char *b, size_t n)
{
  FILE *f = tmpfile ();
  if (!f) { perror ("tmpfile"); exit (3); }
  if (n) fwrite (b, 1, n, f);
  fflush (f);
  rewind (f);
  return f;
}

static void
report_parse (mps_context *ctx, mps_polynomial *p)
{
  int flag = mps_context_has_errors (ctx);
  char *msg = flag ? mps_context_error_msg (ctx) : NULL;

  if (p && !flag)
    fprintf (RES, "POLY %s deg=%d structure=%d density=%d prec=%ld\n", p->type_name ? p->type_name : "?", p->degree,
            (int)p->structure, (int)p->density, p->prec);
  else if (!p && flag && msg)
    {
      fprintf (RES, "ERR ");
      put_escaped (RES, msg);
      fprintf (RES, "\n");
    }
  else if (!p && flag)
    fprintf (RES, "BAD flag-without-message\n");
  else if (!p)
    fprintf (RES, "BAD null-without-flag\n");
  else
    {
      fprintf (RES, "BAD poly-with-flag ");
      if (msg) put_escaped (RES, msg);
      fprintf (RES, "\n");
    }
}

static int
run_case (const char *mode, const char *path)
{
  size_t n;
  unsigned char *bytes = read_all (path, &n);
  mps_context *ctx = mps_context_new ();

  if (!strcmp (mode, "string"))
    {
      report_parse (ctx, mps_parse_string (ctx, (const char *)bytes));
    }
  else if (!strcmp (mode, "stream"))
    {
      FILE *f = file_of_bytes (bytes, n);
      report_parse (ctx, mps_parse_stream (ctx, f));
      fclose (f);
    }
  else if (!strcmp (mode, "file"))
    {
      report_parse (ctx, mps_parse_file (ctx, path));
    }
  else if (!strcmp (mode, "inline"))
    {
      report_parse (ctx, mps_parse_inline_poly_from_string (ctx, (const char *)bytes));
    }
  else if (!strcmp (mode, "tokmem") || !strcmp (mode, "tokfile"))
    {
      mps_abstract_input_stream *st;
      FILE *f = NULL;
      char *copy = NULL;
      if (!strcmp (mode, "tokmem"))
        {
          copy = strdup ((const char *)bytes);
          st = (mps_abstract_input_stream *)mps_memory_file_stream_new (copy);
        }
      else
        {
          f = file_of_bytes (bytes, n);
          st = (mps_abstract_input_stream *)mps_file_input_stream_new (f);
        }
      mps_input_buffer *buf = mps_input_buffer_new (st);
      char *tok;
      long cnt = 0;
      /* two passes would need a rewind; collect into a growing string instead */
      size_t cap = 1 << 16, used = 0;
      char *out = malloc (cap);
      out[0] = 0;
      while (cnt < 200000 && (tok = mps_input_buffer_next_token (buf)) != NULL)
        {
          size_t l = strlen (tok), i;
          if (used + 2 * l + 8 > cap) { cap = 2 * (cap + 2 * l + 8); out = realloc (out, cap); }
          if (cnt) out[used++] = ',';
          if (l == 0) out[used++] = '.';
          for (i = 0; i < l; i++) used += (size_t)sprintf (out + used, "%02x", (unsigned char)tok[i]);
          out[used] = 0;
          free (tok);
          cnt++;
        }
      fprintf (RES, "TOKENS %ld %s\n", cnt, out);
      mps_input_buffer_free (buf);
    }
  else if (!strcmp (mode, "optline"))
    {
      size_t l = strlen ((const char *)bytes);
      char *line = malloc (l + 1);      /* exact size: line[-1] and line[l+1] are outside */
      memcpy (line, bytes, l + 1);
      if (!strchr (line, ';'))
        fprintf (RES, "NOSEMI\n");
      else
        {
          mps_input_option o = mps_parse_option_line (ctx, line, l);
          int flag = mps_context_has_errors (ctx);
          fprintf (RES, "OPT flag=%s value=", flag_name (o.flag));
          if (o.value) put_hex (RES, o.value, strlen (o.value)); else fprintf (RES, "-");
          fprintf (RES, " err=%d msg=", flag);
          if (flag) { char *m = mps_context_error_msg (ctx); if (m) put_escaped (RES, m); }
          fprintf (RES, "\n");
        }
    }
  else if (!strcmp (mode, "skipc"))
    {
      FILE *f = file_of_bytes (bytes, n);
      mps_skip_comments (f);
      fprintf (RES, "SKIP pos=%ld\n", ftell (f));
      fclose (f);
    }
  else if (!strcmp (mode, "fmt"))
    {
      mps_input_buffer fake;
      memset (&fake, 0, sizeof fake);
      fake.line_number = 7;
      mps_raise_parsing_error (ctx, &fake, (const char *)bytes, "C09MSG");
      char *m = mps_context_error_msg (ctx);
      fprintf (RES, "MSG ");
      if (m) put_escaped (RES, m);
      fprintf (RES, "\n");
    }
  else if (!strcmp (mode, "gmp"))
    {
      const char *t = (const char *)bytes;
      mpf_t f; mpq_t q;
      int d = 0; long ld = 0;
      mpf_init2 (f, 64); mpq_init (q);
      int rf = mpf_set_str (f, t, 10);
      int rq = mpq_set_str (q, t, 10);
      fprintf (RES, "GMP f=%d q=%d", rf == 0, rq == 0);
      if (rq == 0) gmp_fprintf (RES, " num=%Zd den=%Zd", mpq_numref (q), mpq_denref (q));
      else fprintf (RES, " num=- den=-");
      if (sscanf (t, "%d", &d) == 1) fprintf (RES, " d=%d", d); else fprintf (RES, " d=-");
      if (sscanf (t, "%ld", &ld) == 1) fprintf (RES, " ld=%ld", ld); else fprintf (RES, " ld=-");
      { int a = atoi (t); long m = a * LOG2_10; fprintf (RES, " atoi=%d mul=%ld", a, m); }
#ifdef C09_HAVE_PARSE_LONG
      {
        static const char *nm[5] = { "pl", "pd", "pp", "pq", "pn" };
        const long lo[5] = { LONG_MIN, 1, 1, LONG_MIN, 0 };
        const long hi[5] = { LONG_MAX, INT_MAX - 1, INT_MAX, LONG_MAX / 4, INT_MAX - 1 };
        int k;
        for (k = 0; k < 5; k++)
          {
            long v = 77;          /* left untouched on refusal */
            if (mps_utils_parse_long (t, lo[k], hi[k], &v)) fprintf (RES, " %s=%ld", nm[k], v);
            else if (v == 77) fprintf (RES, " %s=-", nm[k]);
            else fprintf (RES, " %s=touched", nm[k]);
            if (k == 3)
              {
                long q = 77;
                if (mps_utils_parse_long (t, lo[k], hi[k], &q)) { q *= LOG2_10; fprintf (RES, " mulq=%ld", q); }
                else fprintf (RES, " mulq=-");
              }
          }
      }
#endif
      fprintf (RES, "\n");
    }
  else
    {
      fprintf (stderr, "unknown mode %s\n", mode);
      return 3;
    }
  fflush (RES);
  return 0;
}

/* Summarise a sanitizer report: kind, access, first libmps frame. */
static void
summarise_san (const char *errpath, char *out, size_t outsz)
{
  FILE *f = fopen (errpath, "r");
  char line[2048], kind[128] = "?", acc[16] = "-", fn[128] = "?";
  int have_fn = 0, have_kind = 0;
  if (!f) { snprintf (out, outsz, "unreadable"); return; }
  while (fgets (line, sizeof line, f))
    {
      char *p;
      if (!have_kind && (p = strstr (line, "ERROR: AddressSanitizer: ")))
        {
          sscanf (p + 25, "%127s", kind);
          have_kind = 1;
        }
      else if (!have_kind && (p = strstr (line, "runtime error: ")))
        {
          /* UBSan: keep the first three words of the description */
          char a[40] = "", b[40] = "", c[40] = "";
          sscanf (p + 15, "%39s %39s %39s", a, b, c);
          snprintf (kind, sizeof kind, "ubsan-%s-%s-%s", a, b, c);
          { char *q = kind, *w = kind; for (; *q; q++) if (isalnum ((unsigned char)*q) || *q == '-') *w++ = *q; *w = 0; }
          have_kind = 1;
        }
      if (!strncmp (line, "READ of size", 12)) strcpy (acc, "READ");
      if (!strncmp (line, "WRITE of size", 13)) strcpy (acc, "WRITE");
      if (!have_fn && (p = strstr (line, " in ")) && strstr (line, "    #"))
        {
          char name[128];
          if (sscanf (p + 4, "%127s", name) == 1
              && (strstr (line, "src/libmps/") || !strncmp (name, "mps_", 4)
                  || !strncmp (name, "build_equivalent", 16) || !strncmp (name, "yy", 2)))
            {
              strcpy (fn, name);
              have_fn = 1;
            }
        }
    }
  fclose (f);
  snprintf (out, outsz, "%s:%s:%s", kind, acc, fn);
}

int
main (int argc, char **argv)
{
  RES = stdout;
  if (argc >= 4 && !strcmp (argv[1], "one"))
    return run_case (argv[2], argv[3]);

  if (argc < 4 || strcmp (argv[1], "batch"))
    {
      fprintf (stderr, "usage: %s batch <listfile> <tmpdir> | one <mode> <path>\n", argv[0]);
      return 3;
    }

  FILE *lst = fopen (argv[2], "r");
  if (!lst) { perror (argv[2]); return 3; }
  char outp[4096], errp[4096], line[8192];
  snprintf (outp, sizeof outp, "%s/out.%d", argv[3], (int)getpid ());
  snprintf (errp, sizeof errp, "%s/err.%d", argv[3], (int)getpid ());
  long idx = 0;
  while (fgets (line, sizeof line, lst))
    {
      char mode[64], path[4096];
      if (sscanf (line, "%63s %4095s", mode, path) != 2) continue;
      fflush (stdout);
      pid_t pid = fork ();
      if (pid < 0) { perror ("fork"); return 3; }
      if (pid == 0)
        {
          int fo = open (outp, O_WRONLY | O_CREAT | O_TRUNC, 0600);
          int fe = open (errp, O_WRONLY | O_CREAT | O_TRUNC, 0600);
          int dn = open ("/dev/null", O_WRONLY);
          RES = fdopen (fo, "w");
          dup2 (dn, 1); dup2 (fe, 2);
          close (dn); close (fe);
          /* 5 s of CPU time (a loaded machine must not turn into a verdict), 60 s wall as a backstop */
          struct rlimit rl = { C09_ALARM, C09_ALARM + 2 };
          setrlimit (RLIMIT_CPU, &rl);
          alarm (60);
          int rc = run_case (mode, path);
          fflush (RES);
          _exit (rc);
        }
      int st = 0;
      waitpid (pid, &st, 0);
      char status[512], payload[65536];
      payload[0] = 0;
      {
        FILE *fo = fopen (outp, "r");
        if (fo)
          {
            size_t k = fread (payload, 1, sizeof payload - 1, fo);
            payload[k] = 0;
            char *nl = strchr (payload, '\n');
            if (nl) *nl = 0;
            fclose (fo);
          }
      }
      if (WIFSIGNALED (st))
        {
          if (WTERMSIG (st) == SIGALRM || WTERMSIG (st) == SIGXCPU || WTERMSIG (st) == SIGKILL) snprintf (status, sizeof status, "TIMEOUT");
          else
            {
              /* an abort usually comes with a reason on stderr (uncaught C++ exception, GMP) */
              char why[200] = "", l2[1024] = "";
              FILE *fe2 = fopen (errp, "r");
              if (fe2)
                {
                  while (fgets (l2, sizeof l2, fe2))
                    {
                      char *q;
                      if ((q = strstr (l2, "throwing an instance of '")))
                        { snprintf (why, sizeof why, "uncaught-%s", q + 25); }
                      else if ((q = strstr (l2, "what():")) && strlen (why) < 150)
                        { strncat (why, q + 7, 40); }
                      else if (!why[0] && (strstr (l2, "GNU MP") || !strncmp (l2, "gmp:", 4)))
                        { snprintf (why, sizeof why, "%s", l2); }
                    }
                  if (!why[0]) snprintf (why, 60, "%s", l2);     /* last line of stderr */
                  fclose (fe2);
                }
              { char *q = why, *w = why; for (; *q; q++) if (isalnum ((unsigned char)*q) || *q == '-' || *q == '_' || *q == ':') *w++ = *q; *w = 0; }
              snprintf (status, sizeof status, "SIG %d %s", WTERMSIG (st), why[0] ? why : "-");
            }
        }
      else if (WEXITSTATUS (st) == 97 || WEXITSTATUS (st) == 98)
        {
          char sum[400];
          summarise_san (errp, sum, sizeof sum);
          snprintf (status, sizeof status, "SAN %s", sum);
        }
      else if (WEXITSTATUS (st) != 0)
        snprintf (status, sizeof status, "EXIT %d", WEXITSTATUS (st));
      else
        snprintf (status, sizeof status, "OK");
      printf ("CASE %ld %s | %s | %s\n", idx, mode, status, payload);
      idx++;
    }
  unlink (outp); unlink (errp);
  fclose (lst);
  return 0;
}
