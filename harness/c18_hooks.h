/* c18_hooks.h -- C18: makes every access to mps_context.exit_required of a hooked libmps build observable.
 *
 * Force-included (after harness/vf_hooks.h) into every libmps translation unit of the build that checks/C18.py
 * makes with lib_cflags="-include /verif/harness/c18_hooks.h -DVF_C18_TRACE=1" (nothing in /repo is edited), and
 * into the harness harness/c18_sched.c, which defines vf_c18_poll.
 *
 * The field is declared as an array of one mps_boolean (same size, same layout) and every later use
 *     s->exit_required            becomes          s->exit_required_vf[vf_c18_poll (__FILE__, __LINE__)]
 * with vf_c18_poll returning 0: the harness sees file and line of every read (and write) of the flag right
 * before it happens, turns the reads into scheduling points of the deterministic scheduler and records the
 * value that is about to be read.
 */
#if defined(ROBOL_MPSOLVE_VERIF) && defined(VF_C18_TRACE)
#ifndef VF_C18_HOOKS_H
#define VF_C18_HOOKS_H
#ifndef _GNU_SOURCE
#define _GNU_SOURCE 1
#endif
#define exit_required exit_required_vf[1]
#include <mps/mps.h>
#undef exit_required
#ifdef __cplusplus
extern "C" {
#endif
int vf_c18_poll (const char *file, int line);
#ifdef __cplusplus
}
#endif
#define exit_required exit_required_vf[vf_c18_poll (__FILE__, __LINE__)]
#endif
#endif
