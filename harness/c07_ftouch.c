/* C07 harness: mps_ftouchnwt, cplx_sub and cplx_mod of the library on given bit patterns.
 *
 * stdin : <id> <n> <ri> <rj> <xi> <yi> <xj> <yj>     n decimal int, the six doubles as 16 hex digits (IEEE bits)
 * stdout: <id> t=<touch(0,1)><touch(1,0)> mod=<hex> lhs=<hex> guard=<hex>
 *   t     : mps_ftouchnwt (s, frad, n, 0, 1) and (.., 1, 0) with frad = {ri, rj}, root[0]->fvalue = (xi, yi),
 *           root[1]->fvalue = (xj, yj)
 *   mod   : cplx_sub + cplx_mod of the library on the same two values (what the function compares against)
 *   lhs   : n * (frad[0] + frad[1]) and guard : DBL_MAX / (2 * n), evaluated here with the expressions of touch.c
 *           (same compiler, same flags: checks that the build maps double arithmetic to binary64 operations)
 *   a NaN is printed as 7ff8000000000000 (payload and sign of NaN are not modelled)
 */
#include <mps/mps.h>
#include <stdio.h>
#include <stdlib.h>
#include <string.h>
#include <stdint.h>
#include <float.h>
#include <math.h>

static double
bits_d (const char *h)
{
  uint64_t u = strtoull (h, NULL, 16);
  double d;

  memcpy (&d, &u, 8);
  return d;
}

static unsigned long long
d_bits (double d)
{
  uint64_t u;

  if (d != d)
    return 0x7ff8000000000000ULL;
  memcpy (&u, &d, 8);
  return u;
}

int
main (void)
{
  static char line[4096];
  mps_context *s = mps_context_new ();
  mps_monomial_poly *p = mps_monomial_poly_new (s, 2);

  mps_monomial_poly_set_coefficient_int (s, p, 2, 1, 0);
  mps_monomial_poly_set_coefficient_int (s, p, 0, -1, 0);
  mps_context_set_input_poly (s, MPS_POLYNOMIAL (p));
  mps_allocate_data (s);

  while (fgets (line, sizeof (line), stdin))
    {
      char id[64], h[6][32];
      int n;
      double frad[2], x[4];
      volatile double lhs, guard;
      cplx_t ctmp;
      int t01, t10;

      if (sscanf (line, "%63s %d %31s %31s %31s %31s %31s %31s", id, &n, h[0], h[1], h[2], h[3], h[4], h[5]) != 8)
        continue;
      frad[0] = bits_d (h[0]); frad[1] = bits_d (h[1]);
      x[0] = bits_d (h[2]); x[1] = bits_d (h[3]); x[2] = bits_d (h[4]); x[3] = bits_d (h[5]);
      cplx_Re (s->root[0]->fvalue) = x[0]; cplx_Im (s->root[0]->fvalue) = x[1];
      cplx_Re (s->root[1]->fvalue) = x[2]; cplx_Im (s->root[1]->fvalue) = x[3];

      t01 = mps_ftouchnwt (s, frad, n, 0, 1) ? 1 : 0;
      t10 = mps_ftouchnwt (s, frad, n, 1, 0) ? 1 : 0;
      cplx_sub (ctmp, s->root[0]->fvalue, s->root[1]->fvalue);
      guard = DBL_MAX / (2 * n);
      lhs = n * (frad[0] + frad[1]);
      printf ("%s t=%d%d mod=%016llx lhs=%016llx guard=%016llx\n", id, t01, t10,
              d_bits (cplx_mod (ctmp)), d_bits (lhs), d_bits (guard));
    }
  mps_context_free (s);
  return 0;
}
