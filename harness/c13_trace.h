/* C13 tracer: force-included (after vf_hooks.h) when compiling a *copy* of
 * src/libmps/floating-point/mpc.c from the /repo snapshot.  Every mpf primitive that
 * mpc.c calls is renamed to a logging wrapper (defined in harness/c13_tracer.c) which
 * records `op dst src1 src2` by operand address and then calls the real GMP function.
 * Nothing in /repo is edited. */
#ifndef C13_TRACE_H
#define C13_TRACE_H
#include <stdio.h>
#include <stdlib.h>
#include <gmp.h>
#include <mps/mps.h>

void vf_tr_set (mpf_ptr d, mpf_srcptr a);
void vf_tr_neg (mpf_ptr d, mpf_srcptr a);
void vf_tr_abs (mpf_ptr d, mpf_srcptr a);
void vf_tr_sqrt (mpf_ptr d, mpf_srcptr a);
void vf_tr_add (mpf_ptr d, mpf_srcptr a, mpf_srcptr b);
void vf_tr_sub (mpf_ptr d, mpf_srcptr a, mpf_srcptr b);
void vf_tr_mul (mpf_ptr d, mpf_srcptr a, mpf_srcptr b);
void vf_tr_div (mpf_ptr d, mpf_srcptr a, mpf_srcptr b);
void vf_tr_mul_2exp (mpf_ptr d, mpf_srcptr a, mp_bitcnt_t k);
void vf_tr_div_2exp (mpf_ptr d, mpf_srcptr a, mp_bitcnt_t k);
void vf_tr_add_ui (mpf_ptr d, mpf_srcptr a, unsigned long n);
void vf_tr_sub_ui (mpf_ptr d, mpf_srcptr a, unsigned long n);
void vf_tr_ui_sub (mpf_ptr d, unsigned long n, mpf_srcptr a);
void vf_tr_mul_ui (mpf_ptr d, mpf_srcptr a, unsigned long n);
void vf_tr_div_ui (mpf_ptr d, mpf_srcptr a, unsigned long n);
void vf_tr_ui_div (mpf_ptr d, unsigned long n, mpf_srcptr a);
void vf_tr_set_ui (mpf_ptr d, unsigned long n);
void vf_tr_init2 (mpf_ptr d, mp_bitcnt_t p);
void vf_tr_init (mpf_ptr d);
void vf_tr_set_prec (mpf_ptr d, mp_bitcnt_t p);
void vf_tr_clear (mpf_ptr d);
void vf_tr_move (mpf_ptr d, mpf_srcptr a);
void vf_tr_other (const char *what, mpf_ptr d);

#ifndef C13_TRACER_IMPL
#undef mpf_set
#define mpf_set vf_tr_set
#undef mpf_neg
#define mpf_neg vf_tr_neg
#undef mpf_abs
#define mpf_abs vf_tr_abs
#undef mpf_sqrt
#define mpf_sqrt vf_tr_sqrt
#undef mpf_add
#define mpf_add vf_tr_add
#undef mpf_sub
#define mpf_sub vf_tr_sub
#undef mpf_mul
#define mpf_mul vf_tr_mul
#undef mpf_div
#define mpf_div vf_tr_div
#undef mpf_mul_2exp
#define mpf_mul_2exp vf_tr_mul_2exp
#undef mpf_div_2exp
#define mpf_div_2exp vf_tr_div_2exp
#undef mpf_add_ui
#define mpf_add_ui vf_tr_add_ui
#undef mpf_sub_ui
#define mpf_sub_ui vf_tr_sub_ui
#undef mpf_ui_sub
#define mpf_ui_sub vf_tr_ui_sub
#undef mpf_mul_ui
#define mpf_mul_ui vf_tr_mul_ui
#undef mpf_div_ui
#define mpf_div_ui vf_tr_div_ui
#undef mpf_ui_div
#define mpf_ui_div vf_tr_ui_div
#undef mpf_set_ui
#define mpf_set_ui vf_tr_set_ui
#undef mpf_init2
#define mpf_init2 vf_tr_init2
#undef mpf_init
#define mpf_init vf_tr_init
#undef mpf_set_prec
#define mpf_set_prec vf_tr_set_prec
#undef mpf_clear
#define mpf_clear vf_tr_clear
#undef mpf_Move
#define mpf_Move(F1, F2) vf_tr_move ((F1), (F2))
/* primitives mpc.c's arithmetic does not use today: if a traced function starts using
 * one, the trace gets an `Iother` marker, which no exact_* lemma accepts */
#undef mpf_set_d
#define mpf_set_d(D, X) (vf_tr_other ("set_d", (D)), __gmpf_set_d ((D), (X)))
#undef mpf_set_si
#define mpf_set_si(D, X) (vf_tr_other ("set_si", (D)), __gmpf_set_si ((D), (X)))
#endif
#endif
