# /verif top-level: `make setup` builds the Coq development (full .vo build),
# extracts the executable models and compiles their OCaml drivers.  Offline.
SHELL := /bin/bash
JOBS ?= 16
COQ_V := $(shell cd coq && find . -name '*.v' ! -path './scratch/*' | sed 's|^\./||' | LC_ALL=C sort)

.PHONY: setup coq ocaml clean manifest
setup: coq ocaml manifest

coq/_CoqProject: $(addprefix coq/,$(COQ_V)) Makefile
	@( echo "-R . MPSV"; echo "-arg -w -arg -all"; for f in $(COQ_V); do echo $$f; done ) > coq/_CoqProject.new
	@cmp -s coq/_CoqProject.new coq/_CoqProject || mv coq/_CoqProject.new coq/_CoqProject; rm -f coq/_CoqProject.new

coq/Makefile: coq/_CoqProject
	cd coq && coq_makefile -f _CoqProject -o Makefile

coq: coq/Makefile
	mkdir -p ocaml
	cd coq && timeout 3000 $(MAKE) -j$(JOBS) -f Makefile

# every coq/Extract/Extract_<x>.v writes ocaml/<x>.ml(i); ocaml/<x>_driver.ml is hand written
ocaml: coq
	@mkdir -p bin; set -e; for d in ocaml/*_driver.ml; do \
	  [ -e "$$d" ] || continue; x=$$(basename $$d _driver.ml); \
	  if [ ! -e bin/$$x ] || [ ocaml/$$x.ml -nt bin/$$x ] || [ $$d -nt bin/$$x ]; then \
	    echo "ocamlopt $$x"; ( cd ocaml && ocamlfind ocamlopt -O2 -w -a -package str,unix,zarith -linkpkg $$x.mli $$x.ml $${x}_driver.ml -o ../bin/$$x 2>/dev/null || ocamlfind ocamlopt -w -a -package str,unix,zarith -linkpkg $$x.mli $$x.ml $${x}_driver.ml -o ../bin/$$x ); \
	  fi; done

manifest:
	python3 lib/mkmanifest.py

clean:
	-cd coq && [ -f Makefile ] && $(MAKE) -f Makefile cleanall
	rm -f coq/Makefile coq/Makefile.conf coq/_CoqProject ocaml/*.cm* ocaml/*.o bin/*
