"""C04 - radius primitives are rigorous for arbitrary approximations.

The real primitives (mps_polynomial_{f,d,m}newton -> monomial/newton.c, secular/secular-newton.c;
mps_fradii/mps_dradii/mps_mradii, mps_secular_set_radii) are called directly by harness/c04_radius.c on
generated (polynomial, point(s), arithmetic, precision); everything they produce is exported exactly.

Verdicts are decided by the proved-sound root oracle (bin/cert, Properties_ORACLE.v) on the EXACT input:
  * Newton disc D(z, rad), rad finite: oracle upper bound 0 -> VIOLATION (certified root-free disc);
  * cluster radii: a root certainly outside every disc -> VIOLATION; a connected component of k (closed) discs
    that certainly holds a number of roots different from k -> VIOLATION.
  Non-finite radius ("max", inf, nan) is no claim.  Undecided oracle answers are counted.
Formula pinning (tie (i)): in the regime where Horner is exact in 53 bits (small integer coefficients, short
dyadic points) the coded expression of every monomial primitive and of mps_secular_set_radii is recomputed from
the exact p(z), p'(z) (replaying the same double operations, or in exact rationals for the multiprecision
variants) and must agree with the exported radius within a few ulp.  A mismatch that no certified root-free
disc accompanies is reported as broken correspondence.
Theorems: coq/Props/Properties_C04.v (Newton bound, tight family, model soundness, derivative error,
Gerschgorin union for polynomials and secular equations, singleton components)."""
import os, json, math, random, collections
from fractions import Fraction as Fr
import vf, solve as S, polygen as G, e2e
from oracle import Oracle, OracleError, secular_to_monomial, chebyshev_to_monomial

EPS = 2.0 ** -52
FEPS = Fr(1, 1 << 52)
DMIN = 2.0 ** -1022
SQ2 = math.sqrt(2)


# ----------------------------------------------------------------------------- exact helpers
def hq(x):
    x = Fr(x)
    return ("%x/%x" % (x.numerator, x.denominator)) if x >= 0 else ("-%x/%x" % (-x.numerator, x.denominator))


def cmul(a, b): return (a[0] * b[0] - a[1] * b[1], a[0] * b[1] + a[1] * b[0])
def cadd(a, b): return (a[0] + b[0], a[1] + b[1])
def csub(a, b): return (a[0] - b[0], a[1] - b[1])


def peval(p, z):
    acc = (Fr(0), Fr(0))
    for c in reversed(p): acc = cadd(cmul(acc, z), c)
    return acc


def pderiv(p): return [(c[0] * k, c[1] * k) for k, c in enumerate(p)][1:]


def fsqrt(x, bits=120):
    """sqrt of a non-negative Fraction, relative accuracy 2^-bits (rounded down)"""
    if x <= 0: return Fr(0)
    n, d = x.numerator, x.denominator
    k = max(0, bits + 2 - (n.bit_length() + d.bit_length()) // 2)
    return Fr(math.isqrt((n * d) << (2 * k)), d << k)


def cabs(z): return abs(z[0]) if z[1] == 0 else (abs(z[1]) if z[0] == 0 else fsqrt(z[0] * z[0] + z[1] * z[1]))


def is53(x):
    if x == 0: return True
    d = x.denominator
    if d & (d - 1): return False
    n = abs(x.numerator)
    n >>= (n & -n).bit_length() - 1
    return n.bit_length() <= 53 and -1000 < (abs(x.numerator).bit_length() - d.bit_length()) < 1000


def dbl(x):
    """nearest double of a Fraction, as a Fraction (None when out of range)"""
    try: f = float(x)
    except OverflowError: return None
    if math.isinf(f): return None
    return Fr(f)


def cfl(z): return complex(float(z[0]), float(z[1]))


def exact_mul(a, b):
    """complex product if every intermediate of the naive formula is a 53-bit number, else None"""
    t = [a[0] * b[0], a[1] * b[1], a[0] * b[1], a[1] * b[0]]
    r = (t[0] - t[1], t[2] + t[3])
    return r if all(is53(x) for x in t) and is53(r[0]) and is53(r[1]) else None


def exact_horner(p, z):
    """(p(z), p'(z)) by the Horner loops of newton.c if all intermediates are exact in 53 bits, else None"""
    n = len(p) - 1
    if not all(is53(c[0]) and is53(c[1]) for c in p) or not (is53(z[0]) and is53(z[1])): return None
    v = p[n]; d = v
    for i in range(n - 1, 0, -1):
        t = exact_mul(v, z)
        if t is None: return None
        v = cadd(t, p[i])
        t = exact_mul(d, z)
        if t is None: return None
        d = cadd(t, v)
        if not all(is53(x) for x in v + d): return None
    if n >= 1:
        t = exact_mul(v, z)
        if t is None: return None
        v = cadd(t, p[0])
        if not all(is53(x) for x in v): return None
    else:
        d = (Fr(0), Fr(0))
    return v, d


def ulps(a, b):
    """|a-b| in units of the last place of b (doubles given as Fractions); rdpe mantissas have 53 bits too"""
    if a == b: return 0.0
    if b == 0: return float("inf")
    e = e2e._ilog2_floor(abs(b))
    u = Fr(2) ** (e - 52)
    return float(abs(a - b) / u)


# ----------------------------------------------------------------------------- models of the coded radius expressions
def ap_loop(fap, az):
    ap = fap[-1]
    for i in range(len(fap) - 2, -1, -1): ap = ap * az + fap[i]
    return ap


def model_fnewton(p, z):
    """replay of mps_fnewton's radius in doubles from exact p(z), p'(z); None = not in the exact regime / no finite radius"""
    n = len(p) - 1
    fap = [float(cabs(c)) for c in p]
    zc = cfl(z); az = abs(zc)
    eps = 4 * n * EPS
    if az <= 1:
        ex = exact_horner(p, z)
        if ex is None: return None
        pv, dv = ex
        if dv == (0, 0): return None
        ap = ap_loop(fap, az)
        absp = abs(cfl(pv))
        return n * (absp + eps * ap) / abs(cfl(dv)) + DMIN
    d2 = z[0] * z[0] + z[1] * z[1]
    zi = (z[0] / d2, -z[1] / d2)
    if not (is53(zi[0]) and is53(zi[1])) or (z[0] != 0 and z[1] != 0): return None
    ex = exact_horner(list(reversed(p)), zi)
    if ex is None: return None
    pv, dv = ex
    t = exact_mul(dv, zi)
    if t is None: return None
    den = csub((pv[0] * n, pv[1] * n), t)
    den2 = exact_mul(den, zi)
    if den2 is None or den2 == (0, 0) or not all(is53(x) for x in den): return None
    azi = 1.0 / az
    ap = fap[0]
    for i in range(1, n + 1): ap = ap * azi + fap[i]
    absp = abs(cfl(pv))
    return (ap * eps + absp) * n / abs(cfl(den2))


def model_dnewton(p, z):
    n = len(p) - 1
    ex = exact_horner(p, z)
    if ex is None: return None
    pv, dv = ex
    if dv == (0, 0): return None
    fap = [float(cabs(c)) for c in p]
    az = abs(cfl(z)); eps = EPS * n * 4
    ap = ap_loop(fap, az)
    absp = abs(cfl(pv)); apeps = ap * eps
    again = absp > apeps
    rnew = (absp + apeps) / abs(cfl(dv))
    rad = rnew * float(n) if again else rnew * float(n + 1)
    return rad + az * (4 * EPS)


def model_mnewton(p, z, wp, sparse):
    """exact-rational model of mps_mnewton's radius (the code rounds each rdpe operation to 53 bits)"""
    n = len(p) - 1
    pv, dv = peval(p, z), peval(pderiv(p), z)
    if dv == (0, 0): return None
    az = cabs(z)
    ap = sum(cabs(c) * az ** i for i, c in enumerate(p))
    ep = Fr(4 * n) / (Fr(2) ** wp)
    apv = (ap + cabs(pv)) * 4 / (Fr(2) ** wp) if sparse else ap
    apeps = apv * ep
    if pv == (0, 0): return (n + 1) * apeps / cabs(dv)
    again = cabs(pv) > apeps
    return (n if again else n + 1) * (cabs(pv) + apeps) / cabs(dv) + az * ep


def model_fradii(p, zs, i):
    n = len(p) - 1
    z = zs[i]
    ex = exact_horner(p, z)
    if ex is None: return None
    fap = [float(cabs(c)) for c in p]
    ax = abs(cfl(z))
    err = ap_loop(fap, ax) * EPS
    new = abs(cfl(ex[0])) + err + ax * 4.0 * EPS
    new *= n
    for j in range(len(zs)):
        if j == i: continue
        d = csub(z, zs[j])
        if not (is53(d[0]) and is53(d[1])): return None
        new /= abs(cfl(d))
    if new == 0.0: return None
    new /= abs(cfl(p[n]))
    return n * new * (1 + n * EPS * 2.0 * SQ2) + ax * EPS * 2.0 + DMIN


def model_dradii(p, zs, i):
    n = len(p) - 1
    z = zs[i]
    ex = exact_horner(p, z)
    if ex is None: return None
    fap = [float(cabs(c)) for c in p]
    ax = abs(cfl(z))
    err = ap_loop(fap, ax) * EPS
    new = abs(cfl(ex[0])); new += err; new += ax * (4.0 * EPS); new *= n
    for j in range(len(zs)):
        if j == i: continue
        d = csub(z, zs[j])
        if not (is53(d[0]) and is53(d[1])): return None
        new /= abs(cfl(d))
    return new / abs(cfl(p[n]))


def model_mradii(p, zs, i, wp):
    n = len(p) - 1
    z = zs[i]; pv = peval(p, z); az = cabs(z)
    ap = sum(cabs(c) * az ** k for k, c in enumerate(p))
    err = (ap + cabs(pv)) * 4 / (Fr(2) ** wp)
    new = (cabs(pv) + err + az / (Fr(2) ** wp)) * n
    for j in range(len(zs)):
        if j != i: new /= cabs(csub(z, zs[j]))
    return new * Fr(1 + 2 * n * SQ2 * EPS) * n / cabs(p[n])


def model_set_radii(a, b, n, phase, wp):
    e = Fr(1, 1 << wp) if phase == "m" else FEPS
    return cabs(a) * (1 + 4 * n * e) * n + 4 * e * cabs(b) + 4 * Fr(1, 1 << wp) * cabs(b)


# ----------------------------------------------------------------------------- jobs
def strip_zero(coeffs):
    c = list(coeffs)
    while len(c) > 1 and c[0] == (0, 0): c = c[1:]
    return c


def job_of_case(c):
    cc = lambda x: (Fr(x[0]), Fr(x[1]))
    if "sec" in c:
        sec = [(cc(a), cc(b)) for a, b in c["sec"]]
        pl = "P S %d " % len(sec) + " ".join("%s %s %s %s" % (hq(a[0]), hq(a[1]), hq(b[0]), hq(b[1])) for a, b in sec)
        return {"name": c["name"], "cls": c["cls"], "kind": "S", "pline": pl, "sec": sec, "mono": None}
    if "cheb" in c:
        cs = [cc(x) for x in c["cheb"]]
        pl = "P C %d " % (len(cs) - 1) + " ".join("%s %s" % (hq(x[0]), hq(x[1])) for x in cs)
        return {"name": c["name"], "cls": c["cls"], "kind": "C", "pline": pl, "cheb": cs, "mono": None}
    co = [cc(x) for x in c["coeffs"]]
    return mono_job(c["name"], c["cls"], co)


def mono_job(name, cls, co, **kw):
    co = [(Fr(x[0]), Fr(x[1])) if isinstance(x, tuple) else (Fr(x), Fr(0)) for x in co]
    pl = "P M %d " % (len(co) - 1) + " ".join("%s %s" % (hq(x[0]), hq(x[1])) for x in co)
    j = {"name": name, "cls": cls, "kind": "M", "pline": pl, "mono": strip_zero(co)}
    j.update(kw)
    return j


def sec_job(name, cls, sec, **kw):
    sec = [((Fr(a[0]), Fr(a[1])), (Fr(b[0]), Fr(b[1]))) for a, b in sec]
    pl = "P S %d " % len(sec) + " ".join("%s %s %s %s" % (hq(a[0]), hq(a[1]), hq(b[0]), hq(b[1])) for a, b in sec)
    j = {"name": name, "cls": cls, "kind": "S", "pline": pl, "sec": sec, "mono": None}
    j.update(kw)
    return j


def exact_mono(job):
    """exact monomial coefficients of the equation the harness holds (extracted Coq conversions for S / C)"""
    if job["mono"] is not None: return job["mono"]
    if job["kind"] == "S":
        a = [x[0] for x in job["sec"]]; b = [x[1] for x in job["sec"]]
        if len(set(b)) != len(b) or any(x == (0, 0) for x in a): return None
        m = secular_to_monomial(a, b)
    else:
        m = chebyshev_to_monomial(job["cheb"])
    m = [(Fr(x[0]), Fr(x[1])) for x in m]
    while len(m) > 1 and m[-1] == (0, 0): m.pop()
    job["mono"] = m
    return m


def pow2(e): return Fr(2) ** e


def rdir(rng):
    t = rng.random() * 2 * math.pi
    return (Fr(math.cos(t)), Fr(math.sin(t)))


def trunc(x, bits):
    """x rounded to a dyadic with `bits` fractional bits relative to its size"""
    if x == 0: return Fr(0)
    e = e2e._ilog2_floor(abs(x))
    sc = pow2(bits - e)
    return Fr(round(x * sc)) / sc


def ctrunc(z, bits):
    m = max(abs(z[0]), abs(z[1]))
    if m == 0: return z
    e = e2e._ilog2_floor(m)
    sc = pow2(bits - e)
    return (Fr(round(z[0] * sc)) / sc, Fr(round(z[1] * sc)) / sc)


def near(w, k, rng, bits):
    """a point at distance about 2^-k from w, representable with `bits` significant bits when k allows"""
    d = rdir(rng)
    z = (w[0] + d[0] * pow2(-k), w[1] + d[1] * pow2(-k))
    return ctrunc(z, bits)


def gen_points(job, roots, crits, rng, kmax):
    """evaluation points (exact dyadics with at most 53 significant bits): list of (tag, z)"""
    pts = []
    for _ in range(job.get("nrand", 5)):
        e = rng.randint(-60, 60); d = rdir(rng); r = pow2(e) * Fr(1 + rng.random())
        pts.append(("annulus", ctrunc((d[0] * r, d[1] * r), 52)))
    for _ in range(2):
        e = rng.choice([-300, -150, 150, 300]); d = rdir(rng)
        pts.append(("far", ctrunc((d[0] * pow2(e), d[1] * pow2(e)), 52)))
    for z in [(Fr(1), Fr(0)), (Fr(0), Fr(1)), (Fr(-1), Fr(0)), (Fr(0.6), Fr(0.8)), (Fr(1) + FEPS, Fr(0)), (Fr(1) - FEPS / 2, Fr(0))]:
        pts.append(("unit", z))
    for _ in range(3):
        pts.append(("unit", ctrunc(rdir(rng), 52)))
    for w in roots[:6]:
        for k in sorted(set([1, rng.randint(2, 12), rng.randint(13, 30), rng.randint(31, 60)])):
            if k <= kmax: pts.append(("root-2^-%d" % (k // 10 * 10), near(w, k, rng, 52)))
        pts.append(("root-rounded", ctrunc(w, 52)))
    for w in crits[:4]:
        for k in [rng.randint(1, 20), rng.randint(21, 60)]:
            pts.append(("crit-2^-%d" % (k // 10 * 10), near(w, k, rng, 52)))
        pts.append(("crit-rounded", ctrunc(w, 52)))
    for z in job.get("points", []):
        pts.append(("family", (Fr(z[0]), Fr(z[1]))))
    return pts


def gen_mpoints(job, roots, crits, rng, prec, kmax):
    pts = []
    d = rdir(rng); r = pow2(rng.randint(-60, 60))
    pts.append(("annulus", ctrunc((d[0] * r, d[1] * r), prec - 2)))
    pts.append(("unit", ctrunc(rdir(rng), prec - 2)))
    for w in roots[:4]:
        k = rng.randint(2, max(3, min(kmax, prec - 10)))
        pts.append(("root-2^-%d" % (k // 50 * 50), near(w, k, rng, prec - 2)))
    for w in crits[:2]:
        k = rng.randint(2, max(3, min(kmax, prec - 10)))
        pts.append(("crit-2^-%d" % (k // 50 * 50), near(w, k, rng, prec - 2)))
    for z in job.get("mpoints", []):
        pts.append(("family", (Fr(z[0]), Fr(z[1]))))
    return pts


def distinct_sets(job, n, roots, rootmult, rng, kmax):
    """lists of n pairwise distinct approximations (53-bit dyadics)"""
    sets = []
    def uniq(zs):
        return len(set(zs)) == len(zs) and len(zs) == n
    rr = []
    for w, m in zip(roots, rootmult): rr += [w] * m
    rr = rr[:n]
    if len(rr) == n:
        for k in [rng.randint(3, 10), rng.randint(11, 25), rng.randint(26, 50)]:
            if k > kmax: continue
            zs = [near(w, k, rng, 52) for w in rr]
            if uniq(zs): sets.append(("perturbed-roots-2^-%d" % (k // 10 * 10), zs))
        zs = []
        for idx, w in enumerate(rr):
            z = ctrunc(w, 52)
            t = 0
            while z in zs and t < 8:
                z = near(w, 40 - 3 * t, rng, 52); t += 1
            zs.append(z)
        if uniq(zs): sets.append(("rounded-roots", zs))
    zs = [ctrunc((Fr(rng.uniform(-3, 3)), Fr(rng.uniform(-3, 3))), 52) for _ in range(n)]
    if uniq(zs): sets.append(("random", zs))
    if n >= 2:
        zs = list(zs)
        k = rng.randint(20, 45)
        zs[1] = ctrunc((zs[0][0] + pow2(-k), zs[0][1]), 52)
        if uniq(zs): sets.append(("nearly-coincident", zs))
    for zs in job.get("sets", []):
        zs = [(Fr(z[0]), Fr(z[1])) for z in zs]
        if uniq(zs): sets.append(("family", zs))
    return sets


# ----------------------------------------------------------------------------- running one job
def parse_rad_d(tok):
    if tok in ("max", "unset"): return tok
    v = S.fr_of_dhex(tok)
    return "nonfinite" if v is None else v


def parse_rad_r(tok):
    if tok in ("max", "unset"): return tok
    v = S.fr_of_rdpe(tok)
    if v is None or isinstance(v, S.HugeDyadic): return "nonfinite"
    return v


def process(job, harness, env, seed, tier_quick):
    """certify, generate points from the certified roots, run the harness, ask the oracle.  Returns a result dict;
    ctx.violation is called by the caller (main thread)."""
    import time as _t
    t0 = _t.time()
    rng = random.Random(seed)
    res = {"job": job, "calls": [], "sets": [], "why": "", "rc": 0, "err": "", "seed": seed}
    mono = exact_mono(job)
    omono = job.get("oracle_mono") or mono       # the oracle may certify q when the input is c * q(x/s) * s^n (same roots up to the factor s)
    sc = Fr(job.get("oscale", 1))
    depth = job.get("depth", 140)
    orc = None; roots = []; mult = []; crits = []
    if omono is not None and len(omono) >= 2:
        try:
            orc = Oracle(omono)
            if not orc.certify(target_radius_log2=-depth):
                res["why"] = "uncertified:" + str(orc.why)[:60]; orc.close(); orc = None
        except Exception as e:
            res["why"] = "oracle:%r" % (e,); orc = None
    else:
        res["why"] = "no-exact-polynomial"
    if orc is not None:
        roots = [(r["re"], r["im"]) for r in orc.roots]; mult = [r["mult"] for r in orc.roots]
        if len(omono) >= 3 and job["kind"] == "M" and job.get("crit", True):
            try:
                o2 = Oracle(pderiv(omono))
                if o2.certify(target_radius_log2=-70): crits = [(r["re"], r["im"]) for r in o2.roots]
                o2.close()
            except Exception: pass
    kmax = depth - 40
    n = (len(mono) - 1) if mono is not None else (len(job["sec"]) if job["kind"] == "S" else len(job["cheb"]) - 1)
    cmds = []            # (line, meta)
    scz = lambda z: (z[0] * sc, z[1] * sc)
    nofloat = job.get("no_float", False)
    if job.get("fixed_cmds"):
        cmds = [(c, meta_of_cmd(c)) for c in job["fixed_cmds"]]
    elif not job.get("radii_only"):
        for tag, z in gen_points(job, roots, crits, rng, min(kmax, 60)):
            z = scz(z)
            if not nofloat and dbl(z[0]) == z[0] and dbl(z[1]) == z[1]:
                cmds.append(("NF %s %s" % (hq(z[0]), hq(z[1])), {"prim": "fnewton", "tag": tag, "z": z}))
            zz = split_dpe(z)
            cmds.append(("ND %s %d %s %d" % (hq(zz[0]), zz[1], hq(zz[2]), zz[3]), {"prim": "dnewton", "tag": tag, "z": z}))
        for tag, z in job.get("dpoints", []):
            zz = split_dpe(z)
            cmds.append(("ND %s %d %s %d" % (hq(zz[0]), zz[1], hq(zz[2]), zz[3]), {"prim": "dnewton", "tag": tag, "z": z}))
        for prec in job.get("precs", [64]):
            for tag, z in gen_mpoints(job, roots, crits, rng, prec, kmax):
                z = scz(z)
                cmds.append(("NM %d %s %s" % (prec, hq(z[0]), hq(z[1])), {"prim": "mnewton", "tag": tag, "z": z, "prec": prec}))
    if not job.get("newton_only") and not job.get("fixed_cmds"):
        for tag, zs in distinct_sets(job, n, roots, mult, rng, min(kmax, 50))[:job.get("max_sets", 99)]:
            zs = [scz(z) for z in zs]
            flat = " ".join("%s %s" % (hq(z[0]), hq(z[1])) for z in zs)
            if not nofloat: cmds.append(("RF " + flat, {"prim": "fradii", "tag": tag, "zs": zs}))
            cmds.append(("RD " + " ".join("%s %d %s %d" % ((lambda t: (hq(t[0]), t[1], hq(t[2]), t[3]))(split_dpe(z))) for z in zs), {"prim": "dradii", "tag": tag, "zs": zs}))
            for prec in job.get("rprecs", [64]):
                cmds.append(("RM %d " % prec + flat, {"prim": "mradii", "tag": tag, "zs": zs, "prec": prec}))
        if job["kind"] == "S":
            for ph, prec in job.get("sr", [("d", 64), ("m", 128)]):
                cmds.append(("SR %s %d" % (ph, prec), {"prim": "set_radii", "tag": "nodes", "phase": ph, "prec": prec}))
    text = job["pline"] + "\n" + "\n".join(c[0] for c in cmds) + "\n"
    t1 = _t.time()
    rc, out, err = vf.sh([harness], input=text, timeout=300, env=env)
    res["hsecs"] = _t.time() - t1; res["presecs"] = t1 - t0
    res["rc"] = rc; res["err"] = err[-1500:]; res["text"] = text
    lines = out.strip().split("\n") if out.strip() else []
    if rc != 0 or len(lines) != len(cmds) + 1:
        res["why"] += " harness-rc-%d-lines-%d/%d" % (rc, len(lines), len(cmds) + 1)
        if orc: orc.close()
        return res
    hd = lines[0].split()
    res["head"] = {"degree": int(hd[2]), "sparse": hd[3] == "1", "n": int(hd[4]), "zero_roots": int(hd[5])}
    if mono is not None and job["kind"] == "M" and res["head"]["n"] != len(mono) - 1:
        res["why"] += " degree-mismatch";
        if orc: orc.close()
        return res
    p = mono
    sparse = res["head"]["sparse"]
    newton_q = [];
    for (cl, meta), ln in zip(cmds, lines[1:]):
        t = ln.split()
        rec = dict(meta); rec["cmd"] = cl; rec["out"] = ln
        prim = meta["prim"]
        if len(t) >= 2 and t[1] == "NOIMPL":
            rec["noimpl"] = True; res["calls"].append(rec); continue
        if prim == "fnewton":
            rec["again"] = t[1] == "1"; rec["rad"] = parse_rad_d(t[5]); rec["centre"] = meta["z"]
            if job["kind"] == "M" and job.get("pin"):
                m = model_fnewton(p, meta["z"])
                if m is not None and isinstance(rec["rad"], Fr): rec["pin"] = (ulps(rec["rad"], Fr(m)), m)
        elif prim == "dnewton":
            rec["again"] = t[1] == "1"; rec["rad"] = parse_rad_r(t[4]); rec["centre"] = meta["z"]
            if job["kind"] == "M" and job.get("pin"):
                m = model_dnewton(p, meta["z"])
                if m is not None and isinstance(rec["rad"], Fr): rec["pin"] = (ulps(rec["rad"], Fr(m)), m)
        elif prim == "mnewton":
            rec["wp"] = int(t[1]); rec["again"] = t[2] == "1"
            rec["centre"] = (S.fr_of_mpf(t[3])[0], S.fr_of_mpf(t[4])[0]); rec["rad"] = parse_rad_r(t[7])
            if job["kind"] == "M" and job.get("pin") and isinstance(rec["rad"], Fr) and exact_horner(p, rec["centre"]) is not None:
                m = model_mnewton(p, rec["centre"], rec["wp"], sparse)
                if m is not None and m > 0:
                    rel = min(abs(rec["rad"] - m) / m, abs(rec["rad"] - m * (1 + 16 * FEPS)) / m)
                    rec["pin"] = (float(rel * (1 << 53)) / (2 * n + 24) * 8, float(m))     # normalised so that 8 = tolerance
        if prim in ("fnewton", "dnewton", "mnewton"):
            if isinstance(rec["rad"], Fr) and rec["rad"] >= 0:
                newton_q.append(rec)
            res["calls"].append(rec); continue
        # ---- cluster radii
        if prim == "fradii":
            rads = [parse_rad_d(t[1 + 2 * i]) for i in range(n)]; cs = meta["zs"]
        elif prim == "dradii":
            rads = [parse_rad_r(t[1 + i]) for i in range(n)]; cs = meta["zs"]
        elif prim == "mradii":
            rec["wp"] = int(t[1]); rads = [parse_rad_r(t[2 + i]) for i in range(n)]; cs = meta["zs"]
        else:
            rec["wp"] = int(t[1])
            cs = [(S.fr_of_mpf(t[2 + 3 * i])[0], S.fr_of_mpf(t[3 + 3 * i])[0]) for i in range(n)]
            rads = [parse_rad_r(t[4 + 3 * i]) for i in range(n)]
        rec["rads"] = rads; rec["centres"] = cs
        if job.get("pin"):
            pins = []
            for i in range(n):
                if not isinstance(rads[i], Fr): continue
                m = None
                if job["kind"] == "M":
                    if prim == "fradii":
                        m = model_fradii(p, cs, i)
                        if m is not None: pins.append((ulps(rads[i], Fr(m)), m))
                    elif prim == "dradii":
                        m = model_dradii(p, cs, i)
                        if m is not None: pins.append((ulps(rads[i], Fr(m)), m))
                    elif prim == "mradii" and all(exact_horner(p, z) is not None for z in cs):
                        m = model_mradii(p, cs, i, rec["wp"])
                        if m > 0: pins.append((float(abs(rads[i] - m) / m * (1 << 53)) / (2 * n + 24) * 8, float(m)))
                elif prim == "set_radii":
                    a, b = job["sec"][i]
                    if b == cs[i]:
                        m = model_set_radii(a, b, n, meta["phase"], rec["wp"])
                        if m > 0: pins.append((float(abs(rads[i] - m) / m * (1 << 53)) / 24 * 8, float(m)))
            if pins: rec["pins"] = pins
        res["sets"].append(rec)
    # ---- oracle
    if orc is not None:
        try:
            if newton_q:
                ans = e2e.count_discs(orc, [(r["centre"][0] / sc, r["centre"][1] / sc, r["rad"] / sc) for r in newton_q])
                for r, a in zip(newton_q, ans): r["count"] = a
                bad = [r for r in newton_q if r["count"][1] == 0]
                if bad:
                    ans = orc.count([(r["centre"][0] / sc, r["centre"][1] / sc, r["rad"] / sc * (1 + Fr(1, 1 << 44))) for r in bad])
                    for r, a in zip(bad, ans): r["count_inflated"] = a
            for rec in res["sets"]:
                judge_set(orc, rec, n, sc)
        except Exception as e:
            res["why"] += " oracle-query:%r" % (e,)
        orc.close()
    res["secs"] = _t.time() - t0
    return res


def cdivq(a, b):
    d = b[0] * b[0] + b[1] * b[1]
    return ((a[0] * b[0] + a[1] * b[1]) / d, (a[1] * b[0] - a[0] * b[1]) / d)


def mt_cplx_mod(x):
    """cplx_mod of floating-point/mt.c (non-builtin complex): |re| sqrt(1 + (im/re)^2) with the larger component outside"""
    re, im = x.real, x.imag
    if abs(re) > abs(im):
        d = im / re; return abs(re) * math.sqrt(1.0 + d * d)
    if im == 0.0: return 0.0
    d = re / im
    return abs(im) * math.sqrt(1.0 + d * d)


def diagnose_newton(job, rec, p):
    """structural cause of a certified root-free Newton disc, from exact quantities (None = no specific cause recognised)"""
    try:
        z = rec["centre"]; n = len(p) - 1
        eps = Fr(1, 1 << 52) if rec["prim"] != "mnewton" else Fr(2, 1 << rec["wp"])
        dv = peval(pderiv(p), z)
        if dv == (0, 0): return None
        if job["kind"] == "M" and rec["prim"] == "fnewton" and max(abs(cfl(z)), mt_cplx_mod(cfl(z))) > 1:      # the code's branch test, in double (cabs or mt.c's scaled formula, depending on the build)
            # den = (n q(w) - w q'(w)) w with q the reversed polynomial, w = 1/z: the a_0 terms cancel
            kappa = n * cabs(p[0]) / (cabs(z) * cabs(dv))
            if kappa * eps * 64 >= 1: return "reversed-horner-branch:derivative-cancellation"
        if job["kind"] == "S":
            one = (Fr(1), Fr(0))
            S1 = (Fr(0), Fr(0)); sb = (Fr(0), Fr(0)); Sv = (Fr(-1), Fr(0))
            for a, b in job["sec"]:
                d = csub(z, b)
                if d == (0, 0): return None
                t = cdivq(a, d); Sv = cadd(Sv, t); S1 = csub(S1, cdivq(t, d)); sb = cadd(sb, cdivq(one, d))
            den = cadd(S1, cmul(Sv, sb))
            if den != (0, 0):
                kappa = (cabs(S1) + cabs(cmul(Sv, sb))) / cabs(den)
                if kappa * eps * 64 >= 1: return "denominator-cancellation-near-pole"
    except Exception:
        return None
    return None


def meta_of_cmd(c):
    """rebuild the bookkeeping of a stored harness command (replay)"""
    t = c.split(); q = lambda x: Fr(int(x.split("/")[0], 16), int(x.split("/")[1], 16) if "/" in x else 1)
    if t[0] == "NF": return {"prim": "fnewton", "tag": "replay", "z": (q(t[1]), q(t[2]))}
    if t[0] == "ND": return {"prim": "dnewton", "tag": "replay", "z": (q(t[1]) * pow2(int(t[2])), q(t[3]) * pow2(int(t[4])))}
    if t[0] == "NM": return {"prim": "mnewton", "tag": "replay", "prec": int(t[1]), "z": (q(t[2]), q(t[3]))}
    if t[0] == "RF": return {"prim": "fradii", "tag": "replay", "zs": [(q(t[1 + 2 * i]), q(t[2 + 2 * i])) for i in range((len(t) - 1) // 2)]}
    if t[0] == "RD": return {"prim": "dradii", "tag": "replay", "zs": [(q(t[1 + 4 * i]) * pow2(int(t[2 + 4 * i])), q(t[3 + 4 * i]) * pow2(int(t[4 + 4 * i]))) for i in range((len(t) - 1) // 4)]}
    if t[0] == "RM": return {"prim": "mradii", "tag": "replay", "prec": int(t[1]), "zs": [(q(t[2 + 2 * i]), q(t[3 + 2 * i])) for i in range((len(t) - 2) // 2)]}
    if t[0] == "SR": return {"prim": "set_radii", "tag": "replay", "phase": t[1], "prec": int(t[2])}
    raise ValueError("unknown command " + c)


def split_dpe(z):
    """(d_re, e_re, d_im, e_im) with value d * 2^e, d a double"""
    out = []
    for x in z:
        if x == 0: out += [Fr(0), 0]; continue
        e = e2e._ilog2_floor(abs(x))
        if -900 < e < 900: out += [x, 0]
        else: out += [x / pow2(e), e]
    return out


def judge_set(orc, rec, n, sc=Fr(1)):
    rads, cs = rec["rads"], rec["centres"]
    if sc != 1:      # oracle coordinates: everything divided by the (positive) scale; overlaps and inclusions are invariant
        rads = [r / sc if isinstance(r, Fr) else r for r in rads]; cs = [(c[0] / sc, c[1] / sc) for c in cs]
    fin = [i for i in range(n) if isinstance(rads[i], Fr) and rads[i] >= 0]
    rec["verdict"] = "no-claim"
    if not fin: return
    discs = [(cs[i][0], cs[i][1], rads[i]) for i in fin]
    if len(fin) < n:
        # some discs make no claim: the union/count claims are void; each finite disc of set_radii (an isolated
        # singleton of the library's own cluster analysis) still claims a root
        if rec["prim"] == "set_radii":
            ans = e2e.count_discs(orc, discs)
            rec["single"] = [(i, a) for i, a in zip(fin, ans)]
            rec["verdict"] = "singles"
        else:
            rec["verdict"] = "partial-no-claim"
        return
    cov = orc.cover(discs)
    unc = list(getattr(orc, "uncovered", []))
    roots = orc.roots
    if any(unc):
        rec["verdict"] = "uncovered"; ui = [i for i, u in enumerate(unc) if u][0]; rec["uncovered_root"] = ui
        w = (roots[ui]["re"], roots[ui]["im"])
        dmin = min(cabs(csub(w, c)) for c in cs)
        rec["cause"] = "approximation-at-rounded-root" if dmin <= max(cabs(w), Fr(1, 1 << 200)) * Fr(1, 1 << 48) else "general"
        return
    # components of the overlap graph of the closed discs (exact)
    par = list(range(n))
    def find(x):
        while par[x] != x: par[x] = par[par[x]]; x = par[x]
        return x
    for i in range(n):
        for j in range(i + 1, n):
            dx = cs[i][0] - cs[j][0]; dy = cs[i][1] - cs[j][1]; rr = rads[i] + rads[j]
            if dx * dx + dy * dy <= rr * rr: par[find(i)] = find(j)
    comp = collections.defaultdict(list)
    for i in range(n): comp[find(i)].append(i)
    lo = collections.Counter(); undecided = 0
    for ri, lst in enumerate(cov):
        if lst:
            lo[find(lst[0])] += roots[ri]["mult"]
        else:
            undecided += roots[ri]["mult"]
    rec["components"] = sorted(len(v) for v in comp.values())
    bad = None; amb = False
    for k, members in comp.items():
        c = lo[k]
        if c > len(members) or c + undecided < len(members): bad = (members, c, undecided)
        elif c != len(members): amb = True
    if bad is not None:
        rec["verdict"] = "component-count"; rec["bad"] = {"discs": bad[0], "certified_roots": bad[1], "undecided_roots": bad[2]}
    elif amb or undecided:
        rec["verdict"] = "undecided"
    else:
        rec["verdict"] = "ok"


# ----------------------------------------------------------------------------- families
def expand_roots(roots, lead=1):
    p = [(Fr(lead), Fr(0))]
    for z in roots:
        q = [(Fr(0), Fr(0))] * (len(p) + 1)
        for i, c in enumerate(p):
            q[i + 1] = cadd(q[i + 1], c)
            q[i] = csub(q[i], cmul(c, (Fr(z[0]), Fr(z[1]))))
        p = q
    return p


def families(rng, quick):
    jobs = []
    # (x-a)^n at arbitrary z: the Newton bound n|p/p'| = |z-a| is attained
    for n in ([1, 2, 3, 5, 8] if quick else range(1, 13)):
        a = rng.choice([(Fr(1), Fr(0)), (Fr(-3, 4), Fr(1, 2)), (Fr(2), Fr(-1)), (Fr(1, 8), Fr(0))])
        pts = []
        for _ in range(6):
            d = rdir(rng); e = rng.randint(-8, 6)
            pts.append(ctrunc((a[0] + d[0] * pow2(e), a[1] + d[1] * pow2(e)), rng.choice([6, 20, 52])))
        jobs.append(mono_job("tight%d" % n, "(x-a)^n", expand_roots([a] * n), points=pts, mpoints=pts[:3], precs=[64, 256], nrand=2, crit=False))
    # noise search: expanded (x-1)^n, (x^2-1)^k, (x^3-2)^k next to their roots
    for name, rs_or_p in [("(x-1)^4", expand_roots([(1, 0)] * 4)), ("(x-1)^6", expand_roots([(1, 0)] * 6)),
                          ("(x^2-1)^3", [(-1, 0), (0, 0), (3, 0), (0, 0), (-3, 0), (0, 0), (1, 0)]),
                          ("(x^2-2)^2", [(4, 0), (0, 0), (-4, 0), (0, 0), (1, 0)]),
                          ("(x^3-1)^2(x+2)", None)]:
        if rs_or_p is None:
            rs_or_p = [(Fr(2), Fr(0)), (Fr(1), Fr(0)), (Fr(0), Fr(0)), (Fr(-4), Fr(0)), (Fr(-2), Fr(0)), (Fr(0), Fr(0)), (Fr(2), Fr(0)), (Fr(1), Fr(0))]
        pts = []; mp = []
        for _ in range(24 if quick else 80):
            m = rng.randint(8, 20); j = rng.randint(-40, 40) or 1
            pts.append((Fr(1) + Fr(j) * pow2(-m), Fr(rng.randint(-3, 3)) * pow2(-m)))
        for _ in range(8 if quick else 30):
            m = rng.randint(20, 50); j = rng.randint(-40, 40) or 1
            mp.append((Fr(1) + Fr(j) * pow2(-m), Fr(rng.randint(-3, 3)) * pow2(-m)))
        jobs.append(mono_job("noise:" + name, "noise-search", rs_or_p, points=pts, mpoints=mp, precs=[64, 128, 256], nrand=1, crit=False, newton_only=True, depth=200))
    # x^n - n x : critical points are the (n-1)-st roots of unity
    for n in ([3, 5, 9] if quick else [3, 4, 5, 7, 9, 13, 17]):
        co = [(Fr(0), Fr(0))] * (n + 1); co[n] = (Fr(1), Fr(0)); co[1] = (Fr(-n), Fr(0)); co[0] = (Fr(1), Fr(0))     # + 1 keeps zero out
        jobs.append(mono_job("xn-nx+1_%d" % n, "x^n-nx+1", co, precs=[64, 192]))
        co2 = list(co); co2[0] = (Fr(0), Fr(0))
        jobs.append(mono_job("xn-nx_%d" % n, "x^n-nx", co2, precs=[64]))
    # antiderivatives: p' has prescribed rational roots
    for t in range(2 if quick else 8):
        k = rng.randint(2, 5)
        cr = list({(Fr(rng.randint(-8, 8), 4), Fr(rng.randint(-8, 8), 4) if rng.random() < 0.5 else Fr(0)) for _ in range(k)})
        q = expand_roots(cr)
        L = math.lcm(*range(1, len(q) + 1))
        pco = [(Fr(rng.randint(-5, 5) or 1), Fr(0))] + [(c[0] * L / (i + 1), c[1] * L / (i + 1)) for i, c in enumerate(q)]
        pts = [ctrunc((c[0] + pow2(-kk), c[1]), 52) for c in cr for kk in (1, 10, 30, 52)] + cr
        jobs.append(mono_job("antider%d" % t, "antiderivative", pco, points=pts, mpoints=pts[:4], precs=[64, 128]))
    # c (x^n - 1): Gerschgorin discs at (perturbed) exact roots, leading coefficient far from 1
    for n in ([2, 4, 7] if quick else [2, 3, 4, 6, 7, 10, 16]):
        for lc in (pow2(-10), Fr(1), pow2(10)):
            co = [(Fr(0), Fr(0))] * (n + 1); co[0] = (-lc, Fr(0)); co[n] = (lc, Fr(0))
            jobs.append(mono_job("unity%d*2^%d" % (n, e2e._ilog2_floor(lc)), "c(x^n-1)", co, radii_only=True, rprecs=[64, 256]))
    # secular equations whose set_radii discs stay isolated; and the near-tight ones
    for t in range(4 if quick else 16):
        n = rng.randint(2, 6); s = rng.choice([6, 12, 24])
        sec = []
        used = set()
        for i in range(n):
            while True:
                b = (Fr(rng.randint(-40, 40), 4), Fr(rng.randint(-40, 40), 4))
                if b not in used: used.add(b); break
            sec.append(((Fr(rng.randint(1, 30) * rng.choice([-1, 1])) * pow2(-s), Fr(rng.randint(-30, 30)) * pow2(-s)), b))
        jobs.append(sec_job("seciso%d" % t, "secular-isolated", sec, precs=[64], sr=[("d", 64), ("m", 128), ("m", 512)]))
    for t in range(3 if quick else 10):
        B = Fr(rng.randint(2, 9)); s = Fr(rng.randint(10, 19), 100)
        a1 = B * Fr(rng.randint(1, 4), 100)
        sec = [((a1, Fr(0)), (Fr(0), Fr(0))), ((-trunc(s * B, 20), Fr(0)), (B, Fr(0)))]
        jobs.append(sec_job("sectight%d" % t, "secular-near-tight", sec, precs=[64], sr=[("d", 64), ("m", 128)]))
    # secular equations with cancellation in sum a_i/(x-b_i): A/(x-1) - A/(x+1) = 1
    for A in ([10 ** 6, 10 ** 9] if quick else [10 ** 4, 10 ** 6, 10 ** 8, 10 ** 9, 10 ** 11]):
        sec = [((Fr(A), Fr(0)), (Fr(1), Fr(0))), ((Fr(-A), Fr(0)), (Fr(-1), Fr(0)))]
        r = fsqrt(Fr(1 + 2 * A))
        pts = []
        for _ in range(30 if quick else 100):
            pts.append((Fr(float(r)) * (1 + Fr(rng.randint(-4000, 4000)) * FEPS), Fr(0)))
        jobs.append(sec_job("seccancel%d" % A, "secular-cancellation", sec, points=pts, precs=[64], nrand=1, newton_only=True))
    return jobs


def range_jobs(rng, quick):
    """coefficients beyond the double range in both directions (the DPE / multiprecision variants exist for those):
    c * q(x/s) * s^n with c = 2^+-1100 and/or roots scaled by s = 2^+-600; the oracle certifies q (same roots up to s)"""
    jobs = []
    qs = [("3(x^2-1)", [(-3, 0), (0, 0), (3, 0)]),
          ("(x-1)^3(x+2)", expand_roots([(1, 0)] * 3 + [(-2, 0)])),
          ("(2x-1)(x^2+1)(x-3)", expand_roots([(Fr(1, 2), 0), (0, 1), (0, -1), (3, 0)], 2))]
    for t in range(2 if quick else 8):
        qs.append(("randint%d" % t, G.rand_int_poly(rng, rng.randint(2, 6), 6, rng.random() < 0.4)))
    combos = [(1100, 0), (-1100, 0), (0, 600), (0, -600), (1100, -600), (-1100, 600)]
    k = 0
    for name, q in qs:
        q = [(Fr(c[0]), Fr(c[1])) for c in q]
        n = len(q) - 1
        if not quick: sel = combos
        elif k == 0: sel = combos[:4]
        else: sel = [(1100, 0), (0, 600)] if k % 2 else [(-1100, 0), (-1100, 600)]
        for ce, se in sel:
            c = pow2(ce); sc = pow2(se)
            co = [(x[0] * c * sc ** (n - i), x[1] * c * sc ** (n - i)) for i, x in enumerate(q)]
            jobs.append(mono_job("%s*2^%d,roots*2^%d" % (name, ce, se), "beyond-double-range", co, oracle_mono=strip_zero(q), oscale=sc,
                                 no_float=True, precs=[64, 256], rprecs=[64, 256] if se >= 0 else [64], nrand=2, max_sets=6 if se >= 0 else 2))
        k += 1
    return jobs


def pin_jobs(rng, quick):
    """exact regime: small integer coefficients, short dyadic points"""
    jobs = []
    for t in range(6 if quick else 20):
        n = rng.randint(1, 7)
        co = [(Fr(rng.randint(-9, 9)), Fr(0)) for _ in range(n + 1)]
        if co[0][0] == 0: co[0] = (Fr(1), Fr(0))
        if co[n][0] == 0: co[n] = (Fr(3), Fr(0))
        if t % 2 == 0: co[rng.randint(0, n)] = co[rng.randint(0, n)] if n < 2 else co[0]
        pts = [(Fr(rng.randint(-8, 8), 8), Fr(rng.randint(-8, 8), 8) if rng.random() < 0.6 else Fr(0)) for _ in range(10)]
        pts += [(Fr(2), Fr(0)), (Fr(-4), Fr(0)), (Fr(0), Fr(2)), (Fr(0), Fr(-8)), (Fr(1), Fr(0)), (Fr(0), Fr(1))]
        jobs.append(mono_job("pin%d" % t, "pin-newton", co, points=pts, mpoints=pts[:8], precs=[64, 192], nrand=0, pin=True, crit=False, newton_only=True))
    # real-rooted polynomials with small integer roots: evaluation at the roots themselves is exact (p^ = 0)
    for t, rs in enumerate([[1, -1, 2, -2], [1, 2, 3], [1, -1, 2, -2, 3, -3, 4, -4], [1, -1, 2, -2, 3, -3, 4, -4, 5, -5], [2, -3], [1, -2, 3, -4, 5]]):
        lead = rng.choice([1, 3, -2])
        co = expand_roots([(Fr(r), Fr(0)) for r in rs], lead)
        pts = [(Fr(r), Fr(0)) for r in rs] + [(Fr(r) + Fr(1, 4), Fr(0)) for r in rs[:3]]
        sets = [[(Fr(r), Fr(0)) for r in rs], [(Fr(r) + Fr(rng.randint(1, 3), 8), Fr(0)) for r in rs], [(Fr(r), Fr(1, 4)) for r in rs]]
        jobs.append(mono_job("pinroots%d" % t, "pin-roots", co, points=pts, mpoints=pts, precs=[64, 192], rprecs=[64, 192], nrand=0, pin=True, crit=False, sets=sets))
    for t in range(3 if quick else 8):
        n = rng.randint(2, 5); used = set(); sec = []
        for i in range(n):
            while True:
                b = (Fr(rng.randint(-64, 64), 4), Fr(rng.randint(-64, 64), 4) if rng.random() < 0.5 else Fr(0))
                if b not in used: used.add(b); break
            sec.append(((Fr(rng.randint(1, 15) * rng.choice([-1, 1]), 1 << 12), Fr(0)), b))
        jobs.append(sec_job("pinsec%d" % t, "pin-secular", sec, pin=True, radii_only=True, sr=[("d", 64), ("m", 128), ("m", 320)]))
    return jobs


# ----------------------------------------------------------------------------- main
PRIMNAME = {"fnewton": "mps_polynomial_fnewton", "dnewton": "mps_polynomial_dnewton", "mnewton": "mps_polynomial_mnewton",
            "fradii": "mps_fradii", "dradii": "mps_dradii", "mradii": "mps_mradii", "set_radii": "mps_secular_set_radii"}
KINDNAME = {"M": "monomial", "S": "secular", "C": "chebyshev"}
PIN_TOL = 8.0


def sf(x):
    """float for messages; huge/tiny exact values are shown as a power of two"""
    try:
        f = float(x)
        if f == 0.0 and x != 0: raise OverflowError
        return f
    except OverflowError:
        return "2^%d" % e2e._ilog2_floor(abs(Fr(x)))



def run(ctx):
    ctx.prove()
    harness = ctx.compile_harness(["c04_radius.c"], "c04_radius", mode="san")
    env = ctx.san_env()
    quick = ctx.quick()
    rng = ctx.rng
    nf_replay = False; rp = {}
    if ctx.replay and json.load(open(ctx.replay)).get("kind", "").startswith("newtonfl"):
        nf_replay = True; jobs = []
    elif os.environ.get("C04_PART") == "newtonfl":
        jobs = []
    elif ctx.replay:
        rp = json.load(open(ctx.replay))
        jobs = [rp["job"]]
        for j in jobs:
            if j.get("oscale") is not None: j["oscale"] = unfr(j["oscale"])
            for key in ("mono", "sec", "cheb", "points", "mpoints", "sets", "oracle_mono"):
                if j.get(key) is not None: j[key] = unfr(j[key])
            if rp.get("cmd"): j["fixed_cmds"] = [rp["cmd"]]
    else:
        cases = G.standard_cases(rng, ctx.pick(44, 400), maxdeg=ctx.pick(12, 20))
        jobs = [job_of_case(c) for c in cases if c["degree"] <= ctx.pick(14, 40)]
        for k, j in enumerate(jobs):
            n = len(j["mono"]) - 1 if j["mono"] is not None else (len(j.get("sec", [])) or len(j.get("cheb", [])) - 1)
            if n <= 4 and k % 5 == 0: j["depth"] = ctx.pick(600, 4200); j["precs"] = ctx.pick([64, 576], [64, 1024, 4096]); j["rprecs"] = [64, 512]
            elif n <= 8 and k % 3 == 0: j["depth"] = ctx.pick(330, 1100); j["precs"] = ctx.pick([64, 256], [64, 256, 1024]); j["rprecs"] = [64, 192]
            else: j["precs"] = [64, 128] if k % 2 else [100]
        jobs += families(rng, quick) + pin_jobs(rng, quick) + range_jobs(rng, quick)
    seeds = [rng.getrandbits(32) for _ in jobs]
    if os.environ.get("C04_ONLY"):
        keep = [i for i, j in enumerate(jobs) if any(w in j["name"] or w in j["cls"] for w in os.environ["C04_ONLY"].split(","))]
        jobs = [jobs[i] for i in keep]; seeds = [seeds[i] for i in keep]
    if ctx.replay and "seed" in rp: seeds = [rp["seed"]]
    ctx.log("jobs: %d" % len(jobs))
    results = e2e.par_map(lambda js: process(js[0], harness, env, js[1], quick), list(zip(jobs, seeds)))
    ctx.log("harness + oracle done; slowest jobs: %s" % sorted(((round(r.get("secs", 0), 1), round(r.get("presecs", 0), 1), round(r.get("hsecs", 0), 1), r["job"]["name"], r["job"].get("depth", 140)) for r in results), reverse=True)[:6])

    stats = collections.Counter(); samples = []; nontrivial = set(); evaluations = 0
    pin_bad = collections.defaultdict(list); pin_n = collections.Counter(); viol_prims = set(); below = collections.Counter()
    def replay_obj(job, extra):
        o = {"job": jsonable(job)}; o.update(extra); return o
    seed_of = {}
    for res in results:
        job = res["job"]; kind = KINDNAME[job["kind"]]
        stats["jobs:" + kind] += 1
        if res["rc"] in (97, 98) or res["rc"] < 0 or (res["rc"] != 0):
            sig = "harness-fault:rc%d:%s:%s" % (res["rc"], kind, job["cls"])
            ctx.violation(sig, "radius primitive harness stopped with exit code %d on %s (%s): %s" % (res["rc"], job["name"], job["cls"], res["err"][-400:].replace("\n", " | ")),
                          replay_obj(job, {"seed": res["seed"], "text": res.get("text")}))
            stats["harness-fault"] += 1; continue
        if res["why"].strip(): stats["note:" + res["why"].strip().split(":")[0][:40]] += 1
        for rec in res["calls"]:
            evaluations += 1
            prim = rec["prim"]; key = "%s:%s" % (prim, kind)
            if rec.get("noimpl"): stats["noimpl:" + key] += 1; continue
            stats["calls:" + key] += 1; stats["point:" + rec["tag"]] += 1
            if "pin" in rec:
                pin_n[key] += 1
                if not (rec["pin"][0] <= PIN_TOL): pin_bad[key].append((job, rec))
            r = rec["rad"]
            if not isinstance(r, Fr): stats["no-claim(%s):%s" % (r, key)] += 1; continue
            if r < 0: stats["negative-radius:" + key] += 1; continue
            c = rec.get("count")
            if c is None: stats["oracle-unavailable:" + key] += 1; continue
            lo, hi = c
            if hi == 0:
                viol_prims.add(key)
                fn = PRIMNAME[prim].replace("polynomial", {"M": "monomial_poly", "S": "secular", "C": "chebyshev"}[job["kind"]])
                sig = "root-free-newton-disc:%s:%s:%s" % (fn, job["cls"], "sparse" if res["head"]["sparse"] and job["kind"] == "M" else "dense")
                cause = diagnose_newton(job, rec, exact_mono(job))
                if cause: sig = "root-free-newton-disc:%s:%s" % (fn, cause)
                if rec.get("count_inflated", (0, 0))[0] >= 1:
                    # the disc misses the root by less than 2^-44 of its radius: only the rounding of the radius arithmetic is missing
                    sig = "newton-disc-misses-root-by-rounding:%s" % fn
                ctx.violation(sig, "%s returned a finite radius whose disc contains no root (certified): %s, point (%s, %s) [%s], radius %s, again=%s%s"
                              % (fn, job["name"], sf(rec["centre"][0]), sf(rec["centre"][1]), rec["tag"], sf(r), rec["again"], (", wp=%d" % rec["wp"]) if "wp" in rec else ""),
                              replay_obj(job, {"seed": res["seed"], "text": res["text"], "cmd": rec["cmd"], "out": rec["out"]}))
                stats["VIOLATION:" + key] += 1
            elif lo >= 1:
                stats["contains-root:" + key] += 1; nontrivial.add((job["name"], rec["cmd"]))
                if len(samples) < 4 and rec["tag"].startswith("root"):
                    samples.append({"poly": job["name"], "class": job["cls"], "primitive": prim, "point": [sf(rec["centre"][0]), sf(rec["centre"][1])],
                                    "tag": rec["tag"], "radius": sf(r), "oracle_count": [lo, hi]})
            else:
                stats["undecided:" + key] += 1
        for rec in res["sets"]:
            evaluations += 1
            prim = rec["prim"]; key = "%s:%s" % (prim, kind)
            if rec.get("noimpl"): stats["noimpl:" + key] += 1; continue
            stats["calls:" + key] += 1; stats["set:" + rec["tag"]] += 1
            for pn in rec.get("pins", []):
                pin_n[key] += 1
                if not (pn[0] <= PIN_TOL): pin_bad[key].append((job, rec))
            if "unset" in rec["rads"]: stats["unset-radius:" + key] += 1
            v = rec.get("verdict", "oracle-unavailable")
            stats["%s:%s" % (v, key)] += 1
            if v == "uncovered":
                viol_prims.add(key)
                sig = "root-outside-union:%s:%s:%s" % (PRIMNAME[prim], kind, rec["cause"] if rec.get("cause") != "general" else job["cls"])
                ctx.violation(sig, "%s: a root lies in none of the %d discs (certified): %s, approximations '%s'" % (PRIMNAME[prim], len(rec["rads"]), job["name"], rec["tag"]),
                              replay_obj(job, {"seed": res["seed"], "text": res["text"], "cmd": rec["cmd"], "out": rec["out"]}))
            elif v == "component-count":
                viol_prims.add(key)
                sig = "component-count:%s:%s:%s" % (PRIMNAME[prim], kind, job["cls"])
                ctx.violation(sig, "%s: a connected component of %d discs certainly holds %d roots (+%d undecided): %s, approximations '%s'"
                              % (PRIMNAME[prim], len(rec["bad"]["discs"]), rec["bad"]["certified_roots"], rec["bad"]["undecided_roots"], job["name"], rec["tag"]),
                              replay_obj(job, {"seed": res["seed"], "text": res["text"], "cmd": rec["cmd"], "out": rec["out"]}))
            elif v == "singles":
                for i, a in rec["single"]:
                    if a[1] == 0:
                        viol_prims.add(key)
                        ctx.violation("root-free-isolated-disc:%s:%s:%s" % (PRIMNAME[prim], kind, job["cls"]),
                                      "%s: isolated disc %d contains no root (certified): %s" % (PRIMNAME[prim], i, job["name"]),
                                      replay_obj(job, {"seed": res["seed"], "text": res["text"], "cmd": rec["cmd"], "out": rec["out"]}))
                    elif a[0] >= 1: nontrivial.add((job["name"], rec["cmd"], i))
            elif v == "ok":
                nontrivial.add((job["name"], rec["cmd"]))
                if len(samples) < 7 and rec["tag"] != "random":
                    samples.append({"poly": job["name"], "class": job["cls"], "primitive": prim, "approximations": rec["tag"],
                                    "components": rec.get("components"), "radii": [sf(x) for x in rec["rads"][:4]]})
    # formula correspondence: a mismatch not accompanied by a certified violation of the same primitive
    for key, lst in sorted(pin_bad.items()):
        stats["pin-mismatch:" + key] = len(lst)
        if key in viol_prims: continue
        job, rec = lst[0]
        pv = rec.get("pin") or rec.get("pins")
        ctx.violation("correspondence:radius-formula:" + key,
                      "the radius exported by %s differs from the model expression (exact p(z), p'(z); %d of %d pinned calls; first: %s, %s -> %s, model %s) and the targeted search found no root-free disc"
                      % (PRIMNAME[key.split(":")[0]], len(lst), pin_n[key], job["name"], rec["cmd"][:80], rec["out"][:120], pv),
                      replay_obj(job, {"cmd": rec["cmd"], "out": rec["out"]}), no_input=True)
    ctx.proof_violation_if_broken(search=lambda: len(viol_prims) > 0)
    nfl = newtonfl_tie(ctx) if (not ctx.replay or nf_replay) else None
    cov = {"newtonfl": nfl, "evaluations": evaluations, "distinct_nontrivial": len(nontrivial),
           "rule": "one evaluation = one call of a radius primitive (one Newton call, or one call of a radii routine on n approximations); "
                   "non-trivial+distinct = calls whose finite radius/radii the oracle certified (root inside the Newton disc; all roots covered and every component count exact)",
           "jobs": len(jobs), "histogram": dict(stats), "pinned_calls": dict(pin_n), "pin_mismatches": {k: len(v) for k, v in pin_bad.items()},
           "class_histogram": dict(collections.Counter(r["job"]["cls"] for r in results)), "samples": samples,
           "trusted_base": ["Coq kernel; theorems in Properties_C04.v are axiom-free (MathComp) unless printed otherwise",
                            "root oracle bin/cert (Properties_ORACLE.v) judges every reported violation",
                            "harness/c04_radius.c builds polynomial and approximations through the public constructors and calls the primitives of the library under ASan/UBSan",
                            "the model expressions of the coded radii (checks/C04.py model_*) are hand-written from newton.c / general-radius.c / secular-equation.c and pinned to the exported values in the exact-Horner regime only",
                            "rounding inside mps_fnewton/mps_dnewton/mps_mnewton: theorems of Radius/NewtonCodedProofs.v under the hypothesis std_round (standard model of rounding, no under/overflow); the transcription Radius/NewtonCoded.v is replayed bit for bit (bin/newtonfl: Flocq binary64 / C12 DPE model with the repaired DPE x double products of Dpe/DpeModel2.v, extraction ExtrOcamlBasic+ExtrOcamlNativeString, hand-written ocaml/newtonfl_driver.ml) against the library through harness/c04_newtonfl.c (-Wl,--wrap=cplx_mod,cdpe_mod,mpc_get_cdpe recording wrappers)",
                            "the mpf Horner loops of mps_mnewton are not modelled bit for bit (their results p^, p1^ are read from the recorded mpc_get_cdpe calls and judged exactly); the sparse path of mps_mnewton is not modelled",
                            "the numeric instance of COND (which degrees the constant 4 covers) is evaluated in exact rationals by the check, not proved in Coq"]}
    return ctx.finish("proof", cov, ["the relative error eta of the computed derivative is a hypothesis of C04_fnewton_coded_sound_partial / C04_dnewton_coded_sound_partial",
                                      "std_round (standard model of rounding for double / DPE arithmetic) is a hypothesis; its measurable parts are measured on every run",
                                      "exactly-k roots per connected component is proved for singleton components only (C04_components_partial); validated by the oracle for all components",
                                      "undecided oracle answers are counted, never reported"])


def jsonable(x):
    if isinstance(x, Fr): return {"q": [str(x.numerator), str(x.denominator)]}
    if isinstance(x, dict): return {k: jsonable(v) for k, v in x.items() if k != "replay_text"}
    if isinstance(x, (list, tuple)): return [jsonable(v) for v in x]
    return x


def unfr(x):
    if isinstance(x, dict) and "q" in x and len(x) == 1: return Fr(int(x["q"][0]), int(x["q"][1]))
    if isinstance(x, dict): return {k: unfr(v) for k, v in x.items()}
    if isinstance(x, list):
        y = [unfr(v) for v in x]
        return tuple(y) if len(y) == 2 and all(isinstance(v, Fr) for v in y) else y
    return x


# ============================================================================= bit-for-bit tie of coq/Radius/NewtonCoded.v
# harness/c04_newtonfl.c exports, per call of mps_polynomial_{f,d,m}newton, the arrays the primitive reads, the point, the
# entry radius, the outputs and the recorded cplx_mod / cdpe_mod / mpc_get_cdpe calls (their arguments are the locals p, p1);
# bin/newtonfl (extracted from Radius/NewtonExec.v = NewtonCoded.v instantiated with Flocq binary64 / the DPE model) replays
# the call from the same arrays.  Everything must agree bit for bit; the error term E of the code is judged exactly against
# |p^ - q(z)| (q = the polynomial with exactly the coefficients the library reads); the measurable hypotheses of the theorems
# (modulus accuracy uh, moduli table) are measured exactly.
U53 = Fr(1, 1 << 53)


def nf_hexq(x): return hq(x)


def nf_dbl_ok(x):
    return dbl(x) == x


def nf_polys(rng, quick):
    """(name, class, coefficients low first as (Fr, Fr), float_ok)"""
    out = []
    def rd(scale=30, cplx=True):
        m = Fr(rng.getrandbits(53) | (1 << 52), 1 << 52) * rng.choice([-1, 1])
        return m * pow2(rng.randint(-scale, scale))
    K = 2 if quick else 8
    for t in range(26 * K):
        n = 1 + t % 25
        cplx = t % 3 != 0
        out.append(("randdbl%d" % t, "random-doubles", [(rd(), rd() if cplx else Fr(0)) for _ in range(n + 1)], True, []))
    for t in range(14 * K):
        n = rng.randint(1, 12)
        co = [(Fr(rng.randint(-9, 9)), Fr(rng.randint(-9, 9)) if t % 2 else Fr(0)) for _ in range(n + 1)]
        if co[n] == (0, 0): co[n] = (Fr(3), Fr(0))
        if co[0] == (0, 0): co[0] = (Fr(1), Fr(0))
        out.append(("int%d" % t, "small-integers", co, True, []))
    for n in ([1, 2, 3, 5, 8, 12] if quick else range(1, 16)):
        a = rng.choice([(Fr(1), Fr(0)), (Fr(-3, 4), Fr(1, 2)), (Fr(1, 8), Fr(0)), (Fr(3), Fr(-2))])
        out.append(("pow%d" % n, "(x-a)^n", expand_roots([a] * n), True, [a]))
    for n in ([2, 3, 7, 16, 25] if quick else [2, 3, 4, 7, 11, 16, 20, 25]):
        co = [(Fr(0), Fr(0))] * (n + 1); co[0] = (Fr(-1), Fr(0)); co[n] = (Fr(1), Fr(0))
        out.append(("unity%d" % n, "x^n-1", co, True, [(Fr(1), Fr(0))] + ([(Fr(-1), Fr(0))] if n % 2 == 0 else []) + ([(Fr(0), Fr(1))] if n % 4 == 0 else [])))
    for t in range(8 * K):
        n = rng.randint(3, 20)
        co = [(rd(8), rd(8)) if rng.random() < 0.5 else (Fr(0), Fr(0)) for _ in range(n + 1)]
        co[0] = (rd(8), Fr(0)); co[n] = (rd(8), rd(8))
        out.append(("holes%d" % t, "zero-coefficients", co, True, []))
    for t in range(6 * K):
        rs = [(Fr(rng.randint(-6, 6)), Fr(rng.randint(-3, 3)) if t % 2 else Fr(0)) for _ in range(rng.randint(1, 6))]
        out.append(("introots%d" % t, "integer-roots", expand_roots(rs, rng.choice([1, 2, -3])), True, rs))
    out.append(("x2+1", "null-derivative", [(Fr(1), Fr(0)), (Fr(0), Fr(0)), (Fr(1), Fr(0))], True, [(Fr(0), Fr(1))]))
    out.append(("x4+x2+3", "null-derivative", [(Fr(3), Fr(0)), (Fr(0), Fr(0)), (Fr(1), Fr(0)), (Fr(0), Fr(0)), (Fr(1), Fr(0))], True, []))
    for t in range(8 * K):
        n = rng.randint(1, 8); ce = rng.choice([900, -900]); se = rng.choice([0, 60, -60])
        co = [(rd(4) * pow2(ce + se * (n - i)), rd(4) * pow2(ce + se * (n - i))) for i in range(n + 1)]
        out.append(("scaled%d" % t, "double-range-limits", co, all(nf_dbl_ok(c[0]) and nf_dbl_ok(c[1]) for c in co), []))
    for t in range(8 * K):
        n = rng.randint(1, 6); ce = rng.choice([3000, -3000, 1200, -1500]); se = rng.choice([0, 400, -400])
        co = [(rd(4) * pow2(ce + se * (n - i)), rd(4) * pow2(ce + se * (n - i)) if t % 2 else Fr(0)) for i in range(n + 1)]
        out.append(("huge%d" % t, "beyond-double-range", co, False, []))
    return out


def nf_points(rng, name, cls, co, nroots):
    """[(tag, (re, im))] exact dyadic points with <= 53 significant bits per component"""
    pts = []
    def rz(lo, hi):
        d = rdir(rng); r = Fr(rng.uniform(lo, hi))
        return ctrunc((d[0] * r, d[1] * r), 52)
    for _ in range(3): pts.append(("inside", rz(0.01, 0.98)))
    for _ in range(3):
        e = rng.randint(1, 60); d = rdir(rng)
        pts.append(("outside", ctrunc((d[0] * pow2(e) * Fr(1 + rng.random()), d[1] * pow2(e) * Fr(1 + rng.random())), 52)))
    pts.append(("outside-near", rz(1.05, 3.0)))
    for z in [(Fr(1), Fr(0)), (Fr(0), Fr(-1)), (Fr(3, 5), Fr(4, 5)), (Fr(1) + FEPS, Fr(0)), (Fr(1) - FEPS / 2, Fr(0)), (Fr(0), Fr(1) + 3 * FEPS)]:
        pts.append(("unit-circle", z))
    pts.append(("unit-circle", ctrunc(rdir(rng), 52)))
    pts.append(("real", (ctrunc((Fr(rng.uniform(-2, 2)), Fr(0)), 52)[0], Fr(0))))
    pts.append(("imaginary", (Fr(0), ctrunc((Fr(rng.uniform(-2, 2)), Fr(0)), 52)[0])))
    pts.append(("zero", (Fr(0), Fr(0))))
    for w in nroots[:4]:
        for k in (rng.randint(4, 20), rng.randint(30, 44), rng.randint(45, 51), 52):
            d = rdir(rng)
            pts.append(("root-2^-%d" % (k // 10 * 10), ctrunc((w[0] + d[0] * pow2(-k) * max(abs(w[0]), abs(w[1]), Fr(1, 1 << 30)), w[1] + d[1] * pow2(-k) * max(abs(w[0]), abs(w[1]), Fr(1, 1 << 30))), 52)))
        pts.append(("root-rounded", ctrunc(w, 52)))
    return pts


def nf_hint_roots(co):
    """untrusted numerical roots (numpy) to aim points at the `again' test"""
    try:
        import numpy as np
        c = [complex(float(x[0]), float(x[1])) for x in co]
        if any(math.isinf(abs(v)) or math.isnan(abs(v)) for v in c): return []
        r = np.roots(list(reversed(c)))
        return [(Fr(float(v.real)), Fr(float(v.imag))) for v in r if math.isfinite(v.real) and math.isfinite(v.imag)]
    except Exception:
        return []


def nf_r0(rng, z):
    t = rng.random()
    if t < 0.45: return "max 0"
    if t < 0.6: return "1 %d" % rng.randint(-250, -100)
    a = max(abs(z[0]), abs(z[1]), Fr(1, 1 << 40))
    return "%s %d" % (hq(Fr(1 + rng.random())), e2e._ilog2_floor(a) - rng.randint(0, 58))


def nf_bits_d(h):
    """exact value of a binary64 pattern; None for inf / nan"""
    return S.fr_of_dhex(h)


def nf_rd(m, e):
    """exact value of an rdpe 'H E'; None for non-finite mantissas and for exponents beyond +-200000 (RDPE_MAX ...)"""
    v = S.fr_of_dhex(m)
    if v is None: return None
    if v == 0: return Fr(0)
    if abs(int(e)) > 200000: return None
    return v * pow2(int(e))


def nf_rd_ge(a, b):
    """a >= b for two normalised non-negative rdpe given as (H, E) token pairs"""
    ma, mb = S.fr_of_dhex(a[0]), S.fr_of_dhex(b[0])
    if ma is None or mb is None: return False
    if mb == 0: return True
    if ma == 0: return False
    return (int(a[1]), ma) >= (int(b[1]), mb)


def nf_isnan(h):
    u = int(h, 16); return (u >> 52) & 0x7FF == 0x7FF and (u & ((1 << 52) - 1)) != 0


def nf_same(a, b):
    return a == b or (nf_isnan(a) and nf_isnan(b))


def nf_relerr_mod(arg, res):
    """| res - |arg| | / |arg| in units of u = 2^-53 (float), exact inputs"""
    if arg is None or res is None or arg[0] is None or arg[1] is None: return None
    m = cabs(arg)
    if m == 0: return 0.0 if res == 0 else float("inf")
    return float(abs(res - m) / m / U53)


def nf_inv_eq(zr, zi):
    """cplx_inv_eq of mt.c in IEEE doubles (Python floats)"""
    DM = 1.7976931348623157e308
    if abs(zr) > abs(zi):
        d1 = zi / zr; q = 1.0 + d1 * d1
        d2 = 0.0 if DM / q < abs(zr) else 1.0 / (zr * q)
        return (d2, -d2 * d1)
    d1 = zr / zi; q = 1.0 + d1 * d1
    d2 = 0.0 if DM / q < abs(zr) else 1.0 / (zi * q)
    return (d2 * d1, -d2)


def newtonfl_tie(ctx):
    import time as _t, resource
    t0 = _t.time(); c0 = resource.getrusage(resource.RUSAGE_CHILDREN)
    quick = ctx.quick(); rng = ctx.rng
    harness = ctx.compile_harness(["c04_newtonfl.c"], "c04_newtonfl", mode="san",
                                  extra_ldflags="-Wl,--wrap=cplx_mod,--wrap=cdpe_mod,--wrap=mpc_get_cdpe")
    env = ctx.san_env()
    st = collections.Counter(); meas = collections.defaultdict(float); samples = []
    if ctx.replay:
        rp = json.load(open(ctx.replay))
        batches = [[(rp["name"], rp["cls"], None, rp["text"])]]
    else:
        polys = nf_polys(rng, quick)
        items = []
        for name, cls, co, fok, xroots in polys:
            n = len(co) - 1
            roots = nf_hint_roots(co) if fok else []
            prng = random.Random(rng.getrandbits(32))
            lines = ["P M %d " % n + " ".join("%s %s" % (hq(c[0]), hq(c[1])) for c in co)]
            pts = nf_points(prng, name, cls, co, roots)
            for tag, z in pts:
                if fok: lines.append("XF %s %s" % (hq(z[0]), hq(z[1])))
                zz = split_dpe(z)
                lines.append("XD %s %d %s %d %s" % (hq(zz[0]), zz[1], hq(zz[2]), zz[3], nf_r0(prng, z)))
            if not fok:
                for _ in range(8):
                    e = prng.choice([-2500, -700, 700, 2500, 0]); d = rdir(prng)
                    lines.append("XD %s %d %s %d %s" % (hq(ctrunc((d[0], Fr(0)), 52)[0]), e, hq(ctrunc((d[1], Fr(0)), 52)[0]), e, nf_r0(prng, (pow2(max(-900, min(900, e))), Fr(0)))))
            xpts = []
            for w in xroots[:3]:
                xpts.append(("exact-root", w))
                for k in (3, 8, 20, 40, 50):
                    d = rdir(prng); xpts.append(("root+2^-%d" % k, ctrunc((w[0] + d[0] * pow2(-k), w[1] + d[1] * pow2(-k)), 52)))
            for tag, z in xpts:
                if fok: lines.append("XF %s %s" % (hq(z[0]), hq(z[1])))
                zz = split_dpe(z)
                for _ in range(2): lines.append("XD %s %d %s %d %s" % (hq(zz[0]), zz[1], hq(zz[2]), zz[3], nf_r0(prng, z)))
            for tag, z in pts[::2] + xpts:
                prec = prng.choice([64, 100, 128, 256, 512])
                lines.append("XM %d %s %s %s" % (prec, hq(z[0]), hq(z[1]), nf_r0(prng, z)))
            items.append((name, cls, co, "\n".join(lines) + "\n"))
        nb = 8
        batches = [items[i::nb] for i in range(nb)]
    def run_batch(b):
        text = "".join(x[3] for x in b)
        rc, out, err = vf.sh([harness], input=text, timeout=600, env=env)
        return rc, out, err, text
    ctx.log('newtonfl: inputs generated %.1fs' % (_t.time() - t0))
    results = e2e.par_map(run_batch, batches, workers=4)
    ctx.log('newtonfl: harness done %.1fs' % (_t.time() - t0))
    calls = []        # dicts
    for b, (rc, out, err, text) in zip(batches, results):
        if rc != 0:
            ctx.violation("harness-fault:newtonfl:rc%d" % rc, "c04_newtonfl stopped with exit code %d: %s" % (rc, err[-400:].replace("\n", " | ")),
                          {"kind": "newtonfl", "name": "batch", "cls": "batch", "text": text})
            st["harness-fault"] += 1; continue
        inl = [l for l in text.split("\n") if l.strip()]
        outl = [l for l in out.split("\n") if l.strip()]
        if len(inl) != len(outl):
            raise vf.InfraError("c04_newtonfl: %d output lines for %d commands" % (len(outl), len(inl)))
        cur = None; k = -1
        for il, ol in zip(inl, outl):
            if il.startswith("P "):
                k += 1; cur = {"name": b[k][0], "cls": b[k][1], "pline": il, "head": ol.split()}
                continue
            calls.append({"poly": cur, "cmd": il, "out": ol.split()})
    # ---- model lines
    mlines = []
    for c in calls:
        t = c["out"]; n = int(t[1]); c["n"] = n; kind = t[0]
        if kind == "XF":
            i = 2; c["fpc"] = t[i:i + 2 * (n + 1)]; i += 2 * (n + 1); c["fap"] = t[i:i + n + 1]; i += n + 1
            c["z"] = t[i:i + 2]; i += 2; c["again"] = t[i]; c["corr"] = t[i + 1:i + 3]; c["rad"] = t[i + 3]; i += 4
            kk = int(t[i]); i += 1; c["recs"] = [(t[i + 3 * j], t[i + 3 * j + 1], t[i + 3 * j + 2]) for j in range(kk)]
            mlines.append("F %d %s %s %s" % (n, " ".join(c["fpc"]), " ".join(c["fap"]), " ".join(c["z"])))
        elif kind == "XD":
            i = 2; c["dpc"] = t[i:i + 4 * (n + 1)]; i += 4 * (n + 1); c["dap"] = t[i:i + 2 * (n + 1)]; i += 2 * (n + 1)
            c["z"] = t[i:i + 4]; i += 4; c["r0"] = t[i:i + 2]; i += 2; c["again"] = t[i]; c["corr"] = t[i + 1:i + 5]; c["rad"] = t[i + 5:i + 7]; i += 7
            kk = int(t[i]); i += 1; c["recs"] = [(t[i + 6 * j:i + 6 * j + 4], t[i + 6 * j + 4:i + 6 * j + 6]) for j in range(kk)]
            mlines.append("D %d %s %s %s %s" % (n, " ".join(c["dpc"]), " ".join(c["dap"]), " ".join(c["z"]), " ".join(c["r0"])))
        else:
            c["wp"] = int(t[2]); i = 3; c["mfpc"] = t[i:i + 2 * (n + 1)]; i += 2 * (n + 1); c["dap"] = t[i:i + 2 * (n + 1)]; i += 2 * (n + 1)
            c["zm"] = t[i:i + 2]; i += 2; c["r0"] = t[i:i + 2]; i += 2; c["again"] = t[i]; c["rad"] = t[i + 1:i + 3]; i += 3
            g = int(t[i]); i += 1; c["gc"] = [(t[i + 6 * j:i + 6 * j + 2], t[i + 6 * j + 2:i + 6 * j + 6]) for j in range(g)]; i += 6 * g
            kk = int(t[i]); i += 1; c["recs"] = [(t[i + 6 * j:i + 6 * j + 4], t[i + 6 * j + 4:i + 6 * j + 6]) for j in range(kk)]
            # dense path: get_cdpe calls are (mvalue), (p), (p1), (mvalue inside mpc_rmod); p == 0: (mvalue), (p1);
            # NULL DERIVATIVE with p != 0: (mvalue) only.  A polynomial with a zero coefficient is `sparse' for the library:
            # mps_mnewton then takes the parallel-Horner path, which NewtonCoded.v does not model.
            gc = c["gc"]
            if c["poly"]["head"][2] != "0":
                c["skip"] = "m-sparse-path-not-modelled"; mlines.append("T 0 0"); continue
            if len(gc) == 4:
                zc, pc, p1c = gc[0][1], gc[1][1], gc[2][1]; c["pm"] = gc[1][0]; c["p1m"] = gc[2][0]
            elif len(gc) == 2:      # p == 0: (mvalue), (p1);  p is exactly zero
                zc, p1c = gc[0][1], gc[1][1]; pc = ["0000000000000000", "0"] * 2; c["pm"] = ["0:0@0", "0:0@0"]; c["p1m"] = gc[1][0]
            elif len(gc) == 1:      # NULL DERIVATIVE with p != 0: p, p1 never converted
                c["skip"] = "m-null-derivative-unobserved"; mlines.append("T 0 0"); continue
            else:
                c["skip"] = "m-unexpected-number-of-conversions"; mlines.append("T 0 0"); continue
            c["zc"] = zc; c["pc"] = pc; c["p1c"] = p1c
            mlines.append("M %d %d %s %s %s %s %s" % (n, 2 - c["wp"], " ".join(c["dap"]), " ".join(zc), " ".join(c["r0"]), " ".join(pc), " ".join(p1c)))
    ctx.log('newtonfl: %d model lines prepared %.1fs' % (len(mlines), _t.time() - t0))
    t1 = _t.time()
    mout = ctx.run_model_lines("newtonfl", mlines, workers=4) if mlines else []
    tmodel = _t.time() - t1
    # conversions mpc_get_cdpe through the model (sample)
    conv = []
    for c in calls:
        if c["out"][0] == "XM":
            for (inp, outp) in c["gc"][:3]:
                for tk, o in ((inp[0], outp[0:2]), (inp[1], outp[2:4])):
                    body = tk.split("@")[0]; digs, e16 = body.split(":")
                    if digs in ("0", ""): continue
                    neg = digs.startswith("-"); d = digs[1:] if neg else digs
                    conv.append((("T %s%s %d" % ("-" if neg else "", d, 4 * (int(e16) - len(d)))), o))
    conv = conv[:ctx.pick(1500, 20000)]
    cout = ctx.run_model_lines("newtonfl", [x[0] for x in conv], workers=4) if conv else []
    for (ln, o), m in zip(conv, cout):
        st["conv:mpf->rdpe"] += 1
        if m.split() != o: st["conv-mismatch"] += 1; samples.append({"conversion": ln, "library": o, "model": m})
    if st["conv-mismatch"]:
        ctx.violation("correspondence:newtonfl:mpc_get_cdpe", "the model of mpf_get_rdpe (truncation to 53 bits) disagrees with the library on %d of %d conversions" % (st["conv-mismatch"], st["conv:mpf->rdpe"]),
                      {"kind": "newtonfl-conv"}, no_input=True)
    ctx.log('newtonfl: model done %.1fs' % (_t.time() - t0))
    # ---- compare + judge
    mism = collections.defaultdict(list); efail = collections.defaultdict(list)
    EPSD = 2.0 ** -52
    for c, ml in zip(calls, mout):
        kind = c["out"][0]; n = c["n"]; m = ml.split()
        if c.get("skip"): st["skipped:" + c["skip"]] += 1; continue
        if n == 0: st["skipped:degree-0-after-deflation"] += 1; continue      # outside the domain of the model (0 < n)
        if m and m[0] == "ERR": raise vf.InfraError("newtonfl driver: %s on %s" % (ml, c["cmd"]))
        if kind == "XF":
            br = {"0": "le1", "1": "gt1", "2": "gt1-den0"}[m[0]]
            mp, mp1, map_, mabsp, magain, mcorr, mrad = m[1:3], m[3:5], m[5], m[6], m[7], m[8:10], m[10]
            key = "f:" + br; st["calls:" + key] += 1; c["branch"] = key
            st["again=%s:%s" % (magain, key)] += 1
            diffs = []
            if not nf_same(mrad, c["rad"]): diffs.append("rad")
            if magain != c["again"]: diffs.append("again")
            if not (nf_same(mcorr[0], c["corr"][0]) and nf_same(mcorr[1], c["corr"][1])): diffs.append("corr")
            recs = c["recs"]
            if len(recs) >= 2:
                if not (nf_same(recs[1][0], mp[0]) and nf_same(recs[1][1], mp[1])): diffs.append("p")
                if not nf_same(recs[1][2], mabsp): diffs.append("absp")
            if br == "le1" and len(recs) >= 3 and not (nf_same(recs[2][0], mp1[0]) and nf_same(recs[2][1], mp1[1])): diffs.append("p1")
            if br == "le1" and len(recs) != 3: diffs.append("number-of-modulus-calls")
            for d in diffs: mism[(key, d)].append(c)
            if not diffs: st["bitwise-equal:" + key] += 1
            # measured modulus accuracy
            for (ar, ai, rs) in recs:
                e = nf_relerr_mod((nf_bits_d(ar), nf_bits_d(ai)), nf_bits_d(rs))
                if e is not None and e != float("inf"): meas["uh_cplx_mod"] = max(meas["uh_cplx_mod"], e); st["modulus-calls:cplx_mod"] += 1
            cs = [(nf_bits_d(c["fpc"][2 * i]), nf_bits_d(c["fpc"][2 * i + 1])) for i in range(n + 1)]
            for i in range(n + 1):
                e = nf_relerr_mod(cs[i], nf_bits_d(c["fap"][i]))
                if e is not None and e != float("inf"): meas["uh_fap"] = max(meas["uh_fap"], e)
            # error term: |p^ - q(z)| <= E
            z = (nf_bits_d(c["z"][0]), nf_bits_d(c["z"][1])); ph = (nf_bits_d(mp[0]), nf_bits_d(mp[1])); ap = nf_bits_d(map_)
            if None in ph or ap is None or None in z: st["error-term:non-finite:" + key] += 1
            else:
                E = Fr(float(ap) * (4 * n * EPSD))
                if br == "le1":
                    ex = peval(cs, z)
                else:
                    zi = nf_inv_eq(float(z[0]), float(z[1]))
                    if not all(math.isfinite(v) for v in zi): ex = None
                    else: ex = peval(list(reversed(cs)), (Fr(zi[0]), Fr(zi[1])))
                if ex is not None:
                    d = csub(ph, ex); st["error-term:judged:" + key] += 1
                    if d[0] * d[0] + d[1] * d[1] > E * E: efail[key].append(c)
                    elif E > 0 and (d[0] != 0 or d[1] != 0):
                        r = float(cabs(d) / E); meas["max|p^-p|/E:" + key] = max(meas["max|p^-p|/E:" + key], r)
        else:
            mp, mp1, map_, mabsp, magain, mcorr, mrad = m[0:4], m[4:8], m[8:10], m[10:12], m[12], m[13:17], m[17:19]
            pzero = all(nf_bits_d(mp[j]) == 0 for j in (0, 2)); p1zero = all(nf_bits_d(mp1[j]) == 0 for j in (0, 2))
            pfx = "d" if kind == "XD" else "m"
            if not pzero and p1zero: br = "null-derivative"
            elif pzero: br = "p0"
            elif magain == "1": br = "again"
            elif kind == "XM": br = "not-again"
            else:
                br = "not-again-kept" if nf_rd_ge(mrad, c["r0"]) else "not-again-lowered"
            key = pfx + ":" + br; st["calls:" + key] += 1; c["branch"] = key
            diffs = []
            if mrad != c["rad"]: diffs.append("rad")
            if magain != c["again"]: diffs.append("again")
            recs = c["recs"]
            if kind == "XD":
                if mcorr != c["corr"]: diffs.append("corr")
                if br != "null-derivative":
                    if len(recs) != 3: diffs.append("number-of-modulus-calls")
                    else:
                        if recs[1][0] != mp: diffs.append("p")
                        if recs[1][1] != mabsp: diffs.append("absp")
                        if recs[2][0] != mp1: diffs.append("p1")
            for d in diffs: mism[(key, d)].append(c)
            if not diffs: st["bitwise-equal:" + key] += 1
            for (a, rs) in recs:
                e = nf_relerr_mod((nf_rd(a[0], a[1]), nf_rd(a[2], a[3])), nf_rd(rs[0], rs[1]))
                if e is not None and e != float("inf"): meas["uh_cdpe_mod"] = max(meas["uh_cdpe_mod"], e); st["modulus-calls:cdpe_mod"] += 1
            if br == "null-derivative": continue
            if kind == "XD":
                cs = [(nf_rd(*c["dpc"][4 * i:4 * i + 2]), nf_rd(*c["dpc"][4 * i + 2:4 * i + 4])) for i in range(n + 1)]
                z = (nf_rd(*c["z"][0:2]), nf_rd(*c["z"][2:4])); ph = (nf_rd(*mp[0:2]), nf_rd(*mp[2:4]))
                epsE = Fr(EPSD * n * 4)
            else:
                cs = [(S.fr_of_mpf(c["mfpc"][2 * i])[0], S.fr_of_mpf(c["mfpc"][2 * i + 1])[0]) for i in range(n + 1)]
                z = (S.fr_of_mpf(c["zm"][0])[0], S.fr_of_mpf(c["zm"][1])[0])
                ph = (S.fr_of_mpf(c["pm"][0])[0], S.fr_of_mpf(c["pm"][1])[0])
                epsE = None
                # conversion accuracy of p^ (mpf -> 53 bits) enters the modulus hypothesis
                e = nf_relerr_mod(ph, nf_rd(*mabsp))
                if e is not None and e != float("inf") and not pzero: meas["uh_m_absp(conv+mod)"] = max(meas["uh_m_absp(conv+mod)"], e)
            for i in range(n + 1):
                e = nf_relerr_mod(cs[i], nf_rd(*c["dap"][2 * i:2 * i + 2]))
                if e is not None and e != float("inf"): meas["uh_dap:" + pfx] = max(meas["uh_dap:" + pfx], e)
            apm = nf_bits_d(map_[0])
            if apm is None or None in ph or None in z: st["error-term:non-finite:" + key] += 1; continue
            if kind == "XD":
                # rdpe_mul_d since /repo 76adc971: rdpe_set_d (t, eps); rdpe_mul (apeps, ap, t) -- product of the two normalised mantissas in double
                em, ee = math.frexp(float(epsE)); E = Fr(float(apm) * em) * pow2(int(map_[1]) + ee)
            else:
                epm, epe = math.frexp(float(n)); E = Fr(float(apm) * epm) * pow2(int(map_[1]) + epe + 2 - c["wp"])
            ex = peval(cs, z); d = csub(ph, ex); st["error-term:judged:" + key] += 1
            if d[0] * d[0] + d[1] * d[1] > E * E: efail[key].append(c)
            elif E > 0 and (d[0] != 0 or d[1] != 0):
                meas["max|p^-p|/E:" + key] = max(meas["max|p^-p|/E:" + key], float(cabs(d) / E))
        if len(samples) < 5 and c.get("branch", "").endswith(("le1", "again")) and rng.random() < 0.01:
            samples.append({"poly": c["poly"]["name"], "cmd": c["cmd"][:90], "branch": c["branch"], "model": ml[:160]})
    ctx.log('newtonfl: compared %.1fs; mismatches %s; error-term failures %s' % (_t.time() - t0, {k: len(v) for k, v in mism.items()}, {k: len(v) for k, v in efail.items()}))
    for (k_, f_), l_ in list(mism.items())[:6]: ctx.log('   first %s %s: %s | %s | %s' % (k_, f_, l_[0]['poly']['pline'], l_[0]['cmd'], ' '.join(l_[0]['out'])))
    # ---- verdicts
    def rootfree(c):
        """oracle verdict for the disc the LIBRARY returned (exact polynomial = what the library reads)"""
        try:
            kind = c["out"][0]; n = c["n"]
            if kind == "XF":
                cs = [(nf_bits_d(c["fpc"][2 * i]), nf_bits_d(c["fpc"][2 * i + 1])) for i in range(n + 1)]; z = (nf_bits_d(c["z"][0]), nf_bits_d(c["z"][1])); r = nf_bits_d(c["rad"])
            elif kind == "XD":
                cs = [(nf_rd(*c["dpc"][4 * i:4 * i + 2]), nf_rd(*c["dpc"][4 * i + 2:4 * i + 4])) for i in range(n + 1)]; z = (nf_rd(*c["z"][0:2]), nf_rd(*c["z"][2:4])); r = nf_rd(*c["rad"])
            else:
                cs = [(S.fr_of_mpf(c["mfpc"][2 * i])[0], S.fr_of_mpf(c["mfpc"][2 * i + 1])[0]) for i in range(n + 1)]; z = (S.fr_of_mpf(c["zm"][0])[0], S.fr_of_mpf(c["zm"][1])[0]); r = nf_rd(*c["rad"])
            if r is None or r < 0 or None in z: return False
            cs = strip_zero(cs)
            while len(cs) > 1 and cs[-1] == (0, 0): cs.pop()
            if len(cs) < 2: return False
            if n > 12: return False
            orc = Oracle(cs)
            ok = orc.certify(target_radius_log2=-120, timeout=30)
            res = ok and e2e.count_discs(orc, [(z[0], z[1], r)])[0][1] == 0
            orc.close(); return bool(res)
        except Exception:
            return False
    def robj(c): return {"kind": "newtonfl", "name": c["poly"]["name"], "cls": c["poly"]["cls"], "text": c["poly"]["pline"] + "\n" + c["cmd"] + "\n", "out": " ".join(c["out"])[:2000]}
    PRIM = {"f": "mps_monomial_poly_fnewton", "d": "mps_monomial_poly_dnewton", "m": "mps_monomial_poly_mnewton"}
    for (key, field), lst in sorted(mism.items()):
        st["bitwise-mismatch:%s:%s" % (key, field)] = len(lst)
        bad = [c for c in lst[:2] if rootfree(c)]
        if bad:
            c = bad[0]
            ctx.violation("root-free-newton-disc:%s:%s:coded-model-differs" % (PRIM[key[0]], key), "%s returned a disc without root (certified) where it differs from the coded model (%s): %s %s" % (PRIM[key[0]], field, c["poly"]["name"], c["cmd"][:100]), robj(c))
        else:
            c = lst[0]
            ctx.violation("correspondence:newtonfl:%s:%s" % (key, field), "%s and the extracted coded model (Radius/NewtonCoded.v) differ bitwise in `%s' on %d calls of branch %s; first: %s | %s" % (PRIM[key[0]], field, len(lst), key, c["poly"]["name"], c["cmd"][:100]), robj(c), no_input=True)
    for key, lst in sorted(efail.items()):
        st["error-term-too-small:" + key] = len(lst)
        bad = [c for c in lst[:2] if rootfree(c)]
        c = (bad or lst)[0]
        if bad:
            ctx.violation("root-free-newton-disc:%s:%s:error-term-too-small" % (PRIM[key[0]], key), "%s: |p^ - p(z)| exceeds the error term eps*ap and the returned disc holds no root (certified): %s %s" % (PRIM[key[0]], c["poly"]["name"], c["cmd"][:100]), robj(c))
        else:
            ctx.violation("correspondence:newton-error-term:%s" % key, "%s: |p^ - p(z)| exceeds the error term eps*ap the code adds on %d calls of branch %s (hypothesis |p^ - p| <= E of the radius theorem fails); first: %s %s" % (PRIM[key[0]], len(lst), key, c["poly"]["name"], c["cmd"][:100]), robj(c), no_input=True)
    worst = max([meas.get(k, 0.0) for k in ("uh_cplx_mod", "uh_cdpe_mod", "uh_fap", "uh_dap:d", "uh_dap:m")] + [0.0])
    if worst > 4.0:
        ctx.violation("correspondence:newtonfl:modulus-accuracy", "a computed modulus (cplx_mod / cdpe_mod / fap[] / dap[]) is off by %.2f u > 4 u: hypothesis uh of the coded-radius theorems is not met" % worst, {"kind": "newtonfl-meas", "measured": dict(meas)}, no_input=True)
    c1 = resource.getrusage(resource.RUSAGE_CHILDREN)
    ncalls = sum(v for k, v in st.items() if k.startswith("calls:"))
    neq = sum(v for k, v in st.items() if k.startswith("bitwise-equal:"))
    ctx.log("newtonfl tie: %d calls, %d bitwise equal, model %.1fs, wall %.1fs, child CPU %.1fs" % (ncalls, neq, tmodel, _t.time() - t0, (c1.ru_utime + c1.ru_stime) - (c0.ru_utime + c0.ru_stime)))
    return {"calls": ncalls, "bitwise_equal": neq, "histogram": dict(st), "measured": {k: round(v, 4) for k, v in meas.items()}, "samples": samples,
            "wall_seconds": round(_t.time() - t0, 1), "child_cpu_seconds": round((c1.ru_utime + c1.ru_stime) - (c0.ru_utime + c0.ru_stime), 1), "cond": nf_cond_table()}


def nf_cond_table():
    """exact rational evaluation of COND (coq/Radius/NewtonCodedProofs.v) for binary64: smallest n covered, per assumption on uh"""
    u = Fr(1, 1 << 53); eps = 2 * u
    def cond(n, um, ua, uh, ur, eta, roundings_eps):
        g = ((1 + um) * (1 + ua)) ** n - 1
        theta = (1 - ur) ** 2 * (1 - uh); kap = (1 - uh) * theta ** n
        e = (1 - ur) ** (1 + roundings_eps) * 4 * n * eps * kap
        rho = (1 - ur) ** 4
        c0 = (1 + uh) * g <= rho * (1 - eta) * e
        c1 = ((1 + uh) - rho * (1 - eta) * (1 - uh)) * (1 + g) + (1 + uh) * g <= rho * (1 - eta) * e
        return c0 and c1
    tab = {}; NS = list(range(1, 33)) + [64, 100, 1000]
    for label, uh in (("uh=4u", 4 * u), ("uh=2.5u", Fr(5, 2) * u)):
        for prim, re in (("fnewton", 1), ("dnewton", 2)):
            ok = [n for n in NS if cond(n, Fr(9, 4) * u, u, uh, u, Fr(0), re)]
            bad = [n for n in NS if n not in ok]
            tab["%s:%s" % (prim, label)] = {"not_covered": bad, "covered_from": min(ok) if ok else None}
    return tab
