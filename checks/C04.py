"""C04 - radius primitives are rigorous for arbitrary approximations.

The real primitives (mps_polynomial_{f,d,m}newton -> monomial/newton.c, secular/secular-newton.c;
mps_fradii/mps_dradii/mps_mradii, mps_secular_set_radii) are called directly by harness/c04_radius.c on
generated (polynomial, point(s), arithmetic, precision); everything they produce is exported exactly.

Verdicts are decided by the proved-sound root oracle (bin/cert, Properties_ORACLE.v) on the EXACT input:
  * Newton disc D(z, rad), rad finite: oracle upper bound 0 -> VIOLATION (certified root-free disc);
  * cluster radii: a root certainly outside every disc -> VIOLATION; a connected component of k (closed) discs
    that certainly holds a number of roots different from k -> VIOLATION.
  Non-finite radius ("max", inf, nan) is no claim.  Undecided oracle answers are counted.
Formula pinning (tie (i)): in the regime where Horner is exact in 53 bits (small integer coefficients, short
dyadic points) the coded expression of every monomial primitive and of mps_secular_set_radii is recomputed from
the exact p(z), p'(z) (replaying the same double operations, or in exact rationals for the multiprecision
variants) and must agree with the exported radius within a few ulp.  A mismatch that no certified root-free
disc accompanies is reported as broken correspondence.
Theorems: coq/Props/Properties_C04.v (Newton bound, tight family, model soundness, derivative error,
Gerschgorin union for polynomials and secular equations, singleton components)."""
import os, json, math, random, collections
from fractions import Fraction as Fr
import vf, solve as S, polygen as G, e2e
from oracle import Oracle, OracleError, secular_to_monomial, chebyshev_to_monomial

EPS = 2.0 ** -52
FEPS = Fr(1, 1 << 52)
DMIN = 2.0 ** -1022
SQ2 = math.sqrt(2)


# ----------------------------------------------------------------------------- exact helpers
def hq(x):
    x = Fr(x)
    return ("%x/%x" % (x.numerator, x.denominator)) if x >= 0 else ("-%x/%x" % (-x.numerator, x.denominator))


def cmul(a, b): return (a[0] * b[0] - a[1] * b[1], a[0] * b[1] + a[1] * b[0])
def cadd(a, b): return (a[0] + b[0], a[1] + b[1])
def csub(a, b): return (a[0] - b[0], a[1] - b[1])


def peval(p, z):
    acc = (Fr(0), Fr(0))
    for c in reversed(p): acc = cadd(cmul(acc, z), c)
    return acc


def pderiv(p): return [(c[0] * k, c[1] * k) for k, c in enumerate(p)][1:]


def fsqrt(x, bits=120):
    """sqrt of a non-negative Fraction, relative accuracy 2^-bits (rounded down)"""
    if x <= 0: return Fr(0)
    n, d = x.numerator, x.denominator
    k = max(0, bits + 2 - (n.bit_length() + d.bit_length()) // 2)
    return Fr(math.isqrt((n * d) << (2 * k)), d << k)


def cabs(z): return abs(z[0]) if z[1] == 0 else (abs(z[1]) if z[0] == 0 else fsqrt(z[0] * z[0] + z[1] * z[1]))


def is53(x):
    if x == 0: return True
    d = x.denominator
    if d & (d - 1): return False
    n = abs(x.numerator)
    n >>= (n & -n).bit_length() - 1
    return n.bit_length() <= 53 and -1000 < (abs(x.numerator).bit_length() - d.bit_length()) < 1000


def dbl(x):
    """nearest double of a Fraction, as a Fraction (None when out of range)"""
    try: f = float(x)
    except OverflowError: return None
    if math.isinf(f): return None
    return Fr(f)


def cfl(z): return complex(float(z[0]), float(z[1]))


def exact_mul(a, b):
    """complex product if every intermediate of the naive formula is a 53-bit number, else None"""
    t = [a[0] * b[0], a[1] * b[1], a[0] * b[1], a[1] * b[0]]
    r = (t[0] - t[1], t[2] + t[3])
    return r if all(is53(x) for x in t) and is53(r[0]) and is53(r[1]) else None


def exact_horner(p, z):
    """(p(z), p'(z)) by the Horner loops of newton.c if all intermediates are exact in 53 bits, else None"""
    n = len(p) - 1
    if not all(is53(c[0]) and is53(c[1]) for c in p) or not (is53(z[0]) and is53(z[1])): return None
    v = p[n]; d = v
    for i in range(n - 1, 0, -1):
        t = exact_mul(v, z)
        if t is None: return None
        v = cadd(t, p[i])
        t = exact_mul(d, z)
        if t is None: return None
        d = cadd(t, v)
        if not all(is53(x) for x in v + d): return None
    if n >= 1:
        t = exact_mul(v, z)
        if t is None: return None
        v = cadd(t, p[0])
        if not all(is53(x) for x in v): return None
    else:
        d = (Fr(0), Fr(0))
    return v, d


def ulps(a, b):
    """|a-b| in units of the last place of b (doubles given as Fractions); rdpe mantissas have 53 bits too"""
    if a == b: return 0.0
    if b == 0: return float("inf")
    e = e2e._ilog2_floor(abs(b))
    u = Fr(2) ** (e - 52)
    return float(abs(a - b) / u)


# ----------------------------------------------------------------------------- models of the coded radius expressions
def ap_loop(fap, az):
    ap = fap[-1]
    for i in range(len(fap) - 2, -1, -1): ap = ap * az + fap[i]
    return ap


def model_fnewton(p, z):
    """replay of mps_fnewton's radius in doubles from exact p(z), p'(z); None = not in the exact regime / no finite radius"""
    n = len(p) - 1
    fap = [float(cabs(c)) for c in p]
    zc = cfl(z); az = abs(zc)
    eps = 4 * n * EPS
    if az <= 1:
        ex = exact_horner(p, z)
        if ex is None: return None
        pv, dv = ex
        if dv == (0, 0): return None
        ap = ap_loop(fap, az)
        absp = abs(cfl(pv))
        return n * (absp + eps * ap) / abs(cfl(dv)) + DMIN
    d2 = z[0] * z[0] + z[1] * z[1]
    zi = (z[0] / d2, -z[1] / d2)
    if not (is53(zi[0]) and is53(zi[1])) or (z[0] != 0 and z[1] != 0): return None
    ex = exact_horner(list(reversed(p)), zi)
    if ex is None: return None
    pv, dv = ex
    t = exact_mul(dv, zi)
    if t is None: return None
    den = csub((pv[0] * n, pv[1] * n), t)
    den2 = exact_mul(den, zi)
    if den2 is None or den2 == (0, 0) or not all(is53(x) for x in den): return None
    azi = 1.0 / az
    ap = fap[0]
    for i in range(1, n + 1): ap = ap * azi + fap[i]
    absp = abs(cfl(pv))
    return (ap * eps + absp) * n / abs(cfl(den2))


def model_dnewton(p, z):
    n = len(p) - 1
    ex = exact_horner(p, z)
    if ex is None: return None
    pv, dv = ex
    if dv == (0, 0): return None
    fap = [float(cabs(c)) for c in p]
    az = abs(cfl(z)); eps = EPS * n * 4
    ap = ap_loop(fap, az)
    absp = abs(cfl(pv)); apeps = ap * eps
    again = absp > apeps
    rnew = (absp + apeps) / abs(cfl(dv))
    rad = rnew * float(n) if again else rnew * float(n + 1)
    return rad + az * (4 * EPS)


def model_mnewton(p, z, wp, sparse):
    """exact-rational model of mps_mnewton's radius (the code rounds each rdpe operation to 53 bits)"""
    n = len(p) - 1
    pv, dv = peval(p, z), peval(pderiv(p), z)
    if dv == (0, 0): return None
    az = cabs(z)
    ap = sum(cabs(c) * az ** i for i, c in enumerate(p))
    ep = Fr(4 * n) / (Fr(2) ** wp)
    apv = (ap + cabs(pv)) * 4 / (Fr(2) ** wp) if sparse else ap
    apeps = apv * ep
    if pv == (0, 0): return (n + 1) * apeps / cabs(dv)
    again = cabs(pv) > apeps
    return (n if again else n + 1) * (cabs(pv) + apeps) / cabs(dv) + az * ep


def model_fradii(p, zs, i):
    n = len(p) - 1
    z = zs[i]
    ex = exact_horner(p, z)
    if ex is None: return None
    fap = [float(cabs(c)) for c in p]
    ax = abs(cfl(z))
    err = ap_loop(fap, ax) * EPS
    new = abs(cfl(ex[0])) + err + ax * 4.0 * EPS
    new *= n
    for j in range(len(zs)):
        if j == i: continue
        d = csub(z, zs[j])
        if not (is53(d[0]) and is53(d[1])): return None
        new /= abs(cfl(d))
    if new == 0.0: return None
    new /= abs(cfl(p[n]))
    return n * new * (1 + n * EPS * 2.0 * SQ2) + ax * EPS * 2.0 + DMIN


def model_dradii(p, zs, i):
    n = len(p) - 1
    z = zs[i]
    ex = exact_horner(p, z)
    if ex is None: return None
    fap = [float(cabs(c)) for c in p]
    ax = abs(cfl(z))
    err = ap_loop(fap, ax) * EPS
    new = abs(cfl(ex[0])); new += err; new += ax * (4.0 * EPS); new *= n
    for j in range(len(zs)):
        if j == i: continue
        d = csub(z, zs[j])
        if not (is53(d[0]) and is53(d[1])): return None
        new /= abs(cfl(d))
    return new / abs(cfl(p[n]))


def model_mradii(p, zs, i, wp):
    n = len(p) - 1
    z = zs[i]; pv = peval(p, z); az = cabs(z)
    ap = sum(cabs(c) * az ** k for k, c in enumerate(p))
    err = (ap + cabs(pv)) * 4 / (Fr(2) ** wp)
    new = (cabs(pv) + err + az / (Fr(2) ** wp)) * n
    for j in range(len(zs)):
        if j != i: new /= cabs(csub(z, zs[j]))
    return new * Fr(1 + 2 * n * SQ2 * EPS) * n / cabs(p[n])


def model_set_radii(a, b, n, phase, wp):
    e = Fr(1, 1 << wp) if phase == "m" else FEPS
    return cabs(a) * (1 + 4 * n * e) * n + 4 * e * cabs(b) + 4 * Fr(1, 1 << wp) * cabs(b)


# ----------------------------------------------------------------------------- jobs
def strip_zero(coeffs):
    c = list(coeffs)
    while len(c) > 1 and c[0] == (0, 0): c = c[1:]
    return c


def job_of_case(c):
    cc = lambda x: (Fr(x[0]), Fr(x[1]))
    if "sec" in c:
        sec = [(cc(a), cc(b)) for a, b in c["sec"]]
        pl = "P S %d " % len(sec) + " ".join("%s %s %s %s" % (hq(a[0]), hq(a[1]), hq(b[0]), hq(b[1])) for a, b in sec)
        return {"name": c["name"], "cls": c["cls"], "kind": "S", "pline": pl, "sec": sec, "mono": None}
    if "cheb" in c:
        cs = [cc(x) for x in c["cheb"]]
        pl = "P C %d " % (len(cs) - 1) + " ".join("%s %s" % (hq(x[0]), hq(x[1])) for x in cs)
        return {"name": c["name"], "cls": c["cls"], "kind": "C", "pline": pl, "cheb": cs, "mono": None}
    co = [cc(x) for x in c["coeffs"]]
    return mono_job(c["name"], c["cls"], co)


def mono_job(name, cls, co, **kw):
    co = [(Fr(x[0]), Fr(x[1])) if isinstance(x, tuple) else (Fr(x), Fr(0)) for x in co]
    pl = "P M %d " % (len(co) - 1) + " ".join("%s %s" % (hq(x[0]), hq(x[1])) for x in co)
    j = {"name": name, "cls": cls, "kind": "M", "pline": pl, "mono": strip_zero(co)}
    j.update(kw)
    return j


def sec_job(name, cls, sec, **kw):
    sec = [((Fr(a[0]), Fr(a[1])), (Fr(b[0]), Fr(b[1]))) for a, b in sec]
    pl = "P S %d " % len(sec) + " ".join("%s %s %s %s" % (hq(a[0]), hq(a[1]), hq(b[0]), hq(b[1])) for a, b in sec)
    j = {"name": name, "cls": cls, "kind": "S", "pline": pl, "sec": sec, "mono": None}
    j.update(kw)
    return j


def exact_mono(job):
    """exact monomial coefficients of the equation the harness holds (extracted Coq conversions for S / C)"""
    if job["mono"] is not None: return job["mono"]
    if job["kind"] == "S":
        a = [x[0] for x in job["sec"]]; b = [x[1] for x in job["sec"]]
        if len(set(b)) != len(b) or any(x == (0, 0) for x in a): return None
        m = secular_to_monomial(a, b)
    else:
        m = chebyshev_to_monomial(job["cheb"])
    m = [(Fr(x[0]), Fr(x[1])) for x in m]
    while len(m) > 1 and m[-1] == (0, 0): m.pop()
    job["mono"] = m
    return m


def pow2(e): return Fr(2) ** e


def rdir(rng):
    t = rng.random() * 2 * math.pi
    return (Fr(math.cos(t)), Fr(math.sin(t)))


def trunc(x, bits):
    """x rounded to a dyadic with `bits` fractional bits relative to its size"""
    if x == 0: return Fr(0)
    e = e2e._ilog2_floor(abs(x))
    sc = pow2(bits - e)
    return Fr(round(x * sc)) / sc


def ctrunc(z, bits):
    m = max(abs(z[0]), abs(z[1]))
    if m == 0: return z
    e = e2e._ilog2_floor(m)
    sc = pow2(bits - e)
    return (Fr(round(z[0] * sc)) / sc, Fr(round(z[1] * sc)) / sc)


def near(w, k, rng, bits):
    """a point at distance about 2^-k from w, representable with `bits` significant bits when k allows"""
    d = rdir(rng)
    z = (w[0] + d[0] * pow2(-k), w[1] + d[1] * pow2(-k))
    return ctrunc(z, bits)


def gen_points(job, roots, crits, rng, kmax):
    """evaluation points (exact dyadics with at most 53 significant bits): list of (tag, z)"""
    pts = []
    for _ in range(job.get("nrand", 5)):
        e = rng.randint(-60, 60); d = rdir(rng); r = pow2(e) * Fr(1 + rng.random())
        pts.append(("annulus", ctrunc((d[0] * r, d[1] * r), 52)))
    for _ in range(2):
        e = rng.choice([-300, -150, 150, 300]); d = rdir(rng)
        pts.append(("far", ctrunc((d[0] * pow2(e), d[1] * pow2(e)), 52)))
    for z in [(Fr(1), Fr(0)), (Fr(0), Fr(1)), (Fr(-1), Fr(0)), (Fr(0.6), Fr(0.8)), (Fr(1) + FEPS, Fr(0)), (Fr(1) - FEPS / 2, Fr(0))]:
        pts.append(("unit", z))
    for _ in range(3):
        pts.append(("unit", ctrunc(rdir(rng), 52)))
    for w in roots[:6]:
        for k in sorted(set([1, rng.randint(2, 12), rng.randint(13, 30), rng.randint(31, 60)])):
            if k <= kmax: pts.append(("root-2^-%d" % (k // 10 * 10), near(w, k, rng, 52)))
        pts.append(("root-rounded", ctrunc(w, 52)))
    for w in crits[:4]:
        for k in [rng.randint(1, 20), rng.randint(21, 60)]:
            pts.append(("crit-2^-%d" % (k // 10 * 10), near(w, k, rng, 52)))
        pts.append(("crit-rounded", ctrunc(w, 52)))
    for z in job.get("points", []):
        pts.append(("family", (Fr(z[0]), Fr(z[1]))))
    return pts


def gen_mpoints(job, roots, crits, rng, prec, kmax):
    pts = []
    d = rdir(rng); r = pow2(rng.randint(-60, 60))
    pts.append(("annulus", ctrunc((d[0] * r, d[1] * r), prec - 2)))
    pts.append(("unit", ctrunc(rdir(rng), prec - 2)))
    for w in roots[:4]:
        k = rng.randint(2, max(3, min(kmax, prec - 10)))
        pts.append(("root-2^-%d" % (k // 50 * 50), near(w, k, rng, prec - 2)))
    for w in crits[:2]:
        k = rng.randint(2, max(3, min(kmax, prec - 10)))
        pts.append(("crit-2^-%d" % (k // 50 * 50), near(w, k, rng, prec - 2)))
    for z in job.get("mpoints", []):
        pts.append(("family", (Fr(z[0]), Fr(z[1]))))
    return pts


def distinct_sets(job, n, roots, rootmult, rng, kmax):
    """lists of n pairwise distinct approximations (53-bit dyadics)"""
    sets = []
    def uniq(zs):
        return len(set(zs)) == len(zs) and len(zs) == n
    rr = []
    for w, m in zip(roots, rootmult): rr += [w] * m
    rr = rr[:n]
    if len(rr) == n:
        for k in [rng.randint(3, 10), rng.randint(11, 25), rng.randint(26, 50)]:
            if k > kmax: continue
            zs = [near(w, k, rng, 52) for w in rr]
            if uniq(zs): sets.append(("perturbed-roots-2^-%d" % (k // 10 * 10), zs))
        zs = []
        for idx, w in enumerate(rr):
            z = ctrunc(w, 52)
            t = 0
            while z in zs and t < 8:
                z = near(w, 40 - 3 * t, rng, 52); t += 1
            zs.append(z)
        if uniq(zs): sets.append(("rounded-roots", zs))
    zs = [ctrunc((Fr(rng.uniform(-3, 3)), Fr(rng.uniform(-3, 3))), 52) for _ in range(n)]
    if uniq(zs): sets.append(("random", zs))
    if n >= 2:
        zs = list(zs)
        k = rng.randint(20, 45)
        zs[1] = ctrunc((zs[0][0] + pow2(-k), zs[0][1]), 52)
        if uniq(zs): sets.append(("nearly-coincident", zs))
    for zs in job.get("sets", []):
        zs = [(Fr(z[0]), Fr(z[1])) for z in zs]
        if uniq(zs): sets.append(("family", zs))
    return sets


# ----------------------------------------------------------------------------- running one job
def parse_rad_d(tok):
    if tok in ("max", "unset"): return tok
    v = S.fr_of_dhex(tok)
    return "nonfinite" if v is None else v


def parse_rad_r(tok):
    if tok in ("max", "unset"): return tok
    v = S.fr_of_rdpe(tok)
    if v is None or isinstance(v, S.HugeDyadic): return "nonfinite"
    return v


def process(job, harness, env, seed, tier_quick):
    """certify, generate points from the certified roots, run the harness, ask the oracle.  Returns a result dict;
    ctx.violation is called by the caller (main thread)."""
    import time as _t
    t0 = _t.time()
    rng = random.Random(seed)
    res = {"job": job, "calls": [], "sets": [], "why": "", "rc": 0, "err": "", "seed": seed}
    mono = exact_mono(job)
    omono = job.get("oracle_mono") or mono       # the oracle may certify q when the input is c * q(x/s) * s^n (same roots up to the factor s)
    sc = Fr(job.get("oscale", 1))
    depth = job.get("depth", 140)
    orc = None; roots = []; mult = []; crits = []
    if omono is not None and len(omono) >= 2:
        try:
            orc = Oracle(omono)
            if not orc.certify(target_radius_log2=-depth):
                res["why"] = "uncertified:" + str(orc.why)[:60]; orc.close(); orc = None
        except Exception as e:
            res["why"] = "oracle:%r" % (e,); orc = None
    else:
        res["why"] = "no-exact-polynomial"
    if orc is not None:
        roots = [(r["re"], r["im"]) for r in orc.roots]; mult = [r["mult"] for r in orc.roots]
        if len(omono) >= 3 and job["kind"] == "M" and job.get("crit", True):
            try:
                o2 = Oracle(pderiv(omono))
                if o2.certify(target_radius_log2=-70): crits = [(r["re"], r["im"]) for r in o2.roots]
                o2.close()
            except Exception: pass
    kmax = depth - 40
    n = (len(mono) - 1) if mono is not None else (len(job["sec"]) if job["kind"] == "S" else len(job["cheb"]) - 1)
    cmds = []            # (line, meta)
    scz = lambda z: (z[0] * sc, z[1] * sc)
    nofloat = job.get("no_float", False)
    if job.get("fixed_cmds"):
        cmds = [(c, meta_of_cmd(c)) for c in job["fixed_cmds"]]
    elif not job.get("radii_only"):
        for tag, z in gen_points(job, roots, crits, rng, min(kmax, 60)):
            z = scz(z)
            if not nofloat and dbl(z[0]) == z[0] and dbl(z[1]) == z[1]:
                cmds.append(("NF %s %s" % (hq(z[0]), hq(z[1])), {"prim": "fnewton", "tag": tag, "z": z}))
            zz = split_dpe(z)
            cmds.append(("ND %s %d %s %d" % (hq(zz[0]), zz[1], hq(zz[2]), zz[3]), {"prim": "dnewton", "tag": tag, "z": z}))
        for tag, z in job.get("dpoints", []):
            zz = split_dpe(z)
            cmds.append(("ND %s %d %s %d" % (hq(zz[0]), zz[1], hq(zz[2]), zz[3]), {"prim": "dnewton", "tag": tag, "z": z}))
        for prec in job.get("precs", [64]):
            for tag, z in gen_mpoints(job, roots, crits, rng, prec, kmax):
                z = scz(z)
                cmds.append(("NM %d %s %s" % (prec, hq(z[0]), hq(z[1])), {"prim": "mnewton", "tag": tag, "z": z, "prec": prec}))
    if not job.get("newton_only") and not job.get("fixed_cmds"):
        for tag, zs in distinct_sets(job, n, roots, mult, rng, min(kmax, 50))[:job.get("max_sets", 99)]:
            zs = [scz(z) for z in zs]
            flat = " ".join("%s %s" % (hq(z[0]), hq(z[1])) for z in zs)
            if not nofloat: cmds.append(("RF " + flat, {"prim": "fradii", "tag": tag, "zs": zs}))
            cmds.append(("RD " + " ".join("%s %d %s %d" % ((lambda t: (hq(t[0]), t[1], hq(t[2]), t[3]))(split_dpe(z))) for z in zs), {"prim": "dradii", "tag": tag, "zs": zs}))
            for prec in job.get("rprecs", [64]):
                cmds.append(("RM %d " % prec + flat, {"prim": "mradii", "tag": tag, "zs": zs, "prec": prec}))
        if job["kind"] == "S":
            for ph, prec in job.get("sr", [("d", 64), ("m", 128)]):
                cmds.append(("SR %s %d" % (ph, prec), {"prim": "set_radii", "tag": "nodes", "phase": ph, "prec": prec}))
    text = job["pline"] + "\n" + "\n".join(c[0] for c in cmds) + "\n"
    t1 = _t.time()
    rc, out, err = vf.sh([harness], input=text, timeout=300, env=env)
    res["hsecs"] = _t.time() - t1; res["presecs"] = t1 - t0
    res["rc"] = rc; res["err"] = err[-1500:]; res["text"] = text
    lines = out.strip().split("\n") if out.strip() else []
    if rc != 0 or len(lines) != len(cmds) + 1:
        res["why"] += " harness-rc-%d-lines-%d/%d" % (rc, len(lines), len(cmds) + 1)
        if orc: orc.close()
        return res
    hd = lines[0].split()
    res["head"] = {"degree": int(hd[2]), "sparse": hd[3] == "1", "n": int(hd[4]), "zero_roots": int(hd[5])}
    if mono is not None and job["kind"] == "M" and res["head"]["n"] != len(mono) - 1:
        res["why"] += " degree-mismatch";
        if orc: orc.close()
        return res
    p = mono
    sparse = res["head"]["sparse"]
    newton_q = [];
    for (cl, meta), ln in zip(cmds, lines[1:]):
        t = ln.split()
        rec = dict(meta); rec["cmd"] = cl; rec["out"] = ln
        prim = meta["prim"]
        if len(t) >= 2 and t[1] == "NOIMPL":
            rec["noimpl"] = True; res["calls"].append(rec); continue
        if prim == "fnewton":
            rec["again"] = t[1] == "1"; rec["rad"] = parse_rad_d(t[5]); rec["centre"] = meta["z"]
            if job["kind"] == "M" and job.get("pin"):
                m = model_fnewton(p, meta["z"])
                if m is not None and isinstance(rec["rad"], Fr): rec["pin"] = (ulps(rec["rad"], Fr(m)), m)
        elif prim == "dnewton":
            rec["again"] = t[1] == "1"; rec["rad"] = parse_rad_r(t[4]); rec["centre"] = meta["z"]
            if job["kind"] == "M" and job.get("pin"):
                m = model_dnewton(p, meta["z"])
                if m is not None and isinstance(rec["rad"], Fr): rec["pin"] = (ulps(rec["rad"], Fr(m)), m)
        elif prim == "mnewton":
            rec["wp"] = int(t[1]); rec["again"] = t[2] == "1"
            rec["centre"] = (S.fr_of_mpf(t[3])[0], S.fr_of_mpf(t[4])[0]); rec["rad"] = parse_rad_r(t[7])
            if job["kind"] == "M" and job.get("pin") and isinstance(rec["rad"], Fr) and exact_horner(p, rec["centre"]) is not None:
                m = model_mnewton(p, rec["centre"], rec["wp"], sparse)
                if m is not None and m > 0:
                    rel = min(abs(rec["rad"] - m) / m, abs(rec["rad"] - m * (1 + 16 * FEPS)) / m)
                    rec["pin"] = (float(rel * (1 << 53)) / (2 * n + 24) * 8, float(m))     # normalised so that 8 = tolerance
        if prim in ("fnewton", "dnewton", "mnewton"):
            if isinstance(rec["rad"], Fr) and rec["rad"] >= 0:
                newton_q.append(rec)
            res["calls"].append(rec); continue
        # ---- cluster radii
        if prim == "fradii":
            rads = [parse_rad_d(t[1 + 2 * i]) for i in range(n)]; cs = meta["zs"]
        elif prim == "dradii":
            rads = [parse_rad_r(t[1 + i]) for i in range(n)]; cs = meta["zs"]
        elif prim == "mradii":
            rec["wp"] = int(t[1]); rads = [parse_rad_r(t[2 + i]) for i in range(n)]; cs = meta["zs"]
        else:
            rec["wp"] = int(t[1])
            cs = [(S.fr_of_mpf(t[2 + 3 * i])[0], S.fr_of_mpf(t[3 + 3 * i])[0]) for i in range(n)]
            rads = [parse_rad_r(t[4 + 3 * i]) for i in range(n)]
        rec["rads"] = rads; rec["centres"] = cs
        if job.get("pin"):
            pins = []
            for i in range(n):
                if not isinstance(rads[i], Fr): continue
                m = None
                if job["kind"] == "M":
                    if prim == "fradii":
                        m = model_fradii(p, cs, i)
                        if m is not None: pins.append((ulps(rads[i], Fr(m)), m))
                    elif prim == "dradii":
                        m = model_dradii(p, cs, i)
                        if m is not None: pins.append((ulps(rads[i], Fr(m)), m))
                    elif prim == "mradii" and all(exact_horner(p, z) is not None for z in cs):
                        m = model_mradii(p, cs, i, rec["wp"])
                        if m > 0: pins.append((float(abs(rads[i] - m) / m * (1 << 53)) / (2 * n + 24) * 8, float(m)))
                elif prim == "set_radii":
                    a, b = job["sec"][i]
                    if b == cs[i]:
                        m = model_set_radii(a, b, n, meta["phase"], rec["wp"])
                        if m > 0: pins.append((float(abs(rads[i] - m) / m * (1 << 53)) / 24 * 8, float(m)))
            if pins: rec["pins"] = pins
        res["sets"].append(rec)
    # ---- oracle
    if orc is not None:
        try:
            if newton_q:
                ans = e2e.count_discs(orc, [(r["centre"][0] / sc, r["centre"][1] / sc, r["rad"] / sc) for r in newton_q])
                for r, a in zip(newton_q, ans): r["count"] = a
                bad = [r for r in newton_q if r["count"][1] == 0]
                if bad:
                    ans = orc.count([(r["centre"][0] / sc, r["centre"][1] / sc, r["rad"] / sc * (1 + Fr(1, 1 << 44))) for r in bad])
                    for r, a in zip(bad, ans): r["count_inflated"] = a
            for rec in res["sets"]:
                judge_set(orc, rec, n, sc)
        except Exception as e:
            res["why"] += " oracle-query:%r" % (e,)
        orc.close()
    res["secs"] = _t.time() - t0
    return res


def cdivq(a, b):
    d = b[0] * b[0] + b[1] * b[1]
    return ((a[0] * b[0] + a[1] * b[1]) / d, (a[1] * b[0] - a[0] * b[1]) / d)


def mt_cplx_mod(x):
    """cplx_mod of floating-point/mt.c (non-builtin complex): |re| sqrt(1 + (im/re)^2) with the larger component outside"""
    re, im = x.real, x.imag
    if abs(re) > abs(im):
        d = im / re; return abs(re) * math.sqrt(1.0 + d * d)
    if im == 0.0: return 0.0
    d = re / im
    return abs(im) * math.sqrt(1.0 + d * d)


def diagnose_newton(job, rec, p):
    """structural cause of a certified root-free Newton disc, from exact quantities (None = no specific cause recognised)"""
    try:
        z = rec["centre"]; n = len(p) - 1
        eps = Fr(1, 1 << 52) if rec["prim"] != "mnewton" else Fr(2, 1 << rec["wp"])
        dv = peval(pderiv(p), z)
        if dv == (0, 0): return None
        if job["kind"] == "M" and rec["prim"] == "fnewton" and max(abs(cfl(z)), mt_cplx_mod(cfl(z))) > 1:      # the code's branch test, in double (cabs or mt.c's scaled formula, depending on the build)
            # den = (n q(w) - w q'(w)) w with q the reversed polynomial, w = 1/z: the a_0 terms cancel
            kappa = n * cabs(p[0]) / (cabs(z) * cabs(dv))
            if kappa * eps * 64 >= 1: return "reversed-horner-branch:derivative-cancellation"
        if job["kind"] == "S":
            one = (Fr(1), Fr(0))
            S1 = (Fr(0), Fr(0)); sb = (Fr(0), Fr(0)); Sv = (Fr(-1), Fr(0))
            for a, b in job["sec"]:
                d = csub(z, b)
                if d == (0, 0): return None
                t = cdivq(a, d); Sv = cadd(Sv, t); S1 = csub(S1, cdivq(t, d)); sb = cadd(sb, cdivq(one, d))
            den = cadd(S1, cmul(Sv, sb))
            if den != (0, 0):
                kappa = (cabs(S1) + cabs(cmul(Sv, sb))) / cabs(den)
                if kappa * eps * 64 >= 1: return "denominator-cancellation-near-pole"
    except Exception:
        return None
    return None


def meta_of_cmd(c):
    """rebuild the bookkeeping of a stored harness command (replay)"""
    t = c.split(); q = lambda x: Fr(int(x.split("/")[0], 16), int(x.split("/")[1], 16) if "/" in x else 1)
    if t[0] == "NF": return {"prim": "fnewton", "tag": "replay", "z": (q(t[1]), q(t[2]))}
    if t[0] == "ND": return {"prim": "dnewton", "tag": "replay", "z": (q(t[1]) * pow2(int(t[2])), q(t[3]) * pow2(int(t[4])))}
    if t[0] == "NM": return {"prim": "mnewton", "tag": "replay", "prec": int(t[1]), "z": (q(t[2]), q(t[3]))}
    if t[0] == "RF": return {"prim": "fradii", "tag": "replay", "zs": [(q(t[1 + 2 * i]), q(t[2 + 2 * i])) for i in range((len(t) - 1) // 2)]}
    if t[0] == "RD": return {"prim": "dradii", "tag": "replay", "zs": [(q(t[1 + 4 * i]) * pow2(int(t[2 + 4 * i])), q(t[3 + 4 * i]) * pow2(int(t[4 + 4 * i]))) for i in range((len(t) - 1) // 4)]}
    if t[0] == "RM": return {"prim": "mradii", "tag": "replay", "prec": int(t[1]), "zs": [(q(t[2 + 2 * i]), q(t[3 + 2 * i])) for i in range((len(t) - 2) // 2)]}
    if t[0] == "SR": return {"prim": "set_radii", "tag": "replay", "phase": t[1], "prec": int(t[2])}
    raise ValueError("unknown command " + c)


def split_dpe(z):
    """(d_re, e_re, d_im, e_im) with value d * 2^e, d a double"""
    out = []
    for x in z:
        if x == 0: out += [Fr(0), 0]; continue
        e = e2e._ilog2_floor(abs(x))
        if -900 < e < 900: out += [x, 0]
        else: out += [x / pow2(e), e]
    return out


def judge_set(orc, rec, n, sc=Fr(1)):
    rads, cs = rec["rads"], rec["centres"]
    if sc != 1:      # oracle coordinates: everything divided by the (positive) scale; overlaps and inclusions are invariant
        rads = [r / sc if isinstance(r, Fr) else r for r in rads]; cs = [(c[0] / sc, c[1] / sc) for c in cs]
    fin = [i for i in range(n) if isinstance(rads[i], Fr) and rads[i] >= 0]
    rec["verdict"] = "no-claim"
    if not fin: return
    discs = [(cs[i][0], cs[i][1], rads[i]) for i in fin]
    if len(fin) < n:
        # some discs make no claim: the union/count claims are void; each finite disc of set_radii (an isolated
        # singleton of the library's own cluster analysis) still claims a root
        if rec["prim"] == "set_radii":
            ans = e2e.count_discs(orc, discs)
            rec["single"] = [(i, a) for i, a in zip(fin, ans)]
            rec["verdict"] = "singles"
        else:
            rec["verdict"] = "partial-no-claim"
        return
    cov = orc.cover(discs)
    unc = list(getattr(orc, "uncovered", []))
    roots = orc.roots
    if any(unc):
        rec["verdict"] = "uncovered"; ui = [i for i, u in enumerate(unc) if u][0]; rec["uncovered_root"] = ui
        w = (roots[ui]["re"], roots[ui]["im"])
        dmin = min(cabs(csub(w, c)) for c in cs)
        rec["cause"] = "approximation-at-rounded-root" if dmin <= max(cabs(w), Fr(1, 1 << 200)) * Fr(1, 1 << 48) else "general"
        return
    # components of the overlap graph of the closed discs (exact)
    par = list(range(n))
    def find(x):
        while par[x] != x: par[x] = par[par[x]]; x = par[x]
        return x
    for i in range(n):
        for j in range(i + 1, n):
            dx = cs[i][0] - cs[j][0]; dy = cs[i][1] - cs[j][1]; rr = rads[i] + rads[j]
            if dx * dx + dy * dy <= rr * rr: par[find(i)] = find(j)
    comp = collections.defaultdict(list)
    for i in range(n): comp[find(i)].append(i)
    lo = collections.Counter(); undecided = 0
    for ri, lst in enumerate(cov):
        if lst:
            lo[find(lst[0])] += roots[ri]["mult"]
        else:
            undecided += roots[ri]["mult"]
    rec["components"] = sorted(len(v) for v in comp.values())
    bad = None; amb = False
    for k, members in comp.items():
        c = lo[k]
        if c > len(members) or c + undecided < len(members): bad = (members, c, undecided)
        elif c != len(members): amb = True
    if bad is not None:
        rec["verdict"] = "component-count"; rec["bad"] = {"discs": bad[0], "certified_roots": bad[1], "undecided_roots": bad[2]}
    elif amb or undecided:
        rec["verdict"] = "undecided"
    else:
        rec["verdict"] = "ok"


# ----------------------------------------------------------------------------- families
def expand_roots(roots, lead=1):
    p = [(Fr(lead), Fr(0))]
    for z in roots:
        q = [(Fr(0), Fr(0))] * (len(p) + 1)
        for i, c in enumerate(p):
            q[i + 1] = cadd(q[i + 1], c)
            q[i] = csub(q[i], cmul(c, (Fr(z[0]), Fr(z[1]))))
        p = q
    return p


def families(rng, quick):
    jobs = []
    # (x-a)^n at arbitrary z: the Newton bound n|p/p'| = |z-a| is attained
    for n in ([1, 2, 3, 5, 8] if quick else range(1, 13)):
        a = rng.choice([(Fr(1), Fr(0)), (Fr(-3, 4), Fr(1, 2)), (Fr(2), Fr(-1)), (Fr(1, 8), Fr(0))])
        pts = []
        for _ in range(6):
            d = rdir(rng); e = rng.randint(-8, 6)
            pts.append(ctrunc((a[0] + d[0] * pow2(e), a[1] + d[1] * pow2(e)), rng.choice([6, 20, 52])))
        jobs.append(mono_job("tight%d" % n, "(x-a)^n", expand_roots([a] * n), points=pts, mpoints=pts[:3], precs=[64, 256], nrand=2, crit=False))
    # noise search: expanded (x-1)^n, (x^2-1)^k, (x^3-2)^k next to their roots
    for name, rs_or_p in [("(x-1)^4", expand_roots([(1, 0)] * 4)), ("(x-1)^6", expand_roots([(1, 0)] * 6)),
                          ("(x^2-1)^3", [(-1, 0), (0, 0), (3, 0), (0, 0), (-3, 0), (0, 0), (1, 0)]),
                          ("(x^2-2)^2", [(4, 0), (0, 0), (-4, 0), (0, 0), (1, 0)]),
                          ("(x^3-1)^2(x+2)", None)]:
        if rs_or_p is None:
            rs_or_p = [(Fr(2), Fr(0)), (Fr(1), Fr(0)), (Fr(0), Fr(0)), (Fr(-4), Fr(0)), (Fr(-2), Fr(0)), (Fr(0), Fr(0)), (Fr(2), Fr(0)), (Fr(1), Fr(0))]
        pts = []; mp = []
        for _ in range(24 if quick else 80):
            m = rng.randint(8, 20); j = rng.randint(-40, 40) or 1
            pts.append((Fr(1) + Fr(j) * pow2(-m), Fr(rng.randint(-3, 3)) * pow2(-m)))
        for _ in range(8 if quick else 30):
            m = rng.randint(20, 50); j = rng.randint(-40, 40) or 1
            mp.append((Fr(1) + Fr(j) * pow2(-m), Fr(rng.randint(-3, 3)) * pow2(-m)))
        jobs.append(mono_job("noise:" + name, "noise-search", rs_or_p, points=pts, mpoints=mp, precs=[64, 128, 256], nrand=1, crit=False, newton_only=True, depth=200))
    # x^n - n x : critical points are the (n-1)-st roots of unity
    for n in ([3, 5, 9] if quick else [3, 4, 5, 7, 9, 13, 17]):
        co = [(Fr(0), Fr(0))] * (n + 1); co[n] = (Fr(1), Fr(0)); co[1] = (Fr(-n), Fr(0)); co[0] = (Fr(1), Fr(0))     # + 1 keeps zero out
        jobs.append(mono_job("xn-nx+1_%d" % n, "x^n-nx+1", co, precs=[64, 192]))
        co2 = list(co); co2[0] = (Fr(0), Fr(0))
        jobs.append(mono_job("xn-nx_%d" % n, "x^n-nx", co2, precs=[64]))
    # antiderivatives: p' has prescribed rational roots
    for t in range(2 if quick else 8):
        k = rng.randint(2, 5)
        cr = list({(Fr(rng.randint(-8, 8), 4), Fr(rng.randint(-8, 8), 4) if rng.random() < 0.5 else Fr(0)) for _ in range(k)})
        q = expand_roots(cr)
        L = math.lcm(*range(1, len(q) + 1))
        pco = [(Fr(rng.randint(-5, 5) or 1), Fr(0))] + [(c[0] * L / (i + 1), c[1] * L / (i + 1)) for i, c in enumerate(q)]
        pts = [ctrunc((c[0] + pow2(-kk), c[1]), 52) for c in cr for kk in (1, 10, 30, 52)] + cr
        jobs.append(mono_job("antider%d" % t, "antiderivative", pco, points=pts, mpoints=pts[:4], precs=[64, 128]))
    # c (x^n - 1): Gerschgorin discs at (perturbed) exact roots, leading coefficient far from 1
    for n in ([2, 4, 7] if quick else [2, 3, 4, 6, 7, 10, 16]):
        for lc in (pow2(-10), Fr(1), pow2(10)):
            co = [(Fr(0), Fr(0))] * (n + 1); co[0] = (-lc, Fr(0)); co[n] = (lc, Fr(0))
            jobs.append(mono_job("unity%d*2^%d" % (n, e2e._ilog2_floor(lc)), "c(x^n-1)", co, radii_only=True, rprecs=[64, 256]))
    # secular equations whose set_radii discs stay isolated; and the near-tight ones
    for t in range(4 if quick else 16):
        n = rng.randint(2, 6); s = rng.choice([6, 12, 24])
        sec = []
        used = set()
        for i in range(n):
            while True:
                b = (Fr(rng.randint(-40, 40), 4), Fr(rng.randint(-40, 40), 4))
                if b not in used: used.add(b); break
            sec.append(((Fr(rng.randint(1, 30) * rng.choice([-1, 1])) * pow2(-s), Fr(rng.randint(-30, 30)) * pow2(-s)), b))
        jobs.append(sec_job("seciso%d" % t, "secular-isolated", sec, precs=[64], sr=[("d", 64), ("m", 128), ("m", 512)]))
    for t in range(3 if quick else 10):
        B = Fr(rng.randint(2, 9)); s = Fr(rng.randint(10, 19), 100)
        a1 = B * Fr(rng.randint(1, 4), 100)
        sec = [((a1, Fr(0)), (Fr(0), Fr(0))), ((-trunc(s * B, 20), Fr(0)), (B, Fr(0)))]
        jobs.append(sec_job("sectight%d" % t, "secular-near-tight", sec, precs=[64], sr=[("d", 64), ("m", 128)]))
    # secular equations with cancellation in sum a_i/(x-b_i): A/(x-1) - A/(x+1) = 1
    for A in ([10 ** 6, 10 ** 9] if quick else [10 ** 4, 10 ** 6, 10 ** 8, 10 ** 9, 10 ** 11]):
        sec = [((Fr(A), Fr(0)), (Fr(1), Fr(0))), ((Fr(-A), Fr(0)), (Fr(-1), Fr(0)))]
        r = fsqrt(Fr(1 + 2 * A))
        pts = []
        for _ in range(30 if quick else 100):
            pts.append((Fr(float(r)) * (1 + Fr(rng.randint(-4000, 4000)) * FEPS), Fr(0)))
        jobs.append(sec_job("seccancel%d" % A, "secular-cancellation", sec, points=pts, precs=[64], nrand=1, newton_only=True))
    return jobs


def range_jobs(rng, quick):
    """coefficients beyond the double range in both directions (the DPE / multiprecision variants exist for those):
    c * q(x/s) * s^n with c = 2^+-1100 and/or roots scaled by s = 2^+-600; the oracle certifies q (same roots up to s)"""
    jobs = []
    qs = [("3(x^2-1)", [(-3, 0), (0, 0), (3, 0)]),
          ("(x-1)^3(x+2)", expand_roots([(1, 0)] * 3 + [(-2, 0)])),
          ("(2x-1)(x^2+1)(x-3)", expand_roots([(Fr(1, 2), 0), (0, 1), (0, -1), (3, 0)], 2))]
    for t in range(2 if quick else 8):
        qs.append(("randint%d" % t, G.rand_int_poly(rng, rng.randint(2, 6), 6, rng.random() < 0.4)))
    combos = [(1100, 0), (-1100, 0), (0, 600), (0, -600), (1100, -600), (-1100, 600)]
    k = 0
    for name, q in qs:
        q = [(Fr(c[0]), Fr(c[1])) for c in q]
        n = len(q) - 1
        if not quick: sel = combos
        elif k == 0: sel = combos[:4]
        else: sel = [(1100, 0), (0, 600)] if k % 2 else [(-1100, 0), (-1100, 600)]
        for ce, se in sel:
            c = pow2(ce); sc = pow2(se)
            co = [(x[0] * c * sc ** (n - i), x[1] * c * sc ** (n - i)) for i, x in enumerate(q)]
            jobs.append(mono_job("%s*2^%d,roots*2^%d" % (name, ce, se), "beyond-double-range", co, oracle_mono=strip_zero(q), oscale=sc,
                                 no_float=True, precs=[64, 256], rprecs=[64, 256] if se >= 0 else [64], nrand=2, max_sets=6 if se >= 0 else 2))
        k += 1
    return jobs


def pin_jobs(rng, quick):
    """exact regime: small integer coefficients, short dyadic points"""
    jobs = []
    for t in range(6 if quick else 20):
        n = rng.randint(1, 7)
        co = [(Fr(rng.randint(-9, 9)), Fr(0)) for _ in range(n + 1)]
        if co[0][0] == 0: co[0] = (Fr(1), Fr(0))
        if co[n][0] == 0: co[n] = (Fr(3), Fr(0))
        if t % 2 == 0: co[rng.randint(0, n)] = co[rng.randint(0, n)] if n < 2 else co[0]
        pts = [(Fr(rng.randint(-8, 8), 8), Fr(rng.randint(-8, 8), 8) if rng.random() < 0.6 else Fr(0)) for _ in range(10)]
        pts += [(Fr(2), Fr(0)), (Fr(-4), Fr(0)), (Fr(0), Fr(2)), (Fr(0), Fr(-8)), (Fr(1), Fr(0)), (Fr(0), Fr(1))]
        jobs.append(mono_job("pin%d" % t, "pin-newton", co, points=pts, mpoints=pts[:8], precs=[64, 192], nrand=0, pin=True, crit=False, newton_only=True))
    # real-rooted polynomials with small integer roots: evaluation at the roots themselves is exact (p^ = 0)
    for t, rs in enumerate([[1, -1, 2, -2], [1, 2, 3], [1, -1, 2, -2, 3, -3, 4, -4], [1, -1, 2, -2, 3, -3, 4, -4, 5, -5], [2, -3], [1, -2, 3, -4, 5]]):
        lead = rng.choice([1, 3, -2])
        co = expand_roots([(Fr(r), Fr(0)) for r in rs], lead)
        pts = [(Fr(r), Fr(0)) for r in rs] + [(Fr(r) + Fr(1, 4), Fr(0)) for r in rs[:3]]
        sets = [[(Fr(r), Fr(0)) for r in rs], [(Fr(r) + Fr(rng.randint(1, 3), 8), Fr(0)) for r in rs], [(Fr(r), Fr(1, 4)) for r in rs]]
        jobs.append(mono_job("pinroots%d" % t, "pin-roots", co, points=pts, mpoints=pts, precs=[64, 192], rprecs=[64, 192], nrand=0, pin=True, crit=False, sets=sets))
    for t in range(3 if quick else 8):
        n = rng.randint(2, 5); used = set(); sec = []
        for i in range(n):
            while True:
                b = (Fr(rng.randint(-64, 64), 4), Fr(rng.randint(-64, 64), 4) if rng.random() < 0.5 else Fr(0))
                if b not in used: used.add(b); break
            sec.append(((Fr(rng.randint(1, 15) * rng.choice([-1, 1]), 1 << 12), Fr(0)), b))
        jobs.append(sec_job("pinsec%d" % t, "pin-secular", sec, pin=True, radii_only=True, sr=[("d", 64), ("m", 128), ("m", 320)]))
    return jobs


# ----------------------------------------------------------------------------- main
PRIMNAME = {"fnewton": "mps_polynomial_fnewton", "dnewton": "mps_polynomial_dnewton", "mnewton": "mps_polynomial_mnewton",
            "fradii": "mps_fradii", "dradii": "mps_dradii", "mradii": "mps_mradii", "set_radii": "mps_secular_set_radii"}
KINDNAME = {"M": "monomial", "S": "secular", "C": "chebyshev"}
PIN_TOL = 8.0


def sf(x):
    """float for messages; huge/tiny exact values are shown as a power of two"""
    try:
        f = float(x)
        if f == 0.0 and x != 0: raise OverflowError
        return f
    except OverflowError:
        return "2^%d" % e2e._ilog2_floor(abs(Fr(x)))



def run(ctx):
    ctx.prove()
    harness = ctx.compile_harness(["c04_radius.c"], "c04_radius", mode="san")
    env = ctx.san_env()
    quick = ctx.quick()
    rng = ctx.rng
    if ctx.replay:
        rp = json.load(open(ctx.replay))
        jobs = [rp["job"]]
        for j in jobs:
            if j.get("oscale") is not None: j["oscale"] = unfr(j["oscale"])
            for key in ("mono", "sec", "cheb", "points", "mpoints", "sets", "oracle_mono"):
                if j.get(key) is not None: j[key] = unfr(j[key])
            if rp.get("cmd"): j["fixed_cmds"] = [rp["cmd"]]
    else:
        cases = G.standard_cases(rng, ctx.pick(44, 400), maxdeg=ctx.pick(12, 20))
        jobs = [job_of_case(c) for c in cases if c["degree"] <= ctx.pick(14, 40)]
        for k, j in enumerate(jobs):
            n = len(j["mono"]) - 1 if j["mono"] is not None else (len(j.get("sec", [])) or len(j.get("cheb", [])) - 1)
            if n <= 4 and k % 5 == 0: j["depth"] = ctx.pick(600, 4200); j["precs"] = ctx.pick([64, 576], [64, 1024, 4096]); j["rprecs"] = [64, 512]
            elif n <= 8 and k % 3 == 0: j["depth"] = ctx.pick(330, 1100); j["precs"] = ctx.pick([64, 256], [64, 256, 1024]); j["rprecs"] = [64, 192]
            else: j["precs"] = [64, 128] if k % 2 else [100]
        jobs += families(rng, quick) + pin_jobs(rng, quick) + range_jobs(rng, quick)
    seeds = [rng.getrandbits(32) for _ in jobs]
    if os.environ.get("C04_ONLY"):
        keep = [i for i, j in enumerate(jobs) if any(w in j["name"] or w in j["cls"] for w in os.environ["C04_ONLY"].split(","))]
        jobs = [jobs[i] for i in keep]; seeds = [seeds[i] for i in keep]
    if ctx.replay and "seed" in rp: seeds = [rp["seed"]]
    ctx.log("jobs: %d" % len(jobs))
    results = e2e.par_map(lambda js: process(js[0], harness, env, js[1], quick), list(zip(jobs, seeds)))
    ctx.log("harness + oracle done; slowest jobs: %s" % sorted(((round(r.get("secs", 0), 1), round(r.get("presecs", 0), 1), round(r.get("hsecs", 0), 1), r["job"]["name"], r["job"].get("depth", 140)) for r in results), reverse=True)[:6])

    stats = collections.Counter(); samples = []; nontrivial = set(); evaluations = 0
    pin_bad = collections.defaultdict(list); pin_n = collections.Counter(); viol_prims = set(); below = collections.Counter()
    def replay_obj(job, extra):
        o = {"job": jsonable(job)}; o.update(extra); return o
    seed_of = {}
    for res in results:
        job = res["job"]; kind = KINDNAME[job["kind"]]
        stats["jobs:" + kind] += 1
        if res["rc"] in (97, 98) or res["rc"] < 0 or (res["rc"] != 0):
            sig = "harness-fault:rc%d:%s:%s" % (res["rc"], kind, job["cls"])
            ctx.violation(sig, "radius primitive harness stopped with exit code %d on %s (%s): %s" % (res["rc"], job["name"], job["cls"], res["err"][-400:].replace("\n", " | ")),
                          replay_obj(job, {"seed": res["seed"], "text": res.get("text")}))
            stats["harness-fault"] += 1; continue
        if res["why"].strip(): stats["note:" + res["why"].strip().split(":")[0][:40]] += 1
        for rec in res["calls"]:
            evaluations += 1
            prim = rec["prim"]; key = "%s:%s" % (prim, kind)
            if rec.get("noimpl"): stats["noimpl:" + key] += 1; continue
            stats["calls:" + key] += 1; stats["point:" + rec["tag"]] += 1
            if "pin" in rec:
                pin_n[key] += 1
                if not (rec["pin"][0] <= PIN_TOL): pin_bad[key].append((job, rec))
            r = rec["rad"]
            if not isinstance(r, Fr): stats["no-claim(%s):%s" % (r, key)] += 1; continue
            if r < 0: stats["negative-radius:" + key] += 1; continue
            c = rec.get("count")
            if c is None: stats["oracle-unavailable:" + key] += 1; continue
            lo, hi = c
            if hi == 0:
                viol_prims.add(key)
                fn = PRIMNAME[prim].replace("polynomial", {"M": "monomial_poly", "S": "secular", "C": "chebyshev"}[job["kind"]])
                sig = "root-free-newton-disc:%s:%s:%s" % (fn, job["cls"], "sparse" if res["head"]["sparse"] and job["kind"] == "M" else "dense")
                cause = diagnose_newton(job, rec, exact_mono(job))
                if cause: sig = "root-free-newton-disc:%s:%s" % (fn, cause)
                if rec.get("count_inflated", (0, 0))[0] >= 1:
                    # the disc misses the root by less than 2^-44 of its radius: only the rounding of the radius arithmetic is missing
                    sig = "newton-disc-misses-root-by-rounding:%s" % fn
                ctx.violation(sig, "%s returned a finite radius whose disc contains no root (certified): %s, point (%s, %s) [%s], radius %s, again=%s%s"
                              % (fn, job["name"], sf(rec["centre"][0]), sf(rec["centre"][1]), rec["tag"], sf(r), rec["again"], (", wp=%d" % rec["wp"]) if "wp" in rec else ""),
                              replay_obj(job, {"seed": res["seed"], "text": res["text"], "cmd": rec["cmd"], "out": rec["out"]}))
                stats["VIOLATION:" + key] += 1
            elif lo >= 1:
                stats["contains-root:" + key] += 1; nontrivial.add((job["name"], rec["cmd"]))
                if len(samples) < 4 and rec["tag"].startswith("root"):
                    samples.append({"poly": job["name"], "class": job["cls"], "primitive": prim, "point": [sf(rec["centre"][0]), sf(rec["centre"][1])],
                                    "tag": rec["tag"], "radius": sf(r), "oracle_count": [lo, hi]})
            else:
                stats["undecided:" + key] += 1
        for rec in res["sets"]:
            evaluations += 1
            prim = rec["prim"]; key = "%s:%s" % (prim, kind)
            if rec.get("noimpl"): stats["noimpl:" + key] += 1; continue
            stats["calls:" + key] += 1; stats["set:" + rec["tag"]] += 1
            for pn in rec.get("pins", []):
                pin_n[key] += 1
                if not (pn[0] <= PIN_TOL): pin_bad[key].append((job, rec))
            if "unset" in rec["rads"]: stats["unset-radius:" + key] += 1
            v = rec.get("verdict", "oracle-unavailable")
            stats["%s:%s" % (v, key)] += 1
            if v == "uncovered":
                viol_prims.add(key)
                sig = "root-outside-union:%s:%s:%s" % (PRIMNAME[prim], kind, rec["cause"] if rec.get("cause") != "general" else job["cls"])
                ctx.violation(sig, "%s: a root lies in none of the %d discs (certified): %s, approximations '%s'" % (PRIMNAME[prim], len(rec["rads"]), job["name"], rec["tag"]),
                              replay_obj(job, {"seed": res["seed"], "text": res["text"], "cmd": rec["cmd"], "out": rec["out"]}))
            elif v == "component-count":
                viol_prims.add(key)
                sig = "component-count:%s:%s:%s" % (PRIMNAME[prim], kind, job["cls"])
                ctx.violation(sig, "%s: a connected component of %d discs certainly holds %d roots (+%d undecided): %s, approximations '%s'"
                              % (PRIMNAME[prim], len(rec["bad"]["discs"]), rec["bad"]["certified_roots"], rec["bad"]["undecided_roots"], job["name"], rec["tag"]),
                              replay_obj(job, {"seed": res["seed"], "text": res["text"], "cmd": rec["cmd"], "out": rec["out"]}))
            elif v == "singles":
                for i, a in rec["single"]:
                    if a[1] == 0:
                        viol_prims.add(key)
                        ctx.violation("root-free-isolated-disc:%s:%s:%s" % (PRIMNAME[prim], kind, job["cls"]),
                                      "%s: isolated disc %d contains no root (certified): %s" % (PRIMNAME[prim], i, job["name"]),
                                      replay_obj(job, {"seed": res["seed"], "text": res["text"], "cmd": rec["cmd"], "out": rec["out"]}))
                    elif a[0] >= 1: nontrivial.add((job["name"], rec["cmd"], i))
            elif v == "ok":
                nontrivial.add((job["name"], rec["cmd"]))
                if len(samples) < 7 and rec["tag"] != "random":
                    samples.append({"poly": job["name"], "class": job["cls"], "primitive": prim, "approximations": rec["tag"],
                                    "components": rec.get("components"), "radii": [sf(x) for x in rec["rads"][:4]]})
    # formula correspondence: a mismatch not accompanied by a certified violation of the same primitive
    for key, lst in sorted(pin_bad.items()):
        stats["pin-mismatch:" + key] = len(lst)
        if key in viol_prims: continue
        job, rec = lst[0]
        pv = rec.get("pin") or rec.get("pins")
        ctx.violation("correspondence:radius-formula:" + key,
                      "the radius exported by %s differs from the model expression (exact p(z), p'(z); %d of %d pinned calls; first: %s, %s -> %s, model %s) and the targeted search found no root-free disc"
                      % (PRIMNAME[key.split(":")[0]], len(lst), pin_n[key], job["name"], rec["cmd"][:80], rec["out"][:120], pv),
                      replay_obj(job, {"cmd": rec["cmd"], "out": rec["out"]}), no_input=True)
    ctx.proof_violation_if_broken(search=lambda: len(viol_prims) > 0)
    cov = {"evaluations": evaluations, "distinct_nontrivial": len(nontrivial),
           "rule": "one evaluation = one call of a radius primitive (one Newton call, or one call of a radii routine on n approximations); "
                   "non-trivial+distinct = calls whose finite radius/radii the oracle certified (root inside the Newton disc; all roots covered and every component count exact)",
           "jobs": len(jobs), "histogram": dict(stats), "pinned_calls": dict(pin_n), "pin_mismatches": {k: len(v) for k, v in pin_bad.items()},
           "class_histogram": dict(collections.Counter(r["job"]["cls"] for r in results)), "samples": samples,
           "trusted_base": ["Coq kernel; theorems in Properties_C04.v are axiom-free (MathComp) unless printed otherwise",
                            "root oracle bin/cert (Properties_ORACLE.v) judges every reported violation",
                            "harness/c04_radius.c builds polynomial and approximations through the public constructors and calls the primitives of the library under ASan/UBSan",
                            "the model expressions of the coded radii (checks/C04.py model_*) are hand-written from newton.c / general-radius.c / secular-equation.c and pinned to the exported values in the exact-Horner regime only",
                            "rounding inside the library (p^ versus p(z)) is covered by the oracle validation, not by a proof about floating-point Horner"]}
    return ctx.finish("proof", cov, ["the evaluation-error hypothesis |p^ - p(z)| <= E of C04_newton_model_sound is C14's statement, not proved here",
                                      "exactly-k roots per connected component is proved for singleton components only (C04_components_partial); validated by the oracle for all components",
                                      "undecided oracle answers are counted, never reported"])


def jsonable(x):
    if isinstance(x, Fr): return {"q": [str(x.numerator), str(x.denominator)]}
    if isinstance(x, dict): return {k: jsonable(v) for k, v in x.items() if k != "replay_text"}
    if isinstance(x, (list, tuple)): return [jsonable(v) for v in x]
    return x


def unfr(x):
    if isinstance(x, dict) and "q" in x and len(x) == 1: return Fr(int(x["q"][0]), int(x["q"][1]))
    if isinstance(x, dict): return {k: unfr(v) for k, v in x.items()}
    if isinstance(x, list):
        y = [unfr(v) for v in x]
        return tuple(y) if len(y) == 2 and all(isinstance(v, Fr) for v in y) else y
    return x
