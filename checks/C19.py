"""C19 - both algorithms and equivalent formulations give mutually consistent answers.

Theorems (coq/Props/Properties_C19.v): a matching must exist when both runs satisfy C01 (pigeonhole; labelled /
multiplicity form; exactly-one-root form; the bare coverage form refuted), the intersect test is exactly "the discs
meet", the extracted matching checker is sound and complete, roots/discs transform as stated between formulations,
and the EXTRACTED conversions that produce the formulations (scaling, rescaling, reversal, polynomial -> secular
form by the regeneration formula, validated Chebyshev coefficients) denote the intended polynomials (same roots,
same multiplicities).  Tie: pairs of runs of the real solver on the same equation, the second formulation computed
by the extracted conversions (bin/matchq); discs exported exactly; a Python augmenting-path search proposes the
matching, the extracted Coq checker validates it."""
import os, sys, json, collections
from fractions import Fraction as Fr
import vf, solve as S, polygen as G


def intersects(a, b):
    if a[2] is None or b[2] is None: return True          # non-finite radius: no claim, meets everything
    dx, dy, rr = a[0] - b[0], a[1] - b[1], a[2] + b[2]
    return a[2] >= 0 and b[2] >= 0 and dx * dx + dy * dy <= rr * rr


def perfect_matching(A, B):
    n = len(A)
    adj = [[j for j in range(n) if intersects(A[i], B[j])] for i in range(n)]
    matchB = [-1] * n
    def aug(i, seen):
        for j in adj[i]:
            if j in seen: continue
            seen.add(j)
            if matchB[j] < 0 or aug(matchB[j], seen):
                matchB[j] = i; return True
        return False
    sys.setrecursionlimit(10000)
    unmatched = []
    for i in range(n):
        if not aug(i, set()): unmatched.append(i)
    if unmatched:
        return None, unmatched, adj
    sigma = [0] * n
    for j, i in enumerate(matchB): sigma[i] = j
    return sigma, [], adj


def fmt_disc(tag, d, big):
    r = d[2] if d[2] is not None else big
    return "%s %d %d %d %d %d %d" % (tag, d[0].numerator, d[0].denominator, d[1].numerator, d[1].denominator, r.numerator, r.denominator)


def map_scale(d, alpha):         # roots of p(alpha x) are w/alpha
    return (d[0] / alpha, d[1] / alpha, None if d[2] is None else d[2] / abs(alpha))


def map_invert(d):               # roots of the reversed polynomial are 1/w ; needs |z| > r
    if d[2] is None: return None
    m2 = d[0] * d[0] + d[1] * d[1]
    D = m2 - d[2] * d[2]
    if D <= 0: return None
    return (d[0] / D, -d[1] / D, d[2] / D)


def cq(z):                       # complex rational -> "re_num re_den im_num im_den"
    return "%d %d %d %d" % (z[0].numerator, z[0].denominator, z[1].numerator, z[1].denominator)


def parse_cqs(tokens):
    if len(tokens) % 4: raise vf.InfraError("matchq conversion output is not a list of complex rationals")
    v = [int(t) for t in tokens]
    return [(Fr(v[i], v[i + 1]), Fr(v[i + 2], v[i + 3])) for i in range(0, len(v), 4)]


ALPHAS = [Fr(2), Fr(1, 4), Fr(3), Fr(-5, 7), Fr(1024), Fr(1, 1000), Fr(2) ** 100, Fr(1, 2 ** 100),
          Fr(7, 3), Fr(-10, 3), Fr(1, 3), Fr(10 ** 6 + 1, 10 ** 6), Fr(22, 7) ** 9]
CONSTS = [Fr(3), Fr(10) ** 30, Fr(1, 10 ** 30), Fr(-7, 3), Fr(10) ** 320, Fr(1, 10 ** 320), Fr(2) ** 1100, Fr(-1, 3 ** 700)]


def plan_conversions(case, rng):
    """choose the parameters of the equivalent formulations of one case and the query for the EXTRACTED
    conversions (Match/ConvertModel.v via bin/matchq): returns (parameters, query lines, number of answers)"""
    p = case["coeffs"]; n = len(p) - 1
    prm = {}; q = ["P " + " ".join(cq(a) for a in p)]; nans = 0
    prm["c"] = rng.choice([Fr(2) ** rng.randint(-40, 40)] + CONSTS)
    q += ["C " + cq((prm["c"], Fr(0))), "SCALE"]; nans += 1
    # 2^+-100 with degree >= 7 pushes the coefficient range beyond the double range: the classic
    # driver then starts directly in the DPE phase (a path the moderate scalings never take)
    prm["alpha"] = rng.choice(ALPHAS)
    if case["name"].startswith("gaussint"): prm["alpha"] = Fr(2) ** 250   # coefficient range 2^(250*deg) > 1e616: direct DPE start
    q += ["C " + cq((prm["alpha"], Fr(0))), "RESCALE"]; nans += 1
    prm["rev"] = not S.cis0(p[0])
    if prm["rev"]: q.append("REVERSE"); nans += 1
    prm["nodes"] = None; prm["cheb"] = None
    if n >= 2:
        cplx = any(a[1] != 0 for a in p)
        nodes = []
        while len(nodes) < n:
            b = (Fr(rng.randint(-30, 30), rng.randint(1, 4)), Fr(rng.randint(-30, 30), rng.randint(1, 4)) if cplx else Fr(0))
            if b not in nodes and not S.cis0(S.poly_eval(p, b)): nodes.append(b)
        prm["nodes"] = nodes
        # the exponential-size back conversion of the shared oracle (no gcd reduction) only for small degrees
        q += ["N " + " ".join(cq(b) for b in nodes), "SECULAR %d" % (1 if n <= 7 else 0)]; nans += 1
        if all(a[1] == 0 for a in p):
            prm["cheb"] = S.monomial_to_chebyshev(p)            # untrusted proposal, validated by chebyshev_back_ok
            q += ["K " + " ".join(cq(c_) for c_ in prm["cheb"]), "CHEB"]; nans += 1
    return prm, q, nans


def variants(case, prm, answers, hist):
    """(name, text, mapA, mapspec): second formulation of the same equation as computed by the extracted conversions,
    and how discs of the FIRST run must be mapped before they are compared with discs of the second."""
    p = case["coeffs"]; n = len(p) - 1
    out = []; ans = list(answers)
    def take(tag):
        t = ans.pop(0).split()
        if not t or t[0] != tag: raise vf.InfraError("matchq conversion answer %r where %s was expected" % (t[:2], tag))
        return t[1:]
    def same(name, got, ref):
        if got != ref: raise vf.InfraError("extracted conversion %s differs from the Python reference on %s" % (name, case["name"]))
    ident = lambda d: d
    c = prm["c"]
    scaled = parse_cqs(take("R")); same("conv_scale", scaled, [(a[0] * c, a[1] * c) for a in p])
    out.append(("scaled-coeffs", S.pol_monomial(scaled, kind="Rational"), ident, {"map": "ident"}))
    alpha = prm["alpha"]
    resc = parse_cqs(take("R")); same("conv_rescale", resc, [(a[0] * alpha ** k, a[1] * alpha ** k) for k, a in enumerate(p)])
    out.append(("rescaled-variable", S.pol_monomial(resc, kind="Rational"), lambda d, al=alpha: map_scale(d, al), {"map": "scale", "alpha": str(alpha)}))
    if prm["rev"]:
        rev = parse_cqs(take("R")); same("conv_reverse", rev, list(reversed(p)))
        out.append(("reversed", S.pol_monomial(rev, kind="Rational"), map_invert, {"map": "invert"}))
    if prm["nodes"] is not None:
        t = take("S")
        if t[0] != "1":
            hist["conversion:secular-precondition-false"] += 1
        else:
            if t[1] == "0": raise vf.InfraError("secular_back_ok rejects the output of conv_secular on %s" % case["name"])
            if t[1] == "1": hist["conversion:secular-back-checked"] += 1
            flat = parse_cqs(t[2:]); sec = [(flat[i], flat[i + 1]) for i in range(0, len(flat), 2)]
            lead = p[-1]
            same("conv_secular", sec, S.monomial_to_secular([S.cdiv(a, lead) for a in p], prm["nodes"]))
            cplx = any(a[1] != 0 or b[1] != 0 for a, b in sec)
            q = lambda x: "%d/%d" % (x.numerator, x.denominator)
            lines = ["Secular;", "Degree=%d;" % n, "Rational;", "Complex;" if cplx else "Real;", ""]
            for a, b in sec:
                lines.append(("%s %s %s %s" % (q(a[0]), q(a[1]), q(b[0]), q(b[1]))) if cplx else ("%s %s" % (q(a[0]), q(b[0]))))
            out.append(("secular-form", "\n".join(lines) + "\n", ident, {"map": "ident"}))
    if prm["cheb"] is not None:
        t = take("K")
        if t[0] != "1": raise vf.InfraError("chebyshev_back_ok rejects the proposed Chebyshev coefficients of %s" % case["name"])
        cs = prm["cheb"]
        lines = ["Chebyshev;", "Degree=%d;" % n, "Rational;", "Real;", ""] + ["%d/%d" % (c_[0].numerator, c_[0].denominator) for c_ in cs]
        out.append(("chebyshev-form", "\n".join(lines) + "\n", ident, {"map": "ident"}))
    return out


def extra_cases(ctx):
    """inputs aimed at C19's hard spots: ill-conditioned (Wilkinson), clustered simple roots, Chebyshev forms of higher
    degree (roots in [-1,1]), Gaussian-integer polynomials for the direct DPE start"""
    rng = ctx.rng; out = []
    one = (Fr(1), Fr(0))
    for d in ctx.pick((12, 16), (12, 16, 20, 24)):
        out.append(G.from_roots_case("wilk%d" % d, "wilkinson-ill-conditioned", [(Fr(k), Fr(0)) for k in range(1, d + 1)], rng, kind="Integer"))
    for d in ctx.pick((16, 22), (16, 22, 30, 40)):
        rs = set()
        while len(rs) < d: rs.add(Fr(rng.randint(-63, 63), 64))
        out.append(G.from_roots_case("chebdom%d" % d, "real-roots-in-[-1,1]", [(r, Fr(0)) for r in sorted(rs)], rng, kind="Rational"))
    for (d, k) in ctx.pick(((6, 20),), ((6, 20), (10, 30))):
        base = Fr(rng.randint(-3, 3), 2)
        rs = [(base + Fr(j, 2 ** k), Fr(0)) for j in range(3)] + [(Fr(rng.randint(-9, 9), 4), Fr(rng.randint(1, 9), 4)) for _ in range(d - 3)]
        if len(set(rs)) == len(rs):
            out.append(G.from_roots_case("clus%d_%d" % (d, k), "clustered-simple-2^-%d" % k, rs, rng, kind="Rational"))
    # Gaussian-integer polynomials (real and imaginary parts of mixed signs) of a degree high enough that
    # p(2^250 x) can only be represented in DPE/multiprecision
    for d in ctx.pick((9, 12), (9, 12, 24, 40)):
        out.append(G.mono_case("gaussint%d" % d, "random-integer-complex", G.rand_int_poly(rng, d, 6, True), rng))
    return [c for c in out if S.is_squarefree(c["coeffs"])]


def run(ctx):
    ctx.prove()
    ctx.proof_violation_if_broken()
    binary = ctx.compile_harness(["vf_solve.c"], "vf_solve", mode="san")
    env = ctx.san_env()
    big = Fr(2) ** 4000
    jobs, plan, cases = [], [], []
    conv_hist = collections.Counter()
    if ctx.replay:
        rp = json.load(open(ctx.replay))
        cases = [{"name": rp["case"], "cls": "replay", "degree": -1, "coeffs": None}]
        jobs = [{"text": rp["textA"], "opts": rp["optsA"]}, {"text": rp["textB"], "opts": rp["optsB"]}]
        ms = rp.get("mapspec", {"map": "ident"})
        mp = None if ms["map"] == "ident" else map_invert if ms["map"] == "invert" else (lambda d, al=Fr(ms["alpha"]): map_scale(d, al))
        plan = [(0, rp["kind"], 0, 1, mp, ms)]
    else:
        ncases = ctx.pick(30, 400)
        maxdeg = ctx.pick(14, 40)
        cases = [c for c in G.standard_cases(ctx.rng, ncases * 2, maxdeg=maxdeg)
                 if c["cls"] not in ("multiple-roots", "secular", "chebyshev") and S.is_squarefree(c["coeffs"])][:ncases]
        cases += extra_cases(ctx)
        if not ctx.quick():
            # degrees beyond what an exact oracle can certify
            for d in (100, 200, 300):
                cases.append(G.mono_case("big%d" % d, "random-integer-large", G.rand_int_poly(ctx.rng, d, 10), ctx.rng))
        for c in cases: c["coeffs"] = [(Fr(a[0]), Fr(a[1])) for a in c["coeffs"]]      # some generators give plain ints
        # the equivalent formulations are computed by the extracted conversions (one batch through bin/matchq)
        prms, query, counts = [], [], []
        for c in cases:
            prm, q, k = plan_conversions(c, ctx.rng)
            prms.append(prm); query += q; counts.append(k)
        answers = [l for l in ctx.run_model("matchq", "\n".join(query) + "\n").split("\n") if l.strip()]
        if len(answers) != sum(counts):
            raise vf.InfraError("matchq driver returned %d conversion answers for %d queries" % (len(answers), sum(counts)))
        # build the job list: for each case the base runs (classic, secular) and each variant under one algorithm
        pos = 0
        for ci, c in enumerate(cases):
            base_u = len(jobs); jobs.append({"text": c["text"], "opts": ["-a", "u", "-G", "i"]})
            base_s = len(jobs); jobs.append({"text": c["text"], "opts": ["-a", "s", "-G", "i"]})
            plan.append((ci, "classic-vs-secular", base_u, base_s, None, {"map": "ident"}))
            goalopts = ctx.rng.choice([["-G", "i"], ["-G", "a", "-o", "30"]])
            for (vn, vtext, mp, ms) in variants(c, prms[ci], answers[pos:pos + counts[ci]], conv_hist):
                alg = ctx.rng.choice(["u", "s"])
                if c["name"].startswith("gaussint") and vn == "rescaled-variable": alg = "u"
                j = len(jobs); jobs.append({"text": vtext, "opts": ["-a", alg] + goalopts})
                plan.append((ci, vn + ":" + alg, base_u if alg == "u" else base_s, j, None if ms["map"] == "ident" else mp, ms))
            pos += counts[ci]
    ctx.log("running %d solves for %d cases" % (len(jobs), len(cases)))
    results = S.run_many(binary, jobs, os.path.join(ctx.scratch, "jobs"), env=env, workers=16, timeout=ctx.pick(120, 900))
    hist = collections.Counter(); samples = []; pairs = 0; undecided = 0; nontrivial = set(); model_in = []
    pending = []
    for (ci, kind, ja, jb, mp, ms) in plan:
        c = cases[ci]; ra, rb = results[ja], results[jb]
        kname = kind.split(":")[0]
        if ra.kind != "ok" or rb.kind != "ok":
            hist["skipped:" + (ra.kind if ra.kind != "ok" else rb.kind)] += 1   # crashes/errors are C03's business
            undecided += 1; continue
        # roots at zero are reported as a count, not as discs: they are exact zeros in both families
        A = S.discs_of(ra) + [(Fr(0), Fr(0), Fr(0))] * ra.meta["zero_roots"]
        B = S.discs_of(rb) + [(Fr(0), Fr(0), Fr(0))] * rb.meta["zero_roots"]
        algs = jobs[ja]["opts"][1] + jobs[jb]["opts"][1]
        if mp is not None:
            A2 = [mp(d) for d in A]
            if any(d is None for d in A2):
                hist["undecided:disc-contains-0-under-inversion"] += 1; undecided += 1; continue
            A = A2
        if len(A) != len(B):
            ctx.violation("count:%s:%s:%s" % (kname, algs, c["name"]), "the two formulations return different numbers of discs (%d vs %d) for %s" % (len(A), len(B), c["name"]),
                          {"case": c["name"], "kind": kind, "textA": jobs[ja]["text"], "optsA": jobs[ja]["opts"], "textB": jobs[jb]["text"], "optsB": jobs[jb]["opts"], "mapspec": ms})
            continue
        pairs += 1; hist[kname] += 1
        sigma, unmatched, adj = perfect_matching(A, B)
        if sigma is None:
            ctx.violation("nomatch:%s:%s:%s" % (kname, algs, c["name"]),
                          "no one-to-one matching with intersecting discs between the two runs (%s) of %s; unmatched discs of the first run: %s" % (kind, c["name"], unmatched),
                          {"case": c["name"], "kind": kind, "textA": jobs[ja]["text"], "optsA": jobs[ja]["opts"], "textB": jobs[jb]["text"], "optsB": jobs[jb]["opts"], "mapspec": ms,
                           "unmatched": unmatched, "discsA": [[str(x) for x in A[i]] for i in unmatched],
                           "neighbours": [adj[i] for i in unmatched]})
            continue
        # hand the proposed matching to the verified checker
        lines = [fmt_disc("A", d, big) for d in A] + [fmt_disc("B", d, big) for d in B] + ["S " + " ".join(map(str, sigma)), "GO"]
        model_in.append("\n".join(lines)); pending.append((c, kind, ja, jb, ms))
        if any(sigma[i] != i for i in range(len(sigma))) or len(A) > 1: nontrivial.add((c["name"], kind))
        if len(samples) < 4:
            samples.append({"case": c["name"], "class": c["cls"], "pair": kind, "degree": c["degree"], "sigma": sigma[:12],
                            "disc0_A": [str(float(x)) if x is not None else "inf" for x in A[0]], "disc_matched_B": [str(float(x)) if x is not None else "inf" for x in B[sigma[0]]]})
    verified = 0
    if model_in:
        out = ctx.run_model("matchq", "\n".join(model_in) + "\n").split()
        if len(out) != len(pending):
            raise vf.InfraError("matchq driver returned %d answers for %d queries" % (len(out), len(pending)))
        for ans, (c, kind, ja, jb, ms) in zip(out, pending):
            if ans == "OK": verified += 1
            else:
                ctx.violation("checker-reject:%s:%s" % (kind.split(":")[0], c["name"]), "the verified checker rejects the proposed matching for %s (%s)" % (c["name"], kind),
                              {"case": c["name"], "kind": kind, "textA": jobs[ja]["text"], "optsA": jobs[ja]["opts"], "textB": jobs[jb]["text"], "optsB": jobs[jb]["opts"], "mapspec": ms})
    cov = {"evaluations": len(jobs), "programs": pairs, "disagreements_checked": verified,
           "distinct_nontrivial": len(nontrivial),
           "rule": "a case is an (equation, pair of formulations/algorithms); distinct by (name, pair kind); non-trivial when the degree is > 1 (a real matching problem)",
           "pairs_by_kind": dict(hist), "formulations_computed_by_extracted_conversions": sum(1 for p_ in plan if p_[1] != "classic-vs-secular"),
           "conversion_events": dict(conv_hist), "undecided_or_skipped": undecided, "matchings_verified_by_extracted_checker": verified,
           "degree_histogram": dict(collections.Counter(c["degree"] for c in cases)),
           "class_histogram": dict(collections.Counter(c["cls"] for c in cases)),
           "samples": samples,
           "trusted_base": ["Coq 8.16.1 kernel; all C19 theorems closed under the global context (no axioms)",
                            "extraction: ExtrOcamlBasic, ExtrOcamlNativeString; ocaml/matchq_driver.ml (zarith only for decimal->bits)",
                            "harness/vf_solve.c exact export + lib/solve.py parser; disc maps for rescaling/inversion computed in Python with Fractions following C19_rescale_disc / C19_inv_disc_sound",
                            "formulations: coefficients computed by the extracted conv_scale/conv_rescale/conv_reverse/conv_secular (C19_conv_*_sound), Chebyshev coefficients proposed by Python and accepted by the extracted chebyshev_back_ok (C19_chebyshev_back_sound); trusted: the rendering of these numbers as .pol text and MPSolve's parser; Python recomputes each conversion and any difference stops the check (exit 2)",
                            "the untrusted augmenting-path search only proposes the matching"]}
    return ctx.finish("proof", cov, ["the solver's iteration is not modelled; a missing matching is a violation of C19 as stated",
                                     "runs that end in an error or crash are left to C03"])
