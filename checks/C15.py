"""C15 -- a context can be reused: results are history independent and memory safe.

proof   : coq/Props/Properties_C15.v (bookkeeping model of context.c/data.c, Old and Fixed variants)
tie     : operation scripts run through harness/c15_reuse.c (real libmps, ASan+UBSan+LSan) and through the
          extracted model bin/ctx; after every step (initialized, n, deg, zero_roots, error_state,
          exit_required, helper secular equation) are compared
verdict : decided on the real library only: sanitizer report, leak report after free, threads left after
          free, heap growth over 200 cycles, state/results differing from those of a fresh context.
"""
import json, os, re, signal
from fractions import Fraction
import vf

HARNESS = "c15_reuse.c"


# ----------------------------------------------------------------------------- scripts
class Poly:
    def __init__(self, kind, d, z, line, text):
        self.kind, self.d, self.z, self.line, self.text = kind, d, z, line, text


def gen_poly(rng, kind, dmax, zmax):
    if kind == "s":
        n = rng.randint(2, min(12, dmax))
        bs = rng.sample(range(-20, 21), n)
        a = [rng.choice([-1, 1]) * rng.randint(1, 9) for _ in range(n)]
        body = " ".join("%d %d" % (a[i], bs[i]) for i in range(n))
        return Poly("s", n, 0, "poly s %d %s" % (n, body), "secular n=%d" % n)
    d = rng.randint(1, dmax)
    z = 0
    if zmax and d > 1 and rng.random() < 0.5:
        z = rng.randint(1, min(zmax, d - 1))
    c = [0] * z + [rng.randint(-9, 9) for _ in range(d - z + 1)]
    if c[z] == 0: c[z] = rng.choice([-3, -1, 1, 2])
    if c[d] == 0: c[d] = rng.choice([-2, 1, 1, 3])
    if d - z >= 2 and rng.random() < 0.2:            # x^m - c style
        c = [0] * z + [rng.choice([-2, -1, 1, 3])] + [0] * (d - z - 1) + [1]
    cs = " ".join(str(x) for x in c)
    if kind == "f":
        text = "Degree=%d;\\nMonomial;\\nInteger;\\nReal;\\nDense;\\n\\n%s\\n" % (d, cs)
        return Poly("f", d, z, "poly f " + text, "file d=%d z=%d" % (d, z))
    return Poly("m", d, z, "poly m %d %s" % (d, cs), "monomial d=%d z=%d" % (d, z))


def gen_session(rng, length, clean, dmax):
    """-> list of (harness line, model line, info).  clean: avoid the inputs of the known defects."""
    ops = [("new", "new", None)]
    algo, goal, cur, initialised, dead = "u", "i", None, False, False
    n_ops = 0
    while n_ops < length:
        r = rng.random()
        n_ops += 1
        if cur is None or r < 0.30:
            kinds = ["m"] * 6 + ["s"] * 2 + ([] if (clean and initialised) or dead else ["f"] * 2)
            k = rng.choice(kinds)
            p = gen_poly(rng, k, dmax, 0 if clean else 5)
            if k == "s" and algo != "s":
                algo = "s"; ops.append(("algo s", "algo s", None))
            cur = p
            ops.append((p.line, "setpoly %d %d %s" % (p.d, p.z, p.kind), p))
        elif r < 0.58:
            a = "solve_async" if (not clean and rng.random() < 0.25) else "solve"
            ops.append((a, a, ("solve", cur, algo, goal)))
            if not dead: initialised = True
        elif r < 0.66:
            a = rng.choice("us")
            if cur is not None and cur.kind == "s": a = "s"
            algo = a; ops.append(("algo " + a, "algo " + a, None))
        elif r < 0.74:
            goal = rng.choice("ia"); ops.append(("goal " + goal, "goal " + goal, None))
        elif r < 0.84:
            ops.append(("get_roots", "get_roots", None))
        elif r < 0.88:
            ops.append(("free_poly", "free_poly", None)); cur = None
        elif r < 0.92 and not clean and not dead and n_ops > length // 2:
            ops.append(("bad " + rng.choice(["x^", "x^2+*3", "x^(2"]), "bad", None)); dead = True
        elif r < 0.96:
            ops.append(("free", "free", None)); ops.append(("leakcheck", "leakcheck", None))
            ops.append(("new", "new", None))
            algo, goal, cur, initialised, dead = "u", "i", None, False, False
    ops.append(("free", "free", None)); ops.append(("leakcheck", "leakcheck", None))
    return ops


def roots_poly(rng, n, mult):
    """prod (x - r_i): one root of multiplicity mult (if > 1), sometimes a second double/triple root, the rest simple"""
    pool = [x for x in range(-12, 13) if x != 0]
    rng.shuffle(pool)
    rs, k = [], 0
    if mult > 1:
        rs += [pool[k]] * min(mult, n); k += 1
    if n - len(rs) >= 3 and rng.random() < 0.5:
        rs += [pool[k]] * rng.choice([2, 3]); k += 1
    while len(rs) < n:
        rs.append(pool[k % len(pool)] + (25 * (k // len(pool)))); k += 1
    rs = rs[:n]
    rng.shuffle(rs)
    return "poly r %d %s" % (n, " ".join(str(x) for x in rs))


def gen_grow_session(rng, goal, dmax):
    """one context, standard algorithm: a small solve, then larger degrees whose multiple roots / clusters exceed the
    previous degree (cluster restarts in the multiprecision phase work on the resized arrays), then shrink and grow again"""
    lines = ["new", "algo u", "goal " + goal]
    d = rng.randint(2, 5)
    lines += [roots_poly(rng, d, 1), "solve"]
    for step in range(rng.randint(2, 4)):
        if step % 2 == 0:                               # grow: multiplicity larger than the previous degree
            m = min(d + rng.randint(1, 2), 7)
            d2 = min(dmax, m + rng.randint(3, 9))
            lines += [roots_poly(rng, d2, m), "solve"]
        else:                                           # shrink
            d2 = rng.randint(2, max(2, d - 2))
            lines += [roots_poly(rng, d2, rng.choice([1, 1, 2])), "solve"]
        if rng.random() < 0.3: lines.append("get_roots")
        d = d2
    lines += ["free", "leakcheck"]
    return lines


WITNESSES = {
    # degree sequence 3 -> 12 (quadruple root) -> 5 -> 16 (triple and double root), standard algorithm, isolate
    "grow_multiple_roots": ["new", "poly r 3 1 2 3", "solve", "poly r 12 1 1 1 1 2 3 4 5 6 7 8 9", "solve", "poly r 5 1 2 3 4 5", "solve",
                            "poly r 16 1 1 1 2 2 3 4 5 6 7 8 9 10 11 12 13", "solve", "get_roots", "free", "leakcheck"],
    "shrink_then_grow_clusters": ["new", "poly r 9 2 2 2 2 2 -3 4 5 6", "solve", "poly r 2 1 -1", "solve",
                                  "poly r 14 7 7 7 7 7 7 -2 -2 -2 1 3 5 9 11", "solve", "goal a", "free", "leakcheck"],
    # goal approximate on a reused context: precision bookkeeping left by mps_improve / mps_restore_data
    "approximate_then_larger": ["new", "goal a", "poly r 3 1 2 3", "solve", "poly r 12 1 1 1 1 2 3 4 5 6 7 8 9", "solve", "free", "leakcheck"],
    "approximate_twice": ["new", "goal a", "poly r 6 1 1 1 2 3 4", "solve", "solve", "free", "leakcheck"],
    # the model witnesses of Properties_C15.v, replayed on the real library
    "witness_zero_roots": ["new", "poly m 2 -1 0 1", "solve", "poly m 8 0 0 0 0 0 1 0 0 1", "solve", "free", "leakcheck"],
    "witness_parse": ["new", "poly m 2 -1 0 1", "solve",
                      "poly f Degree=8;\\nMonomial;\\nInteger;\\nReal;\\nDense;\\n\\n-1 0 0 0 0 3 0 0 1\\n", "solve", "free", "leakcheck"],
    "witness_shrink_leak": ["new", "poly m 8 -1 0 0 0 0 3 0 0 1", "solve", "poly m 5 0 0 1 0 0 1", "solve", "free", "leakcheck"],
    "witness_sticky_zero_roots": ["new", "poly m 8 0 0 0 0 0 1 0 0 1", "algo s", "poly s 4 1 1 1 2 1 3 1 4", "solve", "get_roots", "free", "leakcheck"],
    "witness_async_pool": ["new", "poly m 3 -1 0 0 1", "solve_async", "free", "leakcheck"],
    "witness_error_then_free": ["new", "poly m 3 -1 0 0 1", "solve", "bad x^", "solve", "free", "leakcheck"],
}


def model_line(hl):
    w = hl.split()
    if w[0] == "poly":
        if w[1] == "m":
            d = int(w[2]); c = [int(x) for x in w[3:4 + d]]
            z = 0
            while z < d and c[z] == 0: z += 1
            return "setpoly %d %d m" % (d, z)
        if w[1] == "s":
            return "setpoly %d 0 s" % int(w[2])
        if w[1] == "r":
            n = int(w[2]); z = sum(1 for x in w[3:3 + n] if int(x) == 0)
            return "setpoly %d %d m" % (n, z)
        if w[1] == "f":
            m = re.search(r"Degree=(\d+)", hl); d = int(m.group(1))
            c = [int(x) for x in hl.split("\\n\\n")[1].replace("\\n", " ").split()]
            z = 0
            while z < d and c[z] == 0: z += 1
            return "setpoly %d %d f" % (d, z)
    if w[0] == "bad": return "bad"
    return hl


# ----------------------------------------------------------------------------- running
def san_env(ctx):
    env = ctx.san_env()
    env["ASAN_OPTIONS"] = "detect_leaks=1:abort_on_error=0:exitcode=97:allocator_may_return_null=1:fast_unwind_on_malloc=0:malloc_context_size=8:leak_check_at_exit=0"
    return env


def run_harness(ctx, h, lines, timeout=120):
    rc, out, err = vf.sh([h], input="\n".join(lines) + "\n", timeout=timeout, env=san_env(ctx))
    return rc, out, err


ST_RE = re.compile(r"^st (\d+) (\S+) ctx=(\d) init=(\d) n=(-?\d+) deg=(-?\d+) zr=(-?\d+) err=(\d) exitreq=(\d) sec=(\d) bmpc=(\d) heap=(\d+) thr=(-?\d+) ?(\S*)")


SZ = {}           # last parsed run: line -> (exact?, sizes of the 12 work arrays)
ARR = ["root", "order", "fppc1", "mfpc1", "mfppc1", "spar1", "again_old", "fap1", "fap2", "dap1", "dpc1", "dpc2"]
SIZE_MISMATCH = []


def parse_out(out):
    SZ.clear()
    st, roots, leaks, cur = {}, {}, {}, None
    for l in out.splitlines():
        m = ST_RE.match(l)
        if m:
            g = m.groups()
            st[int(g[0])] = dict(op=g[1], ctx=int(g[2]), init=int(g[3]), n=int(g[4]), deg=int(g[5]), zr=int(g[6]), err=int(g[7]),
                                 exitreq=int(g[8]), sec=int(g[9]), bmpc=int(g[10]), heap=int(g[11]), thr=int(g[12]), note=g[13])
            continue
        if l.startswith("sz "):
            w = l.split(); SZ[int(w[1])] = (int(w[2]), [int(x) for x in w[3].split(",")]); continue
        if l.startswith("roots "):
            w = l.split(); cur = int(w[1]); roots[cur] = dict(count=int(w[2]), phase=w[3], err=int(w[4].split("=")[1]), r=[])
        elif l.startswith("r ") and cur is not None:
            roots[cur]["r"].append(l.split())
        elif l.startswith("leak "):
            w = l.split(); leaks[int(w[1])] = int(w[2])
    return st, roots, leaks


def hexval(t):
    m, e = t.split("@"); e = int(e)
    neg = m.startswith("-"); m = m.lstrip("-")
    v = Fraction(int(m, 16), 16 ** len(m)) * (Fraction(16) ** e)
    return -v if neg else v


def disc(w):
    """w = ['r', i, status, re, im, mant, exp] -> (re, im, radius) as Fractions (radius None if not finite)"""
    re_, im_ = hexval(w[3]), hexval(w[4])
    try:
        m = float.fromhex(w[5])
    except ValueError:
        return re_, im_, None
    if m != m or m in (float("inf"), float("-inf")) or m < 0:
        return re_, im_, None
    e = int(w[6])
    if e > 4000: return re_, im_, Fraction(2) ** 4000
    return re_, im_, Fraction(m) * (Fraction(2) ** e)


def intersects(a, b):
    dx, dy, rr = a[0] - b[0], a[1] - b[1], a[2] + b[2]
    return dx * dx + dy * dy <= rr * rr


def asan_signature(err):
    # the fatal report is the last AddressSanitizer/UBSan error in the stream (LSan reports of earlier leak checks precede it)
    k = max(err.rfind("ERROR: AddressSanitizer"), err.rfind("runtime error:"))
    tail = err[k:] if k >= 0 else err
    if tail.startswith("runtime error:") or ("runtime error" in tail and "AddressSanitizer" not in tail):
        m2 = re.search(r"([\w./-]+\.c):(\d+):\d+: runtime error: ([^\n]{0,60})", err[max(0, k - 200):])
        return "ubsan:%s:%s" % (os.path.basename(m2.group(1)), m2.group(3).strip()) if m2 else "ubsan"
    m = re.search(r"ERROR: AddressSanitizer: (\S+)", tail)
    kind = m.group(1) if m else "crash"
    if kind == "attempting": kind = "bad-free"
    fr = []
    for l in tail.splitlines():
        m = re.match(r"\s+#\d+ 0x[0-9a-f]+ in (\S+) .*(src/libmps|snap/)", l)
        if m and not m.group(1).startswith("__"):
            fr.append(m.group(1))
            if len(fr) == 3: break
        elif fr and not l.strip().startswith("#"):
            break
    return "asan:%s:%s" % (kind, "<".join(fr) or "?")


def leak_sites(err):
    """allocation sites (first two libmps frames) of the Direct leak blocks of the LSan reports"""
    sites = set()
    for block in re.split(r"\n(?=Direct leak of|Indirect leak of)", err):
        if not block.startswith("Direct leak"): continue
        fr = []
        for l in block.splitlines():
            m = re.match(r"\s+#\d+ 0x[0-9a-f]+ in (\S+) .*(src/libmps|snap/|harness/)", l)
            if m: fr.append(m.group(1))
        fr = [f for f in fr if f not in ("mps_malloc", "mps_realloc", "main")][:2]
        sites.add("<".join(fr) if fr else "?")
    return sorted(sites)


# ----------------------------------------------------------------------------- one session
def evaluate(ctx, h, hlines, want_fresh=True):
    """Run one script; return (list of (signature, what), info dict)."""
    viol, info = [], {"solves": 0, "fresh_compared": 0, "bitexact": 0, "steps": 0}
    mlines = [model_line(l) for l in hlines]
    mo = ctx.run_model("ctx", "\n".join(mlines) + "\n", args=["resize", "old"]).splitlines()
    model = []
    for l in mo[:-1]:
        d = dict(x.split("=") for x in l.split()[1:] if "=" in x)
        d["ok"] = 0 if l.startswith("ok=0") else 1
        model.append(d)
    # the repaired code (fixes/C15_*.patch) follows the Fixed variant; a step must agree with one of the two
    mf = ctx.run_model("ctx", "\n".join(mlines) + "\n", args=["resize", "fixed"]).splitlines()
    model_fixed = [dict(x.split("=") for x in l.split()[1:] if "=" in x) for l in mf[:-1]]
    first_bad = next((i for i, d in enumerate(model) if d["ok"] == 0), None)
    model_leak = any(d.get("leaked") == "1" for d in model)

    def defect_at(i):
        w = mlines[i].split()
        if w[0] == "setpoly" and w[3] == "f": return "parse-into-used-context"
        return "resize-with-zero-roots"

    rc, out, err = run_harness(ctx, h, hlines)
    st, roots, leaks = parse_out(out)
    info["steps"] = len(st)
    last = max(st) if st else 0
    sizes = dict(SZ)
    for i in sorted(sizes):
        exact, got = sizes[i]
        if i - 1 >= len(model) or first_bad is not None: break
        exp_o = [int(x) for x in model[i - 1]["alloc"].split(",")]
        exp_f = [int(x) for x in model_fixed[i - 1]["alloc"].split(",")]
        ok = (lambda e: all((g == x) if exact else (g >= x) for g, x in zip(got, e)))
        if not ok(exp_o) and not ok(exp_f):
            badk = [ARR[k] for k in range(12) if ((got[k] != exp_f[k]) if exact else (got[k] < exp_f[k]))]
            info["size_steps_bad"] = info.get("size_steps_bad", 0) + 1
            if len(SIZE_MISMATCH) < 5:
                SIZE_MISMATCH.append({"script": hlines[:i], "arrays": badk, "got": got, "model": exp_f, "step": i})
            break
        info["size_steps"] = info.get("size_steps", 0) + 1
    if rc == 96:
        # a write past the limbs of a GMP number (libgmp is not instrumented; see the guard in the harness)
        approx_before, goal = False, "i"
        for l in hlines[:last + 1]:
            w = l.split()
            if w[0] == "new": approx_before, goal = False, "i"
            if w[0] == "goal": goal = w[1]
            if w[0] in ("solve", "solve_async") and goal == "a": approx_before = True
        fr = asan_signature("ERROR: AddressSanitizer: gmp-overflow\n" + err[err.rfind("ERROR: GmpGuard"):]).split(":", 2)[2]
        fr = "<".join(f for f in fr.split("<") if not f.startswith("vf_"))
        if approx_before:
            sig = "gmp-overflow:stale-precision-after-approximate"
        else:
            sig = "gmp-overflow:%s:%s" % (hlines[last].split()[0] if last < len(hlines) else "?", fr or "sweep")
        g = re.search(r"gmpguard .*", out)
        viol.append((sig, "write past the end of a GMP block at step %d (%s): %s" % (last + 1, hlines[last] if last < len(hlines) else "?", g.group(0) if g else "")))
        return viol, info
    if rc != 0:
        sig = asan_signature(err) if rc in (97, 98) else ("timeout" if rc == 124 else "crash:rc=%d" % rc)
        if first_bad is not None and last >= first_bad:          # the old-code model flags an invalid access at/before the crash
            sig = "memory:" + defect_at(first_bad)
        viol.append((sig, "invalid memory access or abnormal end at step %d (%s): %s" % (last + 1, hlines[last] if last < len(hlines) else "?", sig)))
        return viol, info
    # --- per step: model vs implementation (bookkeeping), implementation vs property
    have_poly = False
    for i, l in enumerate(hlines, 1):
        s = st.get(i)
        if s is None: continue
        md = model[i - 1]
        if l.startswith("poly"): have_poly = True
        if l == "new": have_poly = False
        if s["ctx"]:
            keys = ["init", "zr", "err", "exitreq"] + (["n", "deg"] if have_poly else [])
            diff = [k for k in keys if int(md[k]) != s[k]]
            if (int(md["sec"]) >= 0) != bool(s["sec"]): diff.append("sec")
            mdf = model_fixed[i - 1]
            diff_fixed = [k for k in keys if int(mdf[k]) != s[k]]
            if (int(mdf["sec"]) >= 0) != bool(s["sec"]): diff_fixed.append("sec")
            if diff and diff_fixed and first_bad is None:
                viol.append(("correspondence:state:%s:%s" % (l.split()[0], ",".join(diff)),
                             "model and implementation disagree on %s after step %d (%s)" % (diff, i, l)))
                break
    # --- leaks reported by LSan after free, threads left behind
    n_async = 0          # every executed solve_async leaves one thread behind for the life of the process
    for i, l in enumerate(hlines, 1):
        if l == "solve_async" and i in st and st[i]["note"] != "skipped": n_async += 1
        if l == "free" and i in st and st[i]["thr"] > 1:
            extra = st[i]["thr"] - 1
            if n_async:
                viol.append(("threads-left:async-private-pool",
                             "%d thread(s) still alive after mps_context_free (step %d), %d asynchronous solves so far" % (extra, i, n_async)))
            if extra > n_async:
                viol.append(("threads-left:other", "%d thread(s) still alive after mps_context_free (step %d) beyond those of %d asynchronous solves"
                             % (extra, i, n_async)))
    if any(v == 1 for v in leaks.values()):
        for site in leak_sites(err):
            pre = "leak:zero-roots-resize:" if (model_leak and re.search(r"mps_allocate_data|mps_context_expand", site)) else "leak:"
            viol.append((pre + site, "memory allocated at %s is not released by free_poly/free" % site))
    # --- results of every solve: shape, and same state/discs as a fresh context
    fresh_lines, fresh_map = [], []
    algo, goal, polyline = "u", "i", None
    for i, l in enumerate(hlines, 1):
        w = l.split()
        if w[0] == "new": algo, goal, polyline = "u", "i", None
        if w[0] == "algo": algo = w[1]
        if w[0] == "goal": goal = w[1]
        if w[0] == "poly": polyline = l
        if w[0] == "free_poly": polyline = None
        if w[0] in ("solve", "solve_async") and i in roots and polyline:
            info["solves"] += 1
            R = roots[i]
            if R["err"] or st[i]["err"]: continue
            dorig = int(model_line(polyline).split()[1]); zexp = int(model_line(polyline).split()[2])
            if R["count"] + st[i]["zr"] != dorig or st[i]["zr"] != zexp:
                viol.append(("history:zero_roots:%s" % polyline.split()[1],
                             "step %d: %d roots returned + zero_roots %d != degree %d (polynomial has %d zero roots)"
                             % (i, R["count"], st[i]["zr"], dorig, zexp)))
            for wr in R["r"]:
                if disc(wr)[2] is None:
                    viol.append(("results:radius-not-finite", "step %d: root %s has radius %s" % (i, wr[1], wr[5])))
                    break
            if want_fresh:
                base = len(fresh_lines)
                fresh_lines += ["new", "algo " + algo, "goal " + goal, polyline, "solve", "free"]
                fresh_map.append((i, base + 5))
    if want_fresh and fresh_lines:
        frc, fout, ferr = run_harness(ctx, h, fresh_lines)
        fst, froots, _ = parse_out(fout)
        if frc == 0:
            for i, j in fresh_map:
                if j not in froots or froots[j]["err"]: continue
                A, B = roots[i], froots[j]
                info["fresh_compared"] += 1
                if [x[2:] for x in A["r"]] == [x[2:] for x in B["r"]]: info["bitexact"] += 1; continue
                if st[i]["zr"] != fst[j]["zr"]:
                    viol.append(("history:zero_roots:%s" % hlines[i - 1 - [x.split()[0] for x in hlines[:i]][::-1].index("poly")].split()[1],
                                 "step %d: zero_roots is %d on the reused context, %d on a fresh one" % (i, st[i]["zr"], fst[j]["zr"])))
                    continue
                if A["count"] != B["count"]:
                    viol.append(("history:count", "step %d: reused context returns %d roots (zr %d), fresh context %d (zr %d)"
                                 % (i, A["count"], st[i]["zr"], B["count"], fst[j]["zr"])))
                    continue
                da = [disc(x) for x in A["r"]]; db = [disc(x) for x in B["r"]]
                if any(x[2] is None for x in da + db): continue
                # a disc with status isolated/approximated claims a root: it must meet a disc of the other run
                for (X, dx, Y, dy, who) in ((A, da, B, db, "reused"), (B, db, A, da, "fresh")):
                    bad = [k for k in range(len(dx)) if X["r"][k][2] in ("2", "3") and not any(intersects(dx[k], y) for y in dy)]
                    if bad:
                        viol.append(("history:discs-disjoint",
                                     "step %d (%s): disc %d of the %s context meets no disc of the other run" % (i, hlines[i - 1], bad[0], who)))
                        break
    return viol, info


def shrink(ctx, h, hlines, sig, budget=14):
    """delta debugging on the op list (keeps the first 'new'); returns a shorter script with the same signature"""
    cur = list(hlines)
    chunk = max(1, len(cur) // 2)
    while chunk >= 1 and budget > 0:
        i, changed = 1, False
        while i < len(cur) and budget > 0:
            cand = cur[:i] + cur[i + chunk:]
            budget -= 1
            v, _ = evaluate(ctx, h, cand, want_fresh=sig.startswith("history"))
            if any(s == sig for s, _ in v):
                cur, changed = cand, True
            else:
                i += chunk
        if not changed: chunk //= 2
    return cur


# ----------------------------------------------------------------------------- growth
run_out = {}

def growth(ctx, h, rng, with_zero_roots):
    cyc = []
    p1 = gen_poly(rng, "m", 14, 0); p2 = gen_poly(rng, "m", 6, 0); p3 = gen_poly(rng, "s", 8, 0)
    if with_zero_roots:
        p2 = Poly("m", 7, 3, "poly m 7 0 0 0 1 0 0 2 1", "")
    cyc = [p1.line, "algo u", "solve", p2.line, "algo s", "solve", "get_roots", p3.line, "solve", "algo u", "free_poly", "mark"]
    lines = ["new"] + cyc * 200 + ["free", "leakcheck"]
    rc, out, err = run_harness(ctx, h, lines, timeout=240)
    st, _, _ = parse_out(out)
    marks = [st[i]["heap"] for i in sorted(st) if st[i]["op"] == "mark"]
    run_out[("cycle-with-zero-roots" if with_zero_roots else "cycle")] = out
    return rc, marks, err, lines


# ----------------------------------------------------------------------------- main
def report(ctx, h, hlines, viol, tag, do_shrink=True):
    for sig, what in viol:
        script = hlines
        if do_shrink and len(ctx.violations) < 3 and not any(k.get("signature") == sig for k in ctx.known):
            try: script = shrink(ctx, h, hlines, sig)
            except vf.InfraError: raise
            except Exception: script = hlines
        ctx.violation(sig, what, {"script": script, "tag": tag})


def run(ctx):
    ctx.prove()
    h = ctx.compile_harness([HARNESS], "c15_reuse", mode="san")
    rng = ctx.rng
    hist = {"ops": {}, "kinds": {}, "lengths": {}, "degree_bucket": {}}
    samples, totals = [], {"sessions": 0, "steps": 0, "solves": 0, "fresh_compared": 0, "bitexact": 0, "clean_sessions": 0}

    if ctx.replay:
        obj = json.load(open(ctx.replay))
        script = obj.get("script") or obj.get("replay", {}).get("script")
        v, info = evaluate(ctx, h, script)
        report(ctx, h, script, v, "replay", do_shrink=False)
        return ctx.finish("proof", {"evaluations": 1, "distinct_nontrivial": 1, "rule": "replay", "samples": [script[:6]],
                                    "op_histogram": {}, "trusted_base": ["replay"]}, [])

    def account(lines):
        for l in lines:
            w = l.split()
            hist["ops"][w[0]] = hist["ops"].get(w[0], 0) + 1
            if w[0] == "poly":
                hist["kinds"][w[1]] = hist["kinds"].get(w[1], 0) + 1
                d = int(model_line(l).split()[1]); b = "%d-%d" % (d // 10 * 10, d // 10 * 10 + 9)
                hist["degree_bucket"][b] = hist["degree_bucket"].get(b, 0) + 1

    # 1. witnesses of the refutation theorems, on the real code
    for name, script in WITNESSES.items():
        v, info = evaluate(ctx, h, script)
        account(script); totals["sessions"] += 1; totals["steps"] += info["steps"]
        report(ctx, h, script, v, name, do_shrink=False)

    # 2. random sessions: clean ones (inputs of the known defects avoided) and unrestricted ones
    n_clean, n_full = ctx.pick((20, 12), (300, 200))
    dmax = ctx.pick(24, 40)
    seen = set()
    for k in range(n_clean + n_full):
        clean = k < n_clean
        length = rng.randint(1, 30)
        ops = gen_session(rng, length, clean, dmax)
        hl = [o[0] for o in ops]
        key = tuple(model_line(l) for l in hl)
        v, info = evaluate(ctx, h, hl)
        account(hl)
        totals["sessions"] += 1; totals["clean_sessions"] += int(clean)
        for f in ("steps", "solves", "fresh_compared", "bitexact"): totals[f] += info[f]
        totals["size_steps"] = totals.get("size_steps", 0) + info.get("size_steps", 0)
        lb = "%d-%d" % (len(hl) // 10 * 10, len(hl) // 10 * 10 + 9)
        hist["lengths"][lb] = hist["lengths"].get(lb, 0) + 1
        if key not in seen and len([l for l in hl if l.startswith("solve")]) >= 1: seen.add(key)
        if len(samples) < 4: samples.append([l[:60] for l in hl[:8]])
        report(ctx, h, hl, v, "random-%s-%d" % ("clean" if clean else "full", k))

    # 2b. growing / shrinking degrees with multiple roots and clusters on one context (standard algorithm)
    n_grow = ctx.pick(10, 120)
    for k in range(n_grow):
        goal = "a" if k % 5 == 4 else "i"
        hl = gen_grow_session(rng, goal, ctx.pick(18, 30))
        v, info = evaluate(ctx, h, hl)
        account(hl)
        totals["sessions"] += 1; totals["grow_sessions"] = totals.get("grow_sessions", 0) + 1
        for f in ("steps", "solves", "fresh_compared", "bitexact"): totals[f] += info[f]
        totals["size_steps"] = totals.get("size_steps", 0) + info.get("size_steps", 0)
        seen.add(tuple(hl))
        if k == 0: samples.append([l[:60] for l in hl[:8]])
        report(ctx, h, hl, v, "grow-%s-%d" % (goal, k))

    # 2c. the same kind of sessions under valgrind/memcheck on the uninstrumented build (sees accesses made inside
    #     libgmp and reads past a block, which ASan + the GMP guard do not); a handful in the quick tier, more in thorough
    vg_runs = 0
    if True:
        hp = ctx.compile_harness([HARNESS], "c15_reuse_plain", mode="plain")
        sessions = [WITNESSES["grow_multiple_roots"], WITNESSES["shrink_then_grow_clusters"], WITNESSES["approximate_then_larger"]]
        sessions += [gen_grow_session(rng, "a" if k % 3 == 2 else "i", 24) for k in range(ctx.pick(3, 40))]
        for hl in sessions:
            script = [l for l in hl if l != "leakcheck"]
            env = dict(os.environ); env["VF_GMP_GUARD"] = "0"
            rc, out, err = vf.sh(["valgrind", "-q", "--error-exitcode=9", "--leak-check=no", "--undef-value-errors=no", "--num-callers=12", hp],
                                 input="\n".join(script) + "\n", timeout=1500, env=env)
            vg_runs += 1
            if rc == 9 or "Invalid " in err:
                m = re.search(r"(Invalid (?:read|write|free)[^\n]*)\n((?:==\d+==\s+(?:at|by) [^\n]*\n)+)", err)
                fr = re.findall(r"(?:at|by) 0x[0-9A-F]+: (\w+) \((?!in /usr)", m.group(2))[:3] if m else []
                approx = any(l == "goal a" for l in script)
                sig = "gmp-overflow:stale-precision-after-approximate" if approx else "valgrind:%s:%s" % ((m.group(1).split(" of")[0].replace(" ", "-") if m else "error"), "<".join(fr))
                ctx.violation(sig, "memcheck: %s in %s" % (m.group(1) if m else "error", "<".join(fr)), {"script": script, "tag": "valgrind"})

    # 3. heap growth over 200 repetitions of a fixed cycle
    growth_info = {}
    for zr in (False, True):
        rc, marks, err, lines = growth(ctx, h, rng, zr)
        name = "cycle-with-zero-roots" if zr else "cycle"
        if rc == 0 and len(marks) >= 200:
            gst, groots, gleaks = parse_out(run_out[name])
            if any(v == 1 for v in gleaks.values()):
                for site in leak_sites(err):
                    pre = "leak:zero-roots-resize:" if (zr and re.search(r"mps_allocate_data|mps_context_expand", site)) else "leak:"
                    ctx.violation(pre + site, "memory allocated at %s is not released after 200 solve cycles + free" % site,
                                  {"script": lines[:1 + 12 * 2] + ["free", "leakcheck"], "tag": name})
        if rc != 0 or len(marks) < 200:
            v, _ = evaluate(ctx, h, lines[:1 + 12 * 3] + ["free", "leakcheck"], want_fresh=False)
            report(ctx, h, lines[:1 + 12 * 3] + ["free", "leakcheck"], v or [("growth:%s:abnormal-end" % name, "cycle run ended with rc=%d after %d cycles: %s" % (rc, len(marks), err[-300:]))], name, do_shrink=False)
            continue
        # thread start/stop inside the library makes the figure jitter by a few hundred bytes on a loaded machine:
        # compare minima over windows and ignore less than 2 KiB (a per-cycle leak of >= 14 bytes exceeds it; smaller
        # ones are still reported by the leak check that ends the run)
        g = min(marks[180:200]) - min(marks[40:60])
        if g <= 2048: g = 0
        growth_info[name] = {"heap_after_50": marks[49], "heap_after_200": marks[199], "growth_bytes": g}
        totals["steps"] += len(lines)
        if g > 0:
            ctx.violation("growth:%s" % name, "heap grows by %d bytes between cycle 50 and cycle 200 of a fixed solve cycle on one context" % g,
                          {"script": lines[:1 + 12 * 2] + ["free"], "tag": name, "marks": marks[::10]})

    # array sizes observed in the implementation differ from the size expressions of the model: the targeted search
    # are the grow/shrink sessions above; if none of them produced a concrete violation, report the broken correspondence
    if SIZE_MISMATCH and not ctx.violations:
        sm = SIZE_MISMATCH[0]
        ctx.violation("correspondence:array-size:%s" % ",".join(sm["arrays"]),
                      "work array(s) %s are not allocated with the size the model of context.c/data.c prescribes after step %d (%s): got %s, model %s"
                      % (sm["arrays"], sm["step"], sm["script"][-1][:50], sm["got"], sm["model"]), {"script": sm["script"] + ["free"], "tag": "sizes"}, no_input=True)
    p = ctx.proof or {}
    ctx.proof_violation_if_broken(search=None)
    cov = {
        "evaluations": totals["steps"],
        "distinct_nontrivial": len(seen),
        "rule": "distinct random operation sequences (as model scripts) containing at least one solve; evaluations = operations executed on the real library and compared with the extracted model",
        "sessions": totals["sessions"], "clean_sessions": totals["clean_sessions"], "grow_multiple_root_sessions": totals.get("grow_sessions", 0),
        "steps_with_all_12_array_sizes_equal_to_model": totals.get("size_steps", 0), "array_size_mismatches": len(SIZE_MISMATCH),
        "valgrind_sessions": vg_runs,
        "solves": totals["solves"], "solves_compared_with_fresh_context": totals["fresh_compared"],
        "solves_bit_identical_to_fresh_context": totals["bitexact"],
        "heap_growth": growth_info,
        "op_histogram": hist["ops"], "poly_kind_histogram": hist["kinds"], "length_histogram": hist["lengths"],
        "degree_histogram": hist["degree_bucket"],
        "samples": samples,
        "trusted_base": [
            "Coq 8.16.1 kernel (coqc, full .vo build); theorems closed under the global context",
            "extraction: ExtrOcamlBasic + ExtrOcamlNativeString only; ocaml/ctx_driver.ml (hand written I/O)",
            "harness/c15_reuse.c reads private fields of struct mps_context (incl. allocated size of the 12 work arrays via the ASan allocator) and wraps GMP allocations with canaries (libgmp is not instrumented); gcc ASan/UBSan/LSan runtime; valgrind memcheck in the thorough tier",
            "modelled, not verified: the numerical part of a solve is abstracted to 'touches the whole n-based extent of each work array'; bmpc and the thread pools are outside the model",
            "results are compared with a fresh context (disc intersection), not validated against the true roots here (C01/C02 oracle)",
        ],
    }
    assumptions = [
        "operation sequences are valid API usage: no solve without a live input polynomial, get_roots only after data was allocated, degrees >= 1 after deflation",
        "secular equations are solved with MPS_ALGORITHM_SECULAR_GA only",
        "exploration (sanitizers, heap accounting) covers the sampled sequences only; the proof covers all sequences of the bookkeeping model",
    ]
    return ctx.finish("proof", cov, assumptions)
