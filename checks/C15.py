"""C15 -- a context can be reused: results are history independent and memory safe.

proof   : coq/Props/Properties_C15.v (bookkeeping model of context.c/data.c, Old and Fixed variants)
tie     : operation scripts over the widened API (set_degree, output precision/format, starting phase, jacobi/crude/
          avoid-multiprecision, every polynomial kind, errors, abort, async) run through harness/c15_reuse.c (real
          libmps, ASan+UBSan+LSan) and through the extracted model bin/ctx (api old|fixed); after every step
          (initialized, n, deg, zero_roots, error_state, exit_required, degree of the helper secular equation,
          over_max, all settings, the 12 array sizes) are compared; the outcome of the numerical part that the model
          needs (over_max / lastphase / error of THIS solve) is taken from the same solve on a fresh context
verdict : decided on the real library only: sanitizer report, leak report after free, threads left after
          free, heap growth over 200 cycles, state/results differing from those of a fresh context.
"""
import json, os, re, signal
from fractions import Fraction
import vf

HARNESS = "c15_reuse.c"


# ----------------------------------------------------------------------------- scripts
class Poly:
    def __init__(self, kind, d, z, line, text):
        self.kind, self.d, self.z, self.line, self.text = kind, d, z, line, text


def gen_poly(rng, kind, dmax, zmax):
    if kind == "s":
        n = rng.randint(2, min(12, dmax))
        bs = rng.sample(range(-20, 21), n)
        a = [rng.choice([-1, 1]) * rng.randint(1, 9) for _ in range(n)]
        body = " ".join("%d %d" % (a[i], bs[i]) for i in range(n))
        return Poly("s", n, 0, "poly s %d %s" % (n, body), "secular n=%d" % n)
    if kind == "c":
        n = rng.randint(2, min(10, dmax))
        c = [rng.randint(-9, 9) for _ in range(n)] + [rng.choice([-3, -1, 1, 2, 5])]
        return Poly("c", n, 0, "poly c %d %s" % (n, " ".join(str(x) for x in c)), "chebyshev n=%d" % n)
    if kind == "d":
        n = rng.randint(2, min(8, dmax))
        z = rng.choice([0, 0, 1]) if zmax else 0
        c = [0.0] * z + [rng.choice([-1, 1]) * rng.randint(1, 29) / 10.0 for _ in range(n - z)] + [1.0]
        return Poly("d", n, z, "poly d %d %d %s" % (n, rng.choice([53, 53, 24, 100]), " ".join(repr(x) for x in c)), "float d=%d z=%d" % (n, z))
    d = rng.randint(1, dmax)
    z = 0
    if zmax and d > 1 and rng.random() < 0.5:
        z = rng.randint(1, min(zmax, d - 1))
    c = [0] * z + [rng.randint(-9, 9) for _ in range(d - z + 1)]
    if c[z] == 0: c[z] = rng.choice([-3, -1, 1, 2])
    if c[d] == 0: c[d] = rng.choice([-2, 1, 1, 3])
    if d - z >= 2 and rng.random() < 0.2:            # x^m - c style
        c = [0] * z + [rng.choice([-2, -1, 1, 3])] + [0] * (d - z - 1) + [1]
    cs = " ".join(str(x) for x in c)
    if kind == "f":
        text = "Degree=%d;\\nMonomial;\\nInteger;\\nReal;\\nDense;\\n\\n%s\\n" % (d, cs)
        return Poly("f", d, z, "poly f " + text, "file d=%d z=%d" % (d, z))
    return Poly("m", d, z, "poly m %d %s" % (d, cs), "monomial d=%d z=%d" % (d, z))


def gen_session(rng, length, clean, dmax):
    """-> list of (harness line, model line, info).  clean: avoid the inputs of the known defects."""
    ops = [("new", "new", None)]
    algo, goal, cur, initialised, dead = "u", "i", None, False, False
    n_ops = 0
    while n_ops < length:
        r = rng.random()
        n_ops += 1
        if cur is None or r < 0.27:
            kinds = ["m"] * 6 + ["s"] * 2 + ["d"] + ([] if (clean and initialised) or dead else ["f"] * 2)
            if algo == "s" or not clean: kinds += ["c"]
            k = rng.choice(kinds)
            p = gen_poly(rng, k, dmax, 0 if clean else 5)
            if k in "sc" and algo != "s" and (clean or rng.random() < 0.7):      # otherwise: the standard algorithm reports an error
                algo = "s"; ops.append(("algo s", "algo s", None))
            if k in "sc" and algo != "s": dead = True
            cur = p
            ops.append((p.line, "setpoly %d %d %s" % (p.d, p.z, p.kind), p))
        elif r < 0.52:
            a = "solve_async" if (not clean and rng.random() < 0.25) else "solve"
            ops.append((a, a, ("solve", cur, algo, goal)))
            if not dead: initialised = True
        elif r < 0.58:
            a = rng.choice("us")
            if cur is not None and cur.kind in "sc" and (clean or rng.random() < 0.8): a = "s"
            if cur is not None and cur.kind in "sc" and a == "u": dead = True
            algo = a; ops.append(("algo " + a, "algo " + a, None))
        elif r < 0.64:
            goal = rng.choice("ia"); ops.append(("goal " + goal, "goal " + goal, None))
        elif r < 0.72:
            # the plain setters: output precision / format, starting phase, the three switches
            w = rng.choice(["prec %d" % rng.choice([30, 53, 64, 120]), "format %d" % rng.randint(0, 4), "startphase %d" % rng.choice([0, 1, 2]),
                            "jacobi %d" % rng.randint(0, 1), "crude %d" % rng.randint(0, 1), "avoidmp %d" % rng.randint(0, 1)])
            ops.append((w, w, None))
        elif r < 0.78:
            # mps_context_set_degree called directly: with the degree of the active polynomial (only the helper goes away)
            # or with another one (the polynomial must be set again before the next solve; the harness skips the solve otherwise)
            if cur is not None and rng.random() < 0.6: k = cur.d - cur.z
            else: k = rng.randint(1, dmax); cur = None if (cur is None or k != cur.d - cur.z) else cur
            ops.append(("setdeg %d" % k, "setdeg %d" % k, None))
        elif r < 0.85:
            ops.append(("get_roots", "get_roots", None))
        elif r < 0.88:
            ops.append(("free_poly", "free_poly", None)); cur = None
        elif r < 0.92 and not clean and not dead and n_ops > length // 2:
            if rng.random() < 0.3: ops.append(("abort", "abort", None))
            else: ops.append(("bad " + rng.choice(["x^", "x^2+*3", "x^(2"]), "bad", None)); dead = True
        elif r < 0.96:
            ops.append(("free", "free", None)); ops.append(("leakcheck", "leakcheck", None))
            ops.append(("new", "new", None))
            algo, goal, cur, initialised, dead = "u", "i", None, False, False
    ops.append(("free", "free", None)); ops.append(("leakcheck", "leakcheck", None))
    return ops


def mono(rng, d, z):
    c = [0] * z + [rng.randint(-9, 9) for _ in range(d - z + 1)]
    if c[z] == 0: c[z] = rng.choice([-3, -1, 1, 2])
    if c[d] == 0: c[d] = rng.choice([-2, 1, 1, 3])
    return "poly m %d %s" % (d, " ".join(str(x) for x in c))


def secular(rng, n):
    bs = rng.sample(range(-20, 21), n)
    return "poly s %d %s" % (n, " ".join("%d %d" % (rng.choice([-1, 1]) * rng.randint(1, 9), bs[i]) for i in range(n)))


AIMED = ["shrink_grow", "zero_roots", "algo_switch", "error_between", "async_reuse", "over_max", "settings", "set_degree"]


def gen_aimed_session(rng, k, dmax):
    """sessions aimed at the case splits of the proofs (resize: n' < n, = n, > n across the size of the first allocation;
    zero roots before / after; helper lifetime across algorithm switches and set_degree; sticky error; async; per-solve flags)"""
    t = AIMED[k % len(AIMED)]
    L = ["new"]
    if t == "shrink_grow":
        d0 = rng.randint(4, max(5, dmax // 2))
        L += [mono(rng, d0, 0), "solve"]
        for d in (rng.randint(1, d0 - 1), d0, rng.randint(d0 + 1, dmax), d0 - 1, d0 + 1):
            z = rng.choice([0, 0, min(2, d - 1)])
            L += [mono(rng, d + z, z), "solve"] + (["get_roots"] if rng.random() < 0.4 else [])
    elif t == "zero_roots":
        d = rng.randint(3, dmax // 2); z = rng.randint(1, 4)
        L += [mono(rng, d + z, z), "solve", "get_roots", mono(rng, d, 0), "solve", mono(rng, d + z + 3, z + 1), "solve", "get_roots",
              "algo s", secular(rng, rng.randint(2, 8)), "solve", "get_roots", "algo u", mono(rng, d + 1, 1), "solve"]
    elif t == "algo_switch":
        d = rng.randint(3, 12)
        L += [mono(rng, d, 0), "solve", "algo s", "solve", "algo u", "solve", "algo s", "solve", "setdeg %d" % d, "solve",
              mono(rng, d, 0), "solve", mono(rng, d + rng.randint(1, 5), 0), "solve", "algo u", "solve"]
    elif t == "error_between":
        d = rng.randint(3, 10)
        how = rng.choice(["cheb", "bad", "abort"])
        L += [mono(rng, d, 0), "solve"]
        if how == "cheb": L += ["poly c 4 1 -2 0 3 5", "solve", "get_roots"]
        elif how == "bad": L += ["bad x^2+*3"]
        else: L += ["abort", "algo s", "solve"]
        L += [mono(rng, d + 2, 1), "solve", "get_roots", "setdeg %d" % rng.randint(1, 9)]
    elif t == "async_reuse":
        d = rng.randint(3, 12)
        L += [mono(rng, d, 0), "solve_async", "get_roots", mono(rng, d + rng.randint(1, 6), rng.choice([0, 1])), "solve",
              "algo s", "solve_async", mono(rng, max(1, d - 2), 0), "solve_async"]
    elif t == "over_max":
        # a solve that legitimately exhausts its input precision, then exact input on the same context
        algo2 = rng.choice("us")
        L += ["goal a", "prec %d" % rng.choice([200, 400]),
              "poly d 4 53 0.1 -0.3 0.7 1.1 1.0" if rng.random() < 0.5 else gen_poly(rng, "d", 6, 0).line.replace(" 24 ", " 53 ").replace(" 100 ", " 53 "),
              "solve", "goal " + rng.choice("ia"), "algo " + algo2, roots_poly(rng, rng.randint(3, 6), 1), "solve", "get_roots"]
    elif t == "settings":
        d = rng.randint(3, 10)
        L += ["startphase %d" % rng.choice([1, 2]), "jacobi 1", mono(rng, d, 0), "solve", "format 2", "crude 1", "solve", "crude 0",
              "avoidmp 1", mono(rng, d + 3, 0), "solve", "avoidmp 0", "algo s", "startphase 0", "prec 64", "solve", "jacobi 0", "startphase 2", "solve"]
    elif t == "set_degree":
        d = rng.randint(3, 10)
        L += ["setdeg %d" % rng.randint(1, dmax), mono(rng, d, 0), "setdeg %d" % d, "solve", "setdeg %d" % (d + 4), "setdeg %d" % max(1, d - 2),
              "solve", mono(rng, d + 1, 0), "algo s", "solve", "setdeg %d" % (d + 1), "solve", "setdeg 1"]
    return L + ["free", "leakcheck"]


def roots_poly(rng, n, mult):
    """prod (x - r_i): one root of multiplicity mult (if > 1), sometimes a second double/triple root, the rest simple"""
    pool = [x for x in range(-12, 13) if x != 0]
    rng.shuffle(pool)
    rs, k = [], 0
    if mult > 1:
        rs += [pool[k]] * min(mult, n); k += 1
    if n - len(rs) >= 3 and rng.random() < 0.5:
        rs += [pool[k]] * rng.choice([2, 3]); k += 1
    while len(rs) < n:
        rs.append(pool[k % len(pool)] + (25 * (k // len(pool)))); k += 1
    rs = rs[:n]
    rng.shuffle(rs)
    return "poly r %d %s" % (n, " ".join(str(x) for x in rs))


def gen_grow_session(rng, goal, dmax):
    """one context, standard algorithm: a small solve, then larger degrees whose multiple roots / clusters exceed the
    previous degree (cluster restarts in the multiprecision phase work on the resized arrays), then shrink and grow again"""
    lines = ["new", "algo u", "goal " + goal]
    d = rng.randint(2, 5)
    lines += [roots_poly(rng, d, 1), "solve"]
    for step in range(rng.randint(2, 4)):
        if step % 2 == 0:                               # grow: multiplicity larger than the previous degree
            m = min(d + rng.randint(1, 2), 7)
            d2 = min(dmax, m + rng.randint(3, 9))
            lines += [roots_poly(rng, d2, m), "solve"]
        else:                                           # shrink
            d2 = rng.randint(2, max(2, d - 2))
            lines += [roots_poly(rng, d2, rng.choice([1, 1, 2])), "solve"]
        if rng.random() < 0.3: lines.append("get_roots")
        d = d2
    lines += ["free", "leakcheck"]
    return lines


WITNESSES = {
    # degree sequence 3 -> 12 (quadruple root) -> 5 -> 16 (triple and double root), standard algorithm, isolate
    "grow_multiple_roots": ["new", "poly r 3 1 2 3", "solve", "poly r 12 1 1 1 1 2 3 4 5 6 7 8 9", "solve", "poly r 5 1 2 3 4 5", "solve",
                            "poly r 16 1 1 1 2 2 3 4 5 6 7 8 9 10 11 12 13", "solve", "get_roots", "free", "leakcheck"],
    "shrink_then_grow_clusters": ["new", "poly r 9 2 2 2 2 2 -3 4 5 6", "solve", "poly r 2 1 -1", "solve",
                                  "poly r 14 7 7 7 7 7 7 -2 -2 -2 1 3 5 9 11", "solve", "goal a", "free", "leakcheck"],
    # goal approximate on a reused context: precision bookkeeping left by mps_improve / mps_restore_data
    "approximate_then_larger": ["new", "goal a", "poly r 3 1 2 3", "solve", "poly r 12 1 1 1 1 2 3 4 5 6 7 8 9", "solve", "free", "leakcheck"],
    "approximate_twice": ["new", "goal a", "poly r 6 1 1 1 2 3 4", "solve", "solve", "free", "leakcheck"],
    # the model witnesses of Properties_C15.v, replayed on the real library
    "witness_zero_roots": ["new", "poly m 2 -1 0 1", "solve", "poly m 8 0 0 0 0 0 1 0 0 1", "solve", "free", "leakcheck"],
    "witness_parse": ["new", "poly m 2 -1 0 1", "solve",
                      "poly f Degree=8;\\nMonomial;\\nInteger;\\nReal;\\nDense;\\n\\n-1 0 0 0 0 3 0 0 1\\n", "solve", "free", "leakcheck"],
    "witness_shrink_leak": ["new", "poly m 8 -1 0 0 0 0 3 0 0 1", "solve", "poly m 5 0 0 1 0 0 1", "solve", "free", "leakcheck"],
    "witness_sticky_zero_roots": ["new", "poly m 8 0 0 0 0 0 1 0 0 1", "algo s", "poly s 4 1 1 1 2 1 3 1 4", "solve", "get_roots", "free", "leakcheck"],
    "witness_async_pool": ["new", "poly m 3 -1 0 0 1", "solve_async", "free", "leakcheck"],
    "witness_error_then_free": ["new", "poly m 3 -1 0 0 1", "solve", "bad x^", "solve", "free", "leakcheck"],
    # C15_wide_over_max_secular_refuted: over_max of an earlier solve survives a solve with the secular algorithm
    "witness_stale_over_max_secular": ["new", "goal a", "prec 400", "poly d 4 53 0.1 -0.3 0.7 1.1 1.0", "solve", "algo s", "goal i",
                                       "poly r 5 1 2 3 5 7", "solve", "free", "leakcheck"],
    # the same with the standard algorithm, which clears the flag (main.c:62)
    "over_max_then_exact_standard": ["new", "goal a", "prec 400", "poly d 4 53 0.1 -0.3 0.7 1.1 1.0", "solve", "poly r 5 1 2 3 5 7", "solve",
                                     "free", "leakcheck"],
    "abort_then_secular_solve": ["new", "algo s", "poly m 5 1 0 0 0 2 1", "abort", "solve", "get_roots", "free", "leakcheck"],
    "abort_then_secular_equation": ["new", "algo s", "poly s 4 1 1 1 2 1 3 1 4", "abort", "solve", "free", "leakcheck"],
    "stale_dpm_overflow": ["new", "algo u", "goal i", "poly r 2 9 -7", "solve", "poly r 7 -1 7 7 -1 7 -1 7", "solve", "get_roots", "poly r 2 -6 -11", "solve",
                           "poly r 6 1 6 8 1 -6 1", "solve", "poly r 3 -7 -3 -3", "solve", "free", "leakcheck"],
    "stale_dpm_wrong_disc": ["new", "algo u", "goal i", "poly r 3 -3 -1 -3", "solve", "poly r 10 4 5 5 5 -2 9 11 5 -2 -2", "solve", "poly r 2 -4 7", "solve",
                             "poly r 9 4 -10 -4 5 5 5 11 -12 5", "solve", "poly r 2 1 -3", "solve", "free", "leakcheck"],
    # sticky error before the first solve: interface.c:68 returns at once, nothing is allocated (C15_sticky_error_flag)
    "error_before_first_solve": ["new", "bad x^2+*3", "poly m 3 -1 0 0 1", "solve", "algo s", "solve", "get_roots", "free", "leakcheck"],
    "secular_resolve_forced_phase": ["new", "algo s", "startphase 1", "poly m 21 -9 -1 -9 7 6 6 2 -4 -5 4 -8 0 -9 -4 -4 4 2 -4 -2 -4 7 9", "solve", "solve", "free", "leakcheck"],
    "secular_mp_phase": ["new", "prec 200", "algo s", "poly r 4 -8 -8 -5 -8", "solve", "get_roots", "free", "leakcheck"],
    # helper secular equation across set_degree with the same degree, Chebyshev base, error of the standard algorithm on it
    "helper_same_degree": ["new", "algo s", "poly m 4 -1 0 0 0 1", "solve", "setdeg 4", "solve", "poly m 4 2 0 0 1 1", "solve",
                           "poly c 4 1 -2 0 3 5", "solve", "algo u", "solve", "free", "leakcheck"],
}


def model_line(hl):
    w = hl.split()
    if w[0] == "poly":
        if w[1] == "m":
            d = int(w[2]); c = [int(x) for x in w[3:4 + d]]
            z = 0
            while z < d and c[z] == 0: z += 1
            return "setpoly %d %d m" % (d, z)
        if w[1] == "s":
            return "setpoly %d 0 s" % int(w[2])
        if w[1] == "r":
            n = int(w[2]); z = sum(1 for x in w[3:3 + n] if int(x) == 0)
            return "setpoly %d %d m" % (n, z)
        if w[1] == "f":
            m = re.search(r"Degree=(\d+)", hl); d = int(m.group(1))
            c = [int(x) for x in hl.split("\\n\\n")[1].replace("\\n", " ").split()]
            z = 0
            while z < d and c[z] == 0: z += 1
            return "setpoly %d %d f" % (d, z)
        if w[1] == "d":
            d = int(w[2]); c = [float(x) for x in w[4:5 + d]]
            z = 0
            while z < d and c[z] == 0: z += 1
            return "setpoly %d %d m" % (d, z)
        if w[1] == "c":
            return "setpoly %d 0 c" % int(w[2])
    if w[0] == "bad": return "bad"
    return hl


# ----------------------------------------------------------------------------- running
def san_env(ctx):
    env = ctx.san_env()
    env["ASAN_OPTIONS"] = "detect_leaks=1:abort_on_error=0:exitcode=97:allocator_may_return_null=1:fast_unwind_on_malloc=0:malloc_context_size=8:leak_check_at_exit=0"
    return env


def run_harness(ctx, h, lines, timeout=120):
    rc, out, err = vf.sh([h], input="\n".join(lines) + "\n", timeout=timeout, env=san_env(ctx))
    return rc, out, err


ST_RE = re.compile(r"^st (\d+) (\S+) ctx=(\d) init=(\d) n=(-?\d+) deg=(-?\d+) zr=(-?\d+) err=(\d) exitreq=(\d) sec=(\d) bmpc=(\d) heap=(\d+) thr=(-?\d+) ?(\S*)")


ARR = ["root", "order", "fppc1", "mfpc1", "mfppc1", "spar1", "again_old", "fap1", "fap2", "dap1", "dpc1", "dpc2"]
SIZE_MISMATCH = []


def parse_out(out):
    """-> st, roots, leaks, sz (line -> (exact?, sizes of the 12 work arrays)), fl (line -> per-solve flags and settings)"""
    st, roots, leaks, sz, fl, cur = {}, {}, {}, {}, {}, None
    for l in out.splitlines():
        m = ST_RE.match(l)
        if m:
            g = m.groups()
            st[int(g[0])] = dict(op=g[1], ctx=int(g[2]), init=int(g[3]), n=int(g[4]), deg=int(g[5]), zr=int(g[6]), err=int(g[7]),
                                 exitreq=int(g[8]), sec=int(g[9]), bmpc=int(g[10]), heap=int(g[11]), thr=int(g[12]), note=g[13])
            continue
        if l.startswith("sz "):
            w = l.split(); sz[int(w[1])] = (int(w[2]), [int(x) for x in w[3].split(",")]); continue
        if l.startswith("fl "):
            w = l.split(); fl[int(w[1])] = dict((x.split("=")[0], int(x.split("=")[1])) for x in w[2:]); continue
        if l.startswith("roots "):
            w = l.split(); cur = int(w[1]); roots[cur] = dict(count=int(w[2]), phase=w[3], err=int(w[4].split("=")[1]), r=[])
        elif l.startswith("r ") and cur is not None:
            roots[cur]["r"].append(l.split())
        elif l.startswith("leak "):
            w = l.split(); leaks[int(w[1])] = int(w[2])
    return st, roots, leaks, sz, fl


def hexval(t):
    m, e = t.split("@"); e = int(e)
    neg = m.startswith("-"); m = m.lstrip("-")
    v = Fraction(int(m, 16), 16 ** len(m)) * (Fraction(16) ** e)
    return -v if neg else v


def disc(w):
    """w = ['r', i, status, re, im, mant, exp] -> (re, im, radius) as Fractions (radius None if not finite)"""
    re_, im_ = hexval(w[3]), hexval(w[4])
    try:
        m = float.fromhex(w[5])
    except ValueError:
        return re_, im_, None
    if m != m or m in (float("inf"), float("-inf")) or m < 0:
        return re_, im_, None
    e = int(w[6])
    if e > 4000: return re_, im_, Fraction(2) ** 4000
    return re_, im_, Fraction(m) * (Fraction(2) ** e)


def intersects(a, b):
    dx, dy, rr = a[0] - b[0], a[1] - b[1], a[2] + b[2]
    return dx * dx + dy * dy <= rr * rr


def asan_signature(err):
    # the fatal report is the last AddressSanitizer/UBSan error in the stream (LSan reports of earlier leak checks precede it)
    k = max(err.rfind("ERROR: AddressSanitizer"), err.rfind("runtime error:"))
    tail = err[k:] if k >= 0 else err
    if tail.startswith("runtime error:") or ("runtime error" in tail and "AddressSanitizer" not in tail):
        m2 = re.search(r"([\w./-]+\.c):(\d+):\d+: runtime error: ([^\n]{0,60})", err[max(0, k - 200):])
        return "ubsan:%s:%s" % (os.path.basename(m2.group(1)), m2.group(3).strip()) if m2 else "ubsan"
    m = re.search(r"ERROR: AddressSanitizer: (\S+)", tail)
    kind = m.group(1) if m else "crash"
    if kind == "attempting": kind = "bad-free"
    fr = []
    for l in tail.splitlines():
        m = re.match(r"\s+#\d+ 0x[0-9a-f]+ in (\S+) .*(src/libmps|snap/)", l)
        if m and not m.group(1).startswith("__"):
            fr.append(m.group(1))
            if len(fr) == 3: break
        elif fr and not l.strip().startswith("#"):
            break
    return "asan:%s:%s" % (kind, "<".join(fr) or "?")


def leak_sites(err):
    """allocation sites (first two libmps frames) of the Direct leak blocks of the LSan reports"""
    sites = set()
    for block in re.split(r"\n(?=Direct leak of|Indirect leak of)", err):
        if not block.startswith("Direct leak"): continue
        fr = []
        for l in block.splitlines():
            m = re.match(r"\s+#\d+ 0x[0-9a-f]+ in (\S+) .*(src/libmps|snap/|harness/)", l)
            if m: fr.append(m.group(1))
        fr = [f for f in fr if f not in ("mps_malloc", "mps_realloc", "main")][:2]
        sites.add("<".join(fr) if fr else "?")
    return sorted(sites)


# ----------------------------------------------------------------------------- one session
SETTERS = ("prec", "format", "startphase", "jacobi", "crude", "avoidmp")
WIDE_KEYS = ["init", "zr", "err", "exitreq", "over", "oprec", "fmt", "sph", "jac", "crude", "avoid", "algo", "goal"]


def model_states(out):
    res = []
    for l in out.splitlines()[:-1]:
        d = dict(x.split("=") for x in l.split()[1:] if "=" in x)
        d["ok"] = 0 if l.startswith("ok=0") else 1
        res.append(d)
    return res


def stale_dpm_before(hlines, fl, upto):
    """the history precondition of the data_prec_max defect: on this context an earlier solve ended in the multiprecision phase
    (lastphase = mp_phase) and another polynomial was set after it, before step `upto`"""
    mp_seen, armed = False, False
    for i, l in enumerate(hlines[:upto], 1):
        w = l.split()
        if w[0] == "new" or w[0] == "free": mp_seen, armed = False, False
        if w[0] in ("solve", "solve_async") and i in fl and fl[i]["phase"] == 3: mp_seen = True
        if w[0] == "poly" and mp_seen: armed = True
    return armed


def evaluate(ctx, h, hlines, want_fresh=True):
    """Run one script; return (list of (signature, what), info dict)."""
    viol, info = [], {"solves": 0, "fresh_compared": 0, "bitexact": 0, "steps": 0, "wide_steps": 0, "flag_solves": 0, "phase_differs": 0}
    mlines = [model_line(l) for l in hlines]
    # the allocation model of the code before fixes/C15_resize_zero_roots & co: only used to NAME a defect that comes back
    first_bad, model_leak = None, False
    if not any(l.startswith("setdeg") for l in hlines):
        model = model_states(ctx.run_model("ctx", "\n".join(mlines) + "\n", args=["resize", "old"]))
        first_bad = next((i for i, d in enumerate(model) if d["ok"] == 0), None)
        model_leak = any(d.get("leaked") == "1" for d in model)

    def defect_at(i):
        w = mlines[i].split()
        if w[0] == "setpoly" and w[3] == "f": return "parse-into-used-context"
        return "resize-with-zero-roots"

    rc, out, err = run_harness(ctx, h, hlines)
    st, roots, leaks, sizes, fl = parse_out(out)
    info["steps"] = len(st)
    last = max(st) if st else 0
    if rc == 96:
        # a write past the limbs of a GMP number (libgmp is not instrumented; see the guard in the harness)
        approx_before, goal = False, "i"
        for l in hlines[:last + 1]:
            w = l.split()
            if w[0] == "new": approx_before, goal = False, "i"
            if w[0] == "goal": goal = w[1]
            if w[0] in ("solve", "solve_async") and goal == "a": approx_before = True
        fr = asan_signature("ERROR: AddressSanitizer: gmp-overflow\n" + err[err.rfind("ERROR: GmpGuard"):]).split(":", 2)[2]
        fr = "<".join(f for f in fr.split("<") if not f.startswith("vf_"))
        if approx_before:
            sig = "gmp-overflow:stale-precision-after-approximate"
        elif stale_dpm_before(hlines, fl, last + 1):
            sig = "gmp-overflow:stale-data_prec_max-after-mp-phase"
        else:
            sig = "gmp-overflow:%s:%s" % (hlines[last].split()[0] if last < len(hlines) else "?", fr or "sweep")
        g = re.search(r"gmpguard .*", out)
        viol.append((sig, "write past the end of a GMP block at step %d (%s): %s" % (last + 1, hlines[last] if last < len(hlines) else "?", g.group(0) if g else "")))
        return viol, info
    if rc != 0:
        sig = asan_signature(err) if rc in (97, 98) else ("timeout" if rc == 124 else "crash:rc=%d" % rc)
        if first_bad is not None and last >= first_bad:          # the old-code model flags an invalid access at/before the crash
            sig = "memory:" + defect_at(first_bad)
        viol.append((sig, "invalid memory access or abnormal end at step %d (%s): %s" % (last + 1, hlines[last] if last < len(hlines) else "?", sig)))
        return viol, info

    # --- every solve again on a fresh context with the same settings: the reference for results and per-solve flags
    fresh_lines, fresh_at = [], {}
    S0 = dict(algo="u", goal="i"); S = dict(S0); polyline = None
    prev = None
    solve_steps = []
    resolved = False          # the active polynomial has already been solved on this context (helper secular equation kept)
    for i, l in enumerate(hlines, 1):
        w = l.split()
        if w[0] in ("new", "free", "poly", "setdeg", "free_poly"): resolved = False
        if w[0] == "new" and (prev is None or not st.get(prev, {}).get("ctx")): S, polyline = dict(S0), None
        if w[0] in ("algo", "goal") or w[0] in SETTERS: S[w[0]] = w[1]
        if w[0] == "poly": polyline = l
        if w[0] == "free_poly": polyline = None
        if w[0] in ("solve", "solve_async") and i in st and st[i]["ctx"]:
            ran = i in roots and st[i]["note"] != "skipped"
            err_before = bool(prev is not None and st.get(prev, {}).get("err"))
            solve_steps.append((i, ran, err_before, polyline, dict(S), resolved))
            if ran and not err_before: resolved = True
            if ran and polyline and not err_before and want_fresh:
                base = len(fresh_lines)
                pre = ["new", "algo " + S["algo"], "goal " + S["goal"]] + ["%s %s" % (k, S[k]) for k in SETTERS if k in S]
                fresh_lines += pre + [polyline, "solve", "free"]
                fresh_at[i] = base + len(pre) + 2
        if i in st: prev = i
    fst, froots, ffl = {}, {}, {}
    if fresh_lines:
        frc, fout, ferr = run_harness(ctx, h, fresh_lines)
        if frc == 0: fst, froots, _, _, ffl = parse_out(fout)
        else: fresh_at = {}

    # --- per step: the extracted model of the widened API vs the implementation (bookkeeping, flags, settings, sizes)
    wl, oracle_ok = [], True
    for i, l in enumerate(hlines, 1):
        w = l.split()
        if w[0] in ("solve", "solve_async"):
            j = fresh_at.get(i)
            if j is not None and j in ffl and j in fst:
                o = (ffl[j]["over"], ffl[j]["phase"], fst[j]["err"])
            elif i in fl:                                   # no reference (not run, sticky error, no fresh runs wanted): its own outcome
                o = (fl[i]["over"], fl[i]["phase"], fl[i]["haserr"])
            else:
                o = (0, 0, 0)
            wl.append("%s %d %d %d" % (w[0], o[0], o[1], o[2]))
        else:
            wl.append(model_line(l))
    wide = {v: model_states(ctx.run_model("ctx", "\n".join(wl) + "\n", args=["api", v])) for v in ("old", "fixed")}
    have_deg = False
    prev_fl = None
    for i, l in enumerate(hlines, 1):
        s = st.get(i)
        if l in ("new", "free"): prev_fl = None
        if l == "new" and s is not None and s["note"] != "ignored": have_deg = False
        if l.startswith("poly") or l.startswith("setdeg"): have_deg = True
        if s is None or not s["ctx"] or i not in fl: continue
        obs = dict(s); obs.update(fl[i]); obs["sec"] = fl[i]["secdeg"]
        keys = WIDE_KEYS + (["n", "deg"] if have_deg else []) + ["sec"]
        diffs = {v: [k for k in keys if int(wide[v][i - 1][k]) != obs[k]] for v in wide}
        if s["bmpc"] != 0: diffs = {v: d + ["bmpc"] for v, d in diffs.items()}
        if obs["haserr"] != obs["err"]: diffs = {v: d + ["has_errors"] for v, d in diffs.items()}
        if i in sizes and not (diffs["old"] and diffs["fixed"]):
            exact, got = sizes[i]
            exp = [int(x) for x in wide["old"][i - 1]["alloc"].split(",")]
            if not all((g == x) if exact else (g >= x) for g, x in zip(got, exp)):
                badk = [ARR[k] for k in range(12) if ((got[k] != exp[k]) if exact else (got[k] < exp[k]))]
                info["size_steps_bad"] = info.get("size_steps_bad", 0) + 1
                if len(SIZE_MISMATCH) < 5:
                    SIZE_MISMATCH.append({"script": hlines[:i], "arrays": badk, "got": got, "model": exp, "step": i})
                break
            info["size_steps"] = info.get("size_steps", 0) + 1
        # the property's own predicate on the flags a user reads after a solve: same answer as the fresh context
        j = fresh_at.get(i)
        if j is not None and j in ffl:
            info["flag_solves"] += 1
            if ffl[j]["phase"] != obs["phase"]: info["phase_differs"] += 1
            if ffl[j]["over"] != obs["over"]:
                viol.append(("history:stale-flag:over_max:%s" % ("secular" if obs["algo"] else "standard"),
                             "step %d (%s): mps_context_get_over_max is %d on the reused context, %d on a fresh context with the same settings and polynomial"
                             % (i, l, obs["over"], ffl[j]["over"])))
                if "over" in diffs["old"] or "over" in diffs["fixed"]:
                    diffs = {v: [k for k in d if k != "over"] for v, d in diffs.items()}
            if fst[j]["err"] != obs["err"] and not obs["exitreq"]:
                viol.append(("history:stale-flag:error_state", "step %d (%s): mps_context_has_errors is %d on the reused context, %d on a fresh one"
                             % (i, l, obs["err"], fst[j]["err"])))
        # a solve refused because of the sticky error flag runs nothing: lastphase (not compared otherwise) keeps its value too
        if l.split()[0] in ("solve", "solve_async") and prev_fl is not None and prev_fl[0]["err"] and s["note"] != "skipped" \
           and fl[i]["phase"] != prev_fl[1]["phase"]:
            diffs = {v: d + ["lastphase-after-refused-solve"] for v, d in diffs.items()}
            obs["lastphase-after-refused-solve"] = fl[i]["phase"]
        prev_fl = (s, fl[i])
        if diffs["old"] and diffs["fixed"]:
            d = min(diffs.values(), key=len)
            viol.append(("correspondence:state:%s:%s" % (l.split()[0], ",".join(d)),
                         "model and implementation disagree on %s after step %d (%s): implementation %s, model %s"
                         % (d, i, l, [obs[k] if k in obs else "?" for k in d], [wide["old"][i - 1].get(k) for k in d])))
            break
        info["wide_steps"] += 1
    # --- leaks reported by LSan after free, threads left behind
    n_async = 0          # every executed solve_async leaves one thread behind for the life of the process
    for i, l in enumerate(hlines, 1):
        if l == "solve_async" and i in st and st[i]["note"] != "skipped": n_async += 1
        if l == "free" and i in st and st[i]["thr"] > 1:
            extra = st[i]["thr"] - 1
            if n_async:
                viol.append(("threads-left:async-private-pool",
                             "%d thread(s) still alive after mps_context_free (step %d), %d asynchronous solves so far" % (extra, i, n_async)))
            if extra > n_async:
                viol.append(("threads-left:other", "%d thread(s) still alive after mps_context_free (step %d) beyond those of %d asynchronous solves"
                             % (extra, i, n_async)))
    if any(v == 1 for v in leaks.values()):
        for site in leak_sites(err):
            pre = "leak:zero-roots-resize:" if (model_leak and re.search(r"mps_allocate_data|mps_context_expand", site)) else "leak:"
            viol.append((pre + site, "memory allocated at %s is not released by free_poly/free" % site))
    # --- results of every solve: shape, and same state/discs as a fresh context
    for (i, ran, err_before, polyline, S, again) in solve_steps:
        if not (ran and polyline): continue
        info["solves"] += 1
        R = roots[i]
        if R["err"] or st[i]["err"]: continue
        dorig = int(model_line(polyline).split()[1]); zexp = int(model_line(polyline).split()[2])
        if R["count"] + st[i]["zr"] != dorig or st[i]["zr"] != zexp:
            viol.append(("history:zero_roots:%s" % polyline.split()[1],
                         "step %d: %d roots returned + zero_roots %d != degree %d (polynomial has %d zero roots)"
                         % (i, R["count"], st[i]["zr"], dorig, zexp)))
        for wr in R["r"]:
            if disc(wr)[2] is None:
                viol.append(("results:radius-not-finite", "step %d: root %s has radius %s" % (i, wr[1], wr[5])))
                break
        j = fresh_at.get(i)
        if j is None or j not in froots or froots[j]["err"]: continue
        A, B = R, froots[j]
        info["fresh_compared"] += 1
        if [x[2:] for x in A["r"]] == [x[2:] for x in B["r"]]: info["bitexact"] += 1; continue
        if st[i]["zr"] != fst[j]["zr"]:
            viol.append(("history:zero_roots:%s" % polyline.split()[1],
                         "step %d: zero_roots is %d on the reused context, %d on a fresh one" % (i, st[i]["zr"], fst[j]["zr"])))
            continue
        if A["count"] != B["count"]:
            viol.append(("history:count", "step %d: reused context returns %d roots (zr %d), fresh context %d (zr %d)"
                         % (i, A["count"], st[i]["zr"], B["count"], fst[j]["zr"])))
            continue
        da = [disc(x) for x in A["r"]]; db = [disc(x) for x in B["r"]]
        if any(x[2] is None for x in da + db): continue
        # a disc with status isolated/approximated claims a root: it must meet a disc of the other run
        for (X, dx, Y, dy, who) in ((A, da, B, db, "reused"), (B, db, A, da, "fresh")):
            bad = [k for k in range(len(dx)) if X["r"][k][2] in ("2", "3") and not any(intersects(dx[k], y) for y in dy)]
            if bad:
                sfx = ":stale-data_prec_max-after-mp-phase" if (S["algo"] == "u" and stale_dpm_before(hlines, fl, i)) else ""
                if S["algo"] == "s" and again and S.get("startphase", "0") != "0": sfx = ":secular-resolve-forced-starting-phase"
                viol.append(("history:discs-disjoint" + sfx,
                             "step %d (%s): disc %d of the %s context meets no disc of the other run" % (i, hlines[i - 1], bad[0], who)))
                break
    return viol, info


def shrink(ctx, h, hlines, sig, budget=14):
    """delta debugging on the op list (keeps the first 'new'); returns a shorter script with the same signature"""
    cur = list(hlines)
    chunk = max(1, len(cur) // 2)
    while chunk >= 1 and budget > 0:
        i, changed = 1, False
        while i < len(cur) and budget > 0:
            cand = cur[:i] + cur[i + chunk:]
            budget -= 1
            v, _ = evaluate(ctx, h, cand, want_fresh=sig.startswith("history"))
            if any(s == sig for s, _ in v):
                cur, changed = cand, True
            else:
                i += chunk
        if not changed: chunk //= 2
    return cur


# ----------------------------------------------------------------------------- growth
run_out = {}

def growth(ctx, h, rng, with_zero_roots):
    cyc = []
    p1 = gen_poly(rng, "m", 14, 0); p2 = gen_poly(rng, "m", 6, 0); p3 = gen_poly(rng, "s", 8, 0)
    if with_zero_roots:
        p2 = Poly("m", 7, 3, "poly m 7 0 0 0 1 0 0 2 1", "")
    cyc = [p1.line, "algo u", "solve", p2.line, "algo s", "solve", "get_roots", p3.line, "solve", "algo u", "free_poly", "mark"]
    lines = ["new"] + cyc * 200 + ["free", "leakcheck"]
    rc, out, err = run_harness(ctx, h, lines, timeout=240)
    st = parse_out(out)[0]
    marks = [st[i]["heap"] for i in sorted(st) if st[i]["op"] == "mark"]
    run_out[("cycle-with-zero-roots" if with_zero_roots else "cycle")] = out
    return rc, marks, err, lines


# ----------------------------------------------------------------------------- main
FLAKY = {"not_reproduced": 0, "samples": []}


def report(ctx, h, hlines, viol, tag, do_shrink=True):
    for sig, what in viol:
        script = hlines
        if sig == "history:discs-disjoint" and tag != "replay":
            # the numerical result of the multithreaded solvers depends on the thread schedule; a difference from the fresh
            # context counts against THIS property only when it comes back with the same history in two more runs
            again = 0
            for _ in range(2):
                v2, _i = evaluate(ctx, h, hlines)
                again += int(any(s2 == sig for s2, _w in v2))
            if again < 2:
                FLAKY["not_reproduced"] += 1
                if len(FLAKY["samples"]) < 3: FLAKY["samples"].append({"tag": tag, "what": what, "reproduced_in_2_reruns": again})
                continue
        if do_shrink and len(ctx.violations) < 3 and not any(k.get("signature") == sig for k in ctx.known):
            try: script = shrink(ctx, h, hlines, sig)
            except vf.InfraError: raise
            except Exception: script = hlines
        ctx.violation(sig, what, {"script": script, "tag": tag})


def run(ctx):
    # findings registered in this property's fragment known/C15.json count as known even before lib/mkmanifest.py has merged
    # them into known_findings.json (same matching rule: exact signature or the entry's signature_regex)
    try:
        have = set((k.get("signature"), k.get("signature_regex")) for k in ctx.known)
        for k in json.load(open(os.path.join(vf.VERIF, "known", "C15.json"))).get("findings", []):
            if k.get("property") == ctx.pid and k.get("status", "open") == "open" and (k.get("signature"), k.get("signature_regex")) not in have:
                ctx.known.append(k)
    except (OSError, ValueError):
        pass
    ctx.prove()
    h = ctx.compile_harness([HARNESS], "c15_reuse", mode="san")
    rng = ctx.rng
    hist = {"ops": {}, "kinds": {}, "lengths": {}, "degree_bucket": {}, "aimed": {}}
    samples, totals = [], {"sessions": 0, "steps": 0, "solves": 0, "fresh_compared": 0, "bitexact": 0, "clean_sessions": 0}

    if ctx.replay:
        obj = json.load(open(ctx.replay))
        script = obj.get("script") or obj.get("replay", {}).get("script")
        v, info = evaluate(ctx, h, script)
        report(ctx, h, script, v, "replay", do_shrink=False)
        return ctx.finish("proof", {"evaluations": 1, "distinct_nontrivial": 1, "rule": "replay", "samples": [script[:6]],
                                    "op_histogram": {}, "trusted_base": ["replay"]}, [])

    def account(lines):
        for l in lines:
            w = l.split()
            hist["ops"][w[0]] = hist["ops"].get(w[0], 0) + 1
            if w[0] == "poly":
                hist["kinds"][w[1]] = hist["kinds"].get(w[1], 0) + 1
                d = int(model_line(l).split()[1]); b = "%d-%d" % (d // 10 * 10, d // 10 * 10 + 9)
                hist["degree_bucket"][b] = hist["degree_bucket"].get(b, 0) + 1

    FIELDS = ("steps", "solves", "fresh_compared", "bitexact", "wide_steps", "flag_solves", "phase_differs", "size_steps")
    for f in FIELDS: totals.setdefault(f, 0)

    # all sessions are generated first (deterministically from ctx.rng), then evaluated 4 at a time
    jobs = []                       # (tag, script, shrink?)
    # 1. witnesses of the refutation theorems and of the known defects, on the real code
    for name, script in WITNESSES.items():
        jobs.append((name, script, False))
    # 2. random sessions over the widened operation set: clean ones (inputs of the known defects avoided) and unrestricted ones
    n_clean, n_full = ctx.pick((60, 40), (400, 300))
    dmax = ctx.pick(24, 40)
    for k in range(n_clean + n_full):
        clean = k < n_clean
        ops = gen_session(rng, rng.randint(1, 30), clean, dmax)
        jobs.append(("random-%s-%d" % ("clean" if clean else "full", k), [o[0] for o in ops], True))
    # 2a. sessions aimed at the case splits of the proofs
    for k in range(ctx.pick(64, 320)):
        jobs.append(("aimed-%s-%d" % (AIMED[k % len(AIMED)], k), gen_aimed_session(rng, k, dmax), True))
    # 2b. growing / shrinking degrees with multiple roots and clusters on one context (standard algorithm)
    for k in range(ctx.pick(16, 120)):
        goal = "a" if k % 5 == 4 else "i"
        jobs.append(("grow-%s-%d" % (goal, k), gen_grow_session(rng, goal, ctx.pick(18, 30)), True))

    import concurrent.futures
    with concurrent.futures.ThreadPoolExecutor(max_workers=4) as ex:
        results = list(ex.map(lambda j: evaluate(ctx, h, j[1]), jobs))
    seen = set()
    for (tag, hl, do_shrink), (v, info) in zip(jobs, results):
        account(hl)
        kind = tag.split("-")[0] if "-" in tag else "witness"
        totals["sessions"] += 1
        totals[kind + "_sessions"] = totals.get(kind + "_sessions", 0) + 1
        if tag.startswith("random-clean"): totals["clean_sessions"] += 1
        if tag.startswith("aimed-"): hist["aimed"][tag.split("-")[1]] = hist["aimed"].get(tag.split("-")[1], 0) + 1
        for f in FIELDS: totals[f] += info.get(f, 0)
        lb = "%d-%d" % (len(hl) // 10 * 10, len(hl) // 10 * 10 + 9)
        hist["lengths"][lb] = hist["lengths"].get(lb, 0) + 1
        if any(l.startswith("solve") for l in hl): seen.add(tuple(model_line(l) for l in hl))
        if len(samples) < 6 and kind in ("random", "aimed") and totals[kind + "_sessions"] <= 3: samples.append([l[:60] for l in hl[:8]])
        report(ctx, h, hl, v, tag, do_shrink=do_shrink)

    # 2c. the same kind of sessions under valgrind/memcheck on the uninstrumented build (sees accesses made inside
    #     libgmp and reads past a block, which ASan + the GMP guard do not); a handful in the quick tier, more in thorough
    vg_runs = 0
    if True:
        hp = ctx.compile_harness([HARNESS], "c15_reuse_plain", mode="plain")
        sessions = [WITNESSES["grow_multiple_roots"], WITNESSES["shrink_then_grow_clusters"], WITNESSES["approximate_then_larger"]]
        sessions += [gen_grow_session(rng, "a" if k % 3 == 2 else "i", 24) for k in range(ctx.pick(3, 40))]
        for hl in sessions:
            script = [l for l in hl if l != "leakcheck"]
            env = dict(os.environ); env["VF_GMP_GUARD"] = "0"
            rc, out, err = vf.sh(["valgrind", "-q", "--error-exitcode=9", "--leak-check=no", "--undef-value-errors=no", "--num-callers=12", hp],
                                 input="\n".join(script) + "\n", timeout=1500, env=env)
            vg_runs += 1
            if rc == 9 or "Invalid " in err:
                m = re.search(r"(Invalid (?:read|write|free)[^\n]*)\n((?:==\d+==\s+(?:at|by) [^\n]*\n)+)", err)
                fr = re.findall(r"(?:at|by) 0x[0-9A-F]+: (\w+) \((?!in /usr)", m.group(2))[:3] if m else []
                approx = any(l == "goal a" for l in script)
                stale = stale_dpm_before(script, parse_out(out)[4], len(script))
                sig = ("gmp-overflow:stale-precision-after-approximate" if approx else
                       "gmp-overflow:stale-data_prec_max-after-mp-phase" if stale else
                       "valgrind:%s:%s" % ((m.group(1).split(" of")[0].replace(" ", "-") if m else "error"), "<".join(fr)))
                ctx.violation(sig, "memcheck: %s in %s" % (m.group(1) if m else "error", "<".join(fr)), {"script": script, "tag": "valgrind"})

    # 3. heap growth over 200 repetitions of a fixed cycle
    growth_info = {}
    for zr in (False, True):
        rc, marks, err, lines = growth(ctx, h, rng, zr)
        name = "cycle-with-zero-roots" if zr else "cycle"
        if rc == 0 and len(marks) >= 200:
            gleaks = parse_out(run_out[name])[2]
            if any(v == 1 for v in gleaks.values()):
                for site in leak_sites(err):
                    pre = "leak:zero-roots-resize:" if (zr and re.search(r"mps_allocate_data|mps_context_expand", site)) else "leak:"
                    ctx.violation(pre + site, "memory allocated at %s is not released after 200 solve cycles + free" % site,
                                  {"script": lines[:1 + 12 * 2] + ["free", "leakcheck"], "tag": name})
        if rc != 0 or len(marks) < 200:
            v, _ = evaluate(ctx, h, lines[:1 + 12 * 3] + ["free", "leakcheck"], want_fresh=False)
            report(ctx, h, lines[:1 + 12 * 3] + ["free", "leakcheck"], v or [("growth:%s:abnormal-end" % name, "cycle run ended with rc=%d after %d cycles: %s" % (rc, len(marks), err[-300:]))], name, do_shrink=False)
            continue
        # thread start/stop inside the library makes the figure jitter by a few hundred bytes on a loaded machine:
        # compare minima over windows and ignore less than 2 KiB (a per-cycle leak of >= 14 bytes exceeds it; smaller
        # ones are still reported by the leak check that ends the run)
        g = min(marks[180:200]) - min(marks[40:60])
        if g <= 2048: g = 0
        growth_info[name] = {"heap_after_50": marks[49], "heap_after_200": marks[199], "growth_bytes": g}
        totals["steps"] += len(lines)
        if g > 0:
            ctx.violation("growth:%s" % name, "heap grows by %d bytes between cycle 50 and cycle 200 of a fixed solve cycle on one context" % g,
                          {"script": lines[:1 + 12 * 2] + ["free"], "tag": name, "marks": marks[::10]})

    # array sizes observed in the implementation differ from the size expressions of the model: the targeted search
    # are the grow/shrink sessions above; if none of them produced a concrete violation, report the broken correspondence
    if SIZE_MISMATCH and not ctx.violations:
        sm = SIZE_MISMATCH[0]
        ctx.violation("correspondence:array-size:%s" % ",".join(sm["arrays"]),
                      "work array(s) %s are not allocated with the size the model of context.c/data.c prescribes after step %d (%s): got %s, model %s"
                      % (sm["arrays"], sm["step"], sm["script"][-1][:50], sm["got"], sm["model"]), {"script": sm["script"] + ["free"], "tag": "sizes"}, no_input=True)
    p = ctx.proof or {}
    ctx.proof_violation_if_broken(search=None)
    cov = {
        "evaluations": totals["steps"],
        "distinct_nontrivial": len(seen),
        "rule": "distinct operation sequences (as model scripts) containing at least one solve; evaluations = operations executed on the real library and compared with the extracted model of the widened API",
        "sessions": totals["sessions"], "clean_sessions": totals["clean_sessions"], "grow_multiple_root_sessions": totals.get("grow_sessions", 0),
        "aimed_sessions": hist["aimed"], "witness_sessions": totals.get("witness_sessions", 0),
        "steps_equal_to_widened_model": totals["wide_steps"],
        "solves_with_over_max_and_error_flag_equal_to_fresh_context": totals["flag_solves"],
        "solves_whose_lastphase_differs_from_fresh_context_not_judged": totals["phase_differs"],
        "steps_with_all_12_array_sizes_equal_to_model": totals.get("size_steps", 0), "array_size_mismatches": len(SIZE_MISMATCH),
        "valgrind_sessions": vg_runs,
        "solves": totals["solves"], "solves_compared_with_fresh_context": totals["fresh_compared"],
        "solves_bit_identical_to_fresh_context": totals["bitexact"],
        "heap_growth": growth_info,
        "schedule_dependent_disc_differences_not_reproduced": FLAKY,
        "op_histogram": hist["ops"], "poly_kind_histogram": hist["kinds"], "length_histogram": hist["lengths"],
        "degree_histogram": hist["degree_bucket"],
        "samples": samples,
        "trusted_base": [
            "Coq 8.16.1 kernel (coqc, full .vo build); theorems closed under the global context",
            "extraction: ExtrOcamlBasic + ExtrOcamlNativeString only; ocaml/ctx_driver.ml (hand written I/O)",
            "harness/c15_reuse.c reads private fields of struct mps_context (incl. allocated size of the 12 work arrays via the ASan allocator) and wraps GMP allocations with canaries (libgmp is not instrumented); gcc ASan/UBSan/LSan runtime; valgrind memcheck in the thorough tier",
            "modelled, not verified: the numerical part of a solve is abstracted to 'touches the whole n-based extent of each work array'; bmpc and the thread pools are outside the model",
            "results are compared with a fresh context (disc intersection), not validated against the true roots here (C01/C02 oracle)",
        ],
    }
    assumptions = [
        "operation sequences are valid API usage: no solve without a live input polynomial, get_roots only after data was allocated, degrees >= 1 after deflation",
        "secular equations are solved with MPS_ALGORITHM_SECULAR_GA only",
        "exploration (sanitizers, heap accounting) covers the sampled sequences only; the proof covers all sequences of the bookkeeping model",
    ]
    return ctx.finish("proof", cov, assumptions)
