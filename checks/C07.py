"""C07 -- cluster analysis yields the overlap-connected partition.

proof  : coq/Props/Properties_C07.v (partition, refinement, = chain-connected components inside each
         old cluster, newton-isolation override as coded, parallel variant = sequential for every splice order,
         whole property for one call C07_step_fd_full / C07_step_m_full; mps_ftouchnwt end to end on binary64).
tie    : harness/c07_cluster.c runs mps_fcluster / mps_dcluster / mps_mcluster (real threads) and exports
         the implementation's own touch matrices and the resulting clusterization; the property predicate
         (partition, refinement, connected components unless override) is evaluated in python on that
         output, the extracted model (bin/cluster) is run on the exported matrices and must give the same
         clusterization (same list order for the sequential variants, same set of sets for mps_mcluster),
         and the touch matrix is compared with the exact dyadic predicate outside a relative margin 8u.
"""
import json, math, os, itertools
from fractions import Fraction
from concurrent.futures import ThreadPoolExecutor
import vf

U = Fraction(1, 2 ** 53)
MARGIN = 8 * U
HARNESS_MODE = "san"          # "shimsan" once harness/vf_sched.c exists: same harness source


# ------------------------------------------------------------------ numbers
def val(t):
    """exact value of a token pair (m, e); None = MAX (treated as +infinity)"""
    if t[0] == "MAX": return None
    m, e = t
    return Fraction(m) * (Fraction(2) ** e)


def tok(t):
    return "MAX 0" if t[0] == "MAX" else "%d %d" % (t[0], t[1])


def fmt_old(old):
    return ";".join(",".join(str(k) for k in c) for c in old) if old else "-"


def case_line(c):
    parts = [c["id"], c["variant"], str(c["n"]), str(c["nf"]), str(c["threads"]), str(c["prec"]), fmt_old(c["old"])]
    for i in range(c["n"]):
        parts += [tok(c["X"][i]), tok(c["Y"][i]), tok(c["G"][i]), tok(c["W"][i])]
    return " ".join(parts)


# ------------------------------------------------------------------ generators
def rand_partition(rng, n, kind):
    idx = list(range(n)); rng.shuffle(idx)
    if kind == "one":
        return [idx]
    if kind == "singles":
        return [[k] for k in idx]
    if kind == "two":
        cut = rng.randint(0, n)
        return [c for c in (idx[:cut], idx[cut:])] if rng.random() < 0.5 else [idx[:cut], [], idx[cut:]]
    k = rng.randint(1, max(1, min(n, 6)))
    cl = [[] for _ in range(k)]
    for a in idx: cl[rng.randrange(k)].append(a)
    if kind == "random-empty":
        for _ in range(rng.randint(1, 3)): cl.insert(rng.randint(0, len(cl)), [])
    else:
        cl = [c for c in cl if c]
    return cl


def geometry(rng, n, nf, kind):
    """integer coordinates / radii on a common exponent; returns X, Y, G lists of (m, e)"""
    e0 = 0
    X = [0] * n; Y = [0] * n; G = [0] * n
    lab = list(range(n)); rng.shuffle(lab)
    if kind == "random":
        L = rng.choice([6, 40, 1 << 12, 1 << 30])
        c = rng.choice([0.15, 0.4, 0.7, 1.0, 1.6])
        rmax = max(1, int(c * L * 1024 / (nf * math.sqrt(n))))
        for i in range(n):
            X[i] = rng.randint(-L, L) * 1024; Y[i] = rng.randint(-L, L) * 1024; G[i] = rng.randint(0, rmax)
    elif kind in ("chain", "chain-tangent"):
        if kind == "chain-tangent":
            r = 8; D = 16 * nf                       # nf*(r+r) == D exactly: touches by '>='
        else:
            D = max(1024, 4 * nf); r = -(-D // (2 * nf))
        gaps = rng.choice([0, 0, 1, 2])              # break the chain in a few places
        pos = 0
        for i in range(n):
            X[lab[i]] = pos; Y[lab[i]] = 0; G[lab[i]] = r
            pos += D if not (gaps and rng.random() < gaps / max(2, n)) else 3 * D
    elif kind == "star":
        R = rng.randint(1, 50); D = nf * R - rng.randint(0, nf * R // 4 + 0)
        c0 = lab[0]; X[c0] = 0; Y[c0] = 0; G[c0] = R
        for k in range(1, n):
            a = 2 * math.pi * k / n
            far = rng.random() < 0.2
            d = D * (3 if far else 1)
            X[lab[k]] = int(round(d * math.cos(a) * 0.99)); Y[lab[k]] = int(round(d * math.sin(a) * 0.99)); G[lab[k]] = 0
    elif kind == "coincident":
        L = 1000; m = max(1, n // 3)
        pts = [(rng.randint(-L, L), rng.randint(-L, L)) for _ in range(m)]
        for i in range(n):
            X[i], Y[i] = pts[rng.randrange(m)]; G[i] = rng.choice([0, 0, 1, rng.randint(0, L // max(1, nf))])
    elif kind == "zero":
        L = 20
        for i in range(n):
            X[i] = rng.randint(-L, L) if rng.random() < 0.7 else 0; Y[i] = 0 if rng.random() < 0.7 else rng.randint(-L, L)
    elif kind == "boundary":
        # pairs at relative distance k ulp from the touch boundary: d = nf*2*(M+k), r = M
        bits = 52 - max(1, nf.bit_length() + 1)
        for i in range(0, n - 1, 2):
            M = rng.getrandbits(bits) | (1 << bits)
            k = rng.choice([-1, 1]) * rng.choice([0, 1, 2, 3, 9, 10, 12, 20, 40, 1000])
            if nf & (nf - 1): k *= 1 << 8
            off = (i // 2) * (1 << 60)
            X[i] = off; X[i + 1] = off + 2 * nf * (M + k); G[i] = M; G[i + 1] = M
        if n % 2: X[n - 1] = -(1 << 61)
    else:
        raise ValueError(kind)
    e0 = rng.choice([0, 0, -10, 30, -200, 200])
    return [(x, e0) for x in X], [(y, e0) for y in Y], [(g, e0) for g in G]


def norm53(t):
    """mantissa below 2^53 (shift trailing zeros into the exponent)"""
    if t[0] == "MAX": return t
    m, e = t
    while m and abs(m) >= (1 << 53) and m % 2 == 0: m //= 2; e += 1
    if abs(m) >= (1 << 53):
        sh = abs(m).bit_length() - 53; m >>= sh; e += sh
    return (m, e)


def frac_tok(q):
    """(m, e) with m < 2^53 and m 2^e >= q (rounded up)"""
    if q == 0: return (0, 0)
    e = (q.numerator.bit_length() - q.denominator.bit_length()) - 52
    sc = q / (Fraction(2) ** e)
    m = -(-sc.numerator // sc.denominator)
    if m >= (1 << 53): m = (m + 1) // 2; e += 1
    return (m, e)


def pair_radii(rng, n, nf, X, Y, wmode, old):
    """stored (Newton) radii aimed at the override test: every radius 0 except for ONE pair (i, j), whose radii make exactly
    that pair touch with factor nf (possibly closer roots as well); pair-first / pair-last involve root 0 / n-1 (first and
    last row of the double loop), pair-in / pair-across take the pair inside one / across two previous clusters"""
    W = [(0, 0)] * n
    if n < 2: return W
    if wmode == "pair-first": i, j = 0, rng.randrange(1, n)
    elif wmode == "pair-last": i, j = n - 1, rng.randrange(0, n - 1)
    elif wmode == "pair-ends": i, j = 0, n - 1
    else:
        i, j = rng.sample(range(n), 2)
        if old:
            big = [c for c in old if len(c) >= 2]
            if wmode == "pair-in" and big:
                i, j = rng.sample(rng.choice(big), 2)
            elif wmode == "pair-across" and len([c for c in old if c]) >= 2:
                a, b = rng.sample([c for c in old if c], 2); i, j = rng.choice(a), rng.choice(b)
    if rng.random() < 0.5: i, j = j, i
    vi = (val(X[i]), val(Y[i])); vj = (val(X[j]), val(Y[j]))
    dx, dy = vi[0] - vj[0], vi[1] - vj[1]
    d = fsqrt_frac(dx * dx + dy * dy) * (1 + Fraction(1, 1 << 20))
    r = frac_tok(d / (2 * nf))
    W[i] = r; W[j] = r
    return W


def make_case(rng, cid, variant, n, gen, part, wmode, nf=None, threads=None):
    if nf is None:
        nf = rng.choice([1, 2, 2 * n, 2 * n, 4, 3])
    X, Y, G = geometry(rng, n, nf, gen)
    if variant != "f":                                  # wide exponents for DPE / MP
        sh = rng.choice([0, 0, 1500, -1500, 3000])
        X = [(m, e + sh) for m, e in X]; Y = [(m, e + sh) for m, e in Y]; G = [(m, e + sh) for m, e in G]
    huge = gen == "random" and rng.random() < 0.08
    if huge:
        gen = "random-huge"
        for _ in range(rng.randint(1, 2)): G[rng.randrange(n)] = ("MAX", 0)
    old = rand_partition(rng, n, part)
    if wmode.startswith("pair"):
        W = pair_radii(rng, n, nf, X, Y, wmode, old)
    elif wmode == "big":
        W = [g if g[0] == "MAX" else (g[0] * 4 + 1, g[1]) for g in G]
    elif wmode == "tiny":
        W = [(0, 0)] * n
    else:
        W = list(G)
    c = {"id": cid, "variant": variant, "n": n, "nf": nf,
         "threads": threads if threads is not None else (rng.randint(1, 8) if variant == "m" else 1),
         "prec": rng.choice([64, 64, 128, 256]) if variant == "m" else 64,
         "old": old, "gen": gen, "part": part, "wmode": wmode,
         "X": [norm53(t) for t in X], "Y": [norm53(t) for t in Y], "G": [norm53(t) for t in G],
         "W": [norm53(t) for t in W]}
    return c


GENS = ["random", "random", "random", "chain", "chain-tangent", "star", "coincident", "zero", "boundary"]
PARTS = ["one", "one", "random", "random", "random-empty", "two", "singles"]
WMODES = ["big", "big", "big", "same", "tiny", "pair-in", "pair-across", "pair-first", "pair-last", "pair-ends"]


def gen_cases(ctx, total):
    rng = ctx.rng
    cases = []
    # fixed witnesses first: chain needing base advancement, touch only through another old cluster
    fixed = []
    for v in "fdm":
        for gen, part_lists in (("chain", None), ("chain-tangent", None)):
            c = make_case(rng, "", v, 6, gen, "one", "big", nf=2)
            fixed.append(c)
        c = make_case(rng, "", v, 4, "chain", "one", "big", nf=2)
        order = sorted(range(4), key=lambda k: val(c["X"][k]))
        c["old"] = [[order[0], order[2]], [order[1], order[3]]]; c["gen"] = "cross"
        fixed.append(c)
        c = make_case(rng, "", v, 5, "chain", "one", "big", nf=2)
        order = sorted(range(5), key=lambda k: val(c["X"][k]))
        c["old"] = [[order[0], order[4], order[2], order[3], order[1]]]; c["gen"] = "late-link"
        fixed.append(c)
    for v, n in (("m", 129), ("m", 130), ("m", 200), ("m", 128), ("f", 200), ("d", 200)):
        for gen in ("chain", "random"):
            fixed.append(make_case(rng, "", v, n, gen, rng.choice(["one", "random"]), "big"))
    cases += fixed
    while len(cases) < total:
        v = rng.choice("fdm")
        r = rng.random()
        n = rng.randint(1, 7) if r < 0.45 else rng.randint(8, 24) if r < 0.85 else rng.randint(25, 70) if r < 0.97 \
            else rng.choice([129, 130, 131, 200])
        cases.append(make_case(rng, "", v, n, rng.choice(GENS), rng.choice(PARTS), rng.choice(WMODES)))
    for k, c in enumerate(cases): c["id"] = "c%d" % k
    return cases


# ------------------------------------------------------------------ running
def run_harness(ctx, hbin, cases):
    """returns {id: parsed output | {'crash': rc, 'err': text}}"""
    out = {}
    todo = list(cases)
    while todo:
        text = "\n".join(case_line(c) for c in todo) + "\n"
        rc, o, e = vf.sh([hbin], input=text, timeout=1200, env=ctx.san_env())
        done = 0
        for line in o.splitlines():
            f = line.split(" ")
            if len(f) == 5 and f[4].startswith("bad=") and f[0] == todo[done]["id"]:
                out[f[0]] = {"T": f[1][2:], "TN": f[2][3:], "new": f[3][4:], "bad": f[4][4:]}
                done += 1
            else:
                break
        if done == len(todo) and rc == 0:
            break
        if done < len(todo):
            out[todo[done]["id"]] = {"crash": rc, "err": (e or "")[-1500:], "partial": o.splitlines()[done:done + 1]}
            todo = todo[done + 1:]
        else:
            break
    return out


def parse_clusters(s):
    if s == "" or s == "-": return []
    return [[int(k) for k in c.split(",")] if c else [] for c in s.split(";")]


def canon(cs):
    return sorted(sorted(c) for c in cs)


def components_py(n, T, old):
    parent = list(range(n))
    def find(a):
        while parent[a] != a:
            parent[a] = parent[parent[a]]; a = parent[a]
        return a
    for cl in old:
        for a in cl:
            ra = None
            for b in cl:
                if a < b and (T[a * n + b] == "1" or T[b * n + a] == "1"):
                    pa, pb = find(a), find(b)
                    if pa != pb: parent[pa] = pb
    groups = {}
    for cl in old:
        for a in cl: groups.setdefault(find(a), []).append(a)
    return canon(groups.values())


def exact_touch(c, i, j):
    """(must_touch, must_not_touch) of the exact predicate nf(ri+rj) >= |zi-zj| outside the margin"""
    gi, gj = val(c["G"][i]), val(c["G"][j])
    if gi is None or gj is None: return (True, False)
    dx = val(c["X"][i]) - val(c["X"][j]); dy = val(c["Y"][i]) - val(c["Y"][j])
    d2 = dx * dx + dy * dy
    l = c["nf"] * (gi + gj); l2 = l * l
    m2 = (1 + MARGIN) ** 2
    return (l2 >= d2 * m2, l2 * m2 < d2)


def evaluate(ctx, c, h, stats):
    """property predicate on the implementation's output; returns list of (signature, what)"""
    v = c["variant"]; n = c["n"]; tag = "%s:%s/%s/%s" % ({"f": "mps_fcluster", "d": "mps_dcluster", "m": "mps_mcluster"}[v],
                                                      c["gen"], c["part"], c["wmode"])
    bad = []
    if "crash" in h:
        kind = "asan" if h["crash"] == 97 else "ubsan" if h["crash"] == 98 else "crash rc=%s" % h["crash"]
        m = None; loc = "?"
        import re
        for ln in h["err"].splitlines():
            if "runtime error" in ln or "ERROR: AddressSanitizer" in ln:
                m = ln.strip()[:160]
                mm = re.search(r"([A-Za-z0-9_.-]+\.[ch]):(\d+)", ln)
                if mm: loc = "%s:%s" % (mm.group(1), mm.group(2))
                break
        if loc == "?":
            mm = re.search(r"#\d+ 0x[0-9a-f]+ in (\w+) [^\n]*?([A-Za-z0-9_.-]+\.[ch]):(\d+)", h["err"])
            if mm: loc = "%s:%s:%s" % (mm.group(1), mm.group(2), mm.group(3))
        bad.append(("sanitizer:%s:%s:%s:%s" % (kind, loc, {"f": "mps_fcluster", "d": "mps_dcluster", "m": "mps_mcluster"}[v], c["gen"]),
                    "%s in %s: %s" % (kind, tag, m)))
        return bad
    T, TN = h["T"], h["TN"]
    new = parse_clusters(h["new"])
    if h["bad"] != "0":
        bad.append(("counts:%s" % tag, "cluster->n / clusterization->n inconsistent with the lists"))
    flat = [k for cl in new for k in cl]
    if sorted(flat) != list(range(n)) or any(len(cl) == 0 for cl in new):
        bad.append(("partition:%s" % tag, "result is not a partition of 0..n-1 (lost/duplicated/empty): %s" % h["new"][:200]))
        return bad
    where = {}
    for ci, cl in enumerate(c["old"]):
        for k in cl: where[k] = ci
    if any(len({where[k] for k in cl}) != 1 for cl in new):
        bad.append(("refines:%s" % tag, "a new cluster spans two previous clusters"))
    asym = [(i, j) for i in range(n) for j in range(i) if T[i * n + j] != T[j * n + i]]
    if asym:
        bad.append(("touch-asymmetric:%s" % v, "touch(%d,%d) != touch(%d,%d)" % (asym[0] + asym[0][::-1])))
    iso = all(TN[i * n + j] == "0" for i in range(n) for j in range(n) if i != j)
    stats["iso"] += iso
    expect = canon([[k] for k in range(n)]) if iso else components_py(n, T, c["old"])
    if canon(new) != expect:
        bad.append(("components:%s" % tag, "clusters are not the overlap-connected components (override=%s): got %s expected %s"
                    % (iso, h["new"][:150], fmt_old(expect)[:150])))
    # touch matrix against the exact predicate outside the margin
    pairs = [(i, j) for i in range(n) for j in range(n) if i != j]
    if len(pairs) > 600: pairs = ctx.rng.sample(pairs, 600)
    for i, j in pairs:
        must, mustnot = exact_touch(c, i, j)
        t = T[i * n + j] == "1"
        stats["touch_pairs"] += 1
        stats["touch_decided"] += (must or mustnot)
        if (must and not t) or (mustnot and t):
            bad.append(("touch-exact:%s:%s" % (v, c["gen"]),
                        "touch predicate (%s) differs from nf(ri+rj) >= |zi-zj| outside the 8u margin: i=%d j=%d coded=%s" % (v, i, j, t)))
            break
    c["_iso"] = iso; c["_edges"] = sum(1 for i in range(n) for j in range(i) if T[i * n + j] == "1")
    return bad


def model_lines(c, h, with_comp):
    n = c["n"]
    base = "%s %d %s %s %s" % ("seq" if c["variant"] != "m" else "par", n, h["T"], h["TN"], fmt_old(c["old"]))
    wc = "1" if with_comp else "0"
    if c["variant"] != "m":
        return ["%s %s first %s" % (c["id"], base, wc)]
    return ["%s@%s %s %s %s" % (c["id"], p, base, p, wc if p == "first" else "0") for p in ("first", "last", "h%d" % (c["n"] + 1))]


def parse_model(out):
    res = {}
    for line in out.splitlines():
        f = line.split(" ")
        if len(f) == 2: res[f[0]] = None; continue
        res[f[0]] = {"iso": f[1][4:], "raw": f[2][4:], "canon": f[3][6:], "comp": f[4][5:], "plain": f[5][6:] if len(f) > 5 else f[1][4:]}
    return res


def chunks(l, k):
    return [l[i::k] for i in range(k) if l[i::k]]


def process(ctx, hbin, cases, stats, samples):
    workers = 12
    with ThreadPoolExecutor(workers) as ex:
        parts = list(ex.map(lambda ch: run_harness(ctx, hbin, ch), chunks(cases, workers)))
    hout = {}
    for p in parts: hout.update(p)
    lines = []
    for c in cases:
        h = hout.get(c["id"])
        if h and "crash" not in h:
            lines += model_lines(c, h, c["n"] <= 40)
    mres = {}
    if lines:
        with ThreadPoolExecutor(workers) as ex:
            for o in ex.map(lambda ch: ctx.run_model("cluster", "\n".join(ch) + "\n"), chunks(lines, workers)):
                mres.update(parse_model(o))
    for c in cases:
        h = hout.get(c["id"])
        if h is None:
            raise vf.InfraError("harness produced no output for %s" % c["id"])
        stats["evaluations"] += 1
        stats["by_variant"][c["variant"]] = stats["by_variant"].get(c["variant"], 0) + 1
        stats["by_gen"][c["gen"]] = stats["by_gen"].get(c["gen"], 0) + 1
        stats["by_part"][c["part"]] = stats["by_part"].get(c["part"], 0) + 1
        nb = "n<=7" if c["n"] <= 7 else "n<=24" if c["n"] <= 24 else "n<=70" if c["n"] <= 70 else "n>=128"
        stats["by_size"][nb] = stats["by_size"].get(nb, 0) + 1
        if c["variant"] == "m":
            stats["threads"][str(c["threads"])] = stats["threads"].get(str(c["threads"]), 0) + 1
        replay = {k: v for k, v in c.items() if not k.startswith("_")}
        replay["harness_output"] = h
        bad = evaluate(ctx, c, h, stats)
        for sig, what in bad:
            ctx.violation(sig, what, replay)
        if "crash" in h: continue
        key = (c["variant"], h["T"], fmt_old(c["old"]), h["TN"] if c.get("_iso") else "")
        if c.get("_edges", 0) > 0 and any(len(cl) > 1 for cl in c["old"]):
            stats["distinct"].add(hash(key))
        # model vs implementation
        new = parse_clusters(h["new"])
        if c["variant"] != "m":
            m = mres.get(c["id"])
            ok = m is not None and m["raw"] == h["new"]
            mcanon = m and m["canon"]
        else:
            ms = [mres.get("%s@%s" % (c["id"], p)) for p in ("first", "last", "h%d" % (c["n"] + 1))]
            ok = all(m is not None and m["canon"] == fmt_old(canon(new)) for m in ms)
            m = ms[0]; mcanon = m and m["canon"]
        # the override test as coded (model) against the plain test and against the exported matrix TN
        if m is not None:
            ov = stats.setdefault("override", {"by_wmode": {}, "by_previous": {}, "touching_pairs_in_TN": {}, "model_as_coded_eq_plain": 0})
            n_ = c["n"]; TN = h["TN"]
            npairs = sum(1 for i in range(n_) for j in range(i) if TN[i * n_ + j] == "1" or TN[j * n_ + i] == "1")
            isz = sorted(len(cl) for cl in c["old"] if cl)
            pk = "all-singletons" if isz and isz[-1] == 1 else "one-cluster" if len(isz) == 1 else "max<=3" if isz and isz[-1] <= 3 else "max>3"
            tk = "taken" if c.get("_iso") else "not-taken"
            for key, name in ((c["wmode"], "by_wmode"), (pk, "by_previous"), ("0" if npairs == 0 else "1" if npairs == 1 else "2-5" if npairs <= 5 else ">5", "touching_pairs_in_TN")):
                d = ov[name].setdefault(key, {"taken": 0, "not-taken": 0}); d[tk] += 1
            if m["iso"] == m["plain"]: ov["model_as_coded_eq_plain"] += 1
            if m["iso"] != m["plain"] or (m["iso"] == "1") != bool(c.get("_iso")):
                ctx.violation("correspondence:override-test:%s" % c["variant"],
                              "newton-isolation test as coded (model) = %s, plain test = %s, all pairs of the exported TN separated = %s on %s"
                              % (m["iso"], m["plain"], c.get("_iso"), c["id"]), replay, no_input=True)
        if m is not None and m["comp"] != "-" and not c.get("_iso"):
            stats["spec_compared"] += 1
            if m["comp"] != fmt_old(components_py(c["n"], h["T"], c["old"])):
                ctx.violation("correspondence:components-spec", "extracted `components` differs from union-find on %s" % c["id"],
                              replay, no_input=True)
        if not ok and not bad:
            ctx.violation("correspondence:%s:%s" % (c["variant"], c["gen"]),
                          "model clusterization %s differs from the implementation's %s although the property predicate holds"
                          % (m and m["raw"][:120], h["new"][:120]), replay, no_input=True)
        elif not ok:
            stats["model_disagree_on_violation"] += 1
        if len(samples) < 6 and c.get("_edges", 0) > 0 and c["n"] <= 8:
            samples.append({"variant": c["variant"], "n": c["n"], "nf": c["nf"], "gen": c["gen"], "old": fmt_old(c["old"]),
                            "T": h["T"], "new": h["new"], "model": m and m["raw"], "override": bool(c.get("_iso"))})


# ------------------------------------------------------------------ mps_ftouchnwt bit for bit (Flocq binary64 model)
import struct
TWO = Fraction(2)
SUBN = TWO ** -1022
DBLMAX = float.fromhex("0x1.fffffffffffffp+1023")
FT_KNOWN_SUBNORMAL = "touch-exact:f:subnormal-distance:true-for-separated-discs"


def fbits(x):
    if x != x: return "7ff8000000000000"
    return "%016x" % struct.unpack("<Q", struct.pack("<d", x))[0]


def bitsf(h):
    return struct.unpack("<d", struct.pack("<Q", int(h, 16)))[0]


def step(x, k):
    """k ulps away from a finite double x (through its bit pattern; sign kept, clamps at 0 and at DBL_MAX)"""
    if x != x or x in (math.inf, -math.inf): return x
    u = struct.unpack("<q", struct.pack("<d", abs(x)))[0] + k
    u = max(0, min(u, 0x7fefffffffffffff))
    y = struct.unpack("<d", struct.pack("<q", u))[0]
    return -y if math.copysign(1.0, x) < 0 else y


def fin(x):
    return x == x and x not in (math.inf, -math.inf)


def fsqrt_frac(q, bits=160):
    """rational approximation of sqrt(q) with relative error < 2^-(bits-2)"""
    if q == 0: return Fraction(0)
    sh = bits - (q.numerator.bit_length() - q.denominator.bit_length()) // 2
    v = (q.numerator << (2 * sh)) // q.denominator if sh >= 0 else q.numerator // (q.denominator << (-2 * sh))
    return Fraction(math.isqrt(v)) * TWO ** (-sh)


def rnd_mant(rng):
    return (rng.getrandbits(52) | (1 << 52)) / float(1 << 52)           # in [1, 2)


def ft_n(rng):
    return rng.choice([1, 1, 2, 2, 3, 4, 6, 10, 14, 20, 40, 200, 400, 2 * rng.randint(1, 300), rng.randint(1, 1000)])


def ft_pair_at(rng, n, dx, dy, k, base="rand"):
    """two discs whose exact scaled radii sum is (1 + k u) times the exact distance of the generated centres"""
    sc = max(abs(dx), abs(dy))
    if base == "zero" or sc == 0 or not fin(sc):
        xj = yj = 0.0
    else:
        xj = rng.uniform(-4, 4) * sc * rng.choice([0, 1, 1, 8]); yj = rng.uniform(-4, 4) * sc * rng.choice([0, 1, 1, 8])
    xi = xj + dx; yi = yj + dy
    if not (fin(xi) and fin(yi)): xi, yi, xj, yj = dx, dy, 0.0, 0.0
    ex = Fraction(xi) - Fraction(xj); ey = Fraction(yi) - Fraction(yj)
    D = fsqrt_frac(ex * ex + ey * ey)
    S = D * (1 + Fraction(k) * U) / n
    f = Fraction(rng.choice([0, 1, 1, 2, 3, 5, 7, 8]), 8)
    try:
        ri = float(S * f); rj = float(S - Fraction(ri))
    except OverflowError:
        ri = rj = DBLMAX
    if rj < 0: rj = 0.0
    return (n, ri, rj, xi, yi, xj, yj)


def ft_cases(ctx, total):
    """(generator, (n, ri, rj, xi, yi, xj, yj)) aimed at the case splits of the proofs of coq/Cluster/Ftouch*.v"""
    rng = ctx.rng
    out = []
    KS = [8.5, 9, 10, 12, 16, 40, 1000, 1 << 30, -8.5, -9, -10, -12, -16, -40, -1000, -(1 << 30), 0, 1, -1, 4, -4, 7, -7]
    def direction(e):
        a = rnd_mant(rng) * rng.choice([1, -1])
        kind = rng.choice(["gt", "lt", "eq", "im0", "re0", "tinyq", "sqrtq", "near"])
        b = {"gt": a * rng.uniform(-1, 1), "lt": a, "eq": a * rng.choice([1, -1]), "im0": 0.0, "re0": a,
             "tinyq": a * 2.0 ** -rng.randint(1000, 1074), "sqrtq": a * 2.0 ** -rng.randint(500, 560),
             "near": step(a, rng.randint(-3, 3))}[kind]
        if kind in ("lt", "re0"): a = 0.0 if kind == "re0" else a * rng.uniform(-1, 1)
        if kind in ("tinyq", "sqrtq") and rng.random() < 0.5: a, b = b, a
        try: return math.ldexp(a, e), math.ldexp(b, e), kind
        except OverflowError: return math.ldexp(a, 1000), math.ldexp(b, 1000), kind
    # 1. the 8u boundary at all scales
    while len(out) < total * 45 // 100:
        e = rng.choice([rng.randint(-1021, 1021), rng.randint(-1021, 1021), rng.randint(-60, 60), rng.randint(1000, 1022),
                        rng.randint(-1021, -960)])
        dx, dy, kind = direction(e)
        if kind in ("tinyq", "sqrtq") and e < 60: e = rng.randint(60, 1020); dx, dy, kind = direction(e)
        out.append(("boundary-" + kind, ft_pair_at(rng, ft_n(rng), dx, dy, rng.choice(KS), rng.choice(["rand", "zero"]))))
    # 2. guard DBL_MAX / (2 n) +- ulps (python's float division is the same binary64 operation)
    while len(out) < total * 57 // 100:
        n = ft_n(rng); t = DBLMAX / (2 * n)
        ra = step(t, rng.choice([-3, -2, -1, -1, 0, 0, 1, 2]))
        rb = rng.choice([0.0, ra, step(t, -1), step(t, -2), t / 2, 1.0, t])
        if rng.random() < 0.5: ra, rb = rb, ra
        far = rng.choice([0.0, 1.0, DBLMAX, DBLMAX / 2, -DBLMAX, t, 2 * t if fin(2 * t) else t])
        out.append(("guard", (n, ra, rb, far, rng.choice([0.0, far, -far]), rng.choice([0.0, -far, 1.0]), rng.choice([0.0, far, 3.0]))))
    # 3. overflowing difference / modulus
    while len(out) < total * 65 // 100:
        n = ft_n(rng); t = DBLMAX / (2 * n)
        a = DBLMAX * rng.choice([1, 0.75, 0.5, 0.9999999]); b = rng.choice([a, a / 2, 1.0, 0.0, a * 0.70710678, step(a, -1)])
        r = rng.choice([step(t, -1), step(t, -1), t / 2, t / 4, 1.0, 0.0])
        k = rng.random()
        if k < 0.35: c = (n, r, r, a, b, -a, -b)                      # both differences overflow: inf / inf = NaN
        elif k < 0.6: c = (n, r, r, a, 0.0, -a, rng.choice([0.0, 1.0, b]))       # one overflows: modulus +inf
        elif k < 0.85: c = (n, r, step(r, -rng.randint(0, 4)), a, b, 0.0, 0.0)    # finite difference, modulus may overflow
        else: c = (n, r, r, a / 2, a / 2, -a / 2, -a / 2)              # |dx| = |dy| = max: product overflows
        out.append(("overflow", c))
    # 4. subnormal distances (the case C07_ftouch_b64_separated excludes) and tiny radii
    out.append(("subnormal", (1, 5e-324, 0.0, 5e-324, 5e-324, 0.0, 0.0)))       # the witness of C07_ftouch_subnormal_refuted
    while len(out) < total * 77 // 100:
        q = 2.0 ** -1074
        m1 = rng.choice([0, 1, 1, 2, 3, rng.randint(0, 50), rng.getrandbits(rng.randint(1, 52))]) * rng.choice([1, -1])
        m2 = rng.choice([0, 1, 1, 2, 3, rng.randint(0, 50), rng.getrandbits(rng.randint(1, 52))]) * rng.choice([1, -1])
        n = rng.choice([1, 1, 2, 3, ft_n(rng)])
        if rng.random() < 0.5:
            c = ft_pair_at(rng, n, m1 * q, m2 * q, rng.choice(KS), "zero")
        else:
            c = (n, rng.choice([0, 1, 2, 3, abs(m1)]) * q, rng.choice([0, 0, 1, abs(m2)]) * q, m1 * q, m2 * q, 0.0, 0.0)
        out.append(("subnormal", c))
    # 5. cplx_mod branches with signed zeros, equal moduli, exact cases
    while len(out) < total * 85 // 100:
        vals = [0.0, -0.0, 1.0, -1.0, 3.0, 4.0, -4.0, 0.5, 1e-300, 1e300, 5e-324, 2.2250738585072014e-308, step(1.0, 1), step(1.0, -1)]
        xi, yi, xj, yj = (rng.choice(vals) for _ in range(4))
        n = rng.choice([1, 2, 3]); r = rng.choice([0.0, 0.5, 1.0, 2.0, 2.5, 1e300, 5e-324])
        out.append(("branches", (n, r, rng.choice([0.0, r, 1.0]), xi, yi, xj, yj)))
    # 6. infinities and NaN in the inputs, negative radii (no predicate: correspondence only)
    while len(out) < total * 90 // 100:
        sp = [math.inf, -math.inf, math.nan, 0.0, 1.0, -1.0, DBLMAX, -2.0]
        c = [rng.choice(sp) if rng.random() < 0.4 else rng.uniform(-3, 3) for _ in range(6)]
        out.append(("inf-nan", (ft_n(rng), c[0], c[1], c[2], c[3], c[4], c[5])))
    # 7. random values of mixed scales and random bit patterns
    while len(out) < total:
        if rng.random() < 0.3:
            c = [bitsf("%016x" % rng.getrandbits(64)) for _ in range(6)]
            out.append(("random-bits", (ft_n(rng), abs(c[0]), abs(c[1]), c[2], c[3], c[4], c[5])))
        else:
            e = rng.randint(-300, 300)
            c = [math.ldexp(rng.uniform(-2, 2), e + rng.randint(-3, 3)) for _ in range(6)]
            out.append(("random", (ft_n(rng), abs(c[0]) / 8, abs(c[1]) / 8, c[2], c[3], c[4], c[5])))
    return out


def ft_exact(c):
    """the property's predicate for mps_ftouchnwt on one input, exact arithmetic.
    returns (class, must_true, must_false): class in overlap / separated / margin / guard / subnormal-separated / no-claim"""
    n, ri, rj, xi, yi, xj, yj = c
    if not all(fin(v) for v in c[1:]) or ri < 0 or rj < 0 or n < 1:
        return ("no-claim", False, False)
    t = DBLMAX / (2 * n)
    dx = Fraction(xi) - Fraction(xj); dy = Fraction(yi) - Fraction(yj)
    d2 = dx * dx + dy * dy
    L = n * (Fraction(ri) + Fraction(rj)); l2 = L * L
    m2 = (1 + MARGIN) ** 2
    if l2 >= d2 * m2:
        return ("overlap", True, False)                    # C07_ftouch_b64_overlap: every finite input
    if ri >= t or rj >= t:
        return ("guard", True, False)                      # radius treated as infinite: C07_ftouch_b64_guard (the code's design)
    if l2 * m2 < d2:
        if max(abs(dx), abs(dy)) >= SUBN:
            return ("separated", False, True)              # C07_ftouch_b64_separated
        return ("subnormal-separated", False, False)       # C07_ftouch_subnormal_refuted: no claim, counted
    return ("margin", False, False)


def ftouch_phase(ctx, stats, only=None):
    hb = ctx.compile_harness(["c07_ftouch.c"], "c07_ftouch", mode=HARNESS_MODE)
    ctx.model_bin("ftouch")
    cases = only if only is not None else ft_cases(ctx, ctx.pick(6000, 150000))
    lines = ["f%d %d %s" % (k, c[0], " ".join(fbits(v) for v in c[1:])) for k, (g, c) in enumerate(cases)]
    text = "\n".join(lines) + "\n"
    rc, o, e = vf.sh([hb], input=text, timeout=900, env=ctx.san_env())
    hout = {ln.split(" ")[0]: ln for ln in o.splitlines()}
    mout = {ln.split(" ")[0]: ln for ln in ctx.run_model_lines("ftouch", lines, workers=4)}
    ft = stats.setdefault("ftouch", {"evaluations": 0, "by_generator": {}, "by_class": {}, "answers": {"true": 0, "false": 0},
                                     "mod_branch": {}, "nan_or_inf_modulus": 0, "subnormal_separated_true": 0,
                                     "asymmetric": 0, "samples": []})
    if rc != 0:
        kind = "asan" if rc == 97 else "ubsan" if rc == 98 else "rc=%d" % rc
        k = len(hout)
        ctx.violation("sanitizer:%s:mps_ftouchnwt:%s" % (kind, cases[min(k, len(cases) - 1)][0]),
                      "harness c07_ftouch stopped (%s) at input %d: %s" % (kind, k, (e or "")[-400:]),
                      {"ftouch": True, "case": list(map(fbits, cases[min(k, len(cases) - 1)][1][1:])), "n": cases[min(k, len(cases) - 1)][1][0]})
    for k, (g, c) in enumerate(cases):
        hid = "f%d" % k
        h = hout.get(hid); m = mout.get(hid)
        if h is None: continue
        ft["evaluations"] += 1
        ft["by_generator"][g] = ft["by_generator"].get(g, 0) + 1
        cls, must_t, must_f = ft_exact(c)
        ft["by_class"][cls] = ft["by_class"].get(cls, 0) + 1
        hf = dict(x.split("=") for x in h.split(" ")[1:])
        t01 = hf["t"][0] == "1"; t10 = hf["t"][1] == "1"
        ft["answers"]["true" if t01 else "false"] += 1
        if hf["mod"] in ("7ff8000000000000", "7ff0000000000000"): ft["nan_or_inf_modulus"] += 1
        dxf = c[3] - c[5]; dyf = c[4] - c[6]
        br = "nan" if (dxf != dxf or dyf != dyf) else "re>im" if abs(dxf) > abs(dyf) else "im==0" if dyf == 0 else "re<=im"
        ft["mod_branch"][br] = ft["mod_branch"].get(br, 0) + 1
        replay = {"ftouch": True, "gen": g, "n": c[0], "bits": [fbits(v) for v in c[1:]], "values": [repr(v) for v in c[1:]],
                  "class": cls, "implementation": h, "model": m}
        bad = False
        if t01 != t10:
            ft["asymmetric"] += 1
            if cls != "no-claim":
                bad = True
                ctx.violation("touch-asymmetric:f:%s" % g, "mps_ftouchnwt(i,j) = %s but (j,i) = %s on finite input %s" % (t01, t10, replay["values"]), replay)
        for t in (t01, t10):
            if must_t and not t:
                bad = True
                ctx.violation("touch-exact:f:%s:false-for-overlapping-discs" % g,
                              "mps_ftouchnwt answers false although n(ri+rj) >= |zi-zj|(1+8u) exactly (%s): %s" % (cls, replay["values"]), replay)
            if must_f and t:
                bad = True
                ctx.violation("touch-exact:f:%s:true-for-separated-discs" % g,
                              "mps_ftouchnwt answers true although n(ri+rj)(1+8u) < |zi-zj| exactly, radii below the guard, a distance component >= 2^-1022: %s"
                              % replay["values"], replay)
        if cls == "subnormal-separated" and (t01 or t10):
            ft["subnormal_separated_true"] += 1
            ctx.violation(FT_KNOWN_SUBNORMAL, "mps_ftouchnwt answers true for discs separated by more than the 8u margin when both components of "
                          "z_i - z_j are subnormal: %s" % replay["values"], replay)
        if m != h and not bad:
            ctx.violation("correspondence:ftouch:%s" % g, "binary64 model (bin/ftouch) and mps_ftouchnwt/cplx_mod differ: model `%s` implementation `%s`"
                          % (m, h), replay, no_input=True)
        if len(ft["samples"]) < 5 and cls in ("overlap", "separated") and g.startswith("boundary"):
            ft["samples"].append({"gen": g, "n": c[0], "values": replay["values"], "class": cls, "implementation": h})
    return ft


# ------------------------------------------------------------------ cluster.c list operations (model: coq/Cluster/ClusterOps.v)
class OpsSim:
    """python mirror of ClusterOps.step, used ONLY to generate operations the model accepts (valid handles); the
    comparison is between bin/clops and the real structures"""
    def __init__(self):
        self.items = []; self.loose = {}; self.popped = {}; self.fresh = 0

    def item(self, h):
        for it in self.items:
            if it["h"] == h: return it
        return None

    def reassemble_ok(self):
        alive = [it["h"] for it in self.items]
        for it in list(self.items):
            if it["det"] is None: continue
            if not it["nodes"] or it["det"] not in alive: return False
            alive.remove(it["h"])
        return True

    def apply(self, op):
        f = op.split(":"); name = f[0]; a = [int(x) for x in f[1:]]
        if name == "N":
            self.loose[self.fresh] = []; self.fresh += 1
        elif name in ("IRi", "IRl"):
            nodes = self.item(a[0])["nodes"] if name == "IRi" else self.loose[a[0]]
            nodes.insert(0, (self.fresh, a[1])); self.fresh += 1
        elif name in ("RRi", "RRl"):
            nodes = self.item(a[0])["nodes"] if name == "RRi" else self.loose[a[0]]
            nodes[:] = [x for x in nodes if x[0] != a[1]]
        elif name == "IC":
            self.items.insert(0, {"h": self.fresh, "det": None, "nodes": self.loose.pop(a[0])}); self.fresh += 1
        elif name == "P":
            it = self.item(a[0]); self.items.remove(it); self.popped[a[0]] = it
        elif name == "X":
            self.items.remove(self.item(a[0]))
        elif name == "DA":
            pass
        elif name == "DS":
            it = self.item(a[0]); k = [x for x in it["nodes"] if x[0] == a[1]][0][1]
            it["nodes"][:] = [x for x in it["nodes"] if x[0] != a[1]]
            self.items.insert(0, {"h": self.fresh + 1, "det": a[0], "nodes": [(self.fresh, k)]}); self.fresh += 2
        elif name == "RA":
            for it in list(self.items):
                if it["det"] is None: continue
                self.item(it["det"])["nodes"].insert(0, (self.fresh, it["nodes"][0][1])); self.fresh += 1
                self.items.remove(it)
        elif name == "RS":
            n = a[0]
            self.items = [{"h": self.fresh + n, "det": None, "nodes": [(self.fresh + i, i) for i in range(n - 1, -1, -1)]}]
            self.fresh += n + 1

    def choose(self, rng):
        """a random operation valid in the current state"""
        for _ in range(50):
            name = rng.choice(["N", "IRi", "IRi", "IRl", "RRi", "RRi", "RRl", "IC", "IC", "P", "X", "DA", "DS", "DS", "DS", "RA", "RA", "RS"])
            withn = [it for it in self.items if it["nodes"]]
            if name == "N" and len(self.loose) < 4: return "N"
            if name == "IRi" and self.items: return "IRi:%d:%d" % (rng.choice(self.items)["h"], rng.randrange(16))
            if name == "IRl" and self.loose: return "IRl:%d:%d" % (rng.choice(list(self.loose)), rng.randrange(16))
            if name == "RRi" and withn:
                it = rng.choice(withn); return "RRi:%d:%d" % (it["h"], rng.choice([it["nodes"][0], it["nodes"][-1], rng.choice(it["nodes"])])[0])
            if name == "RRl" and any(self.loose.values()):
                h = rng.choice([h for h, v in self.loose.items() if v]); return "RRl:%d:%d" % (h, rng.choice(self.loose[h])[0])
            if name == "IC" and self.loose: return "IC:%d" % rng.choice(list(self.loose))
            if name in ("P", "X") and self.items and rng.random() < 0.5:
                return "%s:%d" % (name, rng.choice([self.items[0], self.items[-1], rng.choice(self.items)])["h"])
            if name == "DA": return "DA"
            if name == "DS" and withn:
                it = rng.choice(withn); return "DS:%d:%d" % (it["h"], rng.choice([it["nodes"][0], it["nodes"][-1], rng.choice(it["nodes"])])[0])
            if name == "RA" and self.reassemble_ok(): return "RA"
            if name == "RS" and rng.random() < 0.4: return "RS:%d" % rng.choice([0, 1, 2, 5, 16, rng.randint(0, 16)])
        return "DA"


def ops_parse(line):
    """'zn=.. items=.. loose=.. popped=.. [links=..]' -> dict"""
    d = {}
    for tok in line.split(" "):
        k, _, v = tok.partition("="); d[k] = v
    def nodes(s): return [tuple(int(x) for x in nd.split(":")) for nd in s.split(",")] if s else []
    st = {"zn": int(d["zn"]), "links": d.get("links", "ok"), "items": [], "loose": [], "popped": []}
    for e in (d["items"].split(";") if d["items"] else []):
        h, det, cn, nd = e.split("/"); st["items"].append((int(h), None if det == "-" else int(det), int(cn), nodes(nd)))
    for key in ("loose", "popped"):
        for e in (d[key].split(";") if d[key] else []):
            h, cn, nd = e.split("/"); st[key].append((int(h), None, int(cn), nodes(nd)))
    return st


def ops_phase(ctx, stats, only=None):
    hb = ctx.compile_harness(["c07_ops.c"], "c07_ops", mode=HARNESS_MODE)
    ctx.model_bin("clops")
    rng = ctx.rng
    seqs = []
    if only is not None:
        seqs = only
    else:
        fixed = ["RS:4 DS:4:1 DS:4:2 DA RA", "RS:3 DS:3:0 DS:3:1 DS:3:2 RA", "N IRl:0:5 IRl:0:7 IC:0 RS:3 IRi:7:9 DS:7:5 DA RA P:7",
                 "RS:5 DS:5:2 DS:7:6 RA", "RS:2 P:2 N IC:3 X:4 RS:0 RS:1", "N IC:0 N IC:2 N IC:4 P:3 X:1 P:5"]
        seqs += fixed
        for _ in range(ctx.pick(400, 8000)):
            sim = OpsSim(); ops = []
            if rng.random() < 0.6: ops.append("RS:%d" % rng.randint(1, 16)); sim.apply(ops[-1])
            for _k in range(rng.randint(5, 60)):
                o = sim.choose(rng); sim.apply(o); ops.append(o)
            seqs.append(" ".join(ops))
    text = "".join("q%d %s\n" % (k, sq) for k, sq in enumerate(seqs))
    rc, o, e = vf.sh([hb], input=text, timeout=900, env=ctx.san_env())
    mo = ctx.run_model("clops", text)
    def split(out):
        res = {}
        for ln in out.splitlines():
            f = ln.split(" ", 3)
            if len(f) >= 2 and f[1] in ("BEGIN", "END"): res.setdefault(f[0], []); continue
            if len(f) == 4: res.setdefault(f[0], []).append((f[2], f[3]))
        return res
    hs, ms = split(o), split(mo)
    op = stats.setdefault("list_ops", {"sequences": 0, "states_compared": 0, "by_operation": {}, "model_none": 0,
                                       "reassemble_with_detached": 0, "max_items": 0, "samples": []})
    if rc != 0:
        kind = "asan" if rc == 97 else "ubsan" if rc == 98 else "rc=%d" % rc
        last = o.splitlines()[-1] if o.splitlines() else ""
        sid = last.split(" ")[0] if last else "q0"
        k = int(sid[1:]) if sid[1:].isdigit() else 0
        done = len(hs.get(sid, []))
        nxt = seqs[k].split(" ")[done] if done < len(seqs[k].split(" ")) else "?"
        ctx.violation("sanitizer:%s:cluster-ops:%s" % (kind, nxt.split(":")[0]),
                      "harness c07_ops stopped (%s) in sequence %s at operation %d (%s): %s" % (kind, sid, done, nxt, (e or "")[-600:]),
                      {"ops": True, "sequence": seqs[k]})
    for k, sq in enumerate(seqs):
        sid = "q%d" % k
        H = hs.get(sid); M = ms.get(sid, [])
        if H is None: continue
        op["sequences"] += 1
        prev = {"zn": 0, "items": [], "loose": [], "popped": [], "links": "ok"}
        names = sq.split(" ")
        for idx, (oname, hline) in enumerate(H):
            kind = oname.split(":")[0]
            op["by_operation"][kind] = op["by_operation"].get(kind, 0) + 1
            st = ops_parse(hline)
            op["states_compared"] += 1
            op["max_items"] = max(op["max_items"], len(st["items"]))
            bad = []
            if st["zn"] != len(st["items"]): bad.append("clusterization->n = %d but the list has %d items" % (st["zn"], len(st["items"])))
            for grp in ("items", "loose", "popped"):
                for (h, det, cn, nd) in st[grp]:
                    if cn != len(nd): bad.append("cluster->n = %d but the list has %d roots (%s %d)" % (cn, len(nd), grp, h))
            if st["links"] != "ok": bad.append("->prev links do not match the ->next walk")
            ih = [x[0] for g in ("items", "loose", "popped") for x in st[g]]
            nh = [n_[0] for g in ("items", "loose", "popped") for x in st[g] for n_ in x[3]]
            if len(set(ih)) != len(ih) or -1 in ih or len(set(nh)) != len(nh) or -1 in nh: bad.append("an item or node is reachable twice / unknown pointer")
            ms_ = lambda s_, gs: sorted(n_[1] for g in gs for x in s_[g] for n_ in x[3])
            if kind == "DS" and ms_(st, ["items"]) != ms_(prev, ["items"]): bad.append("detach step changed the multiset of roots")
            if kind == "P" and ms_(st, ["items", "popped"]) != ms_(prev, ["items", "popped"]): bad.append("pop lost a root")
            if kind == "RA":
                ndet = sum(1 for x in prev["items"] if x[1] is not None)
                op["reassemble_with_detached"] += ndet > 0
                if any(x[1] is not None for x in st["items"]): bad.append("an item is still detached after reassemble")
                dets = [x for x in prev["items"] if x[1] is not None]
                nested = any(x[1] in [y[0] for y in dets] for x in dets)       # a detached item detached from a detached item
                if all(len(x[3]) == 1 for x in dets) and not nested and ms_(st, ["items"]) != ms_(prev, ["items"]):
                    bad.append("reassemble changed the multiset of roots although every detached cluster was a singleton detached from a cluster that stays")
            replay = {"ops": True, "sequence": sq, "at": idx, "implementation": hline, "model": M[idx][1] if idx < len(M) else None}
            for b in bad:
                ctx.violation("ops:%s:%s" % (kind, b.split(" ")[0].replace("->", "-")), "cluster.c list operations: after %s (operation %d): %s" % (oname, idx, b), replay)
            mline = M[idx][1] if idx < len(M) else None
            if mline == "NONE": op["model_none"] += 1
            if mline != hline.rsplit(" links=", 1)[0] and not bad:
                ctx.violation("correspondence:cluster-ops:%s" % kind, "list model and cluster.c differ after %s (operation %d of %s): model `%s` implementation `%s`"
                              % (oname, idx, sid, mline, hline), replay, no_input=True)
                break
            prev = st
        if len(op["samples"]) < 3 and "RA" in names and "DS" in sq:
            op["samples"].append({"sequence": sq[:200], "final_state": H[-1][1][:200] if H else None})
    return op


# ------------------------------------------------------------------ mps_mcluster under the deterministic scheduler
def shim_run(ctx, hs, c, args):
    """run one case under the schedules selected by args; returns (header, runs) with runs = list of
    dicts {new, bad, status, what, sched, trace}"""
    rc, o, e = vf.sh([hs] + args, input=case_line(c) + "\n", timeout=1500, env=ctx.san_env())
    lines = o.splitlines()
    header = None; runs = []; cur = None; k = 0
    while k < len(lines):
        ln = lines[k]
        if ln.startswith(c["id"] + " T="):
            f = ln.split(" "); header = {"T": f[1][2:], "TN": f[2][3:]}
        elif ln.startswith("R new="):
            f = ln.split(" "); cur = {"new": f[1][4:], "bad": f[2][4:]}
        elif ln.startswith("# run "):
            f = ln.split(" ")
            r = {"status": int(f[4]), "what": f[12], "sched": f[14] if len(f) > 14 else "-", "new": None, "bad": "0", "trace": ""}
            if cur: r.update(cur)
            cur = None
            if r["status"] != 0:
                tr = []
                k += 1
                while k < len(lines) and lines[k] != "# end": tr.append(lines[k]); k += 1
                r["trace"] = "\n".join(tr[-60:])
            runs.append(r)
        k += 1
    return header, runs, rc, e


def shim_phase(ctx, stats):
    hs = ctx.compile_harness(["vf_sched.c", "c07_cluster.c"], "c07_cluster_shim", mode="shimsan")
    rng = ctx.rng
    jobs = []
    if ctx.replay:
        c = json.load(open(ctx.replay))
        if not c.get("shim"): return
        args = ["--replay", c["schedule"]]
        c = {k: ([tuple(t) for t in v] if k in ("X", "Y", "G", "W") else v) for k, v in c.items()}
        jobs.append((c, args, "replay"))
    else:
        nr, npct = ctx.pick((12, 8), (60, 40))
        gens = ["chain", "random", "star", "coincident", "chain-tangent", "random", "zero", "chain"]
        k = 0
        for n in (130, 200):
            for th in range(1, 9):
                c = make_case(rng, "h%d" % k, "m", n, gens[(k + th) % len(gens)], rng.choice(["one", "random", "two"]),
                              rng.choice(["big", "big", "same", "tiny"]), threads=th)
                if c["gen"] == "random-huge": c["G"] = [g if g[0] != "MAX" else (1, 0) for g in c["G"]]; c["W"] = list(c["G"])
                jobs.append((c, ["--random", str(nr), "--pct", str(npct), "--depth", "3", "--seed", str(rng.randrange(1, 10 ** 6))], "random+pct"))
                k += 1
        if not ctx.quick():
            c = make_case(rng, "hd", "m", 129, "coincident", "two", "big", threads=2)
            jobs.append((c, ["--dfs", "2", "--free-switch", "--max-runs", "3000"], "dfs2"))
    with ThreadPoolExecutor(14) as ex:
        outs = list(ex.map(lambda j: shim_run(ctx, hs, j[0], j[1]), jobs))
    mlines = []
    for (c, args, kind), (hd, runs, rc, err) in zip(jobs, outs):
        if hd is None:
            raise vf.InfraError("shim harness gave no header for %s rc=%s: %s" % (c["id"], rc, (err or "")[-800:]))
        mlines += model_lines(c, hd, False)
    mres = parse_model(ctx.run_model("cluster", "\n".join(mlines) + "\n")) if mlines else {}
    sh = stats.setdefault("shim", {"schedules": 0, "cases": 0, "by_threads": {}, "by_kind": {}, "max_decisions": 0, "distinct_list_orders": 0})
    for (c, args, kind), (hd, runs, rc, err) in zip(jobs, outs):
        n = c["n"]; T, TN = hd["T"], hd["TN"]
        iso = all(TN[i * n + j] == "0" for i in range(n) for j in range(n) if i != j)
        expect = canon([[k] for k in range(n)]) if iso else components_py(n, T, c["old"])
        for pk in ("first", "last", "h%d" % (n + 1)):
            m = mres.get("%s@%s" % (c["id"], pk))
            if m is None or m["canon"] != fmt_old(expect):
                ctx.violation("correspondence:shim-model:%s" % c["gen"], "cluster_par (%s) differs from the components of the exported matrix" % pk,
                              dict(c, shim=True, schedule="-"), no_input=True)
        base = {k: v for k, v in c.items() if not k.startswith("_")}
        base["shim"] = True; base["args"] = args
        sh["cases"] += 1
        orders = set()
        if rc != 0 and not runs:
            ctx.violation("shim:harness-exit-%s:mps_mcluster:%s" % (rc, c["gen"]), "shim harness failed: %s" % (err or "")[-300:], dict(base, schedule="-"))
        for r in runs:
            sh["schedules"] += 1
            sh["by_threads"][str(c["threads"])] = sh["by_threads"].get(str(c["threads"]), 0) + 1
            sh["by_kind"][kind] = sh["by_kind"].get(kind, 0) + 1
            sh["max_decisions"] = max(sh["max_decisions"], r["sched"].count(",") + 1)
            rep = dict(base, schedule=r["sched"], trace_tail=r["trace"])
            if r["status"] != 0:
                name = {1: "deadlock", 2: "steplimit", 3: "misuse", 4: "assert", 5: "crash", 6: "timeout"}.get(r["status"], str(r["status"]))
                ctx.violation("shim:%s:mps_mcluster:n%d/t%d/%s" % (name, n, c["threads"], c["gen"]),
                              "mps_mcluster under the scheduler shim: %s (%s) with %d threads" % (name, r["what"], c["threads"]), rep)
                continue
            if r["new"] is None:
                ctx.violation("shim:no-result:mps_mcluster:%s" % c["gen"], "run finished without printing a clusterization", rep); continue
            new = parse_clusters(r["new"])
            orders.add(r["new"])
            if r["bad"] != "0" or canon(new) != expect:
                ctx.violation("shim:components:mps_mcluster:n%d/t%d/%s" % (n, c["threads"], c["gen"]),
                              "schedule-dependent result: clusters %s are not the expected %s (override=%s)"
                              % (r["new"][:120], fmt_old(expect)[:120], iso), rep)
        sh["distinct_list_orders"] += len(orders)


def exhaustive_model(ctx, nmax, stats):
    """all symmetric touch graphs on <= nmax nodes x all set partitions: model seq/par vs union-find"""
    def set_partitions(items):
        if not items: yield []; return
        first, rest = items[0], items[1:]
        for p in set_partitions(rest):
            for k in range(len(p)):
                yield p[:k] + [[first] + p[k]] + p[k + 1:]
            yield [[first]] + p
    lines = []; expect = {}
    cid = 0
    for n in range(1, nmax + 1):
        pairs = [(i, j) for i in range(n) for j in range(i)]
        parts = list(set_partitions(list(range(n))))
        for mask in range(1 << len(pairs)):
            M = [["1" if i == j else "0" for j in range(n)] for i in range(n)]
            for b, (i, j) in enumerate(pairs):
                if mask >> b & 1: M[i][j] = M[j][i] = "1"
            T = "".join("".join(r) for r in M)
            for p in parts:
                old = [list(cl) for cl in p]
                if ctx.rng.random() < 0.5:
                    for cl in old: ctx.rng.shuffle(cl)
                for variant, pick in (("seq", "first"), ("par", "last")):
                    name = "x%d" % cid; cid += 1
                    lines.append("%s %s %d %s %s %s %s 1" % (name, variant, n, T, T, fmt_old(old), pick))
                    iso = mask == 0
                    expect[name] = fmt_old(canon([[k] for k in range(n)]) if iso else components_py(n, T, old))
    res = {}
    with ThreadPoolExecutor(12) as ex:
        for o in ex.map(lambda ch: ctx.run_model("cluster", "\n".join(ch) + "\n"), chunks(lines, 12)):
            res.update(parse_model(o))
    badn = 0
    for name, exp in expect.items():
        m = res.get(name)
        if m is None or m["canon"] != exp or (m["iso"] == "0" and m["comp"] != exp):
            badn += 1
            if badn <= 3:
                ctx.violation("correspondence:model-exhaustive", "model differs from union-find components on %s: %s vs %s"
                              % (name, m and m["canon"], exp), {"line": [l for l in lines if l.startswith(name + " ")][:1]}, no_input=True)
    stats["exhaustive_model_cases"] = len(expect)
    stats["exhaustive_nmax"] = nmax


def merge_known(ctx):
    """known/C07.json is this property's fragment of known_findings.json (merged by lib/mkmanifest.py); entries not merged yet
    are honoured all the same so that the check is quiet between two runs of the integrator"""
    try:
        frag = json.load(open(os.path.join(vf.VERIF, "known", "C07.json"))).get("findings", [])
    except Exception:
        frag = []
    have = {k.get("signature") or k.get("signature_regex") for k in ctx.known}
    for f in frag:
        if f.get("property") == "C07" and f.get("status", "open") == "open" and (f.get("signature") or f.get("signature_regex")) not in have:
            ctx.known.append(f)


def run(ctx):
    merge_known(ctx)
    ctx.prove()
    pr = ctx.proof
    if pr and not pr.get("ok") and pr.get("failed_stage") == "forbidden-constructs":
        # lib/vf.py scans coq/scratch/ as well (other builders' parked, half-finished files; not part of the build, not
        # committed): the scan is the last stage of prove(), everything else has passed
        rest = [f for f in pr.get("forbidden", []) if not f.startswith("coq/scratch/")]
        if not rest:
            ctx.notes.append("forbidden constructs only under coq/scratch/ (ignored): %s" % pr["forbidden"][:4])
            pr["forbidden"] = []; pr["failed_stage"] = None; pr["ok"] = True
    hbin = ctx.compile_harness(["c07_cluster.c"], "c07_cluster", mode=HARNESS_MODE)
    ctx.model_bin("cluster")
    stats = {"evaluations": 0, "by_variant": {}, "by_gen": {}, "by_part": {}, "by_size": {}, "threads": {}, "iso": 0,
             "touch_pairs": 0, "touch_decided": 0, "distinct": set(), "spec_compared": 0, "model_disagree_on_violation": 0}
    samples = []
    if ctx.replay:
        c = json.load(open(ctx.replay))
        c = {k: ([tuple(t) for t in v] if k in ("X", "Y", "G", "W") else v) for k, v in c.items()}
        if c.get("shim"):
            shim_phase(ctx, stats)
        elif c.get("ops"):
            ops_phase(ctx, stats, only=[c["sequence"]])
        elif c.get("ftouch"):
            ftouch_phase(ctx, stats, only=[(c.get("gen", "replay"), tuple([c["n"]] + [bitsf(b) for b in c["bits"]]))])
        elif "variant" in c:
            c["id"] = "c0"
            process(ctx, hbin, [c], stats, samples)
    else:
        total = ctx.pick(2000, 50000)
        cases = gen_cases(ctx, total)
        for k in range(0, len(cases), 3000):
            process(ctx, hbin, cases[k:k + 3000], stats, samples)
        exhaustive_model(ctx, ctx.pick(4, 5), stats)
        ftouch_phase(ctx, stats)
        ops_phase(ctx, stats)
        shim_phase(ctx, stats)

    def search():
        # targeted search when a proof obligation broke: the case splits of the traversal
        st = dict(stats); st["distinct"] = set()
        before = len(ctx.violations)
        cs = []
        for v in "fdm":
            for n in (3, 4, 5, 6, 9):
                for gen in ("chain", "chain-tangent", "star", "coincident"):
                    for part in ("one", "random", "random-empty"):
                        cs.append(make_case(ctx.rng, "", v, n, gen, part, "big"))
        for k, c in enumerate(cs): c["id"] = "s%d" % k
        process(ctx, hbin, cs, stats, samples)
        return any(not ni for _, _, _, ni in ctx.violations[before:])
    ctx.proof_violation_if_broken(search=search)

    cov = {
        "evaluations": stats["evaluations"],
        "distinct_nontrivial": len(stats["distinct"]),
        "rule": "distinct (variant, exported touch matrix, previous partition) with at least one overlap and one non-singleton previous cluster",
        "samples": samples,
        "histogram": {"variant": stats["by_variant"], "generator": stats["by_gen"], "previous_partition": stats["by_part"],
                      "size": stats["by_size"], "mcluster_threads": stats["threads"], "override_taken": stats["iso"]},
        "touch_pairs_checked": stats["touch_pairs"], "touch_pairs_outside_margin": stats["touch_decided"],
        "spec_components_compared": stats["spec_compared"],
        "exhaustive_model_cases": stats.get("exhaustive_model_cases", 0), "exhaustive_nmax": stats.get("exhaustive_nmax", 0),
        "harness_mode": HARNESS_MODE,
        "scheduler_shim": stats.get("shim", {}),
        "ftouch_binary64": stats.get("ftouch", {}),
        "override_test": stats.get("override", {}),
        "cluster_list_operations": stats.get("list_ops", {}),
        "trusted_base": [
            "Coq 8.16.1 kernel; cluster theorems closed under the global context; touch theorems use the stdlib real-number axioms listed in axioms_used",
            "extraction (ExtrOcamlBasic, ExtrOcamlNativeString only) + ocaml/cluster_driver.ml (touch matrix passed as an OCaml closure over the exported string)",
            "harness/c07_cluster.c builds the context through the private API; the clustering theorems take the touch predicate from the implementation, exported as a matrix; its relation to the exact predicate is proved end to end for the double variant (C07_ftouch_b64_overlap / _separated / _guard / _lhs_no_overflow on Flocq binary64, C07_ftouch_subnormal_refuted) and only under a rounding model for DPE/MP (C07_dtouch_sound_partial) plus exact dyadic testing outside the 8u margin",
            "binary64 semantics: gcc maps C double arithmetic and sqrt to IEEE binary64 round-to-nearest-even operations (-ffp-contract=off, SSE2), (double) of an int is exact: checked bit for bit against Flocq's operations on every run (bin/ftouch vs harness/c07_ftouch.c: both touch results, modulus, left side, guard), not proved; NaN payloads/signs not modelled; the libm-cabs configuration (MPS_USE_BUILTIN_COMPLEX unset) is not the one built and is not modelled",
            "mps_mcluster modelled at block-merge granularity (every order of base selection); interleavings explored with harness/vf_sched.c (its model of mutex/condvar semantics is trusted; code between two pthread calls runs atomically, sequentially consistent memory) plus real threads; not proved below that granularity",
            "python predicate (union-find components, partition, refinement; exact rational touch predicate; counters = lengths, links, multisets of the list operations) in checks/C07.py",
            "list operations: harness/c07_ops.c names pointers by handles mirroring the model's counter (the nodes created inside mps_clusterization_reassemble_clusters are named by position); the detach step is the body of the disabled loop of mps_clusterization_detach_clusters performed by the harness with the same four steps; None of the model = NULL/dangling dereference in C, such operations are not sent to the C code; mps_cluster_join (unused) not modelled; distinctness of node handles and the multiset under reassemble are checked state by state, not proved",
        ],
    }
    return ctx.finish("proof", cov, [
        "previous clusterization is a partition of 0..n-1 (required by the C code as well)",
        "touch predicate symmetric (checked on every exported matrix)",
        "double touch: 1 <= n < 2^30 (the int 2*n does not overflow), radii non-negative and finite for the exactness claims; DPE/MP touch: rounding model + correspondence only",
    ])
