"""C02 - goal contract and status honesty (digits delivered, isolation real).

Every run of the real solver (sanitizer build, harness/vf_solve.c, exact export) on a simple-root input with
the whole plane as search set is judged by the extracted Coq function run_ok (coq/Goal/GoalModel.v), which
theorem C02_run_ok_spec proves equivalent to the property's predicate on the exported values:
  (i)   no over_max, approximate goal, not crude/avoid-mp  => every status approximated (3|4) and r <= 2^-prec_out |z|
  (ii)  no over_max, isolate goal                          => every status in {2,3,4}
  (iii) every run: status approximated                     => r <= 2^-prec_out |z|
  (iv)  every run: discs of roots with status in {2,3,4} are pairwise disjoint (closed discs)
A false clause is a violation of C02 directly (replay = .pol text + options).  Runs that end in an error,
a timeout or a sanitizer report are C03's / C05's business and only counted.
The status tables of the model are compared with include/mps/types.h of the snapshot on every run.

Second layer (coq/Goal/StopModel.v, extracted to bin/stopq): the control flow that decides the statuses.
  * stop_tie: thousands of generated states through the REAL mps_check_stop / mps_secular_ga_check_stop (harness/c02_stopfn.c)
    against the extracted check_stop / sec_check_stop.  Predicate: a stop test that answers true (isolate/approximate goal; no
    exit request, a phase set) on a state with an uncomputed root that is not OUT is a violation; any other difference is a
    broken correspondence.
  * the precision-cap branch of mps_standard_mpsolve (step == 8 ==, "Reached the input precision") exists in two transcriptions
    (c_fixed = false: nothing recorded, the code before /repo commit 6608fee8; c_fixed = true: over_max recorded, the code since).
    Which one replays the traces is read off the snapshot's unisolve/main.c (cap_branch_repaired); the real runs then confirm it
    (returned over_max compared with the model's on every trace).
  * the witness of C02_std_silent_cap_refuted (-W 150) is re-run on the real solver: on a tree without the repair it must still
    leave through the silent branch (and is then a violation of C02: CLUSTERED root, no over_max); on a repaired tree it must leave
    through the same branch WITH over_max reported (C02_std_fixed_not_silent), which is not a finding."""
import os, re, json, collections, math
from fractions import Fraction as Fr
import vf, solve as S, polygen as G, e2e

BIG = Fr(2) ** 4000
GOALCH = {0: "i", 1: "a", 2: "c"}


def q(x): return "%d/%d" % (x.numerator, x.denominator)


# ----------------------------------------------------------------------------- inputs
def family_cases(rng, n):
    """search families of DESIGN.md C02: roots near 0, moduli that are powers of two, close simple pairs,
    exactly representable roots, mixed scales; all built from pairwise distinct rational roots"""
    out = []
    for i in range(n):
        k = rng.choice(["near0", "pow2", "closepair", "closepair", "exact", "gauss", "mixedscale", "triple"])
        if k == "near0":
            e = rng.choice([20, 60, 200, 900])
            rs = [(Fr(rng.randint(1, 9), 1 << e), Fr(rng.randint(-3, 3), 1 << e))] + list({G.rand_dyadic_root(rng, 4, 3) for _ in range(rng.randint(1, 5))})
        elif k == "pow2":
            rs = list({(Fr(2) ** rng.randint(-30, 30) * rng.choice([1, -1]), Fr(0)) for _ in range(rng.randint(2, 6))})
            rs += [(Fr(0), Fr(2) ** rng.randint(-5, 5))]
        elif k == "closepair":
            e = rng.choice([8, 20, 40, 52, 64, 100, 200])
            b = G.rand_dyadic_root(rng, 3, 2, rng.random() < 0.5)
            rs = [b, (b[0] + Fr(1, 1 << e), b[1])] + list({G.rand_dyadic_root(rng, 4, 3) for _ in range(rng.randint(0, 4))} - {b})
        elif k == "triple":
            e = rng.choice([12, 30, 52])
            b = G.rand_dyadic_root(rng, 3, 2, False)
            rs = [b, (b[0] + Fr(1, 1 << e), b[1]), (b[0], b[1] + Fr(1, 1 << e))] + list({G.rand_dyadic_root(rng, 4, 3) for _ in range(rng.randint(0, 3))} - {b})
        elif k == "exact":
            rs = list({(Fr(rng.randint(-20, 20)), Fr(0)) for _ in range(rng.randint(2, 8))})
        elif k == "gauss":
            rs = list({(Fr(rng.randint(-6, 6)), Fr(rng.randint(-6, 6))) for _ in range(rng.randint(2, 8))})
        else:
            rs = [(Fr(rng.randint(1, 50)) * Fr(2) ** rng.randint(-80, 80), Fr(rng.randint(-50, 50)) * Fr(2) ** rng.randint(-80, 80)) for _ in range(rng.randint(2, 6))]
        rs = list(dict.fromkeys(rs))
        if (Fr(0), Fr(0)) in rs: rs.remove((Fr(0), Fr(0)))     # zero roots are deflated, not returned; all-zero inputs are not C02's business
        if not rs: continue
        out.append(G.from_roots_case("%s%d" % (k, i), "family-" + k, rs, rng, kind="Rational"))
    return out


def fp_cases(rng, n):
    """floating point coefficients with a small declared input precision: the over_max situations"""
    out = []
    for i in range(n):
        deg = rng.randint(2, 8)
        co = ["%.17g" % rng.uniform(-5, 5) for _ in range(deg + 1)]
        pr = rng.choice([30, 53, 64, 100, 200])
        text = "Monomial;\nDegree=%d;\nFloatingPoint;\nReal;\nPrecision=%d;\nDense;\n\n" % (deg, pr) + "\n".join(co) + "\n"
        out.append({"name": "fp%d_p%d" % (i, pr), "cls": "floating-point-input", "text": text, "coeffs": None, "degree": deg, "simple": None, "roots": None})
    return out


WITNESS_TEXT = ("Monomial;\nDegree=3;\nRational;\nComplex;\nDense;\n\n"
                "-27021597764222973/2251799813685248 -63050394783186937/9007199254740992\n"
                "-36028797018963967/4503599627370496 -126100789566373881/18014398509481984\n"
                "4503599627370495/4503599627370496 -7/4\n1/1 0/1\n")


def configs(ctx):
    cf = []
    for a in "us":
        cf.append(["-a", a, "-G", "i"])
        for dg in (5, 15, 30, 100):
            cf.append(["-a", a, "-G", "a", "-o", str(dg)])
        for dg in (19, 38, 57):                                   # 64, 127(128), 190 bits
            cf.append(["-a", a, "-G", "a", "-o", str(dg)])
        for bb in (53, 64, 128, 192):
            cf.append(["-a", a, "-G", "a", "-B", str(bb)])
        cf.append(["-a", a, "-G", "i", "-t", "d"])
        cf.append(["-a", a, "-G", "a", "-o", "20", "-t", "d"])
        cf.append(["-a", a, "-G", "i", "-r"] if a == "u" else ["-a", a, "-G", "i", "-b"])
        cf.append(["-a", a, "-G", "a", "-o", "12", "-m"])
        cf.append(["-a", a, "-G", "i", "-m"])
    cf.append(["-a", "u", "-G", "a", "-o", "12", "-c"]); cf.append(["-a", "u", "-G", "i", "-c"])
    cf.append(["-a", "s", "-G", "a", "-o", "40", "-b"])
    big = []
    if not ctx.quick():
        for a in "us":
            for dg in (300, 617, 1000, 2000):
                big.append(["-a", a, "-G", "a", "-o", str(dg)])
            for bb in (1024, 1074, 1075, 4096):
                big.append(["-a", a, "-G", "a", "-B", str(bb)])
    return cf, big


# ----------------------------------------------------------------------------- evaluation
KCAP = 40000          # longest integers (bits) handed to the extracted binary arithmetic
BUDGET = [6e8]        # bound on (roots + pairs) * 2 * bits^2 bit-steps per run (set per tier in run())


def model_line(res, opts, exact=False):
    """One `R` line for bin/goalq -> (line or None, rounded?).  All exported numbers of a run are dyadic; they are
    multiplied by ONE common power of two so that they become integers (C02_run_ok_scale: same verdict).
    Radii that are many orders of magnitude below the last bit of the centres (exactly representable roots) would
    force integers of 10^5..10^7 bits: unless exact=True such a radius is rounded UP to the grid 2^-(kc+80), kc = the
    finest centre exponent.  A larger radius can only make run_ok fail, so a positive verdict stands; a negative
    verdict obtained with rounded radii is re-evaluated with exact=True by the caller."""
    m = res.meta
    exempt = 1 if ("-c" in opts or "-m" in opts) else 0
    vals = []
    for o, a in zip(res.roots, res.accm):
        rad = a.rad
        if rad is None or isinstance(rad, S.HugeDyadic): rad = BIG
        vals.append([o.status, a.re, a.im, rad])
    def ex2(v):
        dn = v.denominator
        if dn & (dn - 1): raise vf.InfraError("exported number is not dyadic: %r" % (v,))
        return dn.bit_length() - 1
    kc = max([0] + [ex2(v) for (_, x, y, _) in vals for v in (x, y)])
    rounded = False
    k = kc
    for v in vals:
        kr = ex2(v[3])
        if kr > kc + 80 and not exact:
            g = 1 << (kc + 80)
            v[3] = Fr(-((-v[3].numerator * g) // v[3].denominator), g); rounded = True      # ceiling on the grid
            kr = ex2(v[3])
        k = max(k, kr)
    sc = 1 << k
    toks = ["R", GOALCH.get(m["goal"], "c"), str(m["over_max"]), str(exempt), str(m["prec_out"]), str(len(vals))]
    for (s, x, y, r) in vals:
        X, Y, Rr = x * sc, y * sc, r * sc
        assert X.denominator == 1 and Y.denominator == 1 and Rr.denominator == 1
        bits = max(abs(X.numerator).bit_length(), abs(Y.numerator).bit_length(), Rr.numerator.bit_length())
        n = len(vals)
        if bits > KCAP or (n + n * (n - 1) // 2) * 2.0 * bits * bits > BUDGET[0]:
            return None, rounded
        toks += [str(s), hex(X.numerator), hex(Y.numerator), hex(Rr.numerator)]       # hexadecimal: exact, no decimal conversion of long integers
    return " ".join(toks), rounded


def excess_class(d, a):
    """how far above 2^-d |z| the radius is (only for the signature / the report)"""
    rad = a.rad
    if rad is None or isinstance(rad, S.HugeDyadic): return "non-finite"
    z2 = a.re * a.re + a.im * a.im
    lhs = rad * rad * Fr(4) ** d
    if z2 == 0: return "zero-modulus"
    ratio2 = lhs / z2
    if ratio2 <= (1 + Fr(1, 1 << 30)) ** 2: return "rounding-level"
    if ratio2 <= 64 * 64: return "factor-le-64"
    return "factor-gt-64"


def header_tables(snap):
    """the enum order and the two status tables as written in include/mps/types.h of the snapshot"""
    t = open(os.path.join(snap, "include", "mps", "types.h")).read()
    m = re.search(r"enum\s+mps_root_status\s*\{(.*?)\}", t, re.S)
    names = [x.strip() for x in m.group(1).split(",") if x.strip()] if m else []
    def tab(n):
        mm = re.search(n + r"\s*\[\]\s*=\s*\{(.*?)\}", t, re.S)
        return [x.strip() == "true" for x in mm.group(1).split(",")] if mm else None
    return names, tab("mps_table_of_approximated_roots"), tab("mps_table_of_computed_roots")


EXPECTED_ENUM = ["MPS_ROOT_STATUS_NEW_CLUSTERED", "MPS_ROOT_STATUS_CLUSTERED", "MPS_ROOT_STATUS_ISOLATED", "MPS_ROOT_STATUS_APPROXIMATED",
                 "MPS_ROOT_STATUS_APPROXIMATED_IN_CLUSTER", "MPS_ROOT_STATUS_NOT_FLOAT", "MPS_ROOT_STATUS_NOT_DPE", "MPS_ROOT_STATUS_MULTIPLE"]



# ----------------------------------------------------------------------------- stop tests: real functions vs extracted model
def stop_states(rng, nu, ns):
    """generated states aimed at the case splits of check_stop_true_computed / sec_check_stop_true_computed: mostly computed
    states with one or two perturbed roots (so that `true` is frequent), every status 0..7, every inclusion, attrs, flags"""
    lines = []; hist = collections.Counter()
    for _ in range(nu):
        g = rng.choice("iiaac"); mult = rng.random() < 0.3; props = rng.random() < 0.3
        n = rng.choice([1, 1, 2, 3, 4, 5, 8, 13])
        rs = [[rng.choice([2, 3, 4]), rng.choice([0, 1, 1, 1, 2]), rng.choice([0, 1])] for _ in range(n)]
        for _ in range(rng.choice([0, 0, 1, 1, 2, n])):
            k = rng.randrange(n); rs[k] = [rng.randrange(8), rng.randrange(3), rng.choice([0, 1])]
        lines.append("U %s %d %d %d %s" % (g, mult, props, n, " ".join("%d %d %d" % tuple(r) for r in rs)))
        hist["U goal=%s" % g] += 1
    for _ in range(ns):
        ex = 1 if rng.random() < 0.1 else 0; ph = rng.choice([0, 1, 2, 3, 1, 2, 3]); n = rng.choice([1, 2, 3, 5, 8])
        sts = [rng.choice([2, 3, 4]) for _ in range(n)]
        for _ in range(rng.choice([0, 0, 1, 2])): sts[rng.randrange(n)] = rng.randrange(8)
        lines.append("S %d %d %d %s" % (ex, ph, n, " ".join(map(str, sts))))
        hist["S phase=%d exit=%d" % (ph, ex)] += 1
    return lines, hist


def stop_predicate(line):
    """True when an answer `true` of the real stop test on this state contradicts the property (uncomputed root not OUT)"""
    t = line.split()
    if t[0] == "U":
        if t[1] == "c": return False
        n = int(t[4]); v = [int(x) for x in t[5:5 + 3 * n]]
        return any(v[3 * i] not in (2, 3, 4) and v[3 * i + 1] != 2 for i in range(n))
    if t[1] == "1" or t[2] == "0": return False            # exit requested / no phase: the driver does not return roots on that answer
    return any(int(x) not in (2, 3, 4) for x in t[4:])


def stop_tie(ctx):
    h = ctx.compile_harness(["c02_stopfn.c"], "c02_stopfn", mode="san")
    lines, hist = stop_states(ctx.rng, ctx.pick(26000, 200000), ctx.pick(13000, 100000))
    rc, out, err = vf.sh([h], input="\n".join(lines) + "\n", timeout=600, env=ctx.san_env())
    if rc != 0: raise vf.InfraError("c02_stopfn failed rc=%d: %s" % (rc, err[-1500:]))
    real = out.split("\n")[:len(lines)]
    model = ctx.run_model_lines("stopq", lines, workers=4)
    if len(real) != len(lines): raise vf.InfraError("c02_stopfn answered %d lines for %d" % (len(real), len(lines)))
    diff = []; true_real = 0
    for ln, a, b in zip(lines, real, model):
        if a == "1":
            true_real += 1
            if stop_predicate(ln):
                fn = "mps_check_stop" if ln[0] == "U" else "mps_secular_ga_check_stop"
                ctx.violation("stop-test:%s:accepts-uncomputed-root" % fn, "%s returns true on a state with an uncomputed root that is not OUT: %s" % (fn, ln),
                              {"stop_line": ln, "real": a, "model": b})
        if a != b: diff.append((ln, a, b))
    if diff and not ctx.violations:
        ctx.violation("correspondence:stop-test", "the real stop test and the transcription differ on %d of %d generated states (first: %s real=%s model=%s); none of them violates the property's predicate"
                      % (len(diff), len(lines), diff[0][0], diff[0][1], diff[0][2]), {"lines": [d[0] for d in diff[:20]]}, no_input=True)
    return {"states": len(lines), "real_true": true_real, "differences": len(diff), "histogram": dict(hist), "sample": lines[:2]}



# ----------------------------------------------------------------------------- event traces of the real solver
WRAPPED = ["mps_standard_mpsolve", "mps_check_data", "mps_fsolve", "mps_dsolve", "mps_msolve", "mps_check_stop", "mps_fmodify", "mps_dmodify",
           "mps_mmodify", "mps_inclusion", "mps_improve", "mps_thread_pool_wait", "mps_copy_roots",
           "mps_context_has_errors", "mps_secular_ga_mpsolve", "mps_polynomial_fstart", "mps_polynomial_dstart", "mps_cluster_analysis",
           "mps_secular_fstart", "mps_secular_dstart", "mps_secular_mstart", "mps_secular_switch_phase", "mps_secular_raise_precision",
           "mps_secular_restart", "mps_validate_inclusions", "mps_mupdate_inclusions", "mps_secular_ga_regenerate_coefficients",
           "mps_secular_ga_fiterate", "mps_secular_ga_diterate", "mps_secular_ga_miterate", "mps_faberth_packet", "mps_daberth_packet", "mps_maberth_packet"]
# mps_secular_ga_check_stop is called inside its own translation unit: a copy of the snapshot's secular-ga.c is compiled into the
# harness with -finstrument-functions (it replaces the archive member); the exit hook of harness/c02_wrap.c prints the call
INSTR = "-finstrument-functions -finstrument-functions-exclude-file-list=vf_solve.c,c02_wrap.c,/usr/ -fno-inline"


def run_traced(binary, jobs, workdir, env, timeout, workers):
    """like solve.run_many, but keeps the `C02EV` lines harness/c02_wrap.c prints (res.events)"""
    import concurrent.futures, subprocess, time
    os.makedirs(workdir, exist_ok=True)
    def one(ij):
        i, (c, o) = ij
        path = os.path.join(workdir, "job%d.pol" % i)
        with open(path, "w") as f: f.write(c["text"])
        t0 = time.time()
        try:
            p = subprocess.run([binary, path] + list(o), stdout=subprocess.PIPE, stderr=subprocess.PIPE, env=env, timeout=timeout)
            out = p.stdout.decode("utf-8", "replace"); err = p.stderr.decode("utf-8", "replace"); rc = p.returncode
        except subprocess.TimeoutExpired:
            r = S.SolveResult(); r.kind = "timeout"; r.events = []; return r
        finally:
            try: os.remove(path)
            except OSError: pass
        if rc != 0:
            r = S.SolveResult(); r.rc = rc; r.stderr = err[-4000:]
            r.kind = "sanitizer" if rc in (97, 98) or "AddressSanitizer" in err or "runtime error:" in err else "crash"
        else:
            r = S.parse_export(out); r.rc = rc; r.stderr = err[-2000:]
        r.wall = time.time() - t0
        r.events = [ln[6:] for ln in out.split("\n") if ln.startswith("C02EV ")]
        return r
    with concurrent.futures.ThreadPoolExecutor(max_workers=workers) as ex:
        res = list(ex.map(one, list(enumerate(jobs))))
    return [{"case": c, "opts": o, "res": r, "poly": None, "oracle": None, "why": ""} for (c, o), r in zip(jobs, res)]


def _roots(tok, pos):
    """`n st:inc:none ...` starting at tok[pos] -> (list of (st, inc, none), next position)"""
    n = int(tok[pos]); rs = [tuple(int(x) for x in tok[pos + 1 + i].split(":")[:3]) for i in range(n)]
    return rs, pos + 1 + n


def _fmt_roots(rs): return "%d %s" % (len(rs), " ".join("%d %d %d" % r for r in rs))


BAND = Fr(1, 1 << 40)
TRACE_CAP = 6000


def parse_mod(ev, prec_out, stats):
    """one MOD event -> dict(variant, track, inphase, clusters [(cn, [members])], before [(st,inc,none)], w [bool], after [...]);
    the radius tests are re-evaluated exactly from the exported operands; inside a 2^-40 band around equality (and where the
    double eps_out underflows) the outcome the C operations gave is taken"""
    t = ev.split(); v, track, inph, ncl = t[1], int(t[2]), int(t[3]), int(t[4]); pos = 5; cls = []
    for _ in range(ncl):
        cn, k = int(t[pos]), int(t[pos + 1]); cls.append((cn, [int(x) for x in t[pos + 2:pos + 2 + k]])); pos += 2 + k
    n = int(t[pos]); pos += 1; before = []; w = []
    single = {m[0] for cn, m in cls if cn == 1 and m}
    eps = Fr(1, 1 << prec_out) if prec_out >= 0 else Fr(1 << -prec_out)
    for i in range(n):
        f = t[pos + i].split(":")
        before.append((int(f[0]), int(f[1]), int(f[2])))
        wc = f[7] == "1"
        try:
            rad = S.fr_of_rdpe(f[3] + ":" + f[4]); mod = S.fr_of_rdpe(f[5] + ":" + f[6])
        except Exception:
            rad = mod = None
        if rad is None or mod is None or isinstance(rad, S.HugeDyadic) or isinstance(mod, S.HugeDyadic) or mod == 0 or (v == "f" and prec_out > 1000):
            w.append(wc); stats["radius-test:taken-as-observed(non-finite or eps underflow)"] += 1; continue
        rhs = mod * eps
        ratio = rad / rhs
        if abs(ratio - 1) < BAND:
            w.append(wc); stats["radius-test:inside-band"] += 1
        else:
            ex = (rad < rhs) if (v == "f" and i in single) else (rad <= rhs)
            if ex != wc: stats["radius-test:exact!=observed"] += 1
            w.append(ex); stats["radius-test:exact"] += 1
    pos += n
    assert t[pos] == "AFTER"
    after, _ = _roots(t, pos + 1)
    return {"v": v, "track": track, "inphase": inph, "cls": cls, "before": before, "w": w, "after": after}


def cap_branch_repaired(snap):
    """Does the `else` branch of step == 8 == of mps_standard_mpsolve ("Reached the input precision": the MP loop ended not
    computed and without over_max) record over_max?  True: the tree carries /repo commit 6608fee8 (fixes/C02_silent_precision_cap.patch),
    the transcription is std_run with c_fixed = true; False: it does not, c_fixed = false; None: the branch was not found in the text."""
    try: t = open(os.path.join(snap, "src", "libmps", "unisolve", "main.c")).read()
    except OSError: return None
    t = re.sub(r"/\*.*?\*/", " ", t, flags=re.S); t = re.sub(r"//[^\n]*", " ", t)
    m = re.search(r'else\s*\{([^{}]*"Reached the input precision"[^{}]*)\}', t)
    if not m: return None
    return re.search(r"\bs\s*->\s*over_max\s*=\s*(true|1)\s*;", m.group(1)) is not None


FIXED = [False]       # which transcription of the precision-cap branch replays the classic driver's traces (set in run())


def _fmt_cls(cls): return "%d %s" % (len(cls), " ".join("%d %d %s" % (cn, len(m), " ".join(map(str, m))) if m else "%d 0" % cn for cn, m in cls))


def std_line(events, stats):
    """the classic driver's events of one solve -> (`D` line for bin/stopq, observed dict, M lines, I lines) or None"""
    if not events or not events[0].startswith("STD_BEGIN"): return None
    b = events[0].split()
    goal = "iac"[int(b[1])]; prec_out = int(b[10])
    cfg = "D %s %s %s %s %s %s %s %s %s %d" % (goal, b[2], b[3], b[4], b[5], b[6], b[7], b[8], b[9], 1 if FIXED[0] else 0)
    evs = []; stops = []; mlines = []; ilines = []; obs = {"copy": None, "end": None, "incl": None, "pending_stop": None, "same_operands": None}
    last_inphase_m = None; xs_done = False; first_phase = None; rounds = None; imp = None; bad = []
    def need_xs(ncl):
        nonlocal xs_done
        if not xs_done: evs.append("XS %d" % ncl); xs_done = True
    for ev in events[1:]:
        t = ev.split(); tag = t[0]
        if tag in ("FS", "DS", "MS"):
            rs, _ = _roots(t, 2 if tag == "FS" else 1)
            if first_phase is None: first_phase = tag
            evs.append(("FS %s " % t[1] if tag == "FS" else tag + " ") + _fmt_roots(rs)); obs["pending_stop"] = rs
        elif tag == "STOP":
            rs, _ = _roots(t, 2); stops.append(t[1])
            if obs["pending_stop"] != rs: bad.append("stop test read other roots than the phase left")
            obs["pending_stop"] = None
        elif tag == "MOD":
            m = parse_mod(ev, prec_out, stats)
            mlines.append(("M %s %d %s %d %s %d %s" % (m["v"], m["track"], _fmt_cls(m["cls"]), len(m["w"]), " ".join("1" if x else "0" for x in m["w"]),
                                                        len(m["before"]), " ".join(str(r[0]) for r in m["before"])), [r[0] for r in m["after"]]))
            if m["inphase"]:
                if m["v"] == "m": last_inphase_m = (m["cls"], m["w"])
            elif m["v"] == "m" and m["track"] == 1:
                evs.append("MM %s %d %s %d %s" % (_fmt_cls(m["cls"]), len(m["w"]), " ".join("1" if x else "0" for x in m["w"]), len(m["after"]),
                                                  " ".join("%d %d" % (r[1], r[2]) for r in m["after"])))
                obs["same_operands"] = (last_inphase_m == (m["cls"], m["w"]))
            else: bad.append("unexpected modify call outside a phase: " + ev[:40])
        elif tag == "INCL":
            need_xs(int(t[1])); evs.append("IN %s" % t[2]); obs["incl"] = t[2]
        elif tag == "IMP_BEGIN":
            rs, _ = _roots(t, 6); imp = {"hdr": t[1:6], "roots": rs}; rounds = []
        elif tag == "IMP_ROUND":
            n = int(t[1]); rounds.append([x.split(":")[2] for x in t[2:2 + n]])
        elif tag == "IMP_END":
            rs, _ = _roots(t, 2)
            imp["rounds"] = rounds; imp["over"] = t[1]; imp["after"] = rs
            rtxt = "%d %s" % (len(rounds), " ".join("%d %s" % (len(r), " ".join(r)) for r in rounds)) if rounds else "0"
            ilines.append(("I %s %s %s %s %s %s" % (imp["hdr"][0], imp["hdr"][1], imp["hdr"][2], imp["hdr"][3], rtxt, _fmt_roots(imp["roots"])), imp))
            obs["imp"] = imp
        elif tag == "COPY":
            rs, _ = _roots(t, 5); obs["copy"] = {"ncl": int(t[1]), "over": t[2], "mpwp": t[3], "err": t[4], "roots": rs}
        elif tag == "STD_END":
            obs["end"] = {"err": t[1], "over": t[2]}
    # exit_sub marker and improve event, in the order the driver makes the calls
    if obs["copy"] is not None or obs["incl"] is not None:
        if not xs_done:
            evs.append("XS %d" % obs["copy"]["ncl"]); xs_done = True
    if obs.get("imp"):
        im = obs["imp"]
        rtxt = "%d %s" % (len(im["rounds"]), " ".join("%d %s" % (len(r), " ".join(r)) for r in im["rounds"])) if im["rounds"] else "0"
        evs.append("IM %s %s" % (im["hdr"][3], rtxt))
    if b[4] == "1" or b[5] == "0": head = []
    elif first_phase is None: head = ["CD 0 1"]                # no phase was entered: mps_check_data raised an error
    else: head = ["CD %d 0" % (first_phase == "DS")]
    evs = head + evs
    obs["stops"] = stops; obs["bad"] = bad; obs["goal"] = goal
    return "%s %d %s" % (cfg, len(evs), " ".join(evs)), obs, mlines, ilines


def aux_lines(events, prec_out, stats):
    """the modify and improve calls of a trace (any driver) as `M` / `I` lines with what the real call left behind"""
    mlines = []; ilines = []; imp = None; rounds = None
    for ev in events:
        t = ev.split(); tag = t[0]
        if tag == "MOD":
            m = parse_mod(ev, prec_out, stats)
            mlines.append(("M %s %d %s %d %s %d %s" % (m["v"], m["track"], _fmt_cls(m["cls"]), len(m["w"]), " ".join("1" if x else "0" for x in m["w"]),
                                                        len(m["before"]), " ".join(str(r[0]) for r in m["before"])), [r[0] for r in m["after"]]))
        elif tag == "IMP_BEGIN":
            rs, _ = _roots(t, 6); imp = {"hdr": t[1:6], "roots": rs}; rounds = []
        elif tag == "IMP_ROUND" and rounds is not None:
            n = int(t[1]); rounds.append([x.split(":")[2] for x in t[2:2 + n]])
        elif tag == "IMP_END" and imp is not None:
            rs, _ = _roots(t, 2); imp["rounds"] = rounds; imp["over"] = t[1]; imp["after"] = rs
            rtxt = "%d %s" % (len(rounds), " ".join("%d %s" % (len(r), " ".join(r)) for r in rounds)) if rounds else "0"
            ilines.append(("I %s %s %s %s %s %s" % (imp["hdr"][0], imp["hdr"][1], imp["hdr"][2], imp["hdr"][3], rtxt, _fmt_roots(imp["roots"])), imp))
            imp = None; rounds = None
    return mlines, ilines


def sec_line(events):
    """the secular driver's events of one solve -> (`G` line for bin/stopq, observed dict) or None.
    Real calls map 1:1 to model events; the reads of s->exit_required (never set in these runs: checked at every hook)
    are inserted at the places the C text has them; really_need_dpe is read off the phase of the next call."""
    if not events or not events[0].startswith("SEC_BEGIN"): return None
    b = events[0].split()
    goal = "iac"[int(b[1])]; secin, start, crude, avoid = b[2], b[3], b[4] == "1", b[5] == "1"
    cfg = "G %s %s %s %s %s %s %s %s %s" % (goal, secin, start, b[4], b[5], b[6], b[7], b[8], b[9])
    KEEP = ("CD", "START", "PACKET", "ERRQ", "SSTOP", "REGEN", "SWITCH", "RAISE", "VALIDATE", "IMP_BEGIN", "IMP_ROUND", "IMP_END", "COPY", "SEC_END")
    E = [e.split() for e in events[1:] if e.split()[0] in KEEP]
    evs = []; obs = {"stops": [], "exit_required_seen": False, "copy": None, "end": None, "imp": None, "phase": None}
    i = 0
    def peek(k=0): return E[i + k][0] if i + k < len(E) else None
    def stop_ev(t):
        n = int(t[4]); sts = t[5:5 + n]
        obs["stops"].append((t[1], t[2], t[3], sts))
        if t[2] == "1": obs["exit_required_seen"] = True
        return "SP %s %d %s" % (t[2], n, " ".join(sts))
    def cleanup():
        nonlocal i
        if peek() == "ERRQ":
            evs.append("ER " + E[i][1]); err = E[i][1] == "1"; obs["phase"] = E[i][2]; i += 1
            if err: return
            if peek() == "VALIDATE":
                n = int(E[i][1]); evs.append("VA %d %s" % (n, " ".join(E[i][2:2 + n]))); i += 1
            if peek() == "COPY":
                t = E[i]; obs["copy"] = t; i += 1
                evs.append("XR 0")
            if peek() == "IMP_BEGIN":
                t = E[i]; i += 1; n = int(t[6]); roots = [x.split(":") for x in t[7:7 + n]]; rounds = []
                while peek() == "IMP_ROUND":
                    r = E[i]; m = int(r[1]); rounds.append([x.split(":")[2] for x in r[2:2 + m]]); i += 1
                after = None
                if peek() == "IMP_END":
                    r = E[i]; m = int(r[2]); after = [x.split(":")[0] for x in r[3:3 + m]]; obs["imp"] = {"over": r[1], "after": after, "rounds": len(rounds)}; i += 1
                rtxt = "%d %s" % (len(rounds), " ".join("%d %s" % (len(r), " ".join(r)) for r in rounds)) if rounds else "0"
                evs.append("IM %s %s %d %s" % (t[4], rtxt, n, " ".join("%s %s %s" % tuple(x) for x in roots)))
    def done():
        for t in E:
            if t[0] == "SEC_END": obs["end"] = t
        return "%s %d %s" % (cfg, len(evs), " ".join(evs)), obs
    # ---- preliminary part (polynomial input)
    if secin == "0":
        if start == "0":
            if peek() != "CD": return done()
            evs.append("CD %d %s" % (1 - int(E[i][1]), E[i][2])); i += 1
            if evs[-1].endswith(" 1"): return done()
        regen_seen = False
        while True:
            if peek() != "START": return done()
            kind = E[i][1]; i += 1
            if peek() != "ERRQ": return done()
            evs.append("ST " + E[i][1]); e1 = E[i][1] == "1"; i += 1
            if e1: cleanup(); return done()
            if peek() == "PACKET": i += 1                       # the preliminary Aberth packet (payload)
            if kind == "f":
                if peek() == "START": evs.append("FP 1"); continue
                evs.append("FP 0")
            break
        if peek() != "ERRQ": return done()
        evs.append("ER " + E[i][1]); e = E[i][1] == "1"; i += 1
        if e or crude: cleanup(); return done()
        if peek() != "SSTOP": return done()
        t = E[i]; evs.append(stop_ev(t)); i += 1
        if t[1] == "1": cleanup(); return done()
        if t[3] == "2":                                        # DPE: really_need_dpe, seen in the phase the regeneration runs in
            nd = "1"
            if peek() == "REGEN": nd = "1" if E[i][2] == "2" else "0"
            evs.append("ND " + nd)
        if peek() != "REGEN": return done()
        ok = E[i][1]; ph = E[i][2]; evs.append("RG " + ok); i += 1
        if ok == "0":
            if peek() == "REGEN":
                evs.append("RG " + E[i][1]); ok2 = E[i][1]; i += 1
                if ok2 == "0": return done()
            else: return done()
    # ---- sec_main
    if peek() != "ERRQ": return done()
    evs.append("ER " + E[i][1]); e = E[i][1] == "1"; i += 1
    if e: cleanup(); return done()
    evs.append("XR 0")
    # ---- the loop
    while peek() == "PACKET":
        t = E[i]; i += 1; evs.append("IT %s %s" % (t[2], t[3])); best = t[3]; jr = t[6]
        if t[1] in ("sf", "jf") and t[2] == "1" and peek() == "PACKET":
            t = E[i]; i += 1; evs.append("IT %s %s" % (t[2], t[3])); best = t[3]
        evs.append("XR 0")
        if peek() is None or peek() == "SEC_END": return done()           # packet > max_pack
        if peek() == "SSTOP" and jr == "0":
            t = E[i]; evs.append(stop_ev(t)); i += 1
            if t[1] == "1": cleanup(); return done()
        if peek() == "ERRQ": cleanup(); return done()                      # avoid_multiprecision && best_approx
        if best == "1" and peek() in ("SWITCH", "RAISE"):
            i += 1; evs.append("XR 0")
            if peek() != "REGEN": return done()
            evs.append("RG " + E[i][1]); i += 1; evs.append("XR 0")
        evs.append("XR 0")
        if peek() != "REGEN": return done()
        ok = E[i][1]; evs.append("RG " + ok); i += 1
        if ok == "0":
            if peek() == "RAISE":
                i += 1
                if peek() == "REGEN": evs.append("RG " + E[i][1]); i += 1
            elif peek() == "SWITCH": i += 1
        evs.append("XR 0")
        if peek() != "SSTOP": return done()
        t = E[i]; evs.append(stop_ev(t)); i += 1
        if t[1] == "1": cleanup(); return done()
    return done()


def trace_tie(ctx, recs):
    """replay every solve's event trace through the extracted acceptors (std_run, modify_roots, improve)"""
    stats = collections.Counter(); dl = []; ml = []; il = []; gl = []; sl = []; sseen = set()
    for rec in recs:
        r = rec["res"]; evs = getattr(r, "events", None) or []
        rec["silent"] = False
        if not evs: continue
        if len(evs) > TRACE_CAP:
            stats["trace:longer than %d events (not replayed)" % TRACE_CAP] += 1; continue
        try:
            out = std_line(evs, stats)
        except Exception as e:
            stats["trace-unparsed"] += 1; rec["trace_error"] = repr(e)[:200]; continue
        if out is None:
            try:
                so = sec_line(evs)
                if so is not None:
                    prec_out = int(evs[0].split()[10])
                    mlines, ilines = aux_lines(evs, prec_out, stats)
                    gl.append((rec, so[0], so[1]))
                    for m in mlines: ml.append((rec, m[0], m[1]))
                    for i in ilines: il.append((rec, i[0], i[1]))
                    for sres, sex, sph, ssts in so[1]["stops"]:
                        sline = "S %s %s %d %s" % (sex, sph, len(ssts), " ".join(ssts))
                        stats["secular stop tests seen in traces"] += 1
                        if (sline, sres) not in sseen: sseen.add((sline, sres)); sl.append((rec, sline, sres))
                else: stats["trace:no-driver-events"] += 1
            except Exception as e:
                stats["trace-unparsed"] += 1; rec["trace_error"] = repr(e)[:200]
            continue
        line, obs, mlines, ilines = out
        dl.append((rec, line, obs))
        for m in mlines: ml.append((rec, m[0], m[1]))
        for i in ilines: il.append((rec, i[0], i[1]))
    douts = ctx.run_model_lines("stopq", [x[1] for x in dl], workers=4) if dl else []
    mouts = ctx.run_model_lines("stopq", [x[1] for x in ml], workers=4) if ml else []
    iouts = ctx.run_model_lines("stopq", [x[1] for x in il], workers=4) if il else []
    gouts = ctx.run_model_lines("stopq", [x[1] for x in gl], workers=4) if gl else []
    souts = ctx.run_model_lines("stopq", [x[1] for x in sl], workers=4) if sl else []
    broken = []          # (what, rec, detail)
    exits = collections.Counter(); sameop = collections.Counter(); gexits = collections.Counter()
    for (rec, line, want), o in zip(sl, souts):
        if o.strip() != want: broken.append(("secular:mps_secular_ga_check_stop answered %s, model %s" % (want, o.strip()), rec, line[:300]))
    for (rec, line, obs), o in zip(gl, gouts):
        t = o.split()
        if obs["exit_required_seen"]: gexits["exit_required was set (not compared)"] += 1; continue
        if t[0] != "OK":
            broken.append(("secular:event order not accepted by sec_run (%s)" % o[:40], rec, line[:500])); gexits["rejected"] += 1; continue
        ex, why, ph, fin = t[1], t[2], t[3], t[4]
        gexits[ex + ":" + why.split(":")[0]] += 1
        copied = obs["copy"] is not None
        if copied != (ex in ("done", "exitaftercopy")): broken.append(("secular:roots copied = %s but model exit %s" % (copied, ex), rec, line[:500]))
        if obs["phase"] is not None and ex == "done" and obs["phase"] != ph: broken.append(("secular:lastphase at cleanup %s, model %s" % (obs["phase"], ph), rec, line[:500]))
        if ex == "done":
            if (obs["imp"] is None) != (fin == "-"): broken.append(("secular:mps_improve called = %s, model %s" % (obs["imp"] is not None, fin != "-"), rec, line[:500]))
            elif obs["imp"] is not None:
                f = fin.split(":")
                if f[1] != obs["imp"]["over"] or f[3] != ",".join(obs["imp"]["after"]):
                    broken.append(("secular:after mps_improve %s/%s, model %s/%s" % (",".join(obs["imp"]["after"]), obs["imp"]["over"], f[3], f[1]), rec, line[:500]))
        rec["exit"] = ex + ":" + why.split(":")[0]
    for (rec, line, obs), o in zip(dl, douts):
        t = o.split()
        if obs["bad"]: broken.append(("driver:" + obs["bad"][0], rec, line[:300]))
        if t[0] != "OK":
            broken.append(("driver:event order not accepted by std_run (%s)" % o[:40], rec, line[:400])); exits["rejected"] += 1; continue
        ex, over, comp, mpwp, stops, roots = t[1], t[2], t[3], t[4], t[5], t[6]
        exits["precision-cap:over_max-reported" if (ex == "silent" and over == "1") else ex] += 1
        if obs["same_operands"] is not None: sameop["driver mmodify has msolve's last operands" if obs["same_operands"] else "driver mmodify operands differ from msolve's last"] += 1
        ostops = "".join(reversed(obs["stops"])) or "-"
        if stops != ostops: broken.append(("driver:stop test results %s, model %s" % (ostops, stops), rec, line[:400]))
        if obs["copy"] is not None:
            c = obs["copy"]
            oroots = ",".join("%d:%d:%d" % x for x in c["roots"]) or "-"
            if roots != oroots: broken.append(("driver:returned roots %s, model %s" % (oroots[:80], roots[:80]), rec, line[:400]))
            if over != c["over"]: broken.append(("driver:over_max %s, model %s" % (c["over"], over), rec, line[:400]))
            if mpwp != c["mpwp"] and ex in ("loop", "overmax", "silent"): broken.append(("driver:mpwp %s, model %s" % (c["mpwp"], mpwp), rec, line[:400]))
            if ex in ("resume", "newton", "checkdata", "inclusion"): broken.append(("driver:model says error exit %s but roots were copied" % ex, rec, line[:400]))
        elif ex not in ("resume", "newton", "checkdata", "inclusion"):
            broken.append(("driver:model says exit %s but mps_copy_roots was not reached" % ex, rec, line[:400]))
        rec["silent"] = (ex == "silent" and over == "0"); rec["exit"] = ex; rec["model_over"] = over
    nm = 0
    for (rec, line, after), o in zip(ml, mouts):
        t = o.split(); nm += 1
        if len(t) != 3: broken.append(("modify:model answered %s" % o[:40], rec, line[:300])); continue
        if t[0] != "1": broken.append(("modify:clusters are not a partition of the roots", rec, line[:300])); continue
        if t[1] != ",".join(map(str, after)): broken.append(("modify:statuses after the call %s, model %s" % (after, t[1]), rec, line[:300]))
    ni = 0
    for (rec, line, imp), o in zip(il, iouts):
        t = o.split(); ni += 1
        if t[0] != "OK": broken.append(("improve:rounds not accepted by the model (%s)" % o[:30], rec, line[:300])); continue
        oa = ",".join(str(x[0]) for x in imp["after"])
        if t[4] != oa or t[1] != imp["over"] and not (imp["over"] == "1" and t[1] == "0" and False):
            broken.append(("improve:statuses/over_max after mps_improve %s/%s, model %s/%s" % (oa, imp["over"], t[4], t[1]), rec, line[:300]))
        stats["improve:skipped" if t[3] == "1" else "improve:rounds=%s" % (t[2] if int(t[2]) < 6 else ">=6")] += 1
    if stats["radius-test:exact!=observed"]:
        broken.append(("modify:the radius test of modify.c differs from its exact value outside the 2^-40 band (%d times)" % stats["radius-test:exact!=observed"], None, ""))
    return {"driver_traces_replayed": len(dl), "secular_driver_traces_replayed": len(gl), "secular_exit_histogram": dict(gexits),
            "secular_stop_tests_replayed": len(sl), "modify_calls_replayed": nm, "improve_calls_replayed": ni, "exit_histogram": dict(exits),
            "mmodify_operands": dict(sameop), "trace_stats": dict(stats), "broken": len(broken),
            "broken_kinds": dict(collections.Counter(re.sub(r"[0-9,/]+", "#", b[0])[:70] for b in broken))}, broken


SILENT_TEXT = ("Monomial;\nDegree=3;\nRational;\nReal;\nDense;\n\n"
               "1267650600228229401496703205377/633825300114114700748351602688\n"
               "-3802951800684688204490109616129/1267650600228229401496703205376\n"
               "-1/1267650600228229401496703205376\n1/1\n")        # (x-1)(x-1-2^-100)(x+2)
SILENT_OPTS = ["-a", "u", "-G", "i", "-o", "100", "-W", "150", "-j", "1"]

def run(ctx):
    ctx.prove()
    ctx.proof_violation_if_broken()
    secga = os.path.join(ctx.snap("san"), "src", "libmps", "secsolve", "secular-ga.c")
    binary = ctx.compile_harness(["vf_solve.c", "c02_wrap.c", secga], "vf_solve_c02", mode="san", extra_cflags=INSTR,
                                 extra_ldflags=" ".join("-Wl,--wrap=" + f for f in WRAPPED))
    stop_cov = stop_tie(ctx) if not ctx.replay else {}
    BUDGET[0] = ctx.pick(6e8, 3e10)
    env = ctx.san_env()
    rng = ctx.rng
    # --- which transcription of the precision-cap branch (== 8 ==) describes this tree
    cap_text = cap_branch_repaired(ctx.snap("san"))
    cap_how = "text of unisolve/main.c in the snapshot"
    if cap_text is None:
        # the branch is not recognisable in the text: decide by behaviour (one run of the -W 150 witness; the traces are compared anyway)
        pr = run_traced(binary, [({"name": "probe", "cls": "probe", "text": SILENT_TEXT}, SILENT_OPTS)], os.path.join(ctx.scratch, "probe"), env, 60, 1)[0]["res"]
        cap_text = (pr.kind == "ok" and pr.meta.get("over_max") == 1)
        cap_how = "behaviour of the -W 150 witness (branch not recognised in the text of unisolve/main.c)"
    FIXED[0] = bool(cap_text)
    ctx.log("precision-cap branch of mps_standard_mpsolve: %s (%s)" % ("records over_max (repaired, c_fixed = true)" if FIXED[0] else "records nothing (c_fixed = false)", cap_how))
    # --- tie of the status tables to the header
    names, happ, hcomp = header_tables(ctx.snap("san"))
    tl = ctx.run_model("goalq", "T\n").split()
    mapp = [x == "1" for x in tl[1:tl.index("COMPUTED")]]; mcomp = [x == "1" for x in tl[tl.index("COMPUTED") + 1:]]
    tables_ok = (names == EXPECTED_ENUM and happ == mapp and hcomp == mcomp)
    # --- inputs
    if ctx.replay:
        rp = json.load(open(ctx.replay))
        # "repeat": N re-runs a timing-dependent case N times (multi-threaded solves are not deterministic)
        co = [({"name": rp.get("case", "replay"), "cls": rp.get("class", "replay"), "text": rp["text"], "coeffs": None, "degree": 0}, rp["opts"])] * int(rp.get("repeat", 1))
    else:
        nstd, nfam, nfp, per = ctx.pick(50, 400), ctx.pick(90, 600), ctx.pick(10, 40), ctx.pick(5, 6)
        std = [c for c in G.standard_cases(rng, nstd * 2, maxdeg=ctx.pick(12, 24))
               if c["cls"] != "multiple-roots" and S.is_squarefree(c["coeffs"]) and any(not S.cis0(x) for x in c["coeffs"][:-1])][:nstd]
        fam = family_cases(rng, nfam)
        cf, big = configs(ctx)
        co = [({"name": "witness-stale-status4", "cls": "family-closepair", "text": WITNESS_TEXT, "coeffs": None, "degree": 3}, ["-a", "u", "-G", "a", "-B", "53"]),
              ({"name": "witness-silent-precision-cap", "cls": "witness-silent-cap", "text": SILENT_TEXT, "coeffs": None, "degree": 3}, SILENT_OPTS),
              ({"name": "witness-silent-precision-cap-128", "cls": "witness-silent-cap", "text": SILENT_TEXT, "coeffs": None, "degree": 3}, ["-a", "u", "-G", "a", "-o", "100", "-W", "128", "-j", "1"]),
              ({"name": "cap-100-sets-over-max", "cls": "witness-silent-cap", "text": SILENT_TEXT, "coeffs": None, "degree": 3}, ["-a", "u", "-G", "i", "-o", "100", "-W", "100", "-j", "1"])]
        def heavy(o):          # many output bits => multiprecision centres of thousands of bits => slow exact evaluation
            return ("-o" in o and int(o[o.index("-o") + 1]) >= 57) or ("-B" in o and int(o[o.index("-B") + 1]) >= 128)
        for c in std + fam:
            pool = cf if (c["degree"] <= 6 or not ctx.quick()) else [o for o in cf if not heavy(o)]
            for o in rng.sample(pool, per):
                if c["cls"] in ("secular", "chebyshev") and o[1] == "u": continue      # classic algorithm on secular-form input: C19/C01's finding
                co.append((c, o))
        for c in fp_cases(rng, nfp):
            for o in (["-a", "u", "-G", "a", "-o", "100"], ["-a", "s", "-G", "a", "-o", "100"], ["-a", "u", "-G", "i"], ["-a", "s", "-G", "a", "-o", "10"]):
                co.append((c, o))
        # DETERMINISM: the library's default thread pool has one thread per core and its concurrent (Gauss-Seidel style)
        # Aberth sweeps make radii, iteration counts and hence statuses depend on the interleaving; every solve above is
        # pinned to one thread.  A small explicit multi-thread group (well separated roots, no -m/-c) is judged the same way.
        co = [(c, o if "-j" in o else o + ["-j", "1"]) for c, o in co]
        robust = [c for c in std if c["cls"] in ("random-integer", "random-integer-complex", "random-rational", "from-dyadic-roots", "x^n-1", "kac", "degree-1")]
        for c in robust[:ctx.pick(8, 40)]:
            for o in (["-a", "s", "-G", "a", "-o", "15", "-j", "4"], ["-a", "u", "-G", "a", "-o", "15", "-j", "4"], ["-a", "s", "-G", "i", "-j", "4"]):
                co.append((c, o))
        if big:
            big = [o + ["-j", "1"] for o in big]
            small = [c for c in std + fam if c["degree"] <= 5]
            for o in big:
                for c in rng.sample(small, 3):
                    co.append((c, o))
    ctx.log("running %d solves" % len(co))
    nworkers = int(json.load(open(ctx.replay)).get("workers", 16)) if ctx.replay else int(os.environ.get("C02_WORKERS", "16"))
    recs = run_traced(binary, co, os.path.join(ctx.scratch, "jobs"), env, ctx.pick(40, 600), nworkers)
    ctx.log("solves done")
    trace_cov, broken = trace_tie(ctx, recs)
    ctx.log("traces replayed: %s" % {k: v for k, v in trace_cov.items() if k != "trace_stats"})
    # --- evaluation by the extracted model
    stats = collections.Counter(); lines = []; keep = []
    for rec in recs:
        r = rec["res"]
        if r.kind != "ok":
            stats["skipped:" + r.kind] += 1; continue
        if r.meta.get("search_set", 0) != 0 or len(r.roots) != len(r.accm):
            stats["skipped:not-whole-plane"] += 1; continue
        ln, rnd = model_line(r, rec["opts"])
        if ln is None:
            stats["skipped:exact-evaluation-over-budget"] += 1; continue
        rec["rounded"] = rnd
        if rnd: stats["evaluated-with-radii-rounded-up"] += 1
        lines.append(ln); keep.append(rec)
    if os.environ.get("C02_DUMP_LINES"):
        with open(os.environ["C02_DUMP_LINES"], "w") as f: f.write("\n".join(lines) + "\n")
    order = sorted(range(len(lines)), key=lambda i: -len(lines[i]))       # longest first: run_model_lines deals them round-robin
    souts = ctx.run_model_lines("goalq", [lines[i] for i in order], timeout=ctx.pick(600, 3000))
    outs = [None] * len(lines)
    for i, o in zip(order, souts): outs[i] = o
    # a negative verdict obtained with radii rounded up is re-evaluated exactly
    redo = [i for i, (rec, ln) in enumerate(zip(keep, outs)) if rec["rounded"] and ln.split()[0] != "1"]
    for i in redo:
        ln, _ = model_line(keep[i]["res"], keep[i]["opts"], exact=True)
        if ln is None:
            outs[i] = None; stats["skipped:negative-with-rounded-radii-and-exact-form-too-long"] += 1
        else:
            outs[i] = ctx.run_model("goalq", ln + "\n", timeout=ctx.pick(600, 3000)).split("\n")[0]; lines[i] = ln
            stats["re-evaluated-exactly"] += 1
    pairs_ = [(rec, ln) for rec, ln in zip(keep, outs) if ln is not None]
    lines = [l for l, ln in zip(lines, outs) if ln is not None]
    keep = [p[0] for p in pairs_]; outs = [p[1] for p in pairs_]
    ctx.log("model evaluation done: %d runs" % len(keep))
    samples = []; nontrivial = set(); examined = 0; roots_eval = 0; pairs_eval = 0
    hist_goal = collections.Counter(); hist_status = collections.Counter(); hist_phase = collections.Counter(); hist_digits = collections.Counter(); hist_threads = collections.Counter()
    for rec, ln in zip(keep, outs):
        r, c, opts = rec["res"], rec["case"], rec["opts"]
        t = ln.split()
        if len(t) != 7 or t[0] not in "01":
            raise vf.InfraError("goalq answered %r" % ln)
        ok, gcl, hcl, dcl = (x == "1" for x in t[:4])
        gf = [int(x) for x in t[4][2:].split(",") if x]; hf = [int(x) for x in t[5][2:].split(",") if x]
        ov = [tuple(int(y) for y in x.split("-")) for x in t[6][2:].split(",") if x]
        m = r.meta; alg = opts[opts.index("-a") + 1] if "-a" in opts else "?"
        goal = GOALCH.get(m["goal"], "c"); d = m["prec_out"]
        sts = [o.status for o in r.roots]
        nrep = sum(1 for s in sts if s in (2, 3, 4))
        roots_eval += len(sts); pairs_eval += nrep * (nrep - 1) // 2
        hist_goal["goal=%s over_max=%d%s" % (goal, m["over_max"], " exempt" if ("-c" in opts or "-m" in opts) else "")] += 1
        for s in sts: hist_status[S.STATUS[s] if s < len(S.STATUS) else str(s)] += 1
        hist_phase["lastphase=%d alg=%s" % (m["lastphase"], alg)] += 1
        hist_threads["-j " + opts[opts.index("-j") + 1] if "-j" in opts else "default pool"] += 1
        hist_digits["prec_out<=64" if d <= 64 else "prec_out<=400" if d <= 400 else "prec_out<=1100" if d <= 1100 else "prec_out>1100"] += 1
        if len(sts) >= 2: nontrivial.add((c["name"], tuple(opts)))
        rp = {"case": c["name"], "class": c["cls"], "text": c["text"], "opts": opts, "meta": m, "statuses": sts}
        if len(samples) < 5 and (not ok or len(samples) < 3):
            samples.append({"case": c["name"], "class": c["cls"], "opts": opts, "prec_out": d, "over_max": m["over_max"], "statuses": sts,
                            "disc0": e2e.fdisc(S.discs_of(r)[0]) if r.accm else None, "model_line_prefix": lines[keep.index(rec)][:160], "verdict": ln})
        if ok: continue
        examined += 1
        done = set()
        for i in hf:       # status approximated, bound missed (clause iii; under the approximate goal also clause i)
            ex = excess_class(d, r.accm[i])
            sig = "radius-bound:status=%d:alg=%s:%s" % (sts[i], alg, ex)
            done.add(i)
            ctx.violation(sig, "root %d of %s (%s) is reported %s but its radius %s exceeds 2^-%d |z| (%s); options %s, lastphase %d"
                          % (i, c["name"], c["cls"], S.STATUS[sts[i]], e2e.fdisc(S.discs_of(r)[i])[2], d, ex, " ".join(opts), m["lastphase"]),
                          dict(rp, root=i, clause="approximated => r <= 2^-d |z|", disc=[str(x) for x in S.discs_of(r)[i]]))
        for i in gf:
            if i in done: continue
            form = (r.poly or {}).get("type", "?").replace("mps_", "").replace("_poly", "").replace("_equation", "")
            mode = "".join(":mode=" + x for x in ("-c", "-m") if x in opts)
            sig = "goal:%s:status=%d:alg=%s:input=%s%s" % (goal, sts[i], alg, form, mode)
            if rec.get("silent"): sig += ":exit=silent-precision-cap"
            ctx.violation(sig, "goal %s, no over_max: root %d of %s (%s) is returned with status %s; options %s"
                          % ("approximate" if goal == "a" else "isolate", i, c["name"], c["cls"], S.STATUS[sts[i]] if sts[i] < 8 else sts[i], " ".join(opts)),
                          dict(rp, root=i, clause="goal contract"))
        for (i, j) in ov:
            a, b = sorted((sts[i], sts[j]))
            sig = "overlap:status=%d-%d:alg=%s" % (a, b, alg)
            ctx.violation(sig, "discs of roots %d (%s) and %d (%s) of %s (%s) have a common point; goal %s, options %s"
                          % (i, S.STATUS[sts[i]], j, S.STATUS[sts[j]], c["name"], c["cls"], goal, " ".join(opts)),
                          dict(rp, roots=[i, j], clause="reported discs pairwise disjoint", discs=[[str(x) for x in S.discs_of(r)[k]] for k in (i, j)]))
        if not (hf or gf or ov):
            raise vf.InfraError("goalq verdict 0 without a failing clause: %r" % ln)
    # --- the control-flow tie: a difference that no run turned into a violation of the property is a broken correspondence
    if broken and not ctx.violations:
        what, rec, detail = broken[0]
        ctx.violation("correspondence:control-flow:" + what.split(":")[0], "%d trace replays differ from the transcription of coq/Goal/StopModel.v; first: %s (%s %s) %s"
                      % (len(broken), what, rec["case"]["name"] if rec else "", " ".join(rec["opts"]) if rec else "", detail),
                      {"differences": [b[0] for b in broken[:20]], "text": rec["case"]["text"] if rec else None, "opts": rec["opts"] if rec else None}, no_input=True)
    # the witness of C02_std_silent_cap_refuted (a statement about c_fixed = false, the code before /repo commit 6608fee8):
    #   tree without the repair: it must leave the real driver through the silent branch (else the theorem is stale);
    #   repaired tree: it must leave through the same branch with over_max reported (C02_std_fixed_not_silent) - no finding.
    trace_cov["cap_branch_transcription"] = "c_fixed=true (over_max recorded, /repo 6608fee8)" if FIXED[0] else "c_fixed=false (nothing recorded)"
    trace_cov["cap_branch_decided_by"] = cap_how
    if not ctx.replay:
        wit = [rec for rec in recs if rec["case"]["name"] == "witness-silent-precision-cap"]
        w = wit[0] if wit else None
        through = bool(w) and w.get("exit") == "silent" and w["res"].kind == "ok"
        reproduced = through and w["res"].meta.get("over_max") == 0 and any(o.status == 1 for o in w["res"].roots)
        reported = through and w["res"].meta.get("over_max") == 1 and w.get("model_over") == "1"
        trace_cov["silent_cap_witness_reproduced"] = reproduced
        trace_cov["silent_cap_witness_reports_over_max"] = reported
        capw = [rec for rec in recs if rec["case"]["name"] == "cap-100-sets-over-max"]
        trace_cov["cap_100_sets_over_max"] = bool(capw) and capw[0]["res"].kind == "ok" and capw[0]["res"].meta.get("over_max") == 1
        if not (reported if FIXED[0] else reproduced) and not ctx.violations:
            if FIXED[0]:
                msg = ("the tree carries the repair of the precision-cap branch, but the witness of C02_std_silent_cap_refuted (-W 150) does not leave mps_standard_mpsolve "
                       "through that branch with over_max reported (exit %s, over_max %s): C02_std_fixed_not_silent does not describe this tree")
            else:
                msg = ("the witness of C02_std_silent_cap_refuted (-W 150) no longer leaves mps_standard_mpsolve through the silent branch (exit %s, over_max %s): "
                       "the refutation theorem does not describe this tree")
            ctx.violation("correspondence:silent-cap-witness", msg % (w.get("exit") if w else None, w["res"].meta.get("over_max") if w and w["res"].kind == "ok" else None),
                          {"text": SILENT_TEXT, "opts": SILENT_OPTS, "c_fixed": FIXED[0]}, no_input=True)
    # --- tables tie verdict (after the search above)
    if not tables_ok:
        if not ctx.violations:
            ctx.violation("correspondence:status-tables", "the status enum / tables of include/mps/types.h differ from the model (%s / %s / %s) and no run violates C02"
                          % (names, happ, hcomp), {"enum": names, "approximated": happ, "computed": hcomp}, no_input=True)
    # --- oracle cross-check on a sample (recorded only; this is C01's clause)
    orc_hist = collections.Counter()
    if not ctx.replay:
        cand = [rec for rec in keep if rec["case"].get("coeffs") and rec["res"].poly and rec["res"].poly.get("exact") and rec["case"]["degree"] <= 10
                and rec["res"].meta["prec_out"] <= 110]
        samp = rng.sample(cand, min(len(cand), ctx.pick(24, 120)))
        e2e.certify_records(ctx, samp, max_bits=ctx.pick(500, 1100), max_degree=10)
        def ask(rec):
            if rec["oracle"] is None: return None
            r = rec["res"]; ds = S.discs_of(r)
            idx = [i for i, o in enumerate(r.roots) if o.status in (2, 3) and ds[i][2] is not None]
            try: return [(i, v) for i, v in zip(idx, rec["oracle"].count([ds[i] for i in idx]))] if idx else []
            except Exception as e: return None
        for rec, ans in zip(samp, e2e.par_map(ask, samp)):
            if ans is None: orc_hist["input-not-certified"] += 1; continue
            for i, (lo, hi) in ans:
                orc_hist["exactly-one-root" if lo == 1 and hi == 1 else "undecided" if lo < hi else "count=%d" % lo] += 1
        e2e.close_records(samp)
    cov = {"evaluations": len(keep), "programs": len(keep), "disagreements_checked": examined,
           "distinct_nontrivial": len(nontrivial),
           "rule": "one evaluation = one completed solve judged by the extracted run_ok; distinct by (input, options); non-trivial when at least two roots are returned (disjointness and per-root clauses both have content)",
           "roots_evaluated": roots_eval, "disc_pairs_evaluated": pairs_eval, "solves_started": len(recs),
           "skipped": {k: v for k, v in stats.items()},
           "goal_histogram": dict(hist_goal), "status_histogram": dict(hist_status), "phase_histogram": dict(hist_phase), "digits_histogram": dict(hist_digits), "threads_histogram": dict(hist_threads),
           "class_histogram": dict(collections.Counter(rec["case"]["cls"] for rec in keep)),
           "status_tables_match_header": tables_ok,
           "stop_tests_real_vs_model": stop_cov, "control_flow_traces": trace_cov,
           "oracle_crosscheck_isolated_discs": dict(orc_hist),
           "samples": samples,
           "trusted_base": ["Coq 8.16.1 kernel; C02 theorems about real numbers use the stdlib axioms printed by Print Assumptions (sig_forall_dec, sig_not_dec, functional_extensionality_dep, classic)",
                            "extraction ExtrOcamlBasic+ExtrOcamlNativeString; ocaml/goalq_driver.ml (zarith only for decimal->bits; lists the failing roots/pairs by calling the extracted honest/disjoint)",
                            "harness/vf_solve.c exact export (public accessors mps_context_get_roots_m, mps_context_get_root_status, mps_context_get_over_max) and lib/solve.py parser",
                            "the solver's iteration is not modelled: each run's output is validated, modify.c's status bookkeeping is transcribed by hand (modify_status)",
                            "the regex that reads the enum and the two tables from include/mps/types.h"]}
    return ctx.finish("translation_validation", cov,
                      ["radii far below the last bit of the centres are first rounded UP (conservative for every clause); a negative verdict is always re-evaluated on the exact values before it is reported",
                       "inputs have simple roots by construction (distinct rational roots) or by an exact gcd test; floating-point inputs are random, their roots are not certified simple",
                       "solves are pinned to one thread (-j 1) except an explicit -j 4 group on well separated inputs: multi-threaded solves of MPSolve are timing dependent (see known/C02.json, mode=-m entry)",
                       "errors, timeouts and sanitizer reports of a solve are left to C03/C05 and counted as skipped",
                       "APPROXIMATED_IN_CLUSTER counts as 'reported approximated' in every clause (it does in MPS_ROOT_STATUS_IS_APPROXIMATED and in both stop conditions)"])
