"""C02 - goal contract and status honesty (digits delivered, isolation real).

Every run of the real solver (sanitizer build, harness/vf_solve.c, exact export) on a simple-root input with
the whole plane as search set is judged by the extracted Coq function run_ok (coq/Goal/GoalModel.v), which
theorem C02_run_ok_spec proves equivalent to the property's predicate on the exported values:
  (i)   no over_max, approximate goal, not crude/avoid-mp  => every status approximated (3|4) and r <= 2^-prec_out |z|
  (ii)  no over_max, isolate goal                          => every status in {2,3,4}
  (iii) every run: status approximated                     => r <= 2^-prec_out |z|
  (iv)  every run: discs of roots with status in {2,3,4} are pairwise disjoint (closed discs)
A false clause is a violation of C02 directly (replay = .pol text + options).  Runs that end in an error,
a timeout or a sanitizer report are C03's / C05's business and only counted.
The status tables of the model are compared with include/mps/types.h of the snapshot on every run."""
import os, re, json, collections, math
from fractions import Fraction as Fr
import vf, solve as S, polygen as G, e2e

BIG = Fr(2) ** 4000
GOALCH = {0: "i", 1: "a", 2: "c"}


def q(x): return "%d/%d" % (x.numerator, x.denominator)


# ----------------------------------------------------------------------------- inputs
def family_cases(rng, n):
    """search families of DESIGN.md C02: roots near 0, moduli that are powers of two, close simple pairs,
    exactly representable roots, mixed scales; all built from pairwise distinct rational roots"""
    out = []
    for i in range(n):
        k = rng.choice(["near0", "pow2", "closepair", "closepair", "exact", "gauss", "mixedscale", "triple"])
        if k == "near0":
            e = rng.choice([20, 60, 200, 900])
            rs = [(Fr(rng.randint(1, 9), 1 << e), Fr(rng.randint(-3, 3), 1 << e))] + list({G.rand_dyadic_root(rng, 4, 3) for _ in range(rng.randint(1, 5))})
        elif k == "pow2":
            rs = list({(Fr(2) ** rng.randint(-30, 30) * rng.choice([1, -1]), Fr(0)) for _ in range(rng.randint(2, 6))})
            rs += [(Fr(0), Fr(2) ** rng.randint(-5, 5))]
        elif k == "closepair":
            e = rng.choice([8, 20, 40, 52, 64, 100, 200])
            b = G.rand_dyadic_root(rng, 3, 2, rng.random() < 0.5)
            rs = [b, (b[0] + Fr(1, 1 << e), b[1])] + list({G.rand_dyadic_root(rng, 4, 3) for _ in range(rng.randint(0, 4))} - {b})
        elif k == "triple":
            e = rng.choice([12, 30, 52])
            b = G.rand_dyadic_root(rng, 3, 2, False)
            rs = [b, (b[0] + Fr(1, 1 << e), b[1]), (b[0], b[1] + Fr(1, 1 << e))] + list({G.rand_dyadic_root(rng, 4, 3) for _ in range(rng.randint(0, 3))} - {b})
        elif k == "exact":
            rs = list({(Fr(rng.randint(-20, 20)), Fr(0)) for _ in range(rng.randint(2, 8))})
        elif k == "gauss":
            rs = list({(Fr(rng.randint(-6, 6)), Fr(rng.randint(-6, 6))) for _ in range(rng.randint(2, 8))})
        else:
            rs = [(Fr(rng.randint(1, 50)) * Fr(2) ** rng.randint(-80, 80), Fr(rng.randint(-50, 50)) * Fr(2) ** rng.randint(-80, 80)) for _ in range(rng.randint(2, 6))]
        rs = list(dict.fromkeys(rs))
        if (Fr(0), Fr(0)) in rs: rs.remove((Fr(0), Fr(0)))     # zero roots are deflated, not returned; all-zero inputs are not C02's business
        if not rs: continue
        out.append(G.from_roots_case("%s%d" % (k, i), "family-" + k, rs, rng, kind="Rational"))
    return out


def fp_cases(rng, n):
    """floating point coefficients with a small declared input precision: the over_max situations"""
    out = []
    for i in range(n):
        deg = rng.randint(2, 8)
        co = ["%.17g" % rng.uniform(-5, 5) for _ in range(deg + 1)]
        pr = rng.choice([30, 53, 64, 100, 200])
        text = "Monomial;\nDegree=%d;\nFloatingPoint;\nReal;\nPrecision=%d;\nDense;\n\n" % (deg, pr) + "\n".join(co) + "\n"
        out.append({"name": "fp%d_p%d" % (i, pr), "cls": "floating-point-input", "text": text, "coeffs": None, "degree": deg, "simple": None, "roots": None})
    return out


WITNESS_TEXT = ("Monomial;\nDegree=3;\nRational;\nComplex;\nDense;\n\n"
                "-27021597764222973/2251799813685248 -63050394783186937/9007199254740992\n"
                "-36028797018963967/4503599627370496 -126100789566373881/18014398509481984\n"
                "4503599627370495/4503599627370496 -7/4\n1/1 0/1\n")


def configs(ctx):
    cf = []
    for a in "us":
        cf.append(["-a", a, "-G", "i"])
        for dg in (5, 15, 30, 100):
            cf.append(["-a", a, "-G", "a", "-o", str(dg)])
        for dg in (19, 38, 57):                                   # 64, 127(128), 190 bits
            cf.append(["-a", a, "-G", "a", "-o", str(dg)])
        for bb in (53, 64, 128, 192):
            cf.append(["-a", a, "-G", "a", "-B", str(bb)])
        cf.append(["-a", a, "-G", "i", "-t", "d"])
        cf.append(["-a", a, "-G", "a", "-o", "20", "-t", "d"])
        cf.append(["-a", a, "-G", "i", "-r"] if a == "u" else ["-a", a, "-G", "i", "-b"])
        cf.append(["-a", a, "-G", "a", "-o", "12", "-m"])
        cf.append(["-a", a, "-G", "i", "-m"])
    cf.append(["-a", "u", "-G", "a", "-o", "12", "-c"]); cf.append(["-a", "u", "-G", "i", "-c"])
    cf.append(["-a", "s", "-G", "a", "-o", "40", "-b"])
    big = []
    if not ctx.quick():
        for a in "us":
            for dg in (300, 617, 1000, 2000):
                big.append(["-a", a, "-G", "a", "-o", str(dg)])
            for bb in (1024, 1074, 1075, 4096):
                big.append(["-a", a, "-G", "a", "-B", str(bb)])
    return cf, big


# ----------------------------------------------------------------------------- evaluation
KCAP = 40000          # longest integers (bits) handed to the extracted binary arithmetic
BUDGET = [6e8]        # bound on (roots + pairs) * 2 * bits^2 bit-steps per run (set per tier in run())


def model_line(res, opts, exact=False):
    """One `R` line for bin/goalq -> (line or None, rounded?).  All exported numbers of a run are dyadic; they are
    multiplied by ONE common power of two so that they become integers (C02_run_ok_scale: same verdict).
    Radii that are many orders of magnitude below the last bit of the centres (exactly representable roots) would
    force integers of 10^5..10^7 bits: unless exact=True such a radius is rounded UP to the grid 2^-(kc+80), kc = the
    finest centre exponent.  A larger radius can only make run_ok fail, so a positive verdict stands; a negative
    verdict obtained with rounded radii is re-evaluated with exact=True by the caller."""
    m = res.meta
    exempt = 1 if ("-c" in opts or "-m" in opts) else 0
    vals = []
    for o, a in zip(res.roots, res.accm):
        rad = a.rad
        if rad is None or isinstance(rad, S.HugeDyadic): rad = BIG
        vals.append([o.status, a.re, a.im, rad])
    def ex2(v):
        dn = v.denominator
        if dn & (dn - 1): raise vf.InfraError("exported number is not dyadic: %r" % (v,))
        return dn.bit_length() - 1
    kc = max([0] + [ex2(v) for (_, x, y, _) in vals for v in (x, y)])
    rounded = False
    k = kc
    for v in vals:
        kr = ex2(v[3])
        if kr > kc + 80 and not exact:
            g = 1 << (kc + 80)
            v[3] = Fr(-((-v[3].numerator * g) // v[3].denominator), g); rounded = True      # ceiling on the grid
            kr = ex2(v[3])
        k = max(k, kr)
    sc = 1 << k
    toks = ["R", GOALCH.get(m["goal"], "c"), str(m["over_max"]), str(exempt), str(m["prec_out"]), str(len(vals))]
    for (s, x, y, r) in vals:
        X, Y, Rr = x * sc, y * sc, r * sc
        assert X.denominator == 1 and Y.denominator == 1 and Rr.denominator == 1
        bits = max(abs(X.numerator).bit_length(), abs(Y.numerator).bit_length(), Rr.numerator.bit_length())
        n = len(vals)
        if bits > KCAP or (n + n * (n - 1) // 2) * 2.0 * bits * bits > BUDGET[0]:
            return None, rounded
        toks += [str(s), hex(X.numerator), hex(Y.numerator), hex(Rr.numerator)]       # hexadecimal: exact, no decimal conversion of long integers
    return " ".join(toks), rounded


def excess_class(d, a):
    """how far above 2^-d |z| the radius is (only for the signature / the report)"""
    rad = a.rad
    if rad is None or isinstance(rad, S.HugeDyadic): return "non-finite"
    z2 = a.re * a.re + a.im * a.im
    lhs = rad * rad * Fr(4) ** d
    if z2 == 0: return "zero-modulus"
    ratio2 = lhs / z2
    if ratio2 <= (1 + Fr(1, 1 << 30)) ** 2: return "rounding-level"
    if ratio2 <= 64 * 64: return "factor-le-64"
    return "factor-gt-64"


def header_tables(snap):
    """the enum order and the two status tables as written in include/mps/types.h of the snapshot"""
    t = open(os.path.join(snap, "include", "mps", "types.h")).read()
    m = re.search(r"enum\s+mps_root_status\s*\{(.*?)\}", t, re.S)
    names = [x.strip() for x in m.group(1).split(",") if x.strip()] if m else []
    def tab(n):
        mm = re.search(n + r"\s*\[\]\s*=\s*\{(.*?)\}", t, re.S)
        return [x.strip() == "true" for x in mm.group(1).split(",")] if mm else None
    return names, tab("mps_table_of_approximated_roots"), tab("mps_table_of_computed_roots")


EXPECTED_ENUM = ["MPS_ROOT_STATUS_NEW_CLUSTERED", "MPS_ROOT_STATUS_CLUSTERED", "MPS_ROOT_STATUS_ISOLATED", "MPS_ROOT_STATUS_APPROXIMATED",
                 "MPS_ROOT_STATUS_APPROXIMATED_IN_CLUSTER", "MPS_ROOT_STATUS_NOT_FLOAT", "MPS_ROOT_STATUS_NOT_DPE", "MPS_ROOT_STATUS_MULTIPLE"]


def run(ctx):
    ctx.prove()
    ctx.proof_violation_if_broken()
    binary = ctx.compile_harness(["vf_solve.c"], "vf_solve", mode="san")
    BUDGET[0] = ctx.pick(6e8, 3e10)
    env = ctx.san_env()
    rng = ctx.rng
    # --- tie of the status tables to the header
    names, happ, hcomp = header_tables(ctx.snap("san"))
    tl = ctx.run_model("goalq", "T\n").split()
    mapp = [x == "1" for x in tl[1:tl.index("COMPUTED")]]; mcomp = [x == "1" for x in tl[tl.index("COMPUTED") + 1:]]
    tables_ok = (names == EXPECTED_ENUM and happ == mapp and hcomp == mcomp)
    # --- inputs
    if ctx.replay:
        rp = json.load(open(ctx.replay))
        # "repeat": N re-runs a timing-dependent case N times (multi-threaded solves are not deterministic)
        co = [({"name": rp.get("case", "replay"), "cls": rp.get("class", "replay"), "text": rp["text"], "coeffs": None, "degree": 0}, rp["opts"])] * int(rp.get("repeat", 1))
    else:
        nstd, nfam, nfp, per = ctx.pick(50, 400), ctx.pick(90, 600), ctx.pick(10, 40), ctx.pick(5, 6)
        std = [c for c in G.standard_cases(rng, nstd * 2, maxdeg=ctx.pick(12, 24))
               if c["cls"] != "multiple-roots" and S.is_squarefree(c["coeffs"]) and any(not S.cis0(x) for x in c["coeffs"][:-1])][:nstd]
        fam = family_cases(rng, nfam)
        cf, big = configs(ctx)
        co = [({"name": "witness-stale-status4", "cls": "family-closepair", "text": WITNESS_TEXT, "coeffs": None, "degree": 3}, ["-a", "u", "-G", "a", "-B", "53"])]
        def heavy(o):          # many output bits => multiprecision centres of thousands of bits => slow exact evaluation
            return ("-o" in o and int(o[o.index("-o") + 1]) >= 57) or ("-B" in o and int(o[o.index("-B") + 1]) >= 128)
        for c in std + fam:
            pool = cf if (c["degree"] <= 6 or not ctx.quick()) else [o for o in cf if not heavy(o)]
            for o in rng.sample(pool, per):
                if c["cls"] in ("secular", "chebyshev") and o[1] == "u": continue      # classic algorithm on secular-form input: C19/C01's finding
                co.append((c, o))
        for c in fp_cases(rng, nfp):
            for o in (["-a", "u", "-G", "a", "-o", "100"], ["-a", "s", "-G", "a", "-o", "100"], ["-a", "u", "-G", "i"], ["-a", "s", "-G", "a", "-o", "10"]):
                co.append((c, o))
        # DETERMINISM: the library's default thread pool has one thread per core and its concurrent (Gauss-Seidel style)
        # Aberth sweeps make radii, iteration counts and hence statuses depend on the interleaving; every solve above is
        # pinned to one thread.  A small explicit multi-thread group (well separated roots, no -m/-c) is judged the same way.
        co = [(c, o if "-j" in o else o + ["-j", "1"]) for c, o in co]
        robust = [c for c in std if c["cls"] in ("random-integer", "random-integer-complex", "random-rational", "from-dyadic-roots", "x^n-1", "kac", "degree-1")]
        for c in robust[:ctx.pick(8, 40)]:
            for o in (["-a", "s", "-G", "a", "-o", "15", "-j", "4"], ["-a", "u", "-G", "a", "-o", "15", "-j", "4"], ["-a", "s", "-G", "i", "-j", "4"]):
                co.append((c, o))
        if big:
            big = [o + ["-j", "1"] for o in big]
            small = [c for c in std + fam if c["degree"] <= 5]
            for o in big:
                for c in rng.sample(small, 3):
                    co.append((c, o))
    ctx.log("running %d solves" % len(co))
    nworkers = int(json.load(open(ctx.replay)).get("workers", 16)) if ctx.replay else 16
    recs = e2e.run_records(ctx, binary, co, env, timeout=ctx.pick(40, 600), workers=nworkers)
    ctx.log("solves done")
    # --- evaluation by the extracted model
    stats = collections.Counter(); lines = []; keep = []
    for rec in recs:
        r = rec["res"]
        if r.kind != "ok":
            stats["skipped:" + r.kind] += 1; continue
        if r.meta.get("search_set", 0) != 0 or len(r.roots) != len(r.accm):
            stats["skipped:not-whole-plane"] += 1; continue
        ln, rnd = model_line(r, rec["opts"])
        if ln is None:
            stats["skipped:exact-evaluation-over-budget"] += 1; continue
        rec["rounded"] = rnd
        if rnd: stats["evaluated-with-radii-rounded-up"] += 1
        lines.append(ln); keep.append(rec)
    if os.environ.get("C02_DUMP_LINES"):
        with open(os.environ["C02_DUMP_LINES"], "w") as f: f.write("\n".join(lines) + "\n")
    order = sorted(range(len(lines)), key=lambda i: -len(lines[i]))       # longest first: run_model_lines deals them round-robin
    souts = ctx.run_model_lines("goalq", [lines[i] for i in order], timeout=ctx.pick(600, 3000))
    outs = [None] * len(lines)
    for i, o in zip(order, souts): outs[i] = o
    # a negative verdict obtained with radii rounded up is re-evaluated exactly
    redo = [i for i, (rec, ln) in enumerate(zip(keep, outs)) if rec["rounded"] and ln.split()[0] != "1"]
    for i in redo:
        ln, _ = model_line(keep[i]["res"], keep[i]["opts"], exact=True)
        if ln is None:
            outs[i] = None; stats["skipped:negative-with-rounded-radii-and-exact-form-too-long"] += 1
        else:
            outs[i] = ctx.run_model("goalq", ln + "\n", timeout=ctx.pick(600, 3000)).split("\n")[0]; lines[i] = ln
            stats["re-evaluated-exactly"] += 1
    pairs_ = [(rec, ln) for rec, ln in zip(keep, outs) if ln is not None]
    lines = [l for l, ln in zip(lines, outs) if ln is not None]
    keep = [p[0] for p in pairs_]; outs = [p[1] for p in pairs_]
    ctx.log("model evaluation done: %d runs" % len(keep))
    samples = []; nontrivial = set(); examined = 0; roots_eval = 0; pairs_eval = 0
    hist_goal = collections.Counter(); hist_status = collections.Counter(); hist_phase = collections.Counter(); hist_digits = collections.Counter(); hist_threads = collections.Counter()
    for rec, ln in zip(keep, outs):
        r, c, opts = rec["res"], rec["case"], rec["opts"]
        t = ln.split()
        if len(t) != 7 or t[0] not in "01":
            raise vf.InfraError("goalq answered %r" % ln)
        ok, gcl, hcl, dcl = (x == "1" for x in t[:4])
        gf = [int(x) for x in t[4][2:].split(",") if x]; hf = [int(x) for x in t[5][2:].split(",") if x]
        ov = [tuple(int(y) for y in x.split("-")) for x in t[6][2:].split(",") if x]
        m = r.meta; alg = opts[opts.index("-a") + 1] if "-a" in opts else "?"
        goal = GOALCH.get(m["goal"], "c"); d = m["prec_out"]
        sts = [o.status for o in r.roots]
        nrep = sum(1 for s in sts if s in (2, 3, 4))
        roots_eval += len(sts); pairs_eval += nrep * (nrep - 1) // 2
        hist_goal["goal=%s over_max=%d%s" % (goal, m["over_max"], " exempt" if ("-c" in opts or "-m" in opts) else "")] += 1
        for s in sts: hist_status[S.STATUS[s] if s < len(S.STATUS) else str(s)] += 1
        hist_phase["lastphase=%d alg=%s" % (m["lastphase"], alg)] += 1
        hist_threads["-j " + opts[opts.index("-j") + 1] if "-j" in opts else "default pool"] += 1
        hist_digits["prec_out<=64" if d <= 64 else "prec_out<=400" if d <= 400 else "prec_out<=1100" if d <= 1100 else "prec_out>1100"] += 1
        if len(sts) >= 2: nontrivial.add((c["name"], tuple(opts)))
        rp = {"case": c["name"], "class": c["cls"], "text": c["text"], "opts": opts, "meta": m, "statuses": sts}
        if len(samples) < 5 and (not ok or len(samples) < 3):
            samples.append({"case": c["name"], "class": c["cls"], "opts": opts, "prec_out": d, "over_max": m["over_max"], "statuses": sts,
                            "disc0": e2e.fdisc(S.discs_of(r)[0]) if r.accm else None, "model_line_prefix": lines[keep.index(rec)][:160], "verdict": ln})
        if ok: continue
        examined += 1
        done = set()
        for i in hf:       # status approximated, bound missed (clause iii; under the approximate goal also clause i)
            ex = excess_class(d, r.accm[i])
            sig = "radius-bound:status=%d:alg=%s:%s" % (sts[i], alg, ex)
            done.add(i)
            ctx.violation(sig, "root %d of %s (%s) is reported %s but its radius %s exceeds 2^-%d |z| (%s); options %s, lastphase %d"
                          % (i, c["name"], c["cls"], S.STATUS[sts[i]], e2e.fdisc(S.discs_of(r)[i])[2], d, ex, " ".join(opts), m["lastphase"]),
                          dict(rp, root=i, clause="approximated => r <= 2^-d |z|", disc=[str(x) for x in S.discs_of(r)[i]]))
        for i in gf:
            if i in done: continue
            form = (r.poly or {}).get("type", "?").replace("mps_", "").replace("_poly", "").replace("_equation", "")
            mode = "".join(":mode=" + x for x in ("-c", "-m") if x in opts)
            sig = "goal:%s:status=%d:alg=%s:input=%s%s" % (goal, sts[i], alg, form, mode)
            ctx.violation(sig, "goal %s, no over_max: root %d of %s (%s) is returned with status %s; options %s"
                          % ("approximate" if goal == "a" else "isolate", i, c["name"], c["cls"], S.STATUS[sts[i]] if sts[i] < 8 else sts[i], " ".join(opts)),
                          dict(rp, root=i, clause="goal contract"))
        for (i, j) in ov:
            a, b = sorted((sts[i], sts[j]))
            sig = "overlap:status=%d-%d:alg=%s" % (a, b, alg)
            ctx.violation(sig, "discs of roots %d (%s) and %d (%s) of %s (%s) have a common point; goal %s, options %s"
                          % (i, S.STATUS[sts[i]], j, S.STATUS[sts[j]], c["name"], c["cls"], goal, " ".join(opts)),
                          dict(rp, roots=[i, j], clause="reported discs pairwise disjoint", discs=[[str(x) for x in S.discs_of(r)[k]] for k in (i, j)]))
        if not (hf or gf or ov):
            raise vf.InfraError("goalq verdict 0 without a failing clause: %r" % ln)
    # --- tables tie verdict (after the search above)
    if not tables_ok:
        if not ctx.violations:
            ctx.violation("correspondence:status-tables", "the status enum / tables of include/mps/types.h differ from the model (%s / %s / %s) and no run violates C02"
                          % (names, happ, hcomp), {"enum": names, "approximated": happ, "computed": hcomp}, no_input=True)
    # --- oracle cross-check on a sample (recorded only; this is C01's clause)
    orc_hist = collections.Counter()
    if not ctx.replay:
        cand = [rec for rec in keep if rec["case"].get("coeffs") and rec["res"].poly and rec["res"].poly.get("exact") and rec["case"]["degree"] <= 10
                and rec["res"].meta["prec_out"] <= 110]
        samp = rng.sample(cand, min(len(cand), ctx.pick(24, 120)))
        e2e.certify_records(ctx, samp, max_bits=ctx.pick(500, 1100), max_degree=10)
        def ask(rec):
            if rec["oracle"] is None: return None
            r = rec["res"]; ds = S.discs_of(r)
            idx = [i for i, o in enumerate(r.roots) if o.status in (2, 3) and ds[i][2] is not None]
            try: return [(i, v) for i, v in zip(idx, rec["oracle"].count([ds[i] for i in idx]))] if idx else []
            except Exception as e: return None
        for rec, ans in zip(samp, e2e.par_map(ask, samp)):
            if ans is None: orc_hist["input-not-certified"] += 1; continue
            for i, (lo, hi) in ans:
                orc_hist["exactly-one-root" if lo == 1 and hi == 1 else "undecided" if lo < hi else "count=%d" % lo] += 1
        e2e.close_records(samp)
    cov = {"evaluations": len(keep), "programs": len(keep), "disagreements_checked": examined,
           "distinct_nontrivial": len(nontrivial),
           "rule": "one evaluation = one completed solve judged by the extracted run_ok; distinct by (input, options); non-trivial when at least two roots are returned (disjointness and per-root clauses both have content)",
           "roots_evaluated": roots_eval, "disc_pairs_evaluated": pairs_eval, "solves_started": len(recs),
           "skipped": {k: v for k, v in stats.items()},
           "goal_histogram": dict(hist_goal), "status_histogram": dict(hist_status), "phase_histogram": dict(hist_phase), "digits_histogram": dict(hist_digits), "threads_histogram": dict(hist_threads),
           "class_histogram": dict(collections.Counter(rec["case"]["cls"] for rec in keep)),
           "status_tables_match_header": tables_ok,
           "oracle_crosscheck_isolated_discs": dict(orc_hist),
           "samples": samples,
           "trusted_base": ["Coq 8.16.1 kernel; C02 theorems about real numbers use the stdlib axioms printed by Print Assumptions (sig_forall_dec, sig_not_dec, functional_extensionality_dep, classic)",
                            "extraction ExtrOcamlBasic+ExtrOcamlNativeString; ocaml/goalq_driver.ml (zarith only for decimal->bits; lists the failing roots/pairs by calling the extracted honest/disjoint)",
                            "harness/vf_solve.c exact export (public accessors mps_context_get_roots_m, mps_context_get_root_status, mps_context_get_over_max) and lib/solve.py parser",
                            "the solver's iteration is not modelled: each run's output is validated, modify.c's status bookkeeping is transcribed by hand (modify_status)",
                            "the regex that reads the enum and the two tables from include/mps/types.h"]}
    return ctx.finish("translation_validation", cov,
                      ["radii far below the last bit of the centres are first rounded UP (conservative for every clause); a negative verdict is always re-evaluated on the exact values before it is reported",
                       "inputs have simple roots by construction (distinct rational roots) or by an exact gcd test; floating-point inputs are random, their roots are not certified simple",
                       "solves are pinned to one thread (-j 1) except an explicit -j 4 group on well separated inputs: multi-threaded solves of MPSolve are timing dependent (see known/C02.json, mode=-m entry)",
                       "errors, timeouts and sanitizer reports of a solve are left to C03/C05 and counted as skipped",
                       "APPROXIMATED_IN_CLUSTER counts as 'reported approximated' in every clause (it does in MPS_ROOT_STATUS_IS_APPROXIMATED and in both stop conditions)"])
