"""C09 -- parsers are total.

Proof part : coq/Props/Properties_C09.v (model: coq/ParseTotal/*) -- termination of the comment
             skipper, in-bounds-ness of the tokenizer / option-line walk as a property of the trace of
             accesses, absence of format interpretation, for the code as it is; the same statements are
             REFUTED for the model of the code before the repairs, and those witnesses are replayed here
             as regression inputs (they must no longer reproduce).
Tie        : harness/c09_parse.c (ASan+UBSan, fork + 5 s alarm per case) against bin/ptotal (extracted
             model): token sequences, option (flag,value,message), skip position, constructed message.
Whole files: coq/ParseTotal/WholeFile.v (line buffer, option loop, dispatch, monomial / legacy 2.x / secular /
             Chebyshev token loops, GMP acceptance as a parameter); extracted with the GMP 6.2.1 transcription
             (bin/pwhole) and compared with mps_parse_string / mps_parse_stream / mps_parse_file: POLY line
             (type, degree, structure, density, precision) or error text incl. line number must be equal,
             predicted SIGFPE / wild index must show up under the sanitizers; mode "gmp" ties the transcription
             of mpf_set_str / mpq_set_str / atoi / sscanf %d %ld / mps_utils_parse_long / long*LOG2_10 token by token.
             The whole-file model describes the code AFTER the repairs e017eba4 (Chebyshev index check), fb161c73 +
             fixes/C18_parsing_error_args.patch (messages at end of input) and 9e1e2262 (mps_utils_parse_long); which of
             them the snapshot has is read from its source (repairs_in_source): the witnesses of the `_refuted` theorems
             about the earlier code are regression inputs there, they must NOT reproduce.
Predicate  : decided on the implementation's own output: crash / sanitizer report / timeout / NULL
             without flag / polynomial with flag / message that lost the token text = violation.
"""
import os, re, json, subprocess, hashlib
import vf

PREFIX_RE = re.compile(rb"^Parsing error on line \d+ near the token: ")
KEYWORDS = [b"Monomial", b"Secular", b"Chebyshev", b"Dense", b"Sparse", b"Integer", b"Real", b"Complex",
            b"Rational", b"FloatingPoint", b"Degree", b"Precision"]
EDGE_LITERALS = [b"1/0", b"-", b"1e999999999", b"%n%n%s", b"%s", b"%x%x%%", b"7" * 300, b"0/0", b"-1/0",
                 b"1e999999999999999999999", b"1/", b"/1", b"+", b"1e", b".", b"0x10", b"1e-999999999",
                 b"%%", b"%d", b"nan", b"inf", b"1.5", b"-0", b"1/-2", b"\xff\xfe", b"1e+5", b"2147483648"]
LEGACY_TYPES = [b"dri", b"dci", b"drq", b"dcq", b"drf", b"dcf", b"sri", b"sci", b"srq", b"scq", b"srf", b"scf",
                b"uri", b"d", b"dr", b"drix", b"driiiiiii", b"xyz", b"s", b"dcx", b"dxi"]


# ----------------------------------------------------------------------------- helpers
def hexs(b):
    return b.hex() if b else "."


def unescape(s):
    out = bytearray(); i = 0
    bs = s.encode("latin-1", "replace")
    while i < len(bs):
        if bs[i:i + 2] == b"\\x" and i + 4 <= len(bs):
            try:
                out.append(int(bs[i + 2:i + 4], 16)); i += 4; continue
            except ValueError:
                pass
        out.append(bs[i]); i += 1
    return bytes(out)


def cstr(b):
    i = b.find(b"\0")
    return b if i < 0 else b[:i]


def c_int(txt):
    """(int) strtol (txt): saturate to long, truncate to int (what atoi / sscanf %d of glibc do)"""
    v = int(txt) if len(txt) < 40 else (10 ** 40 if not txt.startswith(b"-") else -10 ** 40)
    v = max(-2 ** 63, min(2 ** 63 - 1, v))
    return (v + 2 ** 31) % 2 ** 32 - 2 ** 31


def declared_degree(b):
    b = re.sub(rb"![^\n]*", b"", b)          # comments are dropped by the line reader
    m = re.search(rb"(?i)degree\s*=\s*([-+]?\d+)", b)
    if m: return c_int(m.group(1))
    t = b.split()
    if len(t) >= 3 and re.match(rb"[-+]?\d+", t[2]):
        return c_int(re.match(rb"[-+]?\d+", t[2]).group(0))
    return None


def declared_precision(b):
    """decimal digits of input precision a file asks for (3.x option or second token of a 2.x file)"""
    b = re.sub(rb"![^\n]*", b"", b)
    m = re.search(rb"(?i)precision\s*=\s*([-+]?\d+)", b)
    if m: return c_int(m.group(1))
    t = b.split()
    if len(t) >= 2 and re.fullmatch(rb"[dsu][rc][qif]", t[0][:3]) and re.match(rb"[-+]?\d+", t[1]):
        g = re.match(rb"[-+]?\d+", t[1]).group(0)
        return int(g) if len(g) < 40 else 10 ** 40
    return None


def is_huge(b):
    d, p = declared_degree(b), declared_precision(b)
    return (d is not None and d >= 10 ** 7) or (p is not None and p >= 10 ** 7)


# ----------------------------------------------------------------------------- generators
def tokens_of(b):
    return re.findall(rb"\S+|\s+", b)


def mutate(rng, b):
    """one structured mutation of a .pol text"""
    k = rng.randrange(16)
    toks = tokens_of(b)
    if not toks: return b"!"
    if k == 0:      # truncation at a token boundary
        return b"".join(toks[:rng.randrange(len(toks) + 1)])
    if k == 1:      # byte flips
        ba = bytearray(b)
        for _ in range(rng.randrange(1, 4)):
            if ba: ba[rng.randrange(len(ba))] = rng.randrange(256)
        return bytes(ba)
    if k == 2:      # duplicated ';'
        return b.replace(b";", b";;", rng.randrange(1, 3))
    if k == 3:      # removed ';'
        idx = [m.start() for m in re.finditer(b";", b)]
        if not idx: return b
        i = rng.choice(idx); return b[:i] + b[i + 1:]
    if k == 4:      # options permuted
        lines = b.split(b"\n")
        opt = [i for i, l in enumerate(lines) if b";" in l]
        vals = [lines[i] for i in opt]; rng.shuffle(vals)
        for i, v in zip(opt, vals): lines[i] = v
        return b"\n".join(lines)
    if k in (5, 6):  # numbers replaced by edge literals
        idx = [i for i, t in enumerate(toks) if re.match(rb"[-+0-9.]", t)]
        if not idx: return b
        for _ in range(rng.randrange(1, 3)):
            toks[rng.choice(idx)] = rng.choice(EDGE_LITERALS)
        return b"".join(toks)
    if k == 7:      # comment at EOF (after the body), or comment inserted at a boundary
        return b + rng.choice([b"!", b" !x", b"\n! end", b"!\n"])
    if k == 8:      # NUL byte
        i = rng.randrange(len(b) + 1); return b[:i] + b"\0" + b[i:]
    if k == 9:      # very long token
        i = rng.randrange(len(toks)); toks[i] = rng.choice([b"9", b"a", b"%s", b"1/"]) * rng.choice([300, 1100, 5000])
        return b"".join(toks)
    if k == 10:     # a ';' line variants
        return rng.choice([b";\n", b" ;\n", b"  ;\n", b";", b"\t;;\n", b"=;\n", b"=5;\n", b"degree=;\n"]) + b
    if k == 11:     # last line of exact getline / memory-stream capacity, no newline
        body = b.rstrip(b"\n")
        last = body.rfind(b"\n") + 1
        want = rng.choice([118, 119, 120, 121, 238, 239, 240, 241, 1021, 1022, 1023, 1024])
        cur = len(body) - last
        if cur < want:
            return body[:last] + body[last:] + b" " + b"1" * (want - cur - 1) if want - cur >= 2 else body + b"1"
        return body
    if k == 12:     # option line with spaces and odd layout
        return b.replace(b";", rng.choice([b" ;", b"\t ; ", b";!c", b" ; x"]), 1)
    if k == 13:     # degree changed
        d = rng.choice([b"0", b"-1", b"1", b"3", b"99", b"2147483647", b"-2147483648", b"4294967297", b"abc", b""])
        return re.sub(rb"(?i)(degree\s*=\s*)\d+", lambda m: m.group(1) + d, b, count=1)
    if k == 14:     # insert a comment somewhere
        i = rng.randrange(len(toks)); toks.insert(i, rng.choice([b"!c\n", b" ! ;\n", b"!", b"!%s%n\n"]))
        return b"".join(toks)
    # k == 15: drop a token
    i = rng.randrange(len(toks)); del toks[i]
    return b"".join(toks)


def legacy_case(rng):
    ty = rng.choice(LEGACY_TYPES)
    prec = rng.choice([b"0", b"0", b"53", b"-5", b"x", b"99999999999999999999"])
    deg = rng.choice([b"2", b"3", b"1", b"0", b"-1", b"-3", b"x", b"5"])
    try: d = max(0, min(8, int(deg)))
    except ValueError: d = 2
    nums = []
    rational = len(ty) >= 3 and ty[2:3] == b"q"
    cplx = len(ty) >= 2 and ty[1:2] == b"c"
    per = (2 if rational else 1) * (2 if cplx else 1)
    sparse = ty[:1] == b"s"
    if sparse: nums.append(str(d + 1).encode())
    for i in range(d + 1):
        if sparse: nums.append(str(i).encode())
        for j in range(per):
            r = rng.random()
            if r < 0.08: nums.append(rng.choice(EDGE_LITERALS))
            elif rational and j % 2 == 1: nums.append(rng.choice([b"1", b"3", b"0", b"-2", b"7"]))
            else: nums.append(str(rng.randrange(-50, 50)).encode())
    if rng.random() < 0.2 and nums: nums = nums[:rng.randrange(len(nums))]
    sep = rng.choice([b"\n", b" ", b"\n\n", b" \t"])
    head = rng.choice([b"", b"! legacy\n", b"\n"])
    return head + ty + b"\n" + prec + b"\n" + deg + b"\n" + sep.join(nums) + rng.choice([b"\n", b"", b" "])


def v3_case(rng):
    rep = rng.choice([b"Monomial", b"Secular", b"Chebyshev"])
    st = rng.choice([b"Integer", b"Rational", b"FloatingPoint", None])
    rc = rng.choice([b"Real", b"Complex", None])
    dn = rng.choice([b"Dense", b"Sparse", None])
    d = rng.randrange(1, 7)
    opts = [rep, b"Degree=" + str(d).encode()] + [o for o in (st, rc, dn) if o]
    if rng.random() < 0.2: opts.append(b"Precision=" + rng.choice([b"53", b"0", b"-1", b"1000"]))
    rng.shuffle(opts)
    cplx = rc != b"Real"
    per = 2 if cplx else 1
    n = d + 1 if rep != b"Secular" else 2 * d
    nums = []
    for i in range(n):
        if dn == b"Sparse" and rep != b"Secular": nums.append(str(i).encode())
        for _ in range(per):
            r = rng.random()
            if r < 0.06: nums.append(rng.choice(EDGE_LITERALS))
            elif st == b"Rational": nums.append(("%d/%d" % (rng.randrange(-9, 9), rng.choice([1, 2, 3, 7, 0 if r < 0.1 else 5]))).encode())
            elif st in (None, b"FloatingPoint"): nums.append(rng.choice([b"1.5", b"-2e3", b"0", b"3", b"1e-5", b".5"]))
            else: nums.append(str(rng.randrange(-99, 99)).encode())
    if rng.random() < 0.15 and nums: nums = nums[:rng.randrange(len(nums))]
    return b";\n".join(opts) + b";\n" + b" ".join(nums) + rng.choice([b"\n", b"", b" !c", b"\n!c\n"])


INT_EDGE = [b"0", b"1", b"-1", b"2", b"3", b"7", b"2147483647", b"2147483648", b"-2147483648", b"-2147483649", b"4294967296",
            b"4294967297", b"4294967299", b"9223372036854775807", b"9223372036854775808", b"-9223372036854775808",
            b"-9223372036854775809", b"99999999999999999999", b"+3", b"+", b"-", b"3x", b"x3", b"03", b"3.5", b"1e1", b" 4", b"--1", b""]
GMP_EDGE = [b"0", b"-0", b"00", b"0.0", b".0", b"0.", b".", b"-.", b"-.5", b".5", b"5.", b"1.2.3", b"1e5", b"1E5", b"1@5", b"1e+5", b"1e-5",
            b"1e", b"1e+", b"1e-", b"e5", b"1ee5", b"1e5e3", b"0ex", b"0e", b"00.00e+", b"1ex", b"1e5x", b"1e5.5", b"1.e5", b".e5", b"-e5", b"+1",
            b"1+", b"--1", b"-1", b"1-", b"1/2", b"1/0", b"0/0", b"0/5", b"-1/2", b"1/-2", b"-1/-2", b"1/2/3", b"/2", b"1/", b"/", b"1/+2",
            b"1/ 2", b"01/02", b"1/00", b"1x", b"0x10", b"1,5", b"inf", b"nan", b"1e9999", b"1e99999999999999999999", b"12345678901234567890123",
            b"-12345678901234567890123/7", b"7/-0", b"\xff", b"1\xff", b"1e5\xff", b"%s", b"1%n", b"1@", b"@1", b"1@-3", b"1.5@2", b"-"]


def num_token(rng, kind):
    """a coefficient token: mostly fine for the given kind (f/q/i), sometimes an edge literal"""
    r = rng.random()
    if r < 0.10: return rng.choice(GMP_EDGE)
    if kind == "f": return rng.choice([b"1.5", b"-2e3", b"0", b"3", b"1e-5", b".5", b"-7", b"2@3", b"1E2"])
    if kind == "q":
        d = rng.choice([1, 2, 3, 7, 5, 5, 11, 0 if r < 0.16 else 4, -3 if r < 0.2 else 9])
        return ("%d/%d" % (rng.randrange(-9, 9), d)).encode() if rng.random() < 0.8 else str(rng.randrange(-9, 9)).encode()
    return str(rng.randrange(-99, 99)).encode()


def split_v3_case(rng):
    """3.x file aimed at the case splits of the whole-file model: option values around the int / long limits, option
    layouts, representation x structure x density, sparse indices (duplicates, out of range, wrapping), zero and
    negative denominators, end of input at every position of a coefficient"""
    rep = rng.choice([b"Monomial", b"Secular", b"Chebyshev", None])
    st = rng.choice([b"Integer", b"Rational", b"FloatingPoint", None])
    rc = rng.choice([b"Real", b"Complex", None])
    dn = rng.choice([b"Dense", b"Sparse", b"Sparse", None])
    d = rng.randrange(1, 6)
    deg = str(d).encode()
    r = rng.random()
    if r < 0.12: deg = rng.choice(INT_EDGE)
    opts = [o for o in (rep, st, rc, dn) if o] + ([b"Degree=" + deg] if r > 0.03 else [])
    if rng.random() < 0.25: opts.append(b"Precision=" + rng.choice([b"53", b"0", b"-1", b"1000", b"1", b"3", b"301", b"x", b"", b"4294967297", b"99999", b" 12", b"+7"]))
    if rng.random() < 0.1: opts.append(rng.choice([b"Dense", b"Real", b"Complex", b"Integer", b"Monomial", b"Degree=2", b"Sparse"]))
    rng.shuffle(opts)
    def layout(o):
        k = rng.random()
        if k < 0.70: return o + b";\n"
        if k < 0.78: return b"  " + o + b" \t;\n"
        if k < 0.84: return o.replace(b"=", b" = ") + b";   ignored text\n"
        if k < 0.88: return o + b"; " + rng.choice([b"Degree=9;", b"Sparse;", b"Real;"]) + b"\n"
        if k < 0.92: return o.swapcase() + b";\n"
        if k < 0.95: return o + b"; ! comment\n"
        if k < 0.97: return b"! comment only\n" + o + b";\n"
        return o + b" ;\n\n"
    head = b"".join(layout(o) for o in opts)
    kind = "f" if st in (None, b"FloatingPoint") else ("q" if st == b"Rational" else rng.choice("iq"))
    per = 1 if rc == b"Real" else 2
    toks = []
    if rep == b"Secular":
        for i in range(2 * d * per): toks.append(num_token(rng, kind))
    elif dn == b"Sparse":
        idx = list(range(d + 1)); rng.shuffle(idx); idx = idx[:rng.randrange(0, d + 2)]
        for i in idx:
            it = str(i).encode(); q = rng.random()
            if q < 0.06: it = rng.choice(INT_EDGE)
            elif q < 0.10: it = str(rng.choice([d + 1, -1, d + 4294967296, 100, d + 7])).encode()
            elif q < 0.13 and toks: it = str(idx[0]).encode()
            toks.append(it)
            for _ in range(per): toks.append(num_token(rng, kind))
    else:
        for i in range((d + 1) * per): toks.append(num_token(rng, kind))
    q = rng.random()
    if q < 0.15 and toks: toks = toks[:rng.randrange(len(toks))]
    elif q < 0.20: toks += [num_token(rng, kind), b"junk"]
    sep = rng.choice([b" ", b" ", b"\n", b"  \t", b"\n\n", b" ! c\n"])
    out = head + sep.join(toks) + rng.choice([b"\n", b"", b" ", b" !c", b"\n!c\n"])
    if rng.random() < 0.05: out = out.replace(b"\n", b"\r\n")          # DOS line ends: '\r' is white space
    if rng.random() < 0.03: out = out.replace(b" ", rng.choice([b"\x0b", b"\x0c", b"\xa0", b"\x00"]), 1)
    return out


def split_legacy_case(rng):
    ty = rng.choice([b"dri", b"dci", b"drq", b"dcq", b"drf", b"dcf", b"sri", b"sci", b"srq", b"scq", b"srf", b"scf", b"drq", b"dcq", b"srq"])
    if rng.random() < 0.12: ty = rng.choice(LEGACY_TYPES + [b"uri", b"ucq", b"urf", b"u", b"ur", b"drqq", b"DRI"])
    prec = rng.choice([b"0", b"0", b"53", b"-5", b"15", b"100"]) if rng.random() < 0.85 else rng.choice(INT_EDGE)
    d = rng.randrange(0, 5)
    deg = str(d).encode() if rng.random() < 0.88 else rng.choice(INT_EDGE)
    rational = ty[2:3] == b"q"; cplx = ty[1:2] == b"c"; sparse = ty[:1] == b"s"
    kind = "f" if ty[2:3] == b"f" else "i"
    toks = []
    def coeff():
        for _ in range(2 if cplx else 1):
            if rational:
                r = rng.random()
                toks.append(rng.choice([b"1", b"3", b"-2", b"7", b"0", b"12"]) if r > 0.12 else rng.choice([b"1/0", b"0/0", b"1/-2", b"0/-5", b"2/4", b"x", b"1/2"]))
                r = rng.random()
                toks.append(rng.choice([b"1", b"3", b"2", b"7", b"5"]) if r > 0.15 else rng.choice([b"0", b"-2", b"3/0", b"0/0", b"1/-2", b"6/4", b"0/7", b"x", b"1e1"]))
            else:
                toks.append(num_token(rng, kind))
    if sparse:
        toks.append(str(d + 1).encode() if rng.random() < 0.9 else rng.choice([b"x", b"0", b"-1"]))
        idx = list(range(d + 1)); rng.shuffle(idx); idx = idx[:rng.randrange(0, d + 2)]
        for i in idx:
            it = str(i).encode(); q = rng.random()
            if q < 0.06: it = rng.choice(INT_EDGE)
            elif q < 0.10: it = str(rng.choice([d + 1, -1, d + 4294967296, i + 4294967296])).encode()
            elif q < 0.13: it = str(idx[0]).encode()
            toks.append(it); coeff()
    else:
        for i in range(d + 1): coeff()
    q = rng.random()
    if q < 0.15 and toks: toks = toks[:rng.randrange(len(toks))]
    sep = rng.choice([b"\n", b" ", b" ", b"\n\n", b" \t", b" !c\n"])
    head = rng.choice([b"", b"", b"! legacy\n", b"\n", b"  "])
    return head + ty + rng.choice([b"\n", b" "]) + prec + rng.choice([b"\n", b" "]) + deg + b"\n" + sep.join(toks) + rng.choice([b"\n", b"", b" "])


def gmp_token(rng):
    r = rng.random()
    if r < 0.35: return rng.choice(GMP_EDGE + INT_EDGE + EDGE_LITERALS)
    n = rng.randrange(1, 9)
    return bytes(rng.choice(b"0123456789012345.-+eE@/x ") for _ in range(n)).replace(b" ", b"0") or b"0"


# witnesses of the refuted whole-file theorems (Properties_C09.v) and of the known-finding classes
WHOLE_WITNESSES = [
    ("string", b"Monomial;\nDegree=1;\nRational;\nReal;\n1/0 1\n", "witness:zero-denominator-monomial"),
    ("file", b"Secular;\nDegree=1;\nRational;\nReal;\n1/0 1\n", "witness:zero-denominator-secular"),
    ("stream", b"Chebyshev;\nDegree=1;\nRational;\nReal;\n1/0 1\n", "witness:zero-denominator-chebyshev"),
    ("string", b"drq\n0\n0\n1 0\n", "witness:zero-denominator-legacy"),
    ("string", b"Chebyshev;\nDegree=2;\nSparse;\nReal;\n5 1.0\n", "witness:chebyshev-sparse-index"),
    ("file", b"Chebyshev;\nDegree=2;\nSparse;\nInteger;\nReal;\n-1 1\n", "witness:chebyshev-sparse-index"),
    ("string", b"Monomial;\n1 2\n", "witness:degree-missing-format"),
    ("string", b"Chebyshev;\nDegree=2;\nSparse;\nComplex;\n1 1.0", "witness:chebyshev-message-format"),
]


# zero denominators written with one or several digits (must give NULL + flag, not SIGFPE), forms around the
# RATIONAL token of tokenizer.l, denominators with leading zeros (legal), zero numerators
INLINE_EDGE = ["1/0", "1/00", "3/000", "0/00", "0/0", "5/00i", "7/0i", "1/0e0", "1/00e2", "2/0.5", "3/04", "10/010",
               "0/5", "00/1", "1/0000000000000000000000", "12/00x", "1/00/2", "1/2/0", "9/09i"]
INLINE_WITNESSES = [b"1/00", b"x^2-3/000", b"5/00i", b"0/00", b"1/0e0", b"3/04", b"x^3+10/010x-1", b"1/0", b"2x^2 + 7/00x - 1",
                    b"(x-1/00)^2", b"1/00i*x", b"x-3/0000000000000000000000000000000000000000",
                    b"0000x", b"x^2+0000", b"000x", b"00000000/3x"]


def inline_case(rng):
    def term():
        c = rng.choice(["", "3", "-2", "1/2", "1.5", "2e3", "7", "12/5"] + (INLINE_EDGE if rng.random() < 0.25 else []))
        x = rng.choice(["", "x", "x^2", "x^3", "x^10", "x^0"])
        return (c + x) or "1"
    e = term()
    for _ in range(rng.randrange(0, 5)):
        e += rng.choice(["+", "-", " + ", " - "]) + term()
    if rng.random() < 0.3:
        e = "(" + e + ")" + rng.choice(["", "^2", "*(x-1)", "*2"])
    toks = re.findall(r"\d+|[a-z]+|\S|\s+", e)
    for _ in range(rng.randrange(0, 3)):      # token-level mutations
        if not toks: break
        i = rng.randrange(len(toks)); r = rng.random()
        if r < 0.3: del toks[i]
        elif r < 0.6: toks.insert(i, rng.choice(["^", "(", ")", "*", "/", "x", "y", "^-1", "e", "i", "%s", "%n", "1/0", "1/00", "/00", "/000i", "3/04", "..", "9" * 400, "x^99999999999", "x^2000000", "\x00", "\xff"]))
        else: toks[i] = rng.choice(["+", "-", "x", "^", "1e999999999", "0/0", ")"])
    return "".join(toks).encode("latin-1")


def random_bytes(rng):
    n = rng.choice([0, 1, 2, 3, 8, 40, 200, 2000])
    alpha = rng.choice([None, b" \n\t;!=0123456789/-.eE", b"dscriqf \n0123456789-;!"])
    if alpha is None: return bytes(rng.randrange(256) for _ in range(n))
    return bytes(rng.choice(alpha) for _ in range(n))


def tok_text(rng):
    n = rng.choice([0, 1, 5, 30, 100])
    alpha = b"ab1 \n\t!\r\x0b;\x00 \n"
    s = bytes(rng.choice(alpha) for _ in range(n))
    if rng.random() < 0.35:       # last line near a capacity boundary, no trailing newline
        want = rng.choice([117, 118, 119, 120, 121, 238, 239, 240, 1020, 1021, 1022, 1023, 1024, 1025, 2100])
        s = s.replace(b"\0", b"a") + b"\n" + b"x" * (want - 2) + rng.choice([b" y", b"yy", b"y ", b"!y"])
    return s


def opt_text(rng):
    kw = rng.choice(KEYWORDS + [b"", b"foo", b"degre", b"densee", b"%s%n", b"abcdefghijklmnopqrstuvwxyz"])
    if rng.random() < 0.5: kw = bytes(c ^ 0x20 if 65 <= (c & ~0x20) <= 90 and rng.random() < 0.5 else c for c in kw)
    sp = lambda: rng.choice([b"", b"", b" ", b"  ", b"\t"])
    s = sp() + kw + sp()
    if rng.random() < 0.45: s += b"=" + sp() + rng.choice([b"5", b"", b"-3", b"abc", b"1=2", b"99999999999"]) + sp()
    s += b";" + rng.choice([b"", b"", b"\n", b" x", b";", b"!c"])
    if rng.random() < 0.1: s = b"!" + s
    if rng.random() < 0.08: s = b" " * rng.choice([1, 2, 3]) + b";" + rng.choice([b"", b"\n"])
    if rng.random() < 0.03: s = b"x" * 260 + b";"
    return s


def fmt_text(rng):
    n = rng.randrange(1, 8)
    return bytes(rng.choice(b"%%%snxdl5a. ") for _ in range(n)).replace(b" ", b"_") or b"%"


def would_hang(b):
    """the shape on which mps_skip_comments never returns (Tokenizer.v: skip_comments = OutOfFuel); used only to
    keep the number of 5 s timeouts per run small, the verdict comes from the implementation"""
    i = 0
    while i < len(b):
        c = b[i]
        if c == 33:
            j = b.find(b"\n", i)
            if j < 0: return True
            i = j + 1
        elif c in (9, 10, 11, 12, 13, 32): i += 1
        else: return False
    return False


def gen_cases(ctx, pol_files):
    rng = ctx.rng
    scale = ctx.pick(1, 33)
    cases = []      # (mode, bytes, origin)
    budget = {"hang": ctx.pick(6, 40), "dropped_hang": 0, "huge": ctx.pick(4, 12)}
    def add(mode, b, origin):
        if len(b) > 65536: return
        if mode in ("stream", "file", "skipc") and would_hang(b) and not origin.startswith("witness"):
            if budget["hang"] <= 0: budget["dropped_hang"] += 1; return
            budget["hang"] -= 1
        if mode not in ("inline", "gmp") and is_huge(b) and not origin.startswith("witness"):
            if budget["huge"] <= 0: return
            budget["huge"] -= 1
        cases.append((mode, b, origin))
    pols = []
    for p in pol_files:
        try: b = open(p, "rb").read()
        except OSError: continue
        if len(b) <= 65536: pols.append((os.path.basename(p), b))
    # (i) shipped files: every one through two of the three entry points (all three in thorough)
    for name, b in pols:
        modes = ["string", "stream", "file"]
        if ctx.quick(): modes = rng.sample(modes, 1) if len(b) > 4000 else rng.sample(modes, 2)
        for m in modes: add(m, b, "shipped:" + name)
        if len(b) < 8000: add(rng.choice(["tokmem", "tokfile"]), b, "shipped-tokens:" + name)
    small = [(n, b) for n, b in pols if len(b) <= 3000] or pols
    # (ii) structured mutations
    for _ in range(2300 * scale):
        name, b = rng.choice(small)
        mb = mutate(rng, b)
        if rng.random() < 0.25: mb = mutate(rng, mb)
        add(rng.choice(["string", "stream", "file"]), mb, "mut:" + name)
    for _ in range(350 * scale): add(rng.choice(["string", "stream", "file"]), legacy_case(rng), "legacy")
    for _ in range(350 * scale): add(rng.choice(["string", "stream", "file"]), v3_case(rng), "v3gen")
    for _ in range(800 * scale): add(rng.choice(["string", "stream", "file"]), split_v3_case(rng), "v3split")
    for _ in range(600 * scale): add(rng.choice(["string", "stream", "file"]), split_legacy_case(rng), "legacysplit")
    # truncations of shipped files at EVERY token boundary (a few small files per run)
    tiny = [(n, b) for n, b in pols if len(b) <= 700] or small
    for name, b in rng.sample(tiny, min(len(tiny), 6 * scale)):
        toks = tokens_of(b)
        for k in range(len(toks) + 1):
            add(rng.choice(["string", "stream", "file"]), b"".join(toks[:k]), "trunc:" + name)
    for m, b, o in WHOLE_WITNESSES: add(m, b, o)
    def tokenlike(t): return len(t) > 0 and not any(c in t for c in b" \t\n\r\x0b\x0c\x00")
    for _ in range(500 * scale):
        t = gmp_token(rng)
        if tokenlike(t): add("gmp", t, "gmp")
    for t in GMP_EDGE + INT_EDGE:
        if tokenlike(t): add("gmp", t, "gmp-edge")
    # expected-defect shapes, each entry point (few: the hanging ones cost 5 s each)
    for m in ("stream", "file"):
        add(m, b"!x", "witness:bang-at-eof")
        add(m, b"", "witness:empty")
    for m in ("string", "file"):
        add(m, b";\n1 2\n", "witness:semicolon")
        add(m, b"Monomial;\nDegree=1;\n1 2 3 " + b"2" * 113, "witness:cap-1")
    add("string", b"Monomial;\nDegree=2000000000;\n1 2\n", "witness:huge-degree")
    add("string", b"dcf\n4294967296\n1\n1.5 1.5", "witness:huge-precision")
    # (iii) random bytes
    for _ in range(450 * scale): add(rng.choice(["string", "stream", "file", "inline"]), random_bytes(rng), "random")
    # (iv) inline expressions
    for _ in range(500 * scale): add("inline", inline_case(rng), "inline")
    for w in INLINE_WITNESSES: add("inline", w, "witness:inline-zero-denominator")
    # correspondence inputs
    for _ in range(450 * scale): add(rng.choice(["tokmem", "tokfile"]), tok_text(rng), "tok")
    for _ in range(450 * scale): add("optline", opt_text(rng), "opt")
    for _ in range(180 * scale):
        b = bytes(rng.choice(b"!! \n\tab") for _ in range(rng.randrange(0, 12)))
        if rng.random() < 0.85 and b"!" in b[b.rfind(b"\n") + 1:]: b += b"\n" + rng.choice([b"", b"a", b" "])
        add("skipc", b, "skip")
    add("skipc", b"!x", "witness:bang-at-eof")
    add("skipc", b" \n!a\n !b", "witness:bang-at-eof")
    for _ in range(150 * scale): add("fmt", fmt_text(rng), "fmt")
    for t in (b"%%", b"%n", b"%s", b"%s%s", b"plain", b"100%"): add("fmt", t, "witness:fmt")
    for t in (b";", b" ;", b"  ;", b"Degree = 5 ;", b"floatingpointtttttttttt;"): add("optline", t, "witness:opt")
    return cases


# ----------------------------------------------------------------------------- running
def run_harness(ctx, h, cases, tag="b"):
    d = os.path.join(ctx.scratch, "cases_" + tag)
    os.makedirs(d, exist_ok=True)
    nproc = int(os.environ.get("VERIF_JOBS", "16"))
    lists = [[] for _ in range(nproc)]
    for i, (mode, b, origin) in enumerate(cases):
        p = os.path.join(d, "c%06d" % i)
        with open(p, "wb") as f: f.write(b)
        lists[i % nproc].append((i, mode, p))
    procs = []
    for k, l in enumerate(lists):
        if not l: continue
        lf = os.path.join(d, "list%d" % k)
        with open(lf, "w") as f:
            for i, mode, p in l: f.write("%s %s\n" % (mode, p))
        td = os.path.join(d, "tmp%d" % k); os.makedirs(td, exist_ok=True)
        pr = subprocess.Popen([h, "batch", lf, td], stdout=subprocess.PIPE, stderr=subprocess.DEVNULL,
                              env=ctx.san_env({"TMPDIR": td}))
        procs.append((pr, l))
    results = [None] * len(cases)
    for pr, l in procs:
        out = pr.communicate(timeout=3600)[0].decode("latin-1")
        lines = [x for x in out.split("\n") if x.startswith("CASE ")]
        if len(lines) != len(l):
            raise vf.InfraError("c09 harness: %d results for %d cases" % (len(lines), len(l)))
        for (i, mode, p), line in zip(l, lines):
            parts = line.split(" | ", 2)
            results[i] = (parts[1], parts[2] if len(parts) > 2 else "")
    return results


OLD = {}       # case index -> answer of the model of the code BEFORE the repairs (regression inputs)


def old_predicts_defect(ans):
    return ans is not None and ("HANG" in ans or "oob=1" in ans or "WILD" in ans)


def model_lines(ctx, cases):
    """one model query per case that has a model counterpart; returns dict index -> answer"""
    q, idx = [], []
    for i, (mode, b, origin) in enumerate(cases):
        if mode == "skipc": q.append("SKIP " + hexs(b))
        elif mode in ("stream", "file"): q.append("SKIP " + hexs(b))
        elif mode == "tokmem": q.append("TOK M " + hexs(b))
        elif mode == "tokfile": q.append("TOK F " + hexs(b))
        elif mode == "optline": q.append("OPT " + hexs(b))
        elif mode == "fmt": q.append("FMT " + hexs(b))
        else: continue
        idx.append(i)
    out = ctx.run_model("ptotal", "\n".join(q) + "\n").split("\n")
    # the same questions to the model of the code as it was before the repairs: where it predicts a defect
    # (HANG / oob=1 / WILD) the input is a regression input, the implementation must be clean on it
    qo = [re.sub(r"^(SKIP|TOK|OPT|FMT) ", lambda m: m.group(1) + "OLD ", x) for x in q]
    outo = ctx.run_model("ptotal", "\n".join(qo) + "\n").split("\n")
    OLD.clear(); OLD.update({i: outo[k] for k, i in enumerate(idx) if k < len(outo)})
    return {i: out[k] for k, i in enumerate(idx) if k < len(out)}


WHOLE = {}     # case index -> answer of the whole-file model (bin/pwhole)
WHOLE_OLD = {} # case index -> answer of the model of the Chebyshev reader before the index check (regression inputs)
TYPE_CODE = {"mps_monomial_poly": "0", "mps_secular_equation": "1", "mps_chebyshev_poly": "2", "?": "3"}
MAX_MODEL_LINE = 1500      # the extracted line memory is a list: time grows with the square of the line length


def read_src(snap, rel):
    try: return open(os.path.join(snap, rel), errors="replace").read()
    except OSError: return ""


def cheb_index_checked(snap):
    """translator step: is the index check of fixes/C09_chebyshev_sparse_index_check.patch in the source?"""
    src = read_src(snap, "src/libmps/chebyshev/chebyshev-parser.c")
    return re.search(r"degree\s*<\s*0\s*\|\|\s*degree\s*>\s*ctx->n", src) is not None


def repairs_in_source(snap):
    """which of the parser repairs the snapshot has (read from its source, nothing is assumed): the whole-file model
    describes the code with all of them; `chebyshev-index-check` is also a parameter of the model (chk)"""
    parser = read_src(snap, "src/libmps/common/parser.c")
    mono = read_src(snap, "src/libmps/monomial/monomial-parser.c")
    utils = read_src(snap, "src/libmps/common/utils.c")
    m = re.search(r"mps_raise_parsing_error\s*\(.*?\n\{(.*?)\n\}", parser, re.S)
    body = m.group(1) if m else ""
    null_branch = body[:body.find("return")] if "return" in body else body
    return {
        "chebyshev-index-check": cheb_index_checked(snap),
        "parse-long": "mps_utils_parse_long" in utils and "mps_utils_parse_long" in parser and "mps_utils_parse_long" in mono,
        "degree-missing-text-without-conversion": "Degree=%d configuration option" not in parser,
        "null-token-message-with-arguments": "vsnprintf" in null_branch and re.search(r'mps_error\s*\(\s*s\s*,\s*"%s"', null_branch) is not None,
    }


def whole_model(ctx, cases, chk, stats, have_parse_long=True):
    q, idx = [], []
    oldq, oldidx = [], []
    for i, (mode, b, origin) in enumerate(cases):
        if mode == "gmp":
            q.append(("GMP " if have_parse_long else "GMPOLD ") + hexs(cstr(b)))
        elif mode in ("string", "stream", "file"):
            src = cstr(b) if mode == "string" else b
            if len(src) > 20000 or max((len(l) for l in src.split(b"\n")), default=0) > MAX_MODEL_LINE:
                stats["whole_skipped"] += 1; continue
            q.append("PARSE %s %d %s" % ("S" if mode == "string" else "F", 1 if chk else 0, hexs(b)))
            if chk and re.search(rb"(?i)chebyshev\s*;", src):
                # the same file through the reader as it was BEFORE the index check (C09_whole_file_chebyshev_sparse_index_refuted)
                oldq.append("PARSE %s 0 %s" % ("S" if mode == "string" else "F", hexs(b))); oldidx.append(i)
        else: continue
        idx.append(i)
    out = ctx.run_model_lines("pwhole", q, workers=int(os.environ.get("VERIF_JOBS", "16")))
    WHOLE.clear(); WHOLE.update({i: out[k] for k, i in enumerate(idx)})
    outo = ctx.run_model_lines("pwhole", oldq, workers=int(os.environ.get("VERIF_JOBS", "16")))
    WHOLE_OLD.clear(); WHOLE_OLD.update({i: outo[k] for k, i in enumerate(oldidx)})


def compare_whole(case, res, ans, stats):
    """model of the whole parser against the implementation; returns (ok, predicted_crash_code or None)"""
    mode, b, origin = case
    status, payload = res
    kind = ans.split(" ", 1)[0]
    stats["whole_outcome"][kind] = stats["whole_outcome"].get(kind, 0) + 1
    if " ok=0" in ans or kind == "FUEL":
        return False, None           # the model itself left the line buffer / ran out of its budget: theorem contradicted
    body = ans[:ans.rfind(" ok=")] if " ok=" in ans else ans
    if kind == "POLY":
        g = re.match(r"POLY (\S+) deg=(-?\d+) structure=(\d+) density=(\d+) prec=(-?\d+)", payload)
        if status != "OK" or not g: return False, None
        return body == "POLY type=%s deg=%s structure=%s density=%s prec=%s" % (
            TYPE_CODE.get(g.group(1), g.group(1)), g.group(2), g.group(3), g.group(4), g.group(5)), None
    if kind == "ERR":
        return status == "OK" and payload == body, None
    if kind == "ERRI":                                   # a conversion of the format has no argument: any integer is printed
        # (no call site of the present code produces this: the messages raised at end of input are formatted with
        # their arguments and the missing-degree text has no conversion any more)
        pat = re.escape("ERR " + body[5:]).replace("%d", r"-?\d+")
        ok = status == "OK" and re.fullmatch(pat, payload) is not None
        if ok: stats["witness"]["indeterminate-format-argument"] = stats["witness"].get("indeterminate-format-argument", 0) + 1
        return ok, None
    if kind == "CRASH":
        code = body.split(" ")[1]
        died = status.startswith("SAN ") or status.startswith("SIG ")
        if code == "2":
            ok = status.startswith("SAN FPE") or status.startswith("SIG 8")
            stats["witness"]["zero-denominator-sigfpe"] = stats["witness"].get("zero-denominator-sigfpe", 0) + int(ok)
            return ok, code
        if code == "3":
            stats["witness"]["gmp-contract"] = stats["witness"].get("gmp-contract", 0) + int(died)
            return True, code        # outside GMP's contract: anything may happen, not compared
        if code == "4":
            stats["witness"]["wild-index"] = stats["witness"].get("wild-index", 0) + int(died)
            stats["wild_index_silent"] += int(not died)
            return True, code        # a wild access need not be detected: counted, not compared
        return False, code
    return False, None


def classify_timeout(mode, b, model_ans):
    if mode in ("stream", "file", "skipc") and (model_ans == "SKIP HANG" or would_hang(b)):
        return "hang:skip_comments:bang-comment-at-EOF"
    d = declared_degree(b)
    if d is not None and d >= 10 ** 7 and mode != "inline":
        return "timeout:allocation:declared-degree-above-1e7"
    pdig = declared_precision(b)
    if pdig is not None and pdig >= 10 ** 7 and mode != "inline":
        return "timeout:allocation:declared-precision-above-1e7"
    if mode == "inline" and re.search(rb"[eE^][-+]?\d{7,}", b):
        return "timeout:inline:exponent-above-1e6"
    return "timeout:%s:unclassified" % mode


def mps_error_class(b):
    return "percent-in-input" if b"%" in b else "message-longer-than-32"


def evaluate(ctx, case, res, model_ans, stats):
    """returns list of (signature, what); also counts correspondences"""
    mode, b, origin = case
    status, payload = res
    v = []
    if status == "TIMEOUT":
        v.append((classify_timeout(mode, b, model_ans), "no answer within 5 s"))
    elif status.startswith("SAN "):
        s = status[4:]
        if s.endswith(":mps_error"):
            s += ":" + mps_error_class(b)
        if mode == "fmt":
            s = "format:raise_parsing_error:percent-in-token"
        v.append(("asan:" + s if not s.startswith("format:") else s, "sanitizer report: " + status[4:]))
    elif status.startswith("SIG ") or status.startswith("EXIT "):
        v.append(("%s:%s" % (status.replace(" ", ":").lower(), mode), "process died: " + status))
    else:
        kind = payload.split(" ", 1)[0] if payload else ""
        if mode in ("string", "stream", "file", "inline"):
            stats["outcome"][kind] = stats["outcome"].get(kind, 0) + 1
            if kind == "BAD" or kind not in ("POLY", "ERR"):
                v.append(("outcome:%s:%s" % (payload.split(" ")[1] if " " in payload else "empty", mode),
                          "neither (polynomial, no flag) nor (NULL, flag, message): " + payload[:120]))
            elif kind == "ERR":
                msg = unescape(payload[4:])
                src = b if mode in ("stream", "file") else cstr(b)
                m = PREFIX_RE.match(msg)
                lit = None
                if m: lit = msg[m.end():]
                elif msg.startswith(b"Unrecognized option: "): lit = msg[len(b"Unrecognized option: "):]
                if lit is not None:
                    stats["msg_with_token"] += 1
                    if lit not in src:
                        cl = "raise_parsing_error:percent-in-token" if (m and b"%" in src) else "mps_error:va_list-reuse-long-message"
                        v.append(("format:" + cl, "message does not carry the input text literally: " + payload[:100]))
    # whole-file model and GMP transcription
    wans = WHOLE.get(stats["cur"])
    if wans is not None and mode in ("string", "stream", "file"):
        stats["corr"]["whole:" + mode] = stats["corr"].get("whole:" + mode, 0) + 1
        o = origin.split(":")[0]
        stats["whole_by_origin"][o] = stats["whole_by_origin"].get(o, 0) + 1
        ok, crash = compare_whole(case, res, wans, stats)
        if crash == "4" and v:       # the sanitizer report is the violation; the model names its cause
            v = [("oob:chebyshev-sparse-reader:index-not-checked", what) if sg.startswith(("asan:", "sig:")) else (sg, what)
                 for sg, what in v]
        if not ok:
            stats["corr_mismatch"].append({"mode": mode, "hex": b.hex(), "impl": "%s | %s" % (status, payload[:200]), "model": wans[:200]})
        wold = WHOLE_OLD.get(stats["cur"])
        if wold is not None and wold.startswith("CRASH 4"):
            # regression input of the repaired index check: the implementation must be clean and agree with the present model
            stats["regression_whole"]["chebyshev-sparse-index:predicted-by-old-model"] += 1
            if ok and status == "OK" and not v: stats["regression_whole"]["chebyshev-sparse-index:clean"] += 1
    if wans is not None and mode == "gmp":
        stats["corr"]["gmp"] = stats["corr"].get("gmp", 0) + 1
        k = "f%sq%s" % (wans[6:7], wans[10:11]); stats["gmp_classes"][k] = stats["gmp_classes"].get(k, 0) + 1
        g = re.search(r" pl=(\S+) pd=(\S+) pp=(\S+) pq=(\S+) mulq=\S+ pn=(\S+)", wans)
        if g:
            k = "parse_long accepts %d of 5 ranges" % sum(1 for x in g.groups() if x != "-")
            stats["parse_long_classes"][k] = stats["parse_long_classes"].get(k, 0) + 1
        if not (status == "OK" and payload == wans):
            stats["corr_mismatch"].append({"mode": mode, "hex": b.hex(), "impl": "%s | %s" % (status, payload[:200]), "model": wans[:200]})
    # correspondence with the model (only when the implementation answered)
    if model_ans is not None and mode in ("skipc", "tokmem", "tokfile", "optline", "fmt"):
        stats["corr"][mode] = stats["corr"].get(mode, 0) + 1
        ok = None
        if mode == "skipc":
            if model_ans == "SKIP HANG": ok = (status == "TIMEOUT"); stats["witness"]["skip-hang"] = stats["witness"].get("skip-hang", 0) + int(ok)
            else: ok = (status == "OK" and payload == model_ans)
        elif mode in ("tokmem", "tokfile"):
            m = re.match(r"(TOKENS \d+ \S*) oob=(\d)$", model_ans)
            if m:
                if m.group(2) == "1":
                    ok = status.startswith("SAN heap-buffer-overflow:WRITE:mps_input_buffer_next_token")
                    stats["witness"]["tok-oob"] = stats["witness"].get("tok-oob", 0) + int(ok)
                else:
                    ok = (status == "OK" and payload.rstrip() == m.group(1).rstrip())
        elif mode == "optline":
            if model_ans == "OPT TOOLONG":
                ok = status == "OK" and "err=1 msg=Maximum line length exceeded" in payload
            else:
                m = re.match(r"(OPT flag=\S+ value=\S+ err=\d) msg=(.*) oob=(\d)$", model_ans)
                if m:
                    if m.group(3) == "1":
                        ok = status.startswith("SAN heap-buffer-overflow:READ:mps_parse_option_line")
                        stats["witness"]["opt-oob"] = stats["witness"].get("opt-oob", 0) + int(ok)
                    elif m.group(2) == "WILD":
                        bad = status != "OK" or not payload.startswith(m.group(1)) or \
                              unescape(payload.split(" msg=", 1)[1])[len(b"Unrecognized option: "):] not in b
                        ok = bad      # the model predicts an indeterminate message
                        stats["witness"]["opt-wild"] = stats["witness"].get("opt-wild", 0) + int(ok)
                        if bad and status == "OK":
                            v.append(("format:mps_error:va_list-reuse-long-message",
                                      "mps_error re-reads a consumed va_list: " + payload[:100]))
                    else:
                        ok = status == "OK" and payload == "%s msg=%s" % (m.group(1), m.group(2))
        elif mode == "fmt":
            tok = cstr(b)
            want = b"Parsing error on line 7 near the token: " + tok
            got = unescape(payload[4:]) if status == "OK" and payload.startswith("MSG ") else None
            if got != want and not v:
                v.append(("format:raise_parsing_error:percent-in-token",
                          "token text interpreted as a format: got %r" % (payload[:80],)))
            if model_ans == "MSG WILD":
                ok = True        # indeterminate in the model: nothing to compare (glibc prints unknown conversions literally)
                stats["witness"]["fmt-wild"] = stats["witness"].get("fmt-wild", 0) + int(got != want)
            else:
                ok = got is not None and got == unescape(model_ans[4:])
                if got is not None and got != want: stats["witness"]["fmt-interpreted"] = stats["witness"].get("fmt-interpreted", 0) + int(ok)
        if ok and status == "OK" and old_predicts_defect(stats["old"].get(stats["cur"])):
            stats["regression_clean"] = stats.get("regression_clean", 0) + 1
        if ok is False:
            stats["corr_mismatch"].append({"mode": mode, "hex": b.hex(), "impl": "%s | %s" % (status, payload[:200]), "model": model_ans[:200]})
    return v


def load_fragment(ctx):
    """known/C09.json is this check's own fragment of known_findings.json: entries that have not been merged into
    the shared file yet (lib/mkmanifest.py does that) are honoured all the same"""
    try: frag = json.load(open(os.path.join(vf.VERIF, "known", "C09.json"))).get("findings", [])
    except (OSError, ValueError): return
    have = {k.get("signature") for k in ctx.known}
    for f in frag:
        if f.get("property") == "C09" and f.get("status", "open") == "open" and f.get("signature") not in have:
            ctx.known.append(f)


def run(ctx):
    load_fragment(ctx)
    ctx.prove()
    repairs = repairs_in_source(ctx.snap("san"))
    h = ctx.compile_harness(["c09_parse.c"], "c09_parse", mode="san",
                            extra_cflags="-DC09_HAVE_PARSE_LONG=1" if repairs["parse-long"] else "")
    stats = {"outcome": {}, "corr": {}, "witness": {}, "corr_mismatch": [], "msg_with_token": 0, "old": OLD, "cur": None,
             "whole_outcome": {}, "whole_by_origin": {}, "whole_skipped": 0, "wild_index_silent": 0, "gmp_classes": {},
             "parse_long_classes": {},
             "regression_whole": {"chebyshev-sparse-index:predicted-by-old-model": 0, "chebyshev-sparse-index:clean": 0}}
    ctx.log("repairs in source: %s" % json.dumps(repairs, sort_keys=True))

    if ctx.replay:
        obj = json.load(open(ctx.replay))
        cases = [(obj["mode"], bytes.fromhex(obj["hex"]), "replay")]
    else:
        snap = ctx.snap("san")
        pol = []
        for root, _, files in os.walk(snap):
            for f in sorted(files):
                if f.endswith(".pol"): pol.append(os.path.join(root, f))
        pol.sort()
        cases = gen_cases(ctx, pol)
    ctx.log("%d cases" % len(cases))
    results = run_harness(ctx, h, cases)
    model = model_lines(ctx, cases)
    chk = repairs["chebyshev-index-check"]
    whole_model(ctx, cases, chk, stats, repairs["parse-long"])
    ctx.log("harness and model done")

    sig_hist, mode_hist, origin_hist, size_hist = {}, {}, {}, {}
    distinct = set()
    samples = []
    for i, (case, res) in enumerate(zip(cases, results)):
        mode, b, origin = case
        mode_hist[mode] = mode_hist.get(mode, 0) + 1
        o = origin.split(":")[0]; origin_hist[o] = origin_hist.get(o, 0) + 1
        sz = "0" if not b else "<64" if len(b) < 64 else "<1k" if len(b) < 1024 else "<8k" if len(b) < 8192 else "<=64k"
        size_hist[sz] = size_hist.get(sz, 0) + 1
        if len(b) > 2: distinct.add((mode, hashlib.sha1(b).hexdigest()))
        stats["cur"] = i
        for sig, what in evaluate(ctx, case, res, model.get(i), stats):
            sig_hist[sig] = sig_hist.get(sig, 0) + 1
            if sig_hist[sig] > 1: continue          # one replay per signature, the histogram has the counts
            ctx.violation(sig, "%s (mode %s, %d bytes, %s)" % (what, mode, len(b), origin),
                          {"mode": mode, "hex": b.hex(), "origin": origin, "status": res[0], "payload": res[1][:300]})
        if len(samples) < 6 and i % max(1, len(cases) // 6) == 0:
            samples.append({"mode": mode, "origin": origin, "bytes": b[:60].decode("latin-1"), "result": "%s | %s" % (res[0], res[1][:100])})

    # model/implementation disagreement where the predicate holds: correspondence broken
    if stats["corr_mismatch"]:
        # those that coincide with a reported violation are already explained by it
        unexplained = [m for m in stats["corr_mismatch"] if m["impl"].startswith("OK")]
        if unexplained:
            ctx.violation("correspondence:model-vs-implementation:%s" % unexplained[0]["mode"],
                          "model and implementation disagree on %d inputs and no property clause fails on them"
                          % len(unexplained), {"first": unexplained[:5]}, no_input=True)

    def search():
        # the refuted statements carry their witnesses; replay them on the real code
        w = [("skipc", b"!x", "w"), ("optline", b";", "w"), ("fmt", b"%n", "w"),
             ("tokfile", b"x" * 119, "w")] + [(m, b, "w") for m, b, o in WHOLE_WITNESSES]
        r = run_harness(ctx, h, w, tag="w")
        found = False
        for c, rr in zip(w, r):
            for sig, what in evaluate(ctx, c, rr, None, stats):
                if ctx.violation(sig, what, {"mode": c[0], "hex": c[1].hex()}): found = True
        return found
    ctx.proof_violation_if_broken(search)

    cov = {
        "evaluations": len(cases),
        "distinct_nontrivial": len(distinct),
        "rule": "distinct (mode, sha1(bytes)) with more than 2 bytes",
        "samples": samples,
        "modes": mode_hist, "origins": origin_hist, "sizes": size_hist,
        "outcomes": stats["outcome"], "messages_carrying_input_text": stats["msg_with_token"],
        "violation_signatures": sig_hist,
        "model_correspondence_cases": stats["corr"],
        "whole_file_model_outcomes": stats["whole_outcome"],
        "whole_file_model_cases_by_origin": stats["whole_by_origin"],
        "whole_file_model_skipped_long_lines": stats["whole_skipped"],
        "whole_file_chebyshev_index_check_present_in_source": chk,
        "parser_repairs_present_in_source": repairs,
        "parse_long_token_classes": stats["parse_long_classes"],
        "regression_inputs_whole_file": stats["regression_whole"],
        "wild_index_predicted_but_silent": stats["wild_index_silent"],
        "gmp_token_classes": stats["gmp_classes"],
        "model_witnesses_reproduced_on_implementation": stats["witness"],
        "correspondence_mismatches": len(stats["corr_mismatch"]),
        "regression_inputs_clean": stats.get("regression_clean", 0),
        "regression_rule": "inputs on which the model of the pre-repair code predicts HANG / out-of-bounds / wild format and the implementation agrees with the model of the present code",
        "trusted_base": [
            "Coq 8.16.1 kernel; no axioms (see axioms_used)",
            "extraction: ExtrOcamlBasic + ExtrOcamlNativeString only; hand-written ocaml/ptotal_driver.ml (hex <-> Z lists)",
            "harness/c09_parse.c; gcc ASan+UBSan as the observer of memory safety of the real parser (observed, not proved)",
            "modelled, not verified: glibc getline growth (single stdio chunk), libstdc++ istream::getline, x86-64 va_list "
            "re-use in mps_error, printf conversions other than %s %d %ld %% are 'wild'",
            "hand-written ocaml/pwhole_driver.ml (hex/decimal I/O only); GMP 6.2.1 acceptance grammar, glibc atoi / sscanf %d %ld "
            "and mps_utils_parse_long (strtol + ERANGE + range) as transcribed in coq/ParseTotal/Gmp621.v (tied token by token, mode gmp)",
            "which parser repairs the snapshot has (Chebyshev index check, mps_utils_parse_long, end-of-input messages) is read "
            "from its source by regular expressions; the model describes the code with all of them",
            "not modelled: what GMP, the allocator and the double/DPE conversions do with an accepted token, the history ring of "
            "the input buffer, the yacc inline grammar: these are covered by outcome class + sanitizers only",
        ],
    }
    return ctx.finish("proof", cov, [
        "memory safety of the real parser is observed through ASan/UBSan on the generated inputs, not proved",
        "5 s alarm per case as the bound for 'terminates'",
        "inputs up to 64 KiB; declared degrees of 1e7 and more are a separate (known) resource finding"])
