"""C16 - every accessor hands out (value, radius) pairs that are still inclusion discs.

Per run: solve with the real library, export what each accessor returns (exactly), and
 (a) evaluate the extracted predicate acc_ok (|za - zm| + rm <= ra, theorem C16_acc_ok_sound) of each
     accessor pair against the multiprecision pair (the primary result, validated against roots by C01);
 (b) ask the proved-sound root oracle whether each accessor's disc contains a root.
A VIOLATION is reported only when the oracle certifies that an accessor's disc contains NO root
(count upper bound 0), or when the multiprecision accessor does not return the stored value.
acc_ok failures that the oracle cannot judge are counted, not reported."""
import os, sys, json, collections, random, time
from fractions import Fraction as Fr
import vf, solve as S, polygen as G, e2e
import c16_access as ACC
if hasattr(sys, "set_int_max_str_digits"): sys.set_int_max_str_digits(0)      # exact rationals with radii like 2^-20000 are printed in decimal for bin/accq

PH = {1: "float", 2: "dpe", 3: "mp"}


def q(x): return "%d/%d" % (x.numerator, x.denominator)


def accessor_pairs(res, i):
    """(name, (re, im, rad)) for every (value, radius) pair the accessors hand out for root i"""
    m, d, a = res.accm[i], res.accd[i], res.acca[i]
    out = [("get_roots_d", (d.re, d.im, d.rad)),
           ("get_approximations.fvalue+frad", (a.fre, a.fim, a.frad)),
           ("get_approximations.mvalue+drad", (a.re, a.im, a.drad if not isinstance(a.drad, S.HugeDyadic) else None))]
    dre, dim = S.fr_of_rdpe(a.dre_tok), S.fr_of_rdpe(a.dim_tok)
    if not isinstance(dre, S.HugeDyadic) and not isinstance(dim, S.HugeDyadic):
        out.append(("get_approximations.dvalue+drad", (dre, dim, a.drad if not isinstance(a.drad, S.HugeDyadic) else None)))
    return out


ACCESS_TRUSTED = ["GMP's mpf_set_prec/mpf_set/mpf_get_d/mpf_set_d/mpf_mul_2exp/mpf_set_prec_raw and libm's frexp/ldexp/sqrt are modelled from their documentation "
                  "(limb truncation, truncation to binary64, one rounding to nearest); the bit-for-bit comparison of every accessor output on every run is what ties them",
                  "harness/c16_access.c writes the state through the private API and prints IEEE bits / limbs; ocaml/access_driver.ml; checks/c16_access.py "
                  "evaluates acc_ok in exact integer arithmetic and cross-checks it with the extracted acc_ok (bin/accq)"]


def access_stage(ctx, env, replay_line=None):
    """function-level tie: states written into a context, every accessor called (harness/c16_access.c), compared bit for bit
    with the extracted as-coded model (bin/access) and judged by acc_ok against the stored pair"""
    t0 = time.process_time(); w0 = time.time()
    hb = ctx.compile_harness(["c16_access.c"], "c16_access", mode="san")
    rng = random.Random(ctx.seed * 1000003 + 16)
    st, samples, ev, distinct = ACC.run_stage(ctx, rng, hb, env, vf, ctx.pick(3000, 30000), replay_line=replay_line)
    ctx.log("access stage: %d states through every accessor, %d judged pairs ok, %.1fs wall" % (ev, len(distinct), time.time() - w0))
    return st, samples, ev, distinct


def run(ctx):
    ctx.prove()
    ctx.proof_violation_if_broken()
    env = ctx.san_env()
    if ctx.replay:
        rp0 = json.load(open(ctx.replay))
        if rp0.get("stage") == "access":
            st, samples, ev, distinct = access_stage(ctx, env, replay_line=rp0["line"])
            return ctx.finish("proof", {"evaluations": ev, "distinct_nontrivial": len(distinct), "rule": "replay of one hand-written state",
                                        "histogram": {"access:" + k: v for k, v in st.items()}, "samples": samples, "trusted_base": ACCESS_TRUSTED}, [])
    acc_stats, acc_samples, acc_ev, acc_distinct = (collections.Counter(), [], 0, set()) if ctx.replay else access_stage(ctx, env)
    binary = ctx.compile_harness(["vf_solve.c"], "vf_solve", mode="san")
    ncases = ctx.pick(30, 300)
    cases = G.standard_cases(ctx.rng, ncases, maxdeg=ctx.pick(10, 20))
    configs = [["-a", "u", "-G", "a", "-o", "40"], ["-a", "s", "-G", "a", "-o", "30"], ["-a", "s", "-G", "i"],
               ["-a", "u", "-G", "i"], ["-a", "s", "-G", "a", "-o", "100"], ["-a", "u", "-G", "i", "-t", "d"],
               ["-a", "s", "-G", "i", "-t", "d"], ["-a", "u", "-G", "a", "-o", "60"]]
    if not ctx.quick():
        configs += [["-a", "s", "-G", "a", "-o", "300"], ["-a", "u", "-G", "a", "-o", "200"]]
    if ctx.replay:
        rp = json.load(open(ctx.replay))
        cases = [{"name": rp["case"], "cls": "replay", "text": rp["text"], "coeffs": [], "degree": 0}]
        configs = [rp["opts"]]
        co = [(cases[0], rp["opts"])]
    else:
        co = [(c, configs[(k + j) % len(configs)]) for k, c in enumerate(cases) for j in range(2)
              if not (c["cls"] == "chebyshev" and configs[(k + j) % len(configs)][1] == "u")]
    # roots below the double range: the solve ends in the DPE phase and get_roots_d must still hand out
    # an inclusion disc although the value underflows (subnormal or 0).  Exact rational roots by construction.
    tiny_names = set()
    if not ctx.replay:
        for E in ctx.pick((310, 322), (310, 316, 322, 330)):
            rs = [(Fr(1, 10 ** E), Fr(0)), (Fr(1), Fr(0)), (Fr(-2), Fr(0)), (Fr(3), Fr(0))]
            c = G.from_roots_case("tiny1e-%d" % E, "root-below-double-range", rs, ctx.rng, kind="Rational")
            tiny_names.add(c["name"])
            for alg in ("u", "s"):
                co.append((c, ["-a", alg, "-G", "i"]))
    recs = e2e.run_records(ctx, binary, co, env, timeout=ctx.pick(120, 600))
    for rec in recs:
        if rec["case"]["name"] in tiny_names:
            rec["max_bits"] = 1300; rec["target_override"] = -1160
    ctx.log("solves done: %d" % len(recs))
    # discs the oracle will be asked about: every accessor's disc
    def extra(rec):
        r = rec["res"]
        return [p[1] for i in range(len(r.accm)) for p in accessor_pairs(r, i) if p[1][2] is not None and p[1][0] is not None]
    e2e.certify_records(ctx, recs, extra_discs=extra, max_bits=ctx.pick(420, 1100), max_degree=ctx.pick(16, 24))
    ctx.log("certification done: %d certified" % sum(1 for r in recs if r["oracle"] is not None))
    stats = collections.Counter(); samples = []; model_lines = []; model_keys = []
    nontrivial = set(); evaluations = 0
    def queries_of(rec):
        r = rec["res"]; out = []
        if r.kind != "ok": return out
        for i in range(len(r.accm)):
            ref = (r.accm[i].re, r.accm[i].im, r.accm[i].rad if not isinstance(r.accm[i].rad, S.HugeDyadic) else None)
            for name, d in accessor_pairs(r, i):
                out.append((i, name, d, ref))
        return out
    def ask(rec):
        qs = [x for x in queries_of(rec) if x[2][0] is not None and x[2][1] is not None and x[2][2] is not None]
        rec["queries"] = qs; rec["verdicts"] = [None] * len(qs)
        if rec["oracle"] is not None and qs:
            try: rec["verdicts"] = e2e.count_discs(rec["oracle"], [x[2] for x in qs])
            except Exception as e: ctx.notes.append("oracle count failed: %r" % (e,))
        return None
    e2e.par_map(ask, recs)
    for rec in recs:
        r, c = rec["res"], rec["case"]
        if r.kind != "ok":
            stats["skipped:" + r.kind] += 1; continue
        ph = PH.get(r.meta["lastphase"], "?")
        n = len(r.accm)
        # multiprecision accessor returns the stored value and radius exactly
        for i in range(n):
            m, o = r.accm[i], r.roots[i]
            evaluations += 1
            if not (m.re == o.re and m.im == o.im and m.rad_tok == o.drad_tok):
                ctx.violation("get_roots_m:differs-from-stored:%s" % ph,
                              "mps_context_get_roots_m returns a value/radius different from the stored approximation (root %d of %s %s)" % (i, c["name"], " ".join(rec["opts"])),
                              {"case": c["name"], "text": c["text"], "opts": rec["opts"], "root": i})
            if m.prec < o.prec:
                ctx.violation("get_roots_m:precision-lowered:%s" % ph, "mps_context_get_roots_m returns fewer bits than the stored approximation holds",
                              {"case": c["name"], "text": c["text"], "opts": rec["opts"], "root": i})
        for (i, name, d, ref) in queries_of(rec):
            if d[0] is None or d[1] is None: stats["nonfinite-value:" + name] += 1
            elif d[2] is None: stats["nonfinite-radius(no claim):" + name] += 1
        for (i, name, d, ref), v in zip(rec["queries"], rec["verdicts"]):
            evaluations += 1
            key = (c["name"], tuple(rec["opts"]), i, name)
            if ref[2] is not None:
                model_lines.append("Q %s %s %s %s %s %s" % (q(ref[0]), q(ref[1]), q(ref[2]), q(d[0]), q(d[1]), q(d[2])))
                model_keys.append((key, name, ph, v, rec, i, d))
            if v is None:
                stats["oracle-undecided:" + name] += 1; continue
            lo, hi = v
            if hi == 0:
                ctx.violation("no-root-in-disc:%s:%s" % (name, ph),
                              "%s hands out a disc that contains no root (certified): root %d of %s with options %s, value (%s, %s), radius %s; lastphase %s"
                              % (name, i, c["name"], " ".join(rec["opts"]), float(d[0]), float(d[1]), float(d[2]), ph),
                              {"case": c["name"], "text": c["text"], "opts": rec["opts"], "root": i, "accessor": name,
                               "disc": [str(x) for x in d], "phase": ph})
                stats["VIOLATION:" + name + ":" + ph] += 1
            elif lo >= 1:
                stats["contains-root:" + name + ":" + ph] += 1; nontrivial.add(key)
            else:
                stats["straddles:" + name] += 1
    # ---- the Python binding (examples/python/mpsolve.py): Context.get_roots() with Context.get_inclusion_radii()
    py_stats = collections.Counter()
    try:
        bpic = ctx.build_repo("pic")
        pycases = [c for c in cases if c["cls"] in ("random-integer", "random-integer-complex", "from-dyadic-roots", "wilkinson", "x^n-1", "mignotte", "kac", "clustered-2^-24", "clustered-2^-16", "clustered-2^-8", "clustered-2^-30")
                   and all(x[0].denominator == 1 and x[1].denominator == 1 for x in c["coeffs"]) and c["degree"] <= ctx.pick(12, 20)][:ctx.pick(10, 60)]
        lines = [json.dumps({"name": c["name"], "alg": k % 2, "coeffs": [[int(x[0]), int(x[1])] for x in c["coeffs"]]}) for k, c in enumerate(pycases)]
        penv = dict(os.environ); penv["LD_LIBRARY_PATH"] = bpic; penv["PYTHONPATH"] = os.path.join(bpic, "snap", "examples", "python")
        rc, out, err = vf.sh([sys.executable, os.path.join(vf.VERIF, "harness", "c16_pybinding.py")], input="\n".join(lines) + "\n", env=penv, timeout=600)
        if rc != 0:
            ctx.violation("python-binding:crash", "the Python binding crashed or raised (rc %d): %s" % (rc, err[-300:]), {"stderr": err[-2000:], "inputs": lines[:3]})
        got = {}
        for ln in out.split("\n"):
            if ln.strip():
                j = json.loads(ln); got[j["name"]] = j
        from oracle import Oracle, certify_all
        orcs = []
        for c in pycases:
            if c["name"] in got: orcs.append((c, Oracle(c["coeffs"])))
        oks = certify_all([o for _, o in orcs], target_radius_log2=-130, workers=16, timeout=300) if orcs else []
        for (c, o), ok in zip(orcs, oks):
            g = got[c["name"]]
            if len(g["roots"]) != len(g["radii"]):
                ctx.violation("python-binding:length-mismatch", "get_roots and get_inclusion_radii return lists of different length", {"case": c["name"], "text": c["text"]}); continue
            discs = [(Fr(float.fromhex(z[0])), Fr(float.fromhex(z[1])), Fr(float.fromhex(r))) for z, r in zip(g["roots"], g["radii"])
                     if all(abs(float.fromhex(v)) != float("inf") and float.fromhex(v) == float.fromhex(v) for v in (z[0], z[1], r))]
            if not ok:
                py_stats["oracle-undecided"] += len(discs); continue
            for d, v in zip(discs, e2e.count_discs(o, discs)):
                evaluations += 1
                if v[1] == 0:
                    py_stats["VIOLATION"] += 1
                    ctx.violation("no-root-in-disc:python-binding:get_roots+get_inclusion_radii",
                                  "Python Context.get_roots()/get_inclusion_radii() hand out a disc with no root (certified): %s value (%s, %s) radius %s" % (c["name"], float(d[0]), float(d[1]), float(d[2])),
                                  {"case": c["name"], "text": c["text"], "opts": ["python-binding"], "disc": [str(x) for x in d]})
                elif v[0] >= 1:
                    py_stats["contains-root"] += 1; nontrivial.add((c["name"], "python", str(d[0]), str(d[1])))
                else: py_stats["straddles"] += 1
            o.close()
    except vf.InfraError:
        raise
    stats.update({"python-binding:" + k: v for k, v in py_stats.items()})
    ctx.log("oracle queries done")
    # (a) model predicate on the same pairs, evaluated by the extracted Coq function
    if model_lines:
        out = ctx.run_model_lines("accq", model_lines)
        for ln, (key, name, ph, v, rec, i, d) in zip(out, model_keys):
            ok, dis, same = ln.split()
            stats["acc_ok=%s:%s:%s" % (ok, name, ph)] += 1
            if ok == "0" and v is not None and v[0] >= 1: stats["acc_ok-fails-but-disc-still-holds-a-root:" + name] += 1
            if len(samples) < 6 and (ok == "0" or len(samples) < 3):
                samples.append({"case": key[0], "opts": list(key[1]), "root": i, "accessor": name, "phase": ph, "acc_ok": ok,
                                "disc": e2e.fdisc(d), "oracle_count": [v[0], v[1]] if v else None})
    e2e.close_records(recs)
    stats.update({"access:" + k: v for k, v in acc_stats.items()})
    samples = acc_samples[:6] + samples
    cov = {"evaluations": evaluations + acc_ev, "distinct_nontrivial": len(nontrivial) + len(acc_distinct),
           "access_states": acc_ev, "access_pairs_judged_ok": len(acc_distinct),
           "rule": "one evaluation = one (solve, root, accessor pair) or one hand-written state sent through every accessor and the extracted model; non-trivial+distinct = pairs for which the oracle certified a root inside the handed-out disc, plus (state, accessor pair) combinations whose pair satisfied acc_ok against the stored pair",
           "programs": len(recs), "disagreements_checked": sum(v for k, v in stats.items() if k.startswith("acc_ok=0")),
           "histogram": dict(stats), "solves": len(recs), "certified_inputs": sum(1 for r in recs if r["oracle"] is not None),
           "why_not_certified": dict(collections.Counter(r["why"].split(":")[0] for r in recs if r["oracle"] is None)),
           "class_histogram": dict(collections.Counter(r["case"]["cls"] for r in recs)), "samples": samples,
           "trusted_base": ["Coq kernel; C16 theorems use the stdlib real-number axioms (sig_forall_dec, sig_not_dec, functional_extensionality_dep) via Reals",
                            "root oracle bin/cert (Properties_ORACLE.v, axiom-free) judges every reported violation",
                            "extraction ExtrOcamlBasic+ExtrOcamlNativeString; ocaml/accq_driver.ml; harness/vf_solve.c; lib/solve.py"] + ACCESS_TRUSTED}
    return ctx.finish("proof", cov, ["solver internals are not modelled: the accessors' outputs are judged", "undecided oracle answers are counted, never reported"])
