"""Reader of src/libmps/monomial/yacc-parser.y -> Coq data (coq/Inline/Gen/GrammarGen.v).

What is read: the %token list, the precedence table (%left/%right/%nonassoc/%precedence lines in
file order = increasing precedence), and every production with its right-hand side, its
%prec override and an *action tag*: the sequence of library calls / parser macros made by the
semantic action with their $-arguments (debug blocks and local names are ignored, so that a
renamed temporary stays quiet while a swapped call or a dropped action does not).
Nonterminals are numbered in order of first appearance as a left-hand side, so that a pure
rename of a nonterminal produces the same data.
"""
import re, sys

DECL = ("%left", "%right", "%nonassoc", "%precedence")


def split_sections(text):
    parts = re.split(r"^%%[ \t]*$", text, flags=re.M)
    if len(parts) < 2:
        raise ValueError("no %% separator")
    return parts[0], parts[1]


def strip_prologue(decl):
    return re.sub(r"%\{.*?%\}", "", decl, flags=re.S)


def read_decls(decl):
    decl = re.sub(r"/\*.*?\*/", "", strip_prologue(decl), flags=re.S)
    tokens, prec = [], []
    for line in decl.splitlines():
        w = line.split()
        if not w: continue
        if w[0] == "%token":
            tokens += [x for x in w[1:] if re.fullmatch(r"[A-Za-z_]\w*", x)]
        elif w[0] in DECL:
            prec.append((w[0][1:], [x for x in w[1:] if re.fullmatch(r"[A-Za-z_]\w*", x)]))
    return tokens, prec


def scan_rules(rules):
    """-> list of lexical items: ('id',name) (':',) ('|',) (';',) ('prec',name) ('act',text)"""
    out, i, n = [], 0, len(rules)
    while i < n:
        c = rules[i]
        if c.isspace(): i += 1; continue
        if rules.startswith("/*", i):
            j = rules.find("*/", i + 2); i = n if j < 0 else j + 2; continue
        if rules.startswith("//", i):
            j = rules.find("\n", i); i = n if j < 0 else j; continue
        if c == "{":
            depth, j = 0, i
            while j < n:
                ch = rules[j]
                if ch in "\"'":                        # skip string / char literals
                    q = ch; j += 1
                    while j < n and rules[j] != q:
                        j += 2 if rules[j] == "\\" else 1
                elif rules.startswith("/*", j):
                    k = rules.find("*/", j + 2); j = n if k < 0 else k + 1
                elif ch == "{": depth += 1
                elif ch == "}":
                    depth -= 1
                    if depth == 0: break
                j += 1
            out.append(("act", rules[i + 1:j])); i = j + 1; continue
        if c in ":|;":
            out.append((c,)); i += 1; continue
        m = re.match(r"%prec\s+([A-Za-z_]\w*)", rules[i:])
        if m:
            out.append(("prec", m.group(1))); i += m.end(); continue
        m = re.match(r"[A-Za-z_][\w.]*|'(?:\\.|[^'])'", rules[i:])
        if m:
            out.append(("id", m.group(0))); i += m.end(); continue
        raise ValueError("unexpected character %r in the rules section" % c)
    return out


CALL_RE = re.compile(r"\b(mps_formal_\w+|yyerror|atoi|strchr|strspn|free)\s*\(|\b(YYABORT|YYERROR|YYACCEPT)\b|(\$\$|\$\d+)")


def action_tag(text):
    """sequence of calls and $-references, debug blocks removed"""
    text = re.sub(r"#\s*ifdef\s+MPS_PARSER_DEBUG.*?#\s*endif", "", text, flags=re.S)
    text = re.sub(r"/\*.*?\*/", "", text, flags=re.S)
    text = re.sub(r'"(?:\\.|[^"\\])*"', '""', text)
    items = []
    for m in CALL_RE.finditer(text):
        items.append(m.group(1) or m.group(2) or m.group(3))
    short = [re.sub(r"^mps_formal_", "", x) for x in items]
    return " ".join(short)


def read_grammar(text):
    decl, rules = split_sections(text)
    tokens, prec = read_decls(decl)
    items = scan_rules(rules)
    prods, lhs, cur, k = [], None, None, 0

    def flush():
        nonlocal cur
        if cur is not None:
            prods.append(cur); cur = None
    while k < len(items):
        it = items[k]
        if it[0] == "id" and k + 1 < len(items) and items[k + 1][0] == ":":
            flush(); lhs = it[1]; cur = {"lhs": lhs, "rhs": [], "prec": None, "act": ""}; k += 2; continue
        if it[0] == "|":
            flush(); cur = {"lhs": lhs, "rhs": [], "prec": None, "act": ""}
        elif it[0] == ";":
            flush()
        elif cur is None:
            raise ValueError("symbol outside a rule")
        elif it[0] == "id": cur["rhs"].append(it[1])
        elif it[0] == "prec": cur["prec"] = it[1]
        elif it[0] == "act": cur["act"] = (cur["act"] + " ; " if cur["act"] else "") + action_tag(it[1])
        k += 1
    flush()
    nts = []
    for p in prods:
        if p["lhs"] not in nts: nts.append(p["lhs"])
    return {"tokens": tokens, "prec": prec, "prods": prods, "nts": nts}


def coq_string(s):
    return '"' + s.replace('"', '""') + '"'


def to_coq(g):
    nts = g["nts"]

    def sym(s):
        return "NT %d" % nts.index(s) if s in nts else "T %s" % coq_string(s)
    L = ["(* GENERATED by checks/c11_yacc_reader.py from src/libmps/monomial/yacc-parser.y -- do not edit. *)",
         "Require Import List String.", "Require Import MPSV.Inline.InlineGrammar.",
         "Import ListNotations.", "Open Scope string_scope.", "",
         "Definition grammar_gen : grammar := {|",
         "  g_tokens := [%s];" % "; ".join(coq_string(t) for t in g["tokens"]),
         "  g_prec := ["]
    L.append(";\n".join("    (%s, [%s])" % ({"left": "AssocLeft", "right": "AssocRight", "nonassoc": "AssocNone",
                                              "precedence": "AssocPrec"}[a], "; ".join(coq_string(t) for t in ts))
                        for a, ts in g["prec"]))
    L.append("  ];")
    L.append("  g_nonterminals := %d;" % len(nts))
    L.append("  g_prods := [")
    L.append(";\n".join("    mkProd %d [%s] %s %s" % (
        nts.index(p["lhs"]), "; ".join(sym(s) for s in p["rhs"]),
        "(Some %s)" % coq_string(p["prec"]) if p["prec"] else "None", coq_string(p["act"])) for p in g["prods"]))
    L.append("  ]")
    L.append("|}.")
    return "\n".join(L) + "\n"


if __name__ == "__main__":
    sys.stdout.write(to_coq(read_grammar(open(sys.argv[1]).read())))
