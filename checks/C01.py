"""C01 - returned discs are true inclusion discs and account for every root.

Run-time claim (translation validation with a proved-sound validator): every solve of the real library
(harness/vf_solve.c, exact export) is judged with the answers of the certified root oracle (bin/cert,
coq/Props/Properties_ORACLE.v) for the exact input equation:
 (a) returned approximations + reported zero roots = degree of the input equation;
 (b) every returned disc (multiprecision accessor; finite radius) contains a root:  lo >= 1 ok,
     hi == 0 VIOLATION (certified: no root in the closed disc), else undecided (counted);
 (c) every root lies in a returned disc (zero roots are the exact point 0):  oracle `uncovered` -> VIOLATION;
 (d) a disc with status ISOLATED / APPROXIMATED holds exactly one root with multiplicity:
     lo == hi == 1 ok, lo >= 2 VIOLATION, hi == 0 VIOLATION.
     (APPROXIMATED_IN_CLUSTER is only ever set for members of a cluster of size > 1 - modify.c, starting.c -
     and makes no such claim.)
Undecided answers never raise an alarm.  The Coq part (coq/Skel, Props/Properties_C01.v) proves that the
bookkeeping steps of the solver keep "disc contains a root" invariant as long as every freshly computed radius
satisfies the Newton contract, the count identity under deflation, and exactly-one-root for pairwise disjoint discs."""
import os, json, collections
from fractions import Fraction as Fr
import vf, solve as S, polygen as G, e2e

PH = {1: "float", 2: "dpe", 3: "mp"}
ALG = {"u": "classic", "s": "secular"}
KIND = {"mps_monomial_poly": "monomial", "mps_secular_equation": "secular", "mps_chebyshev_poly": "chebyshev"}

CONFIGS_EXTRA = [
    ["-a", "u", "-G", "a", "-o", "5"], ["-a", "s", "-G", "a", "-o", "5"], ["-a", "u", "-G", "a", "-o", "15"],
    ["-a", "s", "-G", "a", "-o", "30", "-t", "d"], ["-a", "u", "-G", "a", "-o", "30", "-t", "d"],
    ["-a", "u", "-G", "i", "-b"], ["-a", "s", "-G", "i", "-r"], ["-a", "u", "-G", "a", "-o", "30", "-r", "-b"],
    ["-a", "s", "-G", "a", "-o", "30", "-b", "-t", "d"],
]
CONFIGS_THOROUGH = [
    ["-a", "u", "-G", "a", "-o", "200"], ["-a", "s", "-G", "a", "-o", "200"], ["-a", "u", "-G", "a", "-o", "60", "-c"],
    ["-a", "s", "-G", "i", "-t", "d", "-r"], ["-a", "u", "-G", "i", "-t", "d", "-b"],
]


def sf(x):
    """float for messages; never raises"""
    if x is None: return float("inf")
    try: return float(x)
    except OverflowError: return float("inf") if x > 0 else float("-inf")


def qs(x):
    """exact text of a rational; hexadecimal when the numbers are long (no conversion limit, linear time)"""
    if x is None: return "inf"
    x = Fr(x)
    if x.numerator.bit_length() + x.denominator.bit_length() < 4000: return str(x)
    return "%s/%s" % (hex(x.numerator), hex(x.denominator))


def fdisc(d):
    return [("%.17g" % sf(x)) if x is not None else "inf" for x in d]


def with_threads(o):
    """one worker thread unless the configuration says otherwise: with several threads the order of the Aberth
    updates (hence the returned digits) depends on scheduling, and a check must be reproducible for a seed"""
    return list(o) if "-j" in o else list(o) + ["-j", "1"]


def alg_of(opts):
    return ALG.get(opts[opts.index("-a") + 1], "?") if "-a" in opts else "default"


def cfg_class(rec):
    r = rec["res"]
    kind = KIND.get(r.poly["type"], "?") if r.poly else "?"
    return "%s:%s:%s" % (alg_of(rec["opts"]), PH.get(r.meta.get("lastphase"), "?") if r.meta else "?", kind)


def mark_exact_float_inputs(recs):
    """A FloatingPoint input without a Precision line is an exact equation (input precision 0); the exported
    mpf coefficients are then the equation the solver holds.  They count as exact when they are equal, as
    rationals, to the coefficients the generator wrote (dyadic numbers with short decimal expansions)."""
    n = 0
    for rec in recs:
        r, c = rec["res"], rec["case"]
        p = r.poly
        if r.kind != "ok" or p is None or p.get("exact") or p["type"] != "mps_monomial_poly": continue
        if p["prec"] != 0 or not c.get("coeffs"): continue
        zr = r.meta.get("zero_roots", 0)
        want = [(Fr(a), Fr(b)) for a, b in c["coeffs"]][zr:]
        if [(Fr(a), Fr(b)) for a, b in p["coeffs"]] == want:
            p["exact"] = True; n += 1
    return n


def trim(poly):
    poly = list(poly)
    while len(poly) > 1 and poly[-1][0] == 0 and poly[-1][1] == 0: poly.pop()
    return poly


def build_cases(ctx):
    q = ctx.quick()
    cases = G.standard_cases(ctx.rng, ctx.pick(55, 600), maxdeg=ctx.pick(12, 40))
    cases += G.c01_targeted_cases(ctx.rng, maxdeg=ctx.pick(12, 30), big=not q)
    if not q:
        cases += G.c01_targeted_cases(ctx.rng, maxdeg=20, big=True)
        cases += G.c01_targeted_cases(ctx.rng, maxdeg=12, big=False)
    configs = [with_threads(o) for o in e2e.CONFIGS_QUICK + CONFIGS_EXTRA + ([] if q else CONFIGS_THOROUGH)]
    co = []
    k = ctx.rng.randrange(len(configs))
    for c in cases:
        per = 2 if c["cls"] not in ("secular", "(x-a)^n", "(x-a)^n-2^-k", "roots-1+-2^-k", "huge-ratio") else 3
        for j in range(per):
            o = configs[k % len(configs)]; k += 1
            if q and c["degree"] > 6 and "-o" in o and int(o[o.index("-o") + 1]) > 30:
                o = [("30" if j > 0 and o[j - 1] == "-o" else x) for j, x in enumerate(o)]      # quick tier: cost of the certificate
            if c["cls"] == "chebyshev" and alg_of(o) == "classic":
                o = ["-a", "s"] + o[2:]                   # classic algorithm on a Chebyshev input crashes: C03's finding
            co.append((c, o))
    # roots below the double range: both algorithms, both goals
    for c in G.c01_tiny_root_cases(ctx.rng, ctx.pick(2, 12)):
        cases.append(c)
        for o in (["-a", "u", "-G", "a", "-B", "53"], ["-a", "u", "-G", "i"], ["-a", "s", "-G", "a", "-B", "53"], ["-a", "s", "-G", "i"]):
            co.append((c, with_threads(o)))
    # every secular input also once under the classic algorithm with the default options (C19's finding), and
    # the equation with a zero leading coefficient under both algorithms
    for c in cases:
        if c["cls"] == "secular":
            co.append((c, with_threads(["-a", "u", "-G", "i"])))
        if c["cls"] == "leading-zero":
            co.append((c, with_threads(["-a", "u", "-G", "i"]))); co.append((c, with_threads(["-a", "s", "-G", "i"])))
    return co


def judge(ctx, rec, stats, samples, nontrivial):
    """all four clauses for one solve; returns number of evaluations"""
    r, c, opts = rec["res"], rec["case"], rec["opts"]
    cc = cfg_class(rec)
    rp = {"case": c["name"], "class": c["cls"], "text": c["text"], "opts": opts, "config": cc, "max_bits": c.get("max_bits")}
    ev = 0
    n = len(r.accm)
    zr = r.meta.get("zero_roots", 0)
    # ---- (a) count identity
    declared = r.parsed_degree
    deg = declared
    if rec["poly"] is not None:
        deg = len(trim(rec["poly"])) - 1
        if deg != declared: stats["a:leading-zero-coefficient(declared %s)" % ("> actual" if declared > deg else "< actual")] += 1
    ev += 1
    if rec["poly"] is not None and c.get("coeffs"):
        # the equation the solver holds (deflated polynomial as exported + zero_roots) is the one that was written
        mine = trim([(Fr(a), Fr(b)) for a, b in c["coeffs"]]); theirs = trim(rec["poly"])
        same = len(mine) == len(theirs) and all(S.cmul(x, theirs[-1]) == S.cmul(y, mine[-1]) for x, y in zip(mine, theirs))
        if not same:
            ctx.violation("a:equation-held-differs-from-input:%s:%s" % (cc, c["name"]),
                          "the deflated equation exported by the solver together with zero_roots=%d is not the input equation (%s)" % (zr, c["name"]), dict(rp, clause="a"))
            stats["VIOLATION:a-input:" + cc] += 1
        else: stats["a:equation-held-equals-input"] += 1
    if n + zr != deg or len(r.roots) != n or r.meta.get("n") != n:
        ctx.violation("a:count:%s:%s" % (cc, c["name"]),
                      "%d approximations + %d zero roots returned for an equation of degree %s (declared %s): %s %s"
                      % (n, zr, deg, declared, c["name"], " ".join(opts)), dict(rp, clause="a"))
        stats["VIOLATION:a:" + cc] += 1
    else:
        stats["a:ok"] += 1
    # the multiprecision accessor and the raw fields agree (value, radius)
    for m, o in zip(r.accm, r.roots):
        if not (m.re == o.re and m.im == o.im and m.rad_tok == o.drad_tok): stats["accessor-differs-from-raw-fields"] += 1
    if rec["oracle"] is None:
        stats["not-judged:" + (rec["why"].split(":")[0] or "?")] += 1
        return ev
    orc = rec["oracle"]
    discs = S.discs_of(r)
    fin = [i for i in range(n) if discs[i][2] is not None]
    for i in range(n):
        if discs[i][2] is None: stats["non-finite-radius(no claim)"] += 1
    try:
        ans, covered, uncovered = e2e.judge_discs(orc, [discs[i] for i in fin]) if fin else ([], [], [])
    except Exception as e:
        ctx.notes.append("oracle query failed for %s: %r" % (c["name"], e)); stats["oracle-error"] += 1
        return ev
    # ---- (b) and (d)
    for i, (lo, hi) in zip(fin, ans):
        st = r.roots[i].status
        ev += 1
        info = dict(rp, root=i, status=st, disc=[qs(x) for x in discs[i]], disc_approx=fdisc(discs[i]), oracle=[lo, hi])
        if hi == 0:
            ctx.violation("b:no-root-in-disc:%s:%s" % (cc, c["name"]),
                          "returned disc %d (status %s) contains no root (certified): centre (%.17g, %.17g), radius %.3g; %s %s; last phase %s"
                          % (i, S.STATUS[st], sf(discs[i][0]), sf(discs[i][1]), sf(discs[i][2]), c["name"], " ".join(opts), cc),
                          dict(info, clause="b"))
            stats["VIOLATION:b:" + cc] += 1
        elif lo >= 1:
            stats["b:contains-root:" + cc.split(":")[1]] += 1
            nontrivial.add((c["name"], tuple(opts), i))
        else:
            stats["b:undecided(straddles)"] += 1; stats["undecided-case:b:%s %s" % (c["name"], " ".join(opts))] += 1
        if st in (S.ST_ISOLATED, S.ST_APPROX):
            ev += 1
            if lo >= 2:
                ctx.violation("d:several-roots-in-%s-disc:%s:%s" % (S.STATUS[st].lower(), cc, c["name"]),
                              "disc %d reported %s contains at least %d roots counted with multiplicity (certified): centre (%.17g, %.17g), radius %.3g; %s %s"
                              % (i, S.STATUS[st], lo, sf(discs[i][0]), sf(discs[i][1]), sf(discs[i][2]), c["name"], " ".join(opts)),
                              dict(info, clause="d"))
                stats["VIOLATION:d:" + cc] += 1
            elif lo == 1 and hi == 1: stats["d:exactly-one"] += 1
            elif hi == 0: stats["d:empty(reported under b)"] += 1
            else: stats["d:undecided"] += 1
        else:
            stats["status:%s(no exactly-one claim)" % S.STATUS[st]] += 1
    # ---- (c) coverage
    ev += 1
    if len(fin) < n:
        stats["c:trivial(some radius not finite)"] += 1
    else:
        # The zero roots are reported as a count: the claim is "0 is a root of multiplicity zero_roots", exact, and
        # true of the equation judged here (its zero_roots lowest coefficients are 0 - checked above against the
        # input as generated).  The oracle's tiny disc that contains 0 holds exactly that root, so it is exempt.
        tiny = orc.roots
        exempt = set(j for j, t in enumerate(tiny) if zr > 0 and t["re"] ** 2 + t["im"] ** 2 <= t["radius"] ** 2)
        covered = [cv or j in exempt for j, cv in enumerate(covered)]
        uncovered = [u and j not in exempt for j, u in enumerate(uncovered)]
        if zr > 0 and len(exempt) != 1: stats["c:zero-root-tiny-disc-not-identified"] += 1
        if all(covered): stats["c:all-covered"] += 1
        elif any(uncovered):
            js = [j for j, u in enumerate(uncovered) if u]
            ctx.violation("c:root-not-covered:%s:%s" % (cc, c["name"]),
                          "root(s) near %s of %s lie in no returned disc (certified); %s"
                          % (["(%.17g, %.17g) mult %d" % (sf(tiny[j]["re"]), sf(tiny[j]["im"]), tiny[j]["mult"]) for j in js[:4]], c["name"], " ".join(opts)),
                          dict(rp, clause="c", uncovered_roots=[[qs(tiny[j]["re"]), qs(tiny[j]["im"]), tiny[j]["mult"]] for j in js],
                               discs=[fdisc(d) for d in discs]))
            stats["VIOLATION:c:" + cc] += 1
        else: stats["c:undecided"] += 1; stats["undecided-case:c:%s %s" % (c["name"], " ".join(opts))] += 1
    if len(samples) < 8 and (len(samples) < 4 or c["cls"] not in [s["class"] for s in samples]):
        i0 = fin[0] if fin else None
        samples.append({"case": c["name"], "class": c["cls"], "opts": opts, "config": cc, "degree": deg, "zero_roots": zr,
                        "disc0": fdisc(discs[i0]) if i0 is not None else None, "status0": S.STATUS[r.roots[i0].status] if i0 is not None else None,
                        "oracle_count0": list(ans[0]) if ans else None, "oracle_target_log2": rec.get("target")})
    return ev


def run(ctx):
    ctx.prove()
    ctx.proof_violation_if_broken()
    binary = ctx.compile_harness(["vf_solve.c"], "vf_solve", mode="san")
    env = ctx.san_env()
    if ctx.replay:
        rp = json.load(open(ctx.replay))
        case = {"name": rp["case"], "cls": rp.get("class", "replay"), "text": rp["text"], "coeffs": None, "degree": 0, "max_bits": rp.get("max_bits")}
        co = [(case, rp["opts"])]
    else:
        co = build_cases(ctx)
    ctx.log("running %d solves" % len(co))
    recs = e2e.run_records_safe(ctx, binary, co, env, timeout=ctx.pick(30, 600))
    nfloat = mark_exact_float_inputs(recs)
    ctx.log("solves done")
    # resolution cap by degree (cost of a certificate ~ degree^2 * bits^2)
    if ctx.quick(): cap = lambda d: 1300 if d <= 2 else 700 if d <= 4 else 420 if d <= 8 else 280
    else: cap = lambda d: 3400 if d <= 4 else 2000 if d <= 8 else 1000 if d <= 16 else 600 if d <= 24 else 400
    groups = e2e.certify_records_grouped(ctx, recs, max_bits=cap, max_degree=ctx.pick(20, 40), timeout=ctx.pick(45, 240))
    ctx.log("certification done: %d of %d certified" % (sum(1 for r in recs if r["oracle"] is not None), len(recs)))
    stats = collections.Counter(); samples = []; nontrivial = set(); evaluations = 0
    lists = []; grouped = set()
    for g in groups:
        for rec in g: grouped.add(id(rec))
    for rec in recs:
        if rec["res"].kind != "ok":
            stats["skipped:" + rec["res"].kind] += 1          # errors, crashes, time-outs: C03's business
            stats["skipped-case:%s:%s %s" % (rec["res"].kind, rec["case"]["name"], " ".join(rec["opts"]))] += 1
            continue
        lists.append(rec)
    # judge in parallel (each record owns its oracle process); violations are recorded afterwards, in order
    class Buf:
        def __init__(s): s.v = []; s.notes = []
        def violation(s, *a): s.v.append(a)
    def one(g):          # the records of a group share one oracle process: judged one after the other
        b = Buf(); st = collections.Counter(); sm = []; nt = set(); ev = 0
        for rec in g:
            try: ev += judge(b, rec, st, sm, nt)
            except Exception as e:
                b.notes.append("judge failed for %s: %r" % (rec["case"]["name"], e)); st["judge-error"] += 1
        return b, st, sm, nt, ev
    work = groups + [[rec] for rec in lists if id(rec) not in grouped]
    for b, st, sm, nt, ev in e2e.par_map(one, work):
        for a in b.v: ctx.violation(*a)
        ctx.notes.extend(b.notes)
        stats.update(st); nontrivial |= nt; evaluations += ev
        for s in sm:
            if len(samples) < 8 and (len(samples) < 4 or s["class"] not in [x["class"] for x in samples]): samples.append(s)
    for g in groups:
        try: g[0]["oracle"].close()
        except Exception: pass
    ctx.log("judged")
    judged = [r for r in lists if r["oracle"] is not None]
    detail = {k: v for k, v in stats.items() if k.startswith(("undecided-case:", "skipped-case:"))}
    for k in detail: del stats[k]
    slow = sorted(((round(r["res"].wall, 1), r["case"]["name"], " ".join(r["opts"])) for r in recs if r["res"].wall > 15), reverse=True)[:20]
    undec = sum(v for k, v in stats.items() if "undecided" in k)
    cov = {"evaluations": evaluations, "distinct_nontrivial": len(nontrivial),
           "rule": "one evaluation = one clause instance (count identity per solve, inclusion per disc, exactly-one per isolated/approximated disc, coverage per solve); "
                   "distinct non-trivial = (case, options, root) whose returned disc the oracle certified to contain a root",
           "programs": len(judged), "solves_run": len(recs), "disagreements_checked": undec,
           "disagreements_rule": "oracle answers that stayed undecided (tiny disc straddles the boundary of the returned disc / precision cap); never reported",
           "histogram": dict(stats),
           "why_not_certified": dict(collections.Counter((r["why"].split(":")[0] or "?") for r in recs if r["oracle"] is None)),
           "class_histogram": dict(collections.Counter(r["case"]["cls"] for r in recs)),
           "config_histogram": dict(collections.Counter(cfg_class(r) for r in lists)),
           "options_histogram": dict(collections.Counter(" ".join(x for x in r["opts"] if x not in ("-j", "1")) for r in recs)),
           "degree_histogram": dict(collections.Counter(r["res"].parsed_degree for r in lists)),
           "exact_floating_point_inputs": nfloat, "undecided_and_skipped_cases": sorted(detail)[:60], "slow_solves": slow,
           "slow_certificates": sorted(set((r.get("cert_s", 0), r["case"]["name"], len(r["poly"]) - 1, r.get("target")) for r in recs if r.get("cert_s", 0) > 10 and r["poly"]), reverse=True)[:12], "samples": samples,
           "trusted_base": ["Coq 8.16.1 kernel; Properties_C01 / Properties_ORACLE close under the global context (axiom-free, see axioms_used)",
                            "root oracle bin/cert: extracted (ExtrOcamlBasic, ExtrOcamlNativeString) cert_check + queries, ocaml/cert_driver.ml line protocol, lib/oracle.py client; hints (mpmath/sympy) are untrusted and checked",
                            "harness/vf_solve.c exact export (hex mpf / rdpe / double) and lib/solve.py parser; lib/e2e.py inner/outer disc rounding (exact Fractions)",
                            "secular / Chebyshev inputs: converted to monomial form by the extracted Transform functions (ORACLE_secular_to_monomial_roots, ORACLE_chebyshev_to_monomial_sound)",
                            "skeleton model coq/Skel: numerics abstracted into contracts (radius >= n|p/p'| at the point of evaluation); correspondence of the skeleton to the C code is by reading, the run-time tie is the oracle validation of every solve"]}
    return ctx.finish("translation_validation", cov,
                      ["convergence/termination of the iteration, GMP arithmetic and the rounding-error terms inside the radius formulae are not proved; they are validated per run by the oracle",
                       "component-count half of Gerschgorin's theorem (cluster of k discs holds k roots) is not proved: C01_isolated_exactly_one covers the all-disjoint configuration, the mixed one is stated as _partial",
                       "exact certification is limited to degree <= %d and radii >= 2^-%d in this tier; larger cases are counted as not judged" % (ctx.pick(20, 40), ctx.pick(400, 3400)),
                       "one worker thread (-j 1) so that runs are reproducible; solves that end in an error or crash are left to C03",
                       "a zero leading coefficient lowers the degree of the equation: the count identity is judged against the true degree"])
