"""C01 - returned discs are true inclusion discs and account for every root.

Run-time claim (translation validation with a proved-sound validator): every solve of the real library
(harness/vf_solve.c, exact export) is judged with the answers of the certified root oracle (bin/cert,
coq/Props/Properties_ORACLE.v) for the exact input equation:
 (a) returned approximations + reported zero roots = degree of the input equation;
 (b) every returned disc (multiprecision accessor; finite radius) contains a root:  lo >= 1 ok,
     hi == 0 VIOLATION (certified: no root in the closed disc), else undecided (counted);
 (c) every root lies in a returned disc (zero roots are the exact point 0):  oracle `uncovered` -> VIOLATION;
 (d) a disc with status ISOLATED / APPROXIMATED holds exactly one root with multiplicity:
     lo == hi == 1 ok, lo >= 2 VIOLATION, hi == 0 VIOLATION.
     (APPROXIMATED_IN_CLUSTER is only ever set for members of a cluster of size > 1 - modify.c, starting.c -
     and makes no such claim.)
Undecided answers never raise an alarm.  The Coq part (coq/Skel, Props/Properties_C01.v) proves that the
bookkeeping steps of the solver keep "disc contains a root" invariant as long as every freshly computed radius
satisfies the Newton contract, the count identity under deflation, and exactly-one-root for pairwise disjoint discs.

DPE-PHASE MULTIPLE ROOTS (polygen.c01_dpe_multiple_cases): a double and a triple root in equations whose coefficient range is
beyond the double range (roots ~1e+-400, all coefficients * 10^+-400, all roots * 10^-120), classic and secular algorithm, goals
isolate / approximate, 3 and 5 output digits (one 20-digit control), so that the clusters are declared approximated by the DPE-phase
status update (mps_dmodify); judged by the same four clauses (clause (d) is the one at stake).
Two more families:  REUSE (harness/c01_reuse.c): sequences of 2-3 solves on ONE context, every segment judged as above.
EVENT TRACES (harness/c01_trace.c, bin/trc = extracted coq/Skel/TraceDefs.v): ~30 solves are repeated with the six Newton
entry points wrapped at link time; the disc of every root at every Newton entry / exit and the returned disc form a
per-root trace; the extracted acceptor classifies every transition (contains the previous disc = move-and-enlarge, else
FRESH) and every fresh radius is an obligation validated by the oracle (C01_trace_sound: obligations hold => every disc
along the trace holds); every improve_root step must be move-and-enlarge of its Newton disc (extracted improve_step_ok,
up to the rounding of the DPE additions)."""
import os, json, collections, random
from fractions import Fraction as Fr
import vf, solve as S, polygen as G, e2e

PH = {1: "float", 2: "dpe", 3: "mp"}
ALG = {"u": "classic", "s": "secular"}
KIND = {"mps_monomial_poly": "monomial", "mps_secular_equation": "secular", "mps_chebyshev_poly": "chebyshev"}

CONFIGS_EXTRA = [
    ["-a", "u", "-G", "a", "-o", "5"], ["-a", "s", "-G", "a", "-o", "5"], ["-a", "u", "-G", "a", "-o", "15"],
    ["-a", "s", "-G", "a", "-o", "30", "-t", "d"], ["-a", "u", "-G", "a", "-o", "30", "-t", "d"],
    ["-a", "u", "-G", "i", "-b"], ["-a", "s", "-G", "i", "-r"], ["-a", "u", "-G", "a", "-o", "30", "-r", "-b"],
    ["-a", "s", "-G", "a", "-o", "30", "-b", "-t", "d"],
]
CONFIGS_THOROUGH = [
    ["-a", "u", "-G", "a", "-o", "200"], ["-a", "s", "-G", "a", "-o", "200"], ["-a", "u", "-G", "a", "-o", "60", "-c"],
    ["-a", "s", "-G", "i", "-t", "d", "-r"], ["-a", "u", "-G", "i", "-t", "d", "-b"],
]


def sf(x):
    """float for messages; never raises"""
    if x is None: return float("inf")
    try: return float(x)
    except OverflowError: return float("inf") if x > 0 else float("-inf")


def qs(x):
    """exact text of a rational; hexadecimal when the numbers are long (no conversion limit, linear time)"""
    if x is None: return "inf"
    x = Fr(x)
    if x.numerator.bit_length() + x.denominator.bit_length() < 4000: return str(x)
    return "%s/%s" % (hex(x.numerator), hex(x.denominator))


def fdisc(d):
    return [("%.17g" % sf(x)) if x is not None else "inf" for x in d]


def with_threads(o):
    """one worker thread unless the configuration says otherwise: with several threads the order of the Aberth
    updates (hence the returned digits) depends on scheduling, and a check must be reproducible for a seed"""
    return list(o) if "-j" in o else list(o) + ["-j", "1"]


def alg_of(opts):
    return ALG.get(opts[opts.index("-a") + 1], "?") if "-a" in opts else "default"


def cfg_class(rec):
    r = rec["res"]
    kind = KIND.get(r.poly["type"], "?") if r.poly else "?"
    return "%s:%s:%s" % (alg_of(rec["opts"]), PH.get(r.meta.get("lastphase"), "?") if r.meta else "?", kind)


def mark_exact_float_inputs(recs):
    """A FloatingPoint input without a Precision line is an exact equation (input precision 0); the exported
    mpf coefficients are then the equation the solver holds.  They count as exact when they are equal, as
    rationals, to the coefficients the generator wrote (dyadic numbers with short decimal expansions)."""
    n = 0
    for rec in recs:
        r, c = rec["res"], rec["case"]
        p = r.poly
        if r.kind != "ok" or p is None or p.get("exact") or p["type"] != "mps_monomial_poly": continue
        if p["prec"] != 0 or not c.get("coeffs"): continue
        zr = r.meta.get("zero_roots", 0)
        want = [(Fr(a), Fr(b)) for a, b in c["coeffs"]][zr:]
        if [(Fr(a), Fr(b)) for a, b in p["coeffs"]] == want:
            p["exact"] = True; n += 1
    return n


def trim(poly):
    poly = list(poly)
    while len(poly) > 1 and poly[-1][0] == 0 and poly[-1][1] == 0: poly.pop()
    return poly


def build_cases(ctx):
    q = ctx.quick()
    cases = G.standard_cases(ctx.rng, ctx.pick(55, 600), maxdeg=ctx.pick(12, 40))
    cases += G.c01_targeted_cases(ctx.rng, maxdeg=ctx.pick(12, 30), big=not q)
    if not q:
        cases += G.c01_targeted_cases(ctx.rng, maxdeg=20, big=True)
        cases += G.c01_targeted_cases(ctx.rng, maxdeg=12, big=False)
    configs = [with_threads(o) for o in e2e.CONFIGS_QUICK + CONFIGS_EXTRA + ([] if q else CONFIGS_THOROUGH)]
    co = []
    k = ctx.rng.randrange(len(configs))
    for c in cases:
        per = 2 if c["cls"] not in ("secular", "(x-a)^n", "(x-a)^n-2^-k", "roots-1+-2^-k", "huge-ratio") else 3
        for j in range(per):
            o = configs[k % len(configs)]; k += 1
            if q and c["degree"] > 6 and "-o" in o and int(o[o.index("-o") + 1]) > 30:
                o = [("30" if j > 0 and o[j - 1] == "-o" else x) for j, x in enumerate(o)]      # quick tier: cost of the certificate
            if c["cls"] == "chebyshev" and alg_of(o) == "classic":
                o = ["-a", "s"] + o[2:]                   # classic algorithm on a Chebyshev input crashes: C03's finding
            co.append((c, o))
    # roots below the double range: both algorithms, both goals
    for c in G.c01_tiny_root_cases(ctx.rng, ctx.pick(2, 12)):
        cases.append(c)
        for o in (["-a", "u", "-G", "a", "-B", "53"], ["-a", "u", "-G", "i"], ["-a", "s", "-G", "a", "-B", "53"], ["-a", "s", "-G", "i"]):
            co.append((c, with_threads(o)))
    # every secular input also once under the classic algorithm with the default options (C19's finding), and
    # the equation with a zero leading coefficient under both algorithms
    for c in cases:
        if c["cls"] == "secular":
            co.append((c, with_threads(["-a", "u", "-G", "i"])))
        if c["cls"] == "leading-zero":
            co.append((c, with_threads(["-a", "u", "-G", "i"]))); co.append((c, with_threads(["-a", "s", "-G", "i"])))
    return co


# ----------------------------------------------------------------------------- multiple roots settled in the DPE phase
DPEMULT_PLAN = [          # (case, algorithm, goal, output digits)
    ("dpemult_big", "u", "i", 3), ("dpemult_big", "u", "a", 3), ("dpemult_big", "s", "i", 5), ("dpemult_big", "s", "a", 3), ("dpemult_big", "u", "a", 20),
    ("dpemult_small", "u", "i", 3), ("dpemult_small", "u", "a", 3), ("dpemult_small", "s", "i", 5), ("dpemult_small", "s", "i", 20),
    ("dpemult_coef_up", "u", "i", 3), ("dpemult_coef_up", "s", "a", 3), ("dpemult_coef_up", "u", "a", 5),
    ("dpemult_coef_down", "u", "a", 3), ("dpemult_coef_down", "s", "i", 5),
    ("dpemult_rootscale", "u", "i", 3), ("dpemult_rootscale", "u", "a", 5), ("dpemult_rootscale", "s", "a", 3),
]


def dpe_multiple_jobs(ctx):
    """(case, options) of the family 'multiple roots solved in the DPE phase at low output precision'.  The generator draws
    from a generator seeded from ctx.rng whose state is then put back, so the other families see the stream they always saw."""
    st = ctx.rng.getstate(); sub = random.Random(ctx.rng.getrandbits(64)); ctx.rng.setstate(st)
    cs = {c["name"]: c for c in G.c01_dpe_multiple_cases(sub)}
    return [(cs[nm], with_threads(["-a", a, "-G", g, "-o", str(o)])) for nm, a, g, o in DPEMULT_PLAN]


def dpe_multiple_histogram(recs):
    """evidence view of the family: per solve the phase it ended in and the statuses returned; totals per phase / status"""
    fam = [r for r in recs if r["case"]["cls"] == "multiple-roots-dpe-phase"]
    per = {}; tot = collections.Counter()
    for rec in fam:
        r = rec["res"]; key = "%s %s" % (rec["case"]["name"], " ".join(x for x in rec["opts"] if x not in ("-j", "1")))
        if r.kind != "ok":
            per[key] = "not judged: solve ended as " + r.kind; tot["solve:" + r.kind] += 1; continue
        ph = PH.get(r.meta.get("lastphase"), "?") if r.meta else "?"
        sts = collections.Counter(S.STATUS[x.status] for x in r.roots)
        per[key] = "last phase %s; %s; %s" % (ph, ", ".join("%d %s" % (v, k) for k, v in sorted(sts.items())),
                                             "judged by the oracle" if rec["oracle"] is not None else "not judged (%s)" % (rec["why"].split(":")[0] or "?"))
        tot["solves:%s:last-phase-%s" % (alg_of(rec["opts"]), ph)] += 1
        tot["solves:judged" if rec["oracle"] is not None else "solves:not-judged"] += 1
        for k, v in sts.items(): tot["returned-status:%s:last-phase-%s" % (k, ph)] += v
    return {"solves": len(fam), "histogram": dict(tot), "per_solve": per}


# ----------------------------------------------------------------------------- context reuse family
BAD_POL = "Monomial;\nDegree=3;\nInteger;\nReal;\nDense;\n\n1\n2\nx7\n4\n"


def reuse_sequences(ctx):
    """Sequences of 2-3 solves on ONE context.  A sequence = (pattern name, [(case, opts), ...]).  Every segment is
    an equation with a generator-side exact form (case["coeffs"]), so that it is judged exactly like a fresh solve.
    The patterns are aimed at what a context keeps between solves: zero_roots, n / degree (resize), the
    approximations' status/again/approximated flags, the secular equation built for the previous input, the working
    precision reached by a previous `approximate`, the sticky error state."""
    rng = ctx.rng
    Z = (Fr(0), Fr(0))
    def tag(c, t, cls=None):
        c = dict(c); c["tag"] = t
        if cls: c["cls"] = cls
        return c
    def mono(d=None):
        return tag(G.mono_case("m", "reuse-monomial", G.rand_int_poly(rng, d or rng.randint(2, 6), rng.choice([4, 10])), rng), "mono")
    def roots(k=None):
        rs = list({G.rand_dyadic_root(rng, 4, 2, rng.random() < 0.5) for _ in range(k or rng.randint(2, 5))})
        return tag(G.from_roots_case("r", "reuse-monomial", rs, rng), "mono")
    def zero(d=None, k=None):
        c = G.rand_int_poly(rng, d or rng.randint(2, 5), 6, complex_=(rng.random() < 0.3))
        return tag(G.mono_case("z", "reuse-zero-roots", [Z] * (k or rng.randint(1, 3)) + c, rng, sparse=False), "zero-mono")
    def zero1():
        c = [(Fr(rng.randint(-9, 9) or 1), Fr(0)), (Fr(rng.randint(1, 9)), Fr(0))]
        return tag(G.mono_case("z1", "reuse-zero-roots", [Z] * rng.randint(1, 3) + c, rng, sparse=False), "zero-deg1")
    def deg1():
        return tag(G.mono_case("d1", "reuse-monomial", [(Fr(rng.randint(-9, 9) or 1), Fr(0)), (Fr(rng.randint(1, 9)), Fr(0))], rng), "deg1")
    def sec(n=None): return tag(G.secular_case("s", rng, n or rng.randint(2, 5), rng.random() < 0.3), "secular", "reuse-secular")
    def cheb(n=None): return tag(G.chebyshev_case("c", rng, n or rng.randint(2, 5)), "chebyshev", "reuse-chebyshev")
    def bad(): return tag({"name": "bad", "cls": "reuse-parse-error", "text": BAD_POL, "coeffs": None, "degree": 0}, "bad")
    U, Sx = ["-a", "u"], ["-a", "s"]
    I, A = ["-G", "i"], ["-G", "a", "-o", "30"]
    def same(c): return dict(c)
    pats = []
    pats.append(("zero>sec", lambda: [(zero(), Sx + I), (sec(), Sx + I)]))
    pats.append(("zero>cheb", lambda: [(zero(), U + I), (cheb(), Sx + I)]))
    pats.append(("zero>mono>sec", lambda: [(zero(), U + I), (mono(), U + A), (sec(), Sx + A)]))
    pats.append(("iso-s>zero1-s", lambda: [(mono(), Sx + I), (zero1(), Sx + I)]))
    pats.append(("iso-u>zero1-s", lambda: [(roots(), U + I), (zero1(), Sx + I)]))
    pats.append(("iso-s>deg1-s", lambda: [(mono(), Sx + I), (deg1(), Sx + I)]))
    pats.append(("mono>bad>mono", lambda: [(mono(), U + I), (bad(), U + I), (mono(), U + I)]))
    def iso_then_approx(alg):
        c = roots()
        return [(c, alg + I), (same(c), alg + A)]
    pats.append(("iso>approx-u", lambda: iso_then_approx(U)))
    pats.append(("iso>approx-s", lambda: iso_then_approx(Sx)))
    pats.append(("approx>iso-smaller", lambda: [(mono(6), Sx + A), (mono(3), Sx + I)]))
    pats.append(("sec>zero-u", lambda: [(sec(), Sx + I), (zero(), U + I)]))
    pats.append(("cheb>sec>zero", lambda: [(cheb(), Sx + I), (sec(), Sx + A), (zero(), Sx + I)]))
    pats.append(("big>small>big", lambda: [(mono(6), U + I), (mono(2), Sx + I), (mono(5), U + A)]))
    pats.append(("zero>mono-same-degree", lambda: [(zero(3, 2), Sx + I), (mono(5), Sx + I)]))
    pats.append(("approx-u>zero1-u", lambda: [(roots(), U + A), (zero1(), U + I)]))
    out = []
    for rep in range(ctx.pick(2, 12)):
        for name, fn in pats:
            if name == "mono>bad>mono" and rep > 0: continue
            segs = []
            for k, (c, o) in enumerate(fn()):
                c = dict(c); c["name"] = "reuse[%s]%d:%s" % (name, k, c["tag"])
                segs.append((c, with_threads(o)))
            out.append((name, segs))
    return out


def run_reuse(ctx, binary, seqs, env, timeout=120):
    """run harness/c01_reuse on every sequence; one record per segment (same shape as e2e.run_records)"""
    import subprocess, time
    wd = os.path.join(ctx.scratch, "reuse"); os.makedirs(wd, exist_ok=True)
    def one(js):
        j, (name, segs) = js
        argv = [binary]
        for k, (c, o) in enumerate(segs):
            path = os.path.join(wd, "seq%d_%d.pol" % (j, k))
            with open(path, "w") as f: f.write(c["text"])
            argv += ([] if k == 0 else ["--"]) + [path] + list(o)
        t0 = time.time()
        try:
            p = subprocess.run(argv, stdout=subprocess.PIPE, stderr=subprocess.PIPE, env=env, timeout=timeout)
            out = p.stdout.decode("utf-8", "replace"); err = p.stderr.decode("utf-8", "replace"); rc = p.returncode
        except subprocess.TimeoutExpired:
            out, err, rc = "", "", None
        wall = time.time() - t0
        parts = {}
        cur = None
        for ln in out.split("\n"):
            if ln.startswith("SEGMENT-END "): cur = None
            elif ln.startswith("SEGMENT "): cur = int(ln.split()[1]); parts[cur] = []
            elif cur is not None: parts[cur].append(ln)
        recs = []
        for k, (c, o) in enumerate(segs):
            done = ("SEGMENT-END %d\n" % k) in out
            if done:
                try: r = S.parse_export("\n".join(parts.get(k, [])))
                except (MemoryError, OverflowError, ValueError) as e:
                    r = S.SolveResult(); r.kind = "unparsed"; r.msg = repr(e)[:200]
            else:
                r = S.SolveResult()
                r.kind = "timeout" if rc is None else ("sanitizer" if rc in (97, 98) or "AddressSanitizer" in err or "runtime error:" in err else "crash")
                r.stderr = err[-3000:]
            r.rc = rc; r.wall = wall if k == len(segs) - 1 else 0.0
            recs.append({"case": c, "opts": o, "res": r, "poly": None, "oracle": None, "why": "",
                         "reuse": {"pattern": name, "k": k, "segments": [{"name": cc["name"], "cls": cc["cls"], "text": cc["text"], "opts": oo,
                                                                          "coeffs": None} for cc, oo in segs]}})
        return recs
    res = []
    for rs in e2e.par_map(one, list(enumerate(seqs)), workers=8): res += rs
    return res


# ----------------------------------------------------------------------------- event traces (tie of the skeleton theorems)
TRACE_WRAP = ["mps_polynomial_fnewton", "mps_polynomial_dnewton", "mps_polynomial_mnewton", "mps_secular_fnewton", "mps_secular_dnewton",
              "mps_secular_mnewton", "mps_improve", "mps_validate_inclusions", "mps_faberth_packet", "mps_daberth_packet", "mps_maberth_packet"]
TRACE_MAX_BITS = 12000           # numbers longer than this, and radii >= 2^1000 (DBL_MAX, RDPE_BIG), count as "no claim"
SITE = {"W": "classic-worker", "I": "improve_root", "J": "jacobi-aberth", "S": "secular-iteration", "V": "validate-inclusions", "R": "returned"}
IMPROVE_SLACK_LOG2 = 40          # improve_root adds its terms in double-mantissa DPE arithmetic (round to nearest): see trace_tie


def _mpx(tok):
    h, e = tok.split(":"); m = int(h, 16); e = int(e)
    return Fr(m * (1 << e)) if e >= 0 else Fr(m, 1 << (-e))


def _bits(x): return x.numerator.bit_length() + x.denominator.bit_length()


def parse_trace(text):
    """RE lines of harness/c01_trace.c -> {root index: [obs]}, obs = dict(k='e'|'x', ar, site, again, c=(re, im) or None, r=Fraction or None)"""
    per = collections.defaultdict(list)
    for ln in text.split("\n"):
        if not ln.startswith("RE "): continue
        t = ln.split()
        ar, ev, i, site, again = t[1], t[2], int(t[3]), t[4], int(t[5])
        if ar == "f": re_, im_, rad = S.fr_of_dhex(t[6]), S.fr_of_dhex(t[7]), S.fr_of_dhex(t[8])
        elif ar == "d": re_, im_, rad = S.fr_of_rdpe(t[6]), S.fr_of_rdpe(t[7]), S.fr_of_rdpe(t[8])
        else: re_, im_, rad = _mpx(t[6]), _mpx(t[7]), S.fr_of_rdpe(t[8])
        ok = all(isinstance(x, Fr) and _bits(x) <= TRACE_MAX_BITS for x in (re_, im_))
        if not (isinstance(rad, Fr) and ok and _bits(rad) <= TRACE_MAX_BITS and rad < Fr(1 << 1000)): rad = None
        per[i].append({"k": "e" if ev == "entry" else "x", "ar": ar, "site": site, "again": again, "c": (re_, im_) if ok else None, "r": rad})
    return per


def _qtok(x):
    return "%s0x%x/0x%x" % ("-" if x < 0 else "", abs(x.numerator), x.denominator)


def _obs_tokens(o):
    c = o["c"] or (Fr(0), Fr(0))
    return "%s %s %s %s" % (o["k"], _qtok(c[0]), _qtok(c[1]), _qtok(o["r"]) if (o["r"] is not None and o["c"] is not None) else "-")


def select_trace_jobs(ctx, co, count):
    """a spread of (case, options) of the main family for the hooked runs: exact inputs of small degree, every algorithm /
    goal / phase / Jacobi / recursive / crude configuration when available"""
    seen = collections.Counter(); out = []
    pool = [(c, o) for c, o in co if c.get("coeffs") and 1 <= c["degree"] <= 8 and c["cls"] not in ("dyadic-float",)]
    ctx.rng.shuffle(pool)
    # the two inputs with a known defect are always traced (their event-trace view is listed in known/C01.json)
    for nm, alg, goal in (("lead0", "secular", "i"), ("tinyroot_regress", "classic", "a")):
        for c, o in pool:
            if c["name"] == nm and alg_of(o) == alg and o[o.index("-G") + 1] == goal and "-t" not in o:
                out.append((c, o)); break
    for c, o in pool:
        key = (alg_of(o), "a" if "a" in o[o.index("-G") + 1:o.index("-G") + 2] else "i", "-b" in o, "-t" in o, "-r" in o, "-c" in o,
               c["cls"] in ("secular", "chebyshev") and c["cls"])
        if seen[key] >= max(1, count // 10) or (c, o) in out: continue
        seen[key] += 1; out.append((c, o))
        if len(out) >= count: break
    return out


def run_trace_jobs(ctx, binary, jobs, env, timeout=120):
    """like e2e.run_records_safe, but keeps the raw text (RE lines) in res.raw"""
    import subprocess, time
    wd = os.path.join(ctx.scratch, "trace"); os.makedirs(wd, exist_ok=True)
    def one(ij):
        i, (c, o) = ij
        path = os.path.join(wd, "t%d.pol" % i)
        with open(path, "w") as f: f.write(c["text"])
        t0 = time.time()
        try:
            p = subprocess.run([binary, path] + list(o), stdout=subprocess.PIPE, stderr=subprocess.PIPE, env=env, timeout=timeout)
            out = p.stdout.decode("utf-8", "replace"); err = p.stderr.decode("utf-8", "replace"); rc = p.returncode
        except subprocess.TimeoutExpired:
            r = S.SolveResult(); r.kind = "timeout"; r.raw = ""; return r
        if rc != 0:
            r = S.SolveResult(); r.kind = "sanitizer" if rc in (97, 98) or "AddressSanitizer" in err else "crash"; r.raw = ""; r.rc = rc; return r
        try: r = S.parse_export(out)
        except (MemoryError, OverflowError, ValueError) as e:
            r = S.SolveResult(); r.kind = "unparsed"; r.msg = repr(e)[:200]
        r.raw = out; r.rc = rc; r.wall = time.time() - t0
        return r
    res = e2e.par_map(one, list(enumerate(jobs)), workers=8)
    return [{"case": c, "opts": o, "res": r, "poly": None, "oracle": None, "why": ""} for (c, o), r in zip(jobs, res)]


def obligation_bounds(orc, discs):
    """(lo, hi) per disc, valid bounds on the number of roots in the CLOSED disc, cheapest question first: a short inner
    disc that holds a root settles 'contains a root'; only the others are asked with a short outer disc (hi == 0 settles
    'contains no root') and then with their full-length numbers."""
    n = len(discs); lo = [0] * n; hi = [None] * n
    inner = [e2e.inner_disc(d) for d in discs]
    ii = [i for i in range(n) if inner[i] is not None]
    if ii:
        for i, (l, h) in zip(ii, orc.count([inner[i] for i in ii])): lo[i] = l
    rest = [i for i in range(n) if lo[i] == 0]
    if rest:
        for i, (l, h) in zip(rest, orc.count([e2e.outer_disc(discs[i]) for i in rest])): hi[i] = h
    rest = [i for i in rest if hi[i] != 0 and max(_bits(x) for x in discs[i]) <= 40000]
    if rest:
        for i, (l, h) in zip(rest, orc.count([discs[i] for i in rest])): lo[i] = max(lo[i], l); hi[i] = h if hi[i] is None else min(hi[i], h)
    return [(lo[i], hi[i]) for i in range(n)]


def trace_tie(ctx, tbinary, jobs, env, stats, cap, shared, tried=()):
    """Run the hooked harness on `jobs`, classify every transition of every root with the extracted acceptor (bin/trc),
    validate every fresh-radius obligation with the certified oracle, and require every improve_root step to be
    move-and-enlarge of its Newton disc.  Returns (evaluations, samples)."""
    recs = run_trace_jobs(ctx, tbinary, jobs, env, timeout=ctx.pick(60, 600))
    evals = 0; samples = []
    todo = []
    for rec in recs:
        r = rec["res"]
        if r.kind != "ok":
            stats["trace:skipped:" + r.kind] += 1; continue
        per = parse_trace(r.raw)
        discs = S.discs_of(r)
        traces = []
        for i in range(len(r.accm)):
            tr = list(per.get(i, []))
            d = discs[i]
            rad = d[2] if (d[2] is not None and d[2] < Fr(1 << 1000) and _bits(d[2]) <= TRACE_MAX_BITS) else None
            okc = _bits(d[0]) <= TRACE_MAX_BITS and _bits(d[1]) <= TRACE_MAX_BITS
            tr.append({"k": "f", "ar": "m", "site": "R", "again": 0, "c": (d[0], d[1]) if okc else None, "r": rad})
            traces.append(tr)
        rec["traces"] = traces
        todo.append(rec)
    ctx.log("trace: %d hooked solves done" % len(todo))
    # ---- the extracted acceptor: one T line per root
    lines = []; owner = []
    for rec in todo:
        for i, tr in enumerate(rec["traces"]):
            lines.append("T %d %s" % (len(tr), " ".join(_obs_tokens(o) for o in tr))); owner.append((rec, i))
    outs = ctx.run_model_lines("trc", lines, workers=8) if lines else []
    for (rec, i), line, out in zip(owner, lines, outs):
        t = out.split()
        tr = rec["traces"][i]
        if len(t) != 2 or len(t[0]) != len(tr) or sum(1 for ch in t[0] if ch in "1F") != int(t[1]):
            raise vf.InfraError("bin/trc answered %r for a trace of %d observations" % (out[:80], len(tr)))
        for o, ch in zip(tr, t[0]): o["cls"] = ch
    ctx.log("trace: %d per-root traces classified by bin/trc" % len(lines))
    # ---- improve_root steps: Newton disc at exit (site I) -> next observation of that root
    ilines = []; iown = []
    for rec in todo:
        for i, tr in enumerate(rec["traces"]):
            for j, o in enumerate(tr):
                if o["site"] == "I" and o["k"] == "x" and j + 1 < len(tr) and o["r"] is not None and o["c"] is not None:
                    nx = tr[j + 1]
                    if nx["r"] is None or nx["c"] is None: stats["trace:improve:next-disc-no-claim"] += 1; continue
                    slack = nx["r"] + nx["r"] / (1 << IMPROVE_SLACK_LOG2)
                    ilines.append("I %s %s %s %s %s %s" % (_qtok(o["c"][0]), _qtok(o["c"][1]), _qtok(o["r"]), _qtok(nx["c"][0]), _qtok(nx["c"][1]), _qtok(nx["r"])))
                    ilines.append("I %s %s %s %s %s %s" % (_qtok(o["c"][0]), _qtok(o["c"][1]), _qtok(o["r"]), _qtok(nx["c"][0]), _qtok(nx["c"][1]), _qtok(slack)))
                    iown.append((rec, i, j))
    iouts = ctx.run_model_lines("trc", ilines, workers=8) if ilines else []
    for k, (rec, i, j) in enumerate(iown):
        exact, loose = iouts[2 * k].strip(), iouts[2 * k + 1].strip()
        evals += 1
        cc = cfg_class(rec); c = rec["case"]
        if exact == "1": stats["trace:improve:exact-move-and-enlarge"] += 1
        elif loose == "1": stats["trace:improve:move-and-enlarge-up-to-2^-%d-of-the-radius(fresh obligation)" % IMPROVE_SLACK_LOG2] += 1
        else:
            o, nx = rec["traces"][i][j], rec["traces"][i][j + 1]
            stats["VIOLATION:trace:improve"] += 1
            ctx.violation("correspondence:improve-not-move-and-enlarge:%s:%s" % (cc, c["name"]),
                          "improve_root step of root %d: the disc held after the step (centre %.17g %.17g radius %.3g, %s) does not contain the Newton disc of the "
                          "step (centre %.17g %.17g radius %.3g): not move-and-enlarge (Skel SImprove); %s %s"
                          % (i, sf(nx["c"][0]), sf(nx["c"][1]), sf(nx["r"]), SITE.get(nx["site"]), sf(o["c"][0]), sf(o["c"][1]), sf(o["r"]), c["name"], " ".join(rec["opts"])),
                          {"case": c["name"], "class": c["cls"], "text": c["text"], "opts": rec["opts"], "config": cc, "trace": True, "root": i, "event": j,
                           "newton_disc": [qs(o["c"][0]), qs(o["c"][1]), qs(o["r"])], "next_disc": [qs(nx["c"][0]), qs(nx["c"][1]), qs(nx["r"])]}, True)
    # ---- obligations -> oracle
    def tgt(rec):
        rs = [o["r"] for tr in rec["traces"] for o in tr if o.get("cls") in ("1", "F") and o["r"] is not None and o["r"] > 0]
        return (e2e.min_radius_log2([(0, 0, x) for x in rs], floor=-10 ** 9) - 16) if rs else -60
    for rec in todo: rec["target_override"] = tgt(rec)
    ctx.log("trace: improve steps checked")
    # the certified oracle of the same exact equation is shared with the main family when there is one (its answers are sound
    # at any resolution; a coarser resolution only leaves more answers undecided)
    fresh = []; by_orc = collections.OrderedDict()
    for rec in todo:
        try: poly = e2e.full_poly_of_result(rec["res"])
        except Exception: poly = None
        o = shared.get(tuple(poly)) if poly is not None else None
        if o is not None:
            rec["poly"] = poly; rec["oracle"] = o; by_orc.setdefault(id(o), []).append(rec); stats["trace:oracle-shared-with-main-family"] += 1
        elif poly is not None and tuple(poly) in tried:
            rec["why"] = "uncertified(main family)"        # the certificate of this equation was not obtained in this run: not tried again
        else: fresh.append(rec)
    own = e2e.certify_records_grouped(ctx, fresh, max_bits=cap, max_degree=ctx.pick(20, 40), timeout=ctx.pick(45, 240)) if fresh else []
    groups = list(by_orc.values()) + own
    ctx.log("trace: certificates checked (%d shared, %d own)" % (len(by_orc), len(own)))
    def one(g):
        st = collections.Counter(); viol = []; ev = 0; sm = []
        for rec in g:
            orc = rec["oracle"]; cc = cfg_class(rec); c = rec["case"]
            obl = [(i, j, o) for i, tr in enumerate(rec["traces"]) for j, o in enumerate(tr) if o["cls"] in ("1", "F")]
            for i, tr in enumerate(rec["traces"]):
                for j, o in enumerate(tr):
                    st["trace:class:%s:%s" % ({"N": "no-claim", "1": "first-claim(fresh)", "S": "same-disc", "E": "same-centre-larger-radius",
                                                "M": "move-and-enlarge", "F": "fresh-radius"}[o["cls"]], SITE.get(o["site"], o["site"]) + ("-entry" if o["k"] == "e" else "-exit" if o["k"] == "x" else ""))] += 1
            last_fresh = {i: max([j for j, o in enumerate(tr) if o["cls"] in ("1", "F")] or [-1]) for i, tr in enumerate(rec["traces"])}
            uniq = {}
            for i, j, o in obl: uniq.setdefault((o["c"], o["r"]), []).append((i, j, o))
            keys = list(uniq)
            try: ans = obligation_bounds(orc, [(k[0][0], k[0][1], k[1]) for k in keys]) if keys else []
            except Exception as e:
                st["trace:oracle-error"] += 1; continue
            for k, (lo, hi) in zip(keys, ans):
                for i, j, o in uniq[k]:
                    ev += 1
                    if lo >= 1: st["trace:obligation:contains-root:" + o["ar"]] += 1
                    elif hi == 0 and not (j == last_fresh[i] or o["site"] in ("W", "I")):
                        # a radius computed by the secular iteration / a Jacobi-Aberth packet of the secular algorithm refers to the
                        # REGENERATED secular equation (floating-point coefficients), not to the input: such a disc may miss the
                        # roots of the input; it is superseded by a later fresh radius (validated in its turn) before anything is returned
                        st["trace:obligation:refuted-but-superseded(%s, not the disc the returned one derives from)" % SITE.get(o["site"])] += 1
                    elif hi == 0:
                        st["VIOLATION:trace:obligation"] += 1
                        viol.append(("correspondence:newton-contract:%s:%s" % (cc, c["name"]),
                                     "event trace of root %d, observation %d (%s %s, arithmetic %s): the fresh disc centre (%.17g, %.17g) radius %.3g contains no root "
                                     "(certified): the hypothesis of C01_disc_invariant / C01_trace_sound fails at this event; %s %s"
                                     % (i, j, SITE.get(o["site"]), {"e": "entry", "x": "exit", "f": "returned"}[o["k"]], o["ar"], sf(o["c"][0]), sf(o["c"][1]), sf(o["r"]),
                                        c["name"], " ".join(rec["opts"])),
                                     {"case": c["name"], "class": c["cls"], "text": c["text"], "opts": rec["opts"], "config": cc, "trace": True, "root": i, "event": j,
                                      "disc": [qs(o["c"][0]), qs(o["c"][1]), qs(o["r"])], "site": SITE.get(o["site"]), "max_bits": c.get("max_bits")}, True))
                    else: st["trace:obligation:undecided"] += 1
            if len(sm) < 2 and rec["traces"]:
                tr0 = rec["traces"][0]
                sm.append({"case": c["name"], "opts": rec["opts"], "config": cc, "root0_classes": "".join(o["cls"] for o in tr0)[:120],
                           "root0_sites": "".join(o["site"] for o in tr0)[:120], "obligations": len(obl), "observations": sum(len(t) for t in rec["traces"])})
        return st, viol, ev, sm
    for st, viol, ev, sm in e2e.par_map(one, groups, workers=8):
        stats.update(st); evals += ev
        for v in viol: ctx.violation(*v)
        for x in sm:
            if len(samples) < 4: samples.append(x)
    for rec in todo:
        if rec["oracle"] is None: stats["trace:not-judged:" + (rec["why"].split(":")[0] or "?")] += 1
    for g in own:
        try: g[0]["oracle"].close()
        except Exception: pass
    stats["trace:solves"] += len(todo)
    return evals, samples


def judge(ctx, rec, stats, samples, nontrivial):
    """all four clauses for one solve; returns number of evaluations"""
    r, c, opts = rec["res"], rec["case"], rec["opts"]
    cc = cfg_class(rec)
    rp = {"case": c["name"], "class": c["cls"], "text": c["text"], "opts": opts, "config": cc, "max_bits": c.get("max_bits")}
    if c.get("oracle_target_log2") is not None: rp["oracle_target_log2"] = c["oracle_target_log2"]
    if rec.get("reuse"):
        rp["reuse"] = {"pattern": rec["reuse"]["pattern"], "k": rec["reuse"]["k"],
                       "segments": [{k: v for k, v in s.items() if k != "coeffs"} for s in rec["reuse"]["segments"]]}
        stats["reuse:judged-segment"] += 1
    ev = 0
    n = len(r.accm)
    zr = r.meta.get("zero_roots", 0)
    if r.poly is not None and r.poly["type"] != "mps_monomial_poly" and zr != 0:
        # zero roots are only ever deflated from a monomial input: for a secular / Chebyshev input the reported count
        # must be 0 (the equation judged below would otherwise be x^zr * input, not the input)
        ctx.violation("a:count:%s:%s" % (cc, c["name"]),
                      "%d approximations + %d zero roots reported for a %s input of degree %s: zero roots that are not roots of the input (%s %s)"
                      % (n, zr, KIND.get(r.poly["type"]), r.parsed_degree, c["name"], " ".join(opts)), dict(rp, clause="a"))
        stats["VIOLATION:a:" + cc] += 1
        return 1
    # ---- (a) count identity
    declared = r.parsed_degree
    deg = declared
    if rec["poly"] is not None:
        deg = len(trim(rec["poly"])) - 1
        if deg != declared: stats["a:leading-zero-coefficient(declared %s)" % ("> actual" if declared > deg else "< actual")] += 1
    ev += 1
    if rec["poly"] is not None and c.get("coeffs"):
        # the equation the solver holds (deflated polynomial as exported + zero_roots) is the one that was written
        mine = trim([(Fr(a), Fr(b)) for a, b in c["coeffs"]]); theirs = trim(rec["poly"])
        same = len(mine) == len(theirs) and all(S.cmul(x, theirs[-1]) == S.cmul(y, mine[-1]) for x, y in zip(mine, theirs))
        if not same:
            ctx.violation("a:equation-held-differs-from-input:%s:%s" % (cc, c["name"]),
                          "the deflated equation exported by the solver together with zero_roots=%d is not the input equation (%s)" % (zr, c["name"]), dict(rp, clause="a"))
            stats["VIOLATION:a-input:" + cc] += 1
        else: stats["a:equation-held-equals-input"] += 1
    if n + zr != deg or len(r.roots) != n or r.meta.get("n") != n:
        ctx.violation("a:count:%s:%s" % (cc, c["name"]),
                      "%d approximations + %d zero roots returned for an equation of degree %s (declared %s): %s %s"
                      % (n, zr, deg, declared, c["name"], " ".join(opts)), dict(rp, clause="a"))
        stats["VIOLATION:a:" + cc] += 1
    else:
        stats["a:ok"] += 1
    # the multiprecision accessor and the raw fields agree (value, radius)
    for m, o in zip(r.accm, r.roots):
        if not (m.re == o.re and m.im == o.im and m.rad_tok == o.drad_tok): stats["accessor-differs-from-raw-fields"] += 1
    if rec["oracle"] is None:
        stats["not-judged:" + (rec["why"].split(":")[0] or "?")] += 1
        return ev
    orc = rec["oracle"]
    discs = S.discs_of(r)
    fin = [i for i in range(n) if discs[i][2] is not None]
    for i in range(n):
        if discs[i][2] is None: stats["non-finite-radius(no claim)"] += 1
    try:
        ans, covered, uncovered = e2e.judge_discs(orc, [discs[i] for i in fin]) if fin else ([], [], [])
    except Exception as e:
        ctx.notes.append("oracle query failed for %s: %r" % (c["name"], e)); stats["oracle-error"] += 1
        return ev
    # ---- (b) and (d)
    for i, (lo, hi) in zip(fin, ans):
        st = r.roots[i].status
        ev += 1
        info = dict(rp, root=i, status=st, disc=[qs(x) for x in discs[i]], disc_approx=fdisc(discs[i]), oracle=[lo, hi])
        if hi == 0:
            ctx.violation("b:no-root-in-disc:%s:%s" % (cc, c["name"]),
                          "returned disc %d (status %s) contains no root (certified): centre (%.17g, %.17g), radius %.3g; %s %s; last phase %s"
                          % (i, S.STATUS[st], sf(discs[i][0]), sf(discs[i][1]), sf(discs[i][2]), c["name"], " ".join(opts), cc),
                          dict(info, clause="b"))
            stats["VIOLATION:b:" + cc] += 1
        elif lo >= 1:
            stats["b:contains-root:" + cc.split(":")[1]] += 1
            nontrivial.add((c["name"], tuple(opts), i))
        else:
            stats["b:undecided(straddles)"] += 1; stats["undecided-case:b:%s %s" % (c["name"], " ".join(opts))] += 1
        if st in (S.ST_ISOLATED, S.ST_APPROX):
            ev += 1
            if lo >= 2:
                ctx.violation("d:several-roots-in-%s-disc:%s:%s" % (S.STATUS[st].lower(), cc, c["name"]),
                              "disc %d reported %s contains at least %d roots counted with multiplicity (certified): centre (%.17g, %.17g), radius %.3g; %s %s"
                              % (i, S.STATUS[st], lo, sf(discs[i][0]), sf(discs[i][1]), sf(discs[i][2]), c["name"], " ".join(opts)),
                              dict(info, clause="d"))
                stats["VIOLATION:d:" + cc] += 1
            elif lo == 1 and hi == 1: stats["d:exactly-one"] += 1
            elif hi == 0: stats["d:empty(reported under b)"] += 1
            else: stats["d:undecided"] += 1
            if c["cls"] == "multiple-roots-dpe-phase":
                stats["dpe-multiple-root-family:%s:%s-disc:%s" % (cc, S.STATUS[st].lower(),
                      "VIOLATION-several-roots" if lo >= 2 else "exactly-one" if (lo == 1 and hi == 1) else "empty" if hi == 0 else "undecided")] += 1
        else:
            stats["status:%s(no exactly-one claim)" % S.STATUS[st]] += 1
            if c["cls"] == "multiple-roots-dpe-phase":
                stats["dpe-multiple-root-family:%s:%s-disc:no-exactly-one-claim(holds %s roots)" % (cc, S.STATUS[st].lower(), lo if lo == hi else "%s..%s" % (lo, hi))] += 1
    # ---- (c) coverage
    ev += 1
    if len(fin) < n:
        stats["c:trivial(some radius not finite)"] += 1
    else:
        # The zero roots are reported as a count: the claim is "0 is a root of multiplicity zero_roots", exact, and
        # true of the equation judged here (its zero_roots lowest coefficients are 0 - checked above against the
        # input as generated).  The oracle's tiny disc that contains 0 holds exactly that root, so it is exempt.
        tiny = orc.roots
        exempt = set(j for j, t in enumerate(tiny) if zr > 0 and t["re"] ** 2 + t["im"] ** 2 <= t["radius"] ** 2)
        covered = [cv or j in exempt for j, cv in enumerate(covered)]
        uncovered = [u and j not in exempt for j, u in enumerate(uncovered)]
        if zr > 0 and len(exempt) != 1: stats["c:zero-root-tiny-disc-not-identified"] += 1
        if all(covered): stats["c:all-covered"] += 1
        elif any(uncovered):
            js = [j for j, u in enumerate(uncovered) if u]
            ctx.violation("c:root-not-covered:%s:%s" % (cc, c["name"]),
                          "root(s) near %s of %s lie in no returned disc (certified); %s"
                          % (["(%.17g, %.17g) mult %d" % (sf(tiny[j]["re"]), sf(tiny[j]["im"]), tiny[j]["mult"]) for j in js[:4]], c["name"], " ".join(opts)),
                          dict(rp, clause="c", uncovered_roots=[[qs(tiny[j]["re"]), qs(tiny[j]["im"]), tiny[j]["mult"]] for j in js],
                               discs=[fdisc(d) for d in discs]))
            stats["VIOLATION:c:" + cc] += 1
        else: stats["c:undecided"] += 1; stats["undecided-case:c:%s %s" % (c["name"], " ".join(opts))] += 1
    if len(samples) < 8 and (len(samples) < 4 or c["cls"] not in [s["class"] for s in samples]):
        i0 = fin[0] if fin else None
        samples.append({"case": c["name"], "class": c["cls"], "opts": opts, "config": cc, "degree": deg, "zero_roots": zr,
                        "disc0": fdisc(discs[i0]) if i0 is not None else None, "status0": S.STATUS[r.roots[i0].status] if i0 is not None else None,
                        "oracle_count0": list(ans[0]) if ans else None, "oracle_target_log2": rec.get("target")})
    return ev


def load_own_known(ctx):
    """known/C01.json is the fragment lib/mkmanifest.py merges into known_findings.json; entries of the fragment that
    the merged file does not have yet are honoured as well (same matching rules, see vf.Ctx.violation)"""
    p = os.path.join(vf.VERIF, "known", "C01.json")
    try: frag = json.load(open(p)).get("findings", [])
    except Exception: return
    have = set((k.get("signature"), k.get("signature_regex")) for k in ctx.known)
    for f in frag:
        if f.get("property") == ctx.pid and f.get("status", "open") == "open" and (f.get("signature"), f.get("signature_regex")) not in have:
            ctx.known.append(f)


def run(ctx):
    load_own_known(ctx)
    ctx.prove()
    ctx.proof_violation_if_broken()
    binary = ctx.compile_harness(["vf_solve.c"], "vf_solve", mode="san")
    env = ctx.san_env()
    rbinary = ctx.compile_harness(["c01_reuse.c"], "c01_reuse", mode="san")
    seqs = []
    if ctx.replay:
        rp = json.load(open(ctx.replay))
        if rp.get("reuse"):
            co = []
            seqs = [(rp["reuse"]["pattern"], [({"name": s["name"], "cls": s.get("cls", "replay"), "text": s["text"], "coeffs": None, "degree": 0,
                                                "max_bits": rp.get("max_bits")}, s["opts"]) for s in rp["reuse"]["segments"]])]
        else:
            case = {"name": rp["case"], "cls": rp.get("class", "replay"), "text": rp["text"], "coeffs": None, "degree": 0, "max_bits": rp.get("max_bits"),
                    "oracle_target_log2": rp.get("oracle_target_log2")}
            co = [(case, rp["opts"])]
    else:
        co = build_cases(ctx)
        seqs = reuse_sequences(ctx)
    # multiple roots settled in the DPE phase: kept apart from `co` (the event-trace selection shuffles `co`)
    dco = dpe_multiple_jobs(ctx) if not ctx.replay else []
    ctx.log("running %d solves, %d solves of the DPE-phase multiple-root family and %d reuse sequences (%d solves on reused contexts)"
            % (len(co), len(dco), len(seqs), sum(len(s[1]) for s in seqs)))
    only = os.environ.get("VERIF_C01_ONLY", "")          # development aid: "trace" / "reuse" / "dpemult" run only that family
    recs = e2e.run_records_safe(ctx, binary, (co if not only else []) + (dco if only in ("", "dpemult") else []), env, timeout=ctx.pick(30, 600))
    rrecs = run_reuse(ctx, rbinary, seqs if only in ("", "reuse") else [], env, timeout=ctx.pick(60, 600))
    recs += rrecs
    nfloat = mark_exact_float_inputs(recs)
    ctx.log("solves done")
    for rec in recs:          # a case may fix the resolution it needs (a root far below every returned radius)
        mt = rec["case"].get("oracle_target_log2")
        if mt is not None and rec["res"].kind == "ok":
            rec["target_override"] = min(e2e.min_radius_log2(S.discs_of(rec["res"]), floor=-10 ** 9) - 16, mt)
    # resolution cap by degree (cost of a certificate ~ degree^2 * bits^2)
    if ctx.quick(): cap = lambda d: 1300 if d <= 2 else 700 if d <= 4 else 420 if d <= 8 else 280
    else: cap = lambda d: 3400 if d <= 4 else 2000 if d <= 8 else 1000 if d <= 16 else 600 if d <= 24 else 400
    groups = e2e.certify_records_grouped(ctx, recs, max_bits=cap, max_degree=ctx.pick(20, 40), timeout=ctx.pick(45, 240))
    ctx.log("certification done: %d of %d certified" % (sum(1 for r in recs if r["oracle"] is not None), len(recs)))
    stats = collections.Counter(); samples = []; nontrivial = set(); evaluations = 0
    lists = []; grouped = set()
    for g in groups:
        for rec in g: grouped.add(id(rec))
    for rec in recs:
        if rec["res"].kind != "ok":
            stats["skipped:" + rec["res"].kind] += 1          # errors, crashes, time-outs: C03's business
            stats["skipped-case:%s:%s %s" % (rec["res"].kind, rec["case"]["name"], " ".join(rec["opts"]))] += 1
            continue
        lists.append(rec)
    # judge in parallel (each record owns its oracle process); violations are recorded afterwards, in order
    class Buf:
        def __init__(s): s.v = []; s.notes = []
        def violation(s, *a): s.v.append(a)
    def one(g):          # the records of a group share one oracle process: judged one after the other
        b = Buf(); st = collections.Counter(); sm = []; nt = set(); ev = 0
        for rec in g:
            try: ev += judge(b, rec, st, sm, nt)
            except Exception as e:
                b.notes.append("judge failed for %s: %r" % (rec["case"]["name"], e)); st["judge-error"] += 1
        return b, st, sm, nt, ev
    work = groups + [[rec] for rec in lists if id(rec) not in grouped]
    for b, st, sm, nt, ev in e2e.par_map(one, work):
        for a in b.v: ctx.violation(*a)
        ctx.notes.extend(b.notes)
        stats.update(st); nontrivial |= nt; evaluations += ev
        for s in sm:
            if len(samples) < 8 and (len(samples) < 4 or s["class"] not in [x["class"] for x in samples]): samples.append(s)
    ctx.log("judged")
    # ---- event traces: the hypothesis of the skeleton theorems checked per event on a hooked build
    tev, tsamples = 0, []
    if (not ctx.replay or json.load(open(ctx.replay)).get("trace")) and only in ("", "trace"):
        tbinary = ctx.compile_harness(["c01_trace.c"], "c01_trace", mode="san", extra_ldflags=" ".join("-Wl,--wrap=" + f for f in TRACE_WRAP))
        tjobs = select_trace_jobs(ctx, co, ctx.pick(30, 200)) if not ctx.replay else co
        shared = {g[0]["group"]: g[0]["oracle"] for g in groups}
        tried = set(r["group"] for r in recs if r.get("group") is not None)
        tev, tsamples = trace_tie(ctx, tbinary, tjobs, env, stats, cap, shared, tried)
        evaluations += tev
        ctx.log("event traces: %d solves, %d evaluations" % (len(tjobs), tev))
    for g in groups:
        try: g[0]["oracle"].close()
        except Exception: pass
    judged = [r for r in lists if r["oracle"] is not None]
    detail = {k: v for k, v in stats.items() if k.startswith(("undecided-case:", "skipped-case:"))}
    for k in detail: del stats[k]
    slow = sorted(((round(r["res"].wall, 1), r["case"]["name"], " ".join(r["opts"])) for r in recs if r["res"].wall > 15), reverse=True)[:20]
    undec = sum(v for k, v in stats.items() if "undecided" in k)
    cov = {"evaluations": evaluations, "distinct_nontrivial": len(nontrivial),
           "rule": "one evaluation = one clause instance (count identity per solve, inclusion per disc, exactly-one per isolated/approximated disc, coverage per solve); "
                   "distinct non-trivial = (case, options, root) whose returned disc the oracle certified to contain a root",
           "programs": len(judged), "solves_run": len(recs), "disagreements_checked": undec,
           "disagreements_rule": "oracle answers that stayed undecided (tiny disc straddles the boundary of the returned disc / precision cap); never reported",
           "histogram": dict(stats),
           "why_not_certified": dict(collections.Counter((r["why"].split(":")[0] or "?") for r in recs if r["oracle"] is None)),
           "trace_evaluations": tev, "trace_samples": tsamples,
           "reuse_sequences": len(seqs), "reuse_solves": len(rrecs),
           "reuse_pattern_histogram": dict(collections.Counter(r["reuse"]["pattern"] for r in rrecs)),
           "reuse_segment_outcome_histogram": dict(collections.Counter("%d:%s:%s" % (r["reuse"]["k"], r["case"].get("tag", "?"), r["res"].kind) for r in rrecs)),
           "class_histogram": dict(collections.Counter(r["case"]["cls"] for r in recs)),
           "dpe_multiple_root_family": dpe_multiple_histogram(recs),
           "config_histogram": dict(collections.Counter(cfg_class(r) for r in lists)),
           "options_histogram": dict(collections.Counter(" ".join(x for x in r["opts"] if x not in ("-j", "1")) for r in recs)),
           "degree_histogram": dict(collections.Counter(r["res"].parsed_degree for r in lists)),
           "exact_floating_point_inputs": nfloat, "undecided_and_skipped_cases": sorted(detail)[:60], "slow_solves": slow,
           "slow_certificates": sorted(set((r.get("cert_s", 0), r["case"]["name"], len(r["poly"]) - 1, r.get("target")) for r in recs if r.get("cert_s", 0) > 10 and r["poly"]), reverse=True)[:12], "samples": samples,
           "trusted_base": ["Coq 8.16.1 kernel; Properties_ORACLE and the MathComp-side theorems of Properties_C01 close under the global context; C01_trace_sound / C01_trace_incl_sound / C01_improve_step_sound are over Coq's real numbers (ClassicalDedekindReals.sig_forall_dec, FunctionalExtensionality.functional_extensionality_dep: see axioms_used)",
                            "event traces: harness/c01_trace.c (link-time -Wl,--wrap of mps_polynomial_{f,d,m}newton, mps_secular_{f,d,m}newton, mps_improve, mps_validate_inclusions, mps_{f,d,m}aberth_packet on the normal sanitizer build; exact hex export; one worker thread); extracted TraceDefs.walk / obligations / improve_step_ok (bin/trc, ocaml/trc_driver.ml, zarith for text I/O only); checks/C01.py turns RE lines into observation lists (numbers over 12000 bits or radius >= 2^1000 count as 'no claim') and picks the verdict (a refuted obligation is a violation when the returned disc derives from it or when it comes from a classic worker / improve_root; refuted radii of the secular iteration that are superseded are counted: they refer to the regenerated secular equation)",
                            "reuse family: harness/c01_reuse.c (several solves on one context; export helpers of vf_solve.c)",
                            "root oracle bin/cert: extracted (ExtrOcamlBasic, ExtrOcamlNativeString) cert_check + queries, ocaml/cert_driver.ml line protocol, lib/oracle.py client; hints (mpmath/sympy) are untrusted and checked",
                            "harness/vf_solve.c exact export (hex mpf / rdpe / double) and lib/solve.py parser; lib/e2e.py inner/outer disc rounding (exact Fractions)",
                            "secular / Chebyshev inputs: converted to monomial form by the extracted Transform functions (ORACLE_secular_to_monomial_roots, ORACLE_chebyshev_to_monomial_sound)",
                            "skeleton model coq/Skel: numerics abstracted into contracts (radius >= n|p/p'| at the point of evaluation); correspondence of the skeleton to the C code is by reading, the run-time tie is the oracle validation of every solve"]}
    return ctx.finish("translation_validation", cov,
                      ["convergence/termination of the iteration, GMP arithmetic and the rounding-error terms inside the radius formulae are not proved; they are validated per run by the oracle",
                       "event traces see the writes between two Newton calls through their net effect only (exit disc -> next entry disc): about half of them are exact move-and-enlarge, the rest count as fresh radii and are validated by the oracle; improve_root adds its terms in rounded DPE arithmetic, so about half of its steps are move-and-enlarge only up to 2^-40 of the radius (these are validated as fresh obligations)",
                       "component-count half of Gerschgorin's theorem (cluster of k discs holds k roots) is not proved: C01_isolated_exactly_one covers the all-disjoint configuration, the mixed one is stated as _partial",
                       "exact certification is limited to degree <= %d and radii >= 2^-%d in this tier; larger cases are counted as not judged" % (ctx.pick(20, 40), ctx.pick(400, 3400)),
                       "one worker thread (-j 1) so that runs are reproducible; solves that end in an error or crash are left to C03",
                       "a zero leading coefficient lowers the degree of the equation: the count identity is judged against the true degree"])
