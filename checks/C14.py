"""C14 -- polynomial evaluation agrees with exact evaluation in every basis.

proof:  coq/Props/Properties_C14.v  (a-priori bound of rounded complex Horner for every coefficient
        list and point; the sparse pairing scheme and the Chebyshev forward recurrence compute the
        exact value over any commutative ring; secular sum bound in condition-number form and the
        product form P = -S prod(x-b_i); the estimates as coded: MP Horner and secular product form bound
        the error under explicit guard-bit hypotheses, the Chebyshev one is refuted and a repaired one
        proved; binary64: the complex operations of mt.c as coded satisfy the standard model (Flocq);
        the twin's values and condition bounds are proved for all three bases)
tie:    harness/c14_eval.c drives mps_polynomial_{f,d,m}eval on generated (input, point, precision)
        and exports value + estimate exactly; bin/eval (extracted from coq/Eval/EvalModel.v) gives the
        exact value and an upper bound of the condition quantity; the property's predicate is
        evaluated here in exact rational arithmetic.  Every exported secular / Chebyshev estimate is
        compared with the modelled estimate formula (sec_est_q / cheb_est_q of the twin): a mismatch
        is a broken correspondence.  The witness family of C14_chebyshev_estimate_refuted is replayed.

Predicate (u = 2^-53 for double and DPE, u = 2^-wp for multiprecision, wp = mpc_get_prec(x)):
    monomial   |v - p(x)|       <= (K n + 2) u p~(|x|)                         K = 20/9 * (mu/u)   (C14_horner_apriori_linear)
    sparse MP  |v - p(x)|       <= (10/9 (2^q + q - 1) mu/u + 2) u p~(|x|)     q = ceil(log2(n+2))  (C14_sparse_apriori)
    Chebyshev  |v - sum c_k T_k(x)| <= (10/9)(3n+2) (mu/u) u  sum|c_k| T~_k(|x|)
    secular    |v - P(x)|       <= (10/9)(3n+4) (mu/u) u (sum|a_i|/|x-b_i| + 1) prod|x-b_i|      (C14_secular_poly_apriori_linear;
                                   mu/u = 11 for double and DPE: the secular evaluators divide, C14_b64_div_error)
    MP         estimate >= |v - exact|                (all three kinds)
    monomial MP  |v_sparse - v_dense| <= 2 * bound
  mu/u = 3 for double/DPE (naive 4-multiplication complex product, sqrt(8) u, Higham 3.6) and 24 for
  multiprecision (MPSolve's mpc_mul uses 3 real multiplications: normwise constant ~11.2, times 2 because
  GMP's mpf_add truncates its operands to prec limbs whose top limb may hold a single bit).  The "+2"
  accounts for the conversion of a non-dyadic rational coefficient (mpf_set_q then mpf_get_d truncate).
Coefficient range: the family xrange-dense / xrange-sparse (gen_mono_xrange) has every coefficient scaled by
10^-400, 10^-1000, 10^+400, 2^-1400 or 2^+1400 (moduli outside the range of double: fpc[]/fap[] are 0 or inf there),
set through the rational, string and mpc setters, and is evaluated in multiprecision (128..512 bits, dense loop,
sparse loop, own density) and in DPE at roots, near roots and at generic points, under the same predicate
(the common scale s is taken out before the exact twin runs: p = s p0, p~ = s p0~ exactly).
Excluded (documented): overflow/underflow in plain double (the generators keep |x|^n max|a_j| within
2^+-900 for the double variant; the xrange family is not evaluated in plain double); x equal to a secular pole b_i, where the interface reports failure
(returns false) instead of a value -- the check verifies that it does so exactly when x = b_i.
"""
import json, math, os, struct, sys, concurrent.futures
from fractions import Fraction as Fr
import vf

U53 = Fr(1, 2 ** 53)
MU_FP = 3          # cplx_add/sub/mul in binary64: PROVED (C14_b64_std_model); DPE: assumed
MU_FP_DIV = 11     # arithmetic with cplx_div = cplx_mul o cplx_inv: PROVED 11u in binary64 (C14_b64_div_error)
MU_MP = 24

# ----------------------------------------------------------------------------- number formats
def qhex(q):
    q = Fr(q)
    s = "-" if q < 0 else ""
    n, d = abs(q.numerator), q.denominator
    return s + ("%x" % n) + ("" if d == 1 else "/%x" % d)

def parse_qhex(s):
    neg = s.startswith("-")
    if neg: s = s[1:]
    if "/" in s:
        a, b = s.split("/"); v = Fr(int(a, 16), int(b, 16))
    else:
        v = Fr(int(s, 16))
    return -v if neg else v

def dbits_to_fr(h):
    x = struct.unpack("<d", struct.pack("<Q", int(h, 16)))[0]
    if math.isinf(x) or math.isnan(x): return None
    return Fr(x)

def rdpe_to_fr(mh, e):
    m = dbits_to_fr(mh)
    if m is None: return None
    e = int(e)
    return m * (Fr(2) ** e)

def mpf_to_fr(sign, mant, e):
    if mant == "0": return Fr(0)
    v = Fr(int(mant, 16)) * (Fr(16) ** (int(e) - len(mant)))
    return -v if sign == "-" else v

def is_double(q):
    q = Fr(q)
    if q == 0: return True
    try:
        return Fr(float(q)) == q
    except OverflowError:
        return False

def abs2(re, im): return re * re + im * im

# ----------------------------------------------------------------------------- generators
def dy(rng, bits, scale=0):
    """random dyadic with `bits` significant bits, magnitude about 2^scale"""
    m = rng.getrandbits(bits) | (1 << (bits - 1)) | 1
    if rng.random() < 0.5: m = -m
    return Fr(m) * Fr(2) ** (scale - bits)

def unit_point(rng, k=None, n=None):
    if k is None: th = rng.uniform(0, 2 * math.pi)
    else: th = 2 * math.pi * k / n
    return Fr(math.cos(th)), Fr(math.sin(th))

def poly_from_roots(roots):
    """exact expansion of prod (x - r), roots = list of (re, im) Fractions"""
    c = [(Fr(1), Fr(0))]
    for (rr, ri) in roots:
        new = [(Fr(0), Fr(0))] * (len(c) + 1)
        for j, (a, b) in enumerate(c):
            # x * c_j
            nr, ni = new[j + 1]; new[j + 1] = (nr + a, ni + b)
            # -r * c_j
            nr, ni = new[j]; new[j] = (nr - (rr * a - ri * b), ni - (rr * b + ri * a))
        c = new
    return c

def gen_mono(ctx, rng, idx, quick):
    nmax = 60
    cls = ["int", "dyadic", "rational", "sparse", "altsign", "roots", "scaled", "cplxint"][idx % 8]
    n = rng.choice([1, 2, 3, 5, 8, 13, 20, 30, 45, 60]) if rng.random() < 0.6 else rng.randint(1, nmax)
    roots = None
    if cls == "int":
        cs = [(Fr(rng.randint(-10, 10)), Fr(0)) for _ in range(n + 1)]
    elif cls == "cplxint":
        cs = [(Fr(rng.randint(-99, 99)), Fr(rng.randint(-99, 99))) for _ in range(n + 1)]
    elif cls == "dyadic":
        cs = [(dy(rng, 53, rng.randint(-3, 3)), dy(rng, 53, rng.randint(-3, 3)) if rng.random() < 0.5 else Fr(0)) for _ in range(n + 1)]
    elif cls == "rational":
        cs = [(Fr(rng.randint(-20, 20), rng.randint(1, 9)), Fr(rng.randint(-5, 5), rng.randint(1, 7))) for _ in range(n + 1)]
    elif cls == "sparse":
        cs = [(Fr(0), Fr(0))] * (n + 1)
        cs = list(cs)
        keep = set([0, n] + [rng.randint(0, n) for _ in range(rng.randint(0, max(1, n // 4)))])
        for j in keep: cs[j] = (Fr(rng.randint(1, 9) * rng.choice([-1, 1])), Fr(rng.randint(-3, 3)))
    elif cls == "altsign":
        # (x - 1)^n or alternating random magnitudes: p~(|x|) >> |p(x)| near x = 1
        if rng.random() < 0.5:
            cs = [(Fr((-1) ** (n - j) * math.comb(n, j)), Fr(0)) for j in range(n + 1)]
        else:
            cs = [(Fr((-1) ** j * rng.randint(1, 1000)), Fr(0)) for j in range(n + 1)]
    elif cls == "roots":
        n = min(n, 24)
        roots = [(Fr(rng.randint(-64, 64), 32), Fr(rng.randint(-64, 64), 32) if rng.random() < 0.5 else Fr(0)) for _ in range(n)]
        cs = poly_from_roots(roots)
    else:  # scaled: coefficient magnitudes spread over 2^-60 .. 2^60
        cs = [(dy(rng, rng.choice([8, 24, 53]), rng.randint(-60, 60)), Fr(0)) for _ in range(n + 1)]
    cs = list(cs)
    # zero real part (purely imaginary), zero imaginary part, both zero: every setter has its own zero test
    if cls in ("int", "cplxint", "dyadic", "rational", "sparse") and n >= 2:
        unit = {"int": Fr(1), "cplxint": Fr(1), "sparse": Fr(1), "dyadic": Fr(1, 8), "rational": Fr(1, 3)}[cls]
        for j in range(1, n):
            z = rng.random()
            if z < 0.2:
                im = cs[j][1] if cs[j][1] != 0 else unit * rng.choice([-3, -1, 1, 2, 5])
                cs[j] = (Fr(0), im)
            elif z < 0.3 and cls != "sparse":
                cs[j] = (cs[j][0] if cs[j][0] != 0 else unit, Fr(0))
            elif z < 0.36:
                cs[j] = (Fr(0), Fr(0))
    if cs[0] == (0, 0): cs[0] = (Fr(1), Fr(0))       # no zero roots: set_input_poly would deflate
    if cs[n] == (0, 0): cs[n] = (Fr(1), Fr(0))
    # public coefficient setter
    flat = [v for c in cs for v in c]
    setters = ["q", "s"]
    if all(v.denominator == 1 and abs(v) < 2 ** 62 for v in flat): setters.append("i")
    if all(is_double(v) for v in flat): setters += ["d", "f"]
    setter = setters[(idx // 8 + rng.randint(0, 1)) % len(setters)]
    fprec = rng.choice([64, 128, 192]) if setter == "f" else 0
    # points
    pts = []
    pts.append((dy(rng, 53, -2), dy(rng, 53, -2)))                     # inside
    pts.append(unit_point(rng))                                          # on the unit circle (rounded)
    pts.append((dy(rng, 53, 2), dy(rng, 53, 1)))                        # outside
    pts.append((dy(rng, 20, rng.randint(3, 7)), Fr(0)))                 # far outside, real
    pts.append((Fr(1) - Fr(1, 2 ** 30), Fr(0)))                         # error accumulation point
    if cls == "sparse": pts.append(unit_point(rng, rng.randint(0, n), n))
    if roots:
        r = rng.choice(roots); k = rng.choice([4, 10, 20, 30, 40])
        pts.append((r[0] + Fr(1, 2 ** k), r[1]))
        pts.append(r)                                                    # exactly a root
    evals = []
    precs = [64, 128, 192, 256, 512, 1024] + ([2048, 4096] if n <= 30 else [])
    for (xr, xi) in pts:
        evals.append(("F", xr, xi))
        evals.append(("D", xr, xi, 0))
        evals.append(("X", rng.choice(precs), xr, xi))
    # 64-bit precision, values of magnitude O(1): worst case for GMP's limb truncation
    evals.append(("X", 64, pts[1][0], pts[1][1]))
    evals.append(("M", rng.choice([53, 100, 1000]), pts[0][0], pts[0][1]))
    # DPE only: far outside the double range
    if n <= 20:
        e = rng.choice([-300, -120, 120, 300])
        evals.append(("D", dy(rng, 53, 0), dy(rng, 53, 0), e))
    # a point with a long mantissa at low degree
    if n <= 8:
        evals.append(("M", 256, dy(rng, 200, 0), dy(rng, 200, 0)))
    if cls == "rational":
        # freshly built polynomial, multiprecision evaluation at increasing precisions without any explicit
        # precision raise in between: the coefficients must be regenerated from their rationals
        evals = [("M", wp, pts[0][0], pts[0][1]) for wp in (256, 1024)] + evals
    return {"kind": "M", "cls": cls, "n": n, "coeffs": cs, "evals": evals, "setter": setter, "fprec": fprec}

def gen_mono_sparsehigh(ctx, rng, idx):
    """few-term polynomials of degree 50..100 at |x| about 1.3, 64 and 128 bits: the repeated squaring of
    mps_mhorner_sparse gives the leading term a relative error proportional to the degree, which the estimate
    4u(p~+|p|) of mps_mhorner_with_error2 (no degree factor) has to cover"""
    n = [64, 100, 75, 50][idx % 4]
    cs = [(Fr(0), Fr(0))] * (n + 1); cs = list(cs)
    for j in set([0, n] + [rng.randint(0, n) for _ in range(rng.choice([3, 4, 6]))]):
        cs[j] = (Fr(rng.randint(1, 9) * rng.choice([-1, 1])), Fr(0))
    pts = [(Fr(1.2345), Fr(-0.3457)), (dy(rng, 53, 1), dy(rng, 53, -1))]
    evals = []
    for (xr, xi) in pts:
        evals += [("X", 64, xr, xi), ("X", 128, xr, xi)]
    return {"kind": "M", "cls": "sparsehigh", "n": n, "coeffs": cs, "evals": evals, "setter": "q", "fprec": 0}

# coefficient scales far outside the range of double in both directions (moduli below 2^-1074 resp. above 2^1024):
# legal rational / multiprecision input, the reason the DPE and multiprecision evaluators exist.  The double copies
# fpc[] / fap[] of such coefficients are 0 resp. inf, so any use of them in the DPE / multiprecision paths shows.
XR_SCALES = [("1e-400", 10, -400), ("1e-1000", 10, -1000), ("1e+400", 10, 400), ("2^-1400", 2, -1400), ("2^+1400", 2, 1400)]

def dyadic_decimal(q):
    """finite decimal expansion of a dyadic rational, e.g. -49/16 -> '-3.0625'"""
    q = Fr(q); j = q.denominator.bit_length() - 1
    assert q.denominator == 1 << j
    m = q.numerator * 5 ** j; sgn = "-" if m < 0 else ""; digits = str(abs(m))
    if j == 0: return sgn + digits
    digits = digits.rjust(j + 1, "0")
    return sgn + digits[:-j] + "." + digits[-j:]

def gen_mono_xrange(ctx, rng, idx):
    """monomial polynomials (dense: expanded from prescribed roots; sparse: few terms with a prescribed dyadic root)
    whose coefficients are exact dyadic rationals times 10^-400, 10^-1000, 10^+400, 2^-1400, 2^+1400, set through the
    rational, string (mantissa + decimal exponent, or n/d) and mpc setters; evaluated in multiprecision 128..512 bits
    (dense and sparse loop forced, and the input's own density) and in DPE, at points near / at roots (cancellation:
    |p(x)| << p~(|x|), the error estimate has to come from p~) and at generic points.  Plain double is excluded
    (documented: overflow / underflow)."""
    label, base, ex = XR_SCALES[idx % len(XR_SCALES)]
    scale = Fr(base) ** ex
    sparse = (idx // len(XR_SCALES)) % 2 == 1
    if not sparse:
        while True:
            n = rng.choice([6, 9, 12, 16])
            cplx = rng.random() < 0.5
            roots = set()
            while len(roots) < n:
                roots.add((Fr(rng.randint(-40, 40), 16), Fr(rng.randint(-24, 24), 16) if cplx else Fr(0)))
            roots = sorted(roots); rng.shuffle(roots)
            base_cs = poly_from_roots(roots)
            lead = Fr(rng.choice([1, 3, -5, 7]))
            base_cs = [(a * lead, b * lead) for (a, b) in base_cs]
            if all(c != (0, 0) for c in base_cs): break
        near = roots[:2]
    else:
        while True:
            n = rng.choice([8, 12, 16, 20, 24])
            r = (Fr(rng.choice([3, 5, 7, 9, -5, -7, -9]), 8), Fr(0))
            base_cs = [(Fr(0), Fr(0))] * (n + 1); base_cs = list(base_cs)
            base_cs[n] = (Fr(rng.choice([1, 2, -3])), Fr(0))
            for k in set(rng.randint(1, n - 1) for _ in range(rng.choice([1, 2, 3]))):
                base_cs[k] = (Fr(rng.randint(1, 9) * rng.choice([-1, 1])), Fr(rng.randint(-3, 3)) if rng.random() < 0.4 else Fr(0))
            # constant term such that r is an exact root
            sr, si = Fr(0), Fr(0)
            for k in range(n, 0, -1): sr, si = (sr + base_cs[k][0]) * r[0], (si + base_cs[k][1]) * r[0]
            base_cs[0] = (-sr, -si)
            if base_cs[0] != (0, 0): break
        near = [r]
    cs = [(a * scale, b * scale) for (a, b) in base_cs]
    # setter: rational, string, and (power-of-two scales: every coefficient is a dyadic with a short mantissa) mpc
    def mant_bits(v):
        m = abs(v.numerator)
        while m and m % 2 == 0: m //= 2
        return m.bit_length()
    setters = ["q", "s"]
    if base == 2 and max(mant_bits(v) for c in base_cs for v in c) <= 192: setters.append("f")
    setter = setters[(idx // (2 * len(XR_SCALES)) + idx) % len(setters)]
    case = {"kind": "M", "cls": "xrange-sparse" if sparse else "xrange-dense", "n": n, "coeffs": cs, "setter": setter,
            "fprec": 256 if setter == "f" else 0, "scale": label, "mscale": scale}
    if setter == "s" and base == 10 and rng.random() < 0.7:
        # the natural spelling of such a coefficient: decimal mantissa and decimal exponent
        case["sstr"] = [("%se%d" % (dyadic_decimal(a), ex), "%se%d" % (dyadic_decimal(b), ex) if b != 0 else "0") for (a, b) in base_cs]
    pts = []
    for (rr, ri) in near:
        pts.append(("root", rr, ri))
        pts.append(("near", rr + Fr(1, 2 ** rng.choice([10, 20, 30, 40])), ri))
        pts.append(("near", Fr(float(rr + dy(rng, 53, -16))), Fr(float(ri + dy(rng, 53, -18)))))
    if len(near) == 1:
        pts.append(("near", Fr(float(near[0][0] + dy(rng, 53, -30))), Fr(0)))
    pts.append(("generic", dy(rng, 53, -1), dy(rng, 53, -1)))
    pts.append(("generic",) + unit_point(rng))
    pts.append(("generic", dy(rng, 53, 1), dy(rng, 53, 0)))
    precs = [128, 192, 256, 320, 512]
    evals = []
    for j, (what, xr, xi) in enumerate(pts):
        evals.append(("X", precs[(idx + j) % len(precs)], xr, xi))
        if what != "generic" or j % 2 == 0: evals.append(("M", rng.choice(precs), xr, xi))
        evals.append(("D", xr, xi, 0))
    # DPE point far from the unit circle
    evals.append(("D", dy(rng, 53, 0), dy(rng, 53, 0), rng.choice([-200, 200])))
    case["evals"] = evals
    return case

def fixed_monos():
    """small fixed inputs through EVERY public setter: real, complex, purely imaginary and zero coefficients"""
    polys = [[(Fr(-2), Fr(0)), (Fr(0), Fr(0)), (Fr(0), Fr(3)), (Fr(0), Fr(0)), (Fr(1), Fr(0))],        # x^4 + 3i x^2 - 2
             [(Fr(1), Fr(-1)), (Fr(0), Fr(2)), (Fr(5), Fr(0)), (Fr(0), Fr(-7)), (Fr(0), Fr(0)), (Fr(0), Fr(1))],
             [(Fr(0), Fr(4)), (Fr(-3), Fr(0)), (Fr(0), Fr(-1)), (Fr(2), Fr(6))]]
    pts = [(Fr(1, 2), Fr(1, 2)), (Fr(5, 4), Fr(-3, 8)), (Fr(-3), Fr(0)), (Fr(0), Fr(7, 8))]
    out = []
    for pi, cs in enumerate(polys):
        for setter in "qidfs":
            evals = []
            for (xr, xi) in pts:
                evals += [("F", xr, xi), ("D", xr, xi, 0), ("X", 128, xr, xi)]
            out.append({"kind": "M", "cls": "fixed%d" % pi, "n": len(cs) - 1, "coeffs": list(cs), "evals": evals,
                        "setter": setter, "fprec": 128 if setter == "f" else 0})
    return out

def gen_cheb(ctx, rng, idx, quick):
    n = rng.choice([1, 2, 3, 5, 8, 13, 20, 30, 45, 60]) if rng.random() < 0.6 else rng.randint(1, 60)
    cls = ["int", "dyadic", "rational", "bigcoef"][idx % 4]
    if cls == "int": cs = [(Fr(rng.randint(-10, 10)), Fr(0)) for _ in range(n + 1)]
    elif cls == "dyadic": cs = [(dy(rng, 53, 0), dy(rng, 30, 0)) for _ in range(n + 1)]
    elif cls == "rational": cs = [(Fr(rng.randint(-20, 20), rng.randint(1, 9)), Fr(0)) for _ in range(n + 1)]
    else: cs = [(Fr(rng.randint(-10 ** 6, 10 ** 6)), Fr(rng.randint(-10 ** 6, 10 ** 6))) for _ in range(n + 1)]
    if cs[n] == (0, 0): cs[n] = (Fr(1), Fr(0))
    pts = [(Fr(math.cos(math.pi * k / n)), Fr(0)) for k in sorted(set([0, n, rng.randint(0, n), rng.randint(0, n)]))]
    pts.append((dy(rng, 53, -1), Fr(0)))
    pts.append((dy(rng, 53, -1), dy(rng, 40, -6)))      # complex, near the interval
    pts.append((dy(rng, 30, 1), dy(rng, 30, 0)))        # outside the Bernstein ellipse
    pts.append((Fr(1) - Fr(1, 2 ** 30), Fr(0)))
    evals = [("F", pts[0][0], pts[0][1]), ("D", pts[0][0], pts[0][1], 0)]
    precs = [64, 128, 192, 256, 512, 1024] + ([2048, 4096] if n <= 30 else [])
    for (xr, xi) in pts:
        evals.append(("M", rng.choice(precs), xr, xi))
        if rng.random() < 0.4: evals.append(("M", 64, xr, xi))
    if cls == "rational":
        evals = [("M", wp, pts[-2][0], pts[-2][1]) for wp in (256, 1024)] + evals
    return {"kind": "C", "cls": cls, "n": n, "coeffs": cs, "evals": evals}

def gen_cheb_witness(ctx, rng, idx):
    """replay of the witness family of C14_chebyshev_estimate_refuted on the real code: coefficients (0, 0, K).
    The coded estimate never reads c_2 = K, the error is K times the rounding error of T_2(x) = 2x^2 - 1 (x has
    53 significant bits, so x*x is rounded at 64 and at 128 bits)"""
    K = [Fr(2 ** 20), Fr(10 ** 6 + 1), Fr(2 ** 40 + 1), Fr(12345678)][idx % 4]
    pts = [(Fr(1 / 3.0), Fr(0)), (Fr(0.7071067811865476), Fr(0)), (dy(rng, 53, -1), dy(rng, 53, -2))]
    evals = []
    for (xr, xi) in pts:
        evals += [("M", 64, xr, xi), ("M", 128, xr, xi)]
    return {"kind": "C", "cls": "witness", "n": 2, "coeffs": [(Fr(0), Fr(0)), (Fr(0), Fr(0)), (K, Fr(0))], "evals": evals}

def ulp_step(x, k):
    """the double k units in the last place away from the double x"""
    u = struct.unpack("<q", struct.pack("<d", x))[0]
    u += k if x > 0 else -k
    return struct.unpack("<d", struct.pack("<q", u))[0]

def gen_sec_cancel(ctx, rng, idx):
    """A/(x-c) - A/(x+c) = 1 with A = 2^E: the two terms cancel at the roots x^2 = c^2 + 2Ac, so the computed
    S(x) is exactly zero at (and around) the rounded root in every arithmetic while P(x) is not: the error
    estimate of the product form must not collapse to zero there."""
    E = rng.choice([40, 70, 100, 130, 160, 200]); A = Fr(2) ** E; c = Fr(rng.choice([1, 2, 3]))
    ab = [((A, Fr(0)), (c, Fr(0))), ((-A, Fr(0)), (-c, Fr(0)))]
    N = c * c + 2 * A * c
    evals = []
    for bits in (53, 64, 96, 128, 160, 192):
        sh = max(0, 2 * bits - int(N).bit_length() + 2); sh += sh % 2
        x = Fr(math.isqrt(int(N) << sh), 2 ** (sh // 2))
        if bits == 53:
            xd = float(x)
            for k in (0, 1, -2):
                xk = Fr(ulp_step(xd, k) if k else xd)
                evals.append(("F", xk, Fr(0))); evals.append(("D", xk, Fr(0), 0))
        else:
            for wp in (64, 128): evals.append(("M", wp, x, Fr(0)))
    return {"kind": "S", "cls": "cancel", "n": 2, "ab": ab, "evals": evals}

def gen_sec_root(ctx, rng, idx):
    """secular equation with a prescribed dyadic root x*: the last numerator is chosen (rational) so that
    S(x*) = 0; points x* and x* +- a few ulps, where the computed S is (nearly) zero"""
    n = rng.choice([2, 3, 5, 8])
    cplx = rng.random() < 0.5
    xs = (Fr(rng.randint(-64, 64), 16), Fr(rng.randint(-64, 64), 16) if cplx else Fr(0))
    bs = set()
    while len(bs) < n:
        b = (Fr(rng.randint(-200, 200), 8), Fr(rng.randint(-200, 200), 8) if cplx else Fr(0))
        if b != xs: bs.add(b)
    bs = sorted(bs); rng.shuffle(bs)
    def cdiv(a, b):
        d = b[0] * b[0] + b[1] * b[1]
        return ((a[0] * b[0] + a[1] * b[1]) / d, (a[1] * b[0] - a[0] * b[1]) / d)
    ab = []; sr, si = Fr(1), Fr(0)           # 1 - sum_{i<n-1} a_i/(x*-b_i)
    for b in bs[:-1]:
        a = (Fr(rng.randint(1, 64) * rng.choice([-1, 1]), 8), Fr(rng.randint(-64, 64), 8) if cplx else Fr(0))
        t = cdiv(a, (xs[0] - b[0], xs[1] - b[1])); sr -= t[0]; si -= t[1]
        ab.append((a, b))
    d = (xs[0] - bs[-1][0], xs[1] - bs[-1][1])
    alast = (sr * d[0] - si * d[1], sr * d[1] + si * d[0])
    if alast == (0, 0): alast = (Fr(1), Fr(0))
    ab.append((alast, bs[-1]))
    evals = []
    xr, xi = float(xs[0]), float(xs[1])
    for (kr, ki) in ((0, 0), (1, 0), (-1, 0), (3, 0), (0, 2) if cplx else (-4, 0), (2, -1) if cplx else (7, 0)):
        pr = Fr(ulp_step(xr, kr)) if (kr and xr != 0) else Fr(xr) + (Fr(kr, 2 ** 60) if kr else 0)
        pi = Fr(ulp_step(xi, ki)) if (ki and xi != 0) else Fr(xi) + (Fr(ki, 2 ** 60) if (ki and cplx) else 0)
        evals.append(("F", pr, pi)); evals.append(("D", pr, pi, 0))
        evals.append(("M", rng.choice([64, 128]), pr, pi))
    for j in (70, 100, 130):
        evals.append(("M", 64, xs[0] + Fr(1, 2 ** j), xs[1]))
    return {"kind": "S", "cls": "nearroot", "n": n, "ab": ab, "evals": evals}

def gen_sec_rational(ctx, rng, idx):
    """non-dyadic rational a_i, b_i (1/3, 2/7, 1/10 ...): every arithmetic works on ROUNDED coefficients, so
    the multiprecision evaluator has to regenerate them from the rationals when the point has more precision
    than the stored copies.  The rounding of b_i is a data error of relative size 2u|b_i|/|x-b_i| on its term:
    only points with |x - b_i| >= |b_i|/2 for every i are used, where it is far below the bound."""
    n = rng.choice([1, 2, 3, 5, 8, 12])
    cplx = rng.random() < 0.5
    dens = [3, 7, 10, 9, 6, 11]
    bs = set()
    while len(bs) < n:
        bs.add((Fr(rng.randint(-50, 50), rng.choice(dens)), Fr(rng.randint(-50, 50), rng.choice(dens)) if cplx else Fr(0)))
    bs = sorted(bs); rng.shuffle(bs)
    ab = [((Fr(rng.randint(1, 20) * rng.choice([-1, 1]), rng.choice(dens)), Fr(rng.randint(-20, 20), rng.choice(dens)) if cplx else Fr(0)), b) for b in bs]
    cand = [(dy(rng, 53, 6), dy(rng, 53, 5)), (dy(rng, 53, 8), Fr(0)), (dy(rng, 30, 2), dy(rng, 30, 2)), (dy(rng, 53, -3), dy(rng, 53, -3)),
            (dy(rng, 53, 3), dy(rng, 53, 4)), (Fr(1, 3).limit_denominator(1) + dy(rng, 20, 1), Fr(0))]
    pts = [x for x in cand if all(4 * abs2(x[0] - b[0], x[1] - b[1]) >= abs2(b[0], b[1]) and (x[0], x[1]) != b for (_, b) in ab)]
    if not pts: pts = [(Fr(1000), Fr(1))]
    evals = [("M", wp, pts[0][0], pts[0][1]) for wp in (256, 1024)]       # right after construction
    for (xr, xi) in pts:
        evals += [("F", xr, xi), ("D", xr, xi, 0), ("M", rng.choice([64, 128, 512, 2048]), xr, xi)]
    return {"kind": "S", "cls": "rational", "n": n, "ab": ab, "evals": evals}

def gen_sec(ctx, rng, idx, quick):
    if idx % 6 == 5: return gen_sec_rational(ctx, rng, idx)
    if idx % 5 == 3: return gen_sec_cancel(ctx, rng, idx)
    if idx % 5 == 4: return gen_sec_root(ctx, rng, idx)
    n = rng.choice([1, 2, 3, 5, 8, 13, 20, 30, 40]) if rng.random() < 0.6 else rng.randint(1, 40)
    cls = ["real", "cplx", "fine"][idx % 3]
    bs = set()
    while len(bs) < n:
        if cls == "real": bs.add((Fr(rng.randint(-200, 200), 16), Fr(0)))
        elif cls == "cplx": bs.add((Fr(rng.randint(-200, 200), 16), Fr(rng.randint(-200, 200), 16)))
        else: bs.add((dy(rng, 40, 1), dy(rng, 40, 1)))
    bs = sorted(bs); rng.shuffle(bs)
    ab = []
    for b in bs:
        a = (Fr(rng.randint(1, 64) * rng.choice([-1, 1]), 8), Fr(rng.randint(-64, 64), 8) if cls != "real" else Fr(0))
        ab.append((a, b))
    pts = [(dy(rng, 53, 3), dy(rng, 53, 3)), (dy(rng, 53, -1), Fr(0)), (dy(rng, 30, 6), dy(rng, 30, 2))]
    evals = []
    b = rng.choice(bs)
    for k in ([3, 12, 30] if cls != "fine" else [3, 8]):
        x = (b[0] + Fr(1, 2 ** k), b[1])
        if is_double(x[0]): pts.append(x)
    precs = [64, 128, 192, 256, 512, 1024] + ([2048] if n <= 20 else [])
    for (xr, xi) in pts:
        evals.append(("F", xr, xi)); evals.append(("D", xr, xi, 0)); evals.append(("M", rng.choice(precs), xr, xi))
    # multiprecision only: much closer to a pole
    for k in ((60, 120) if n <= 20 else (60,)):
        evals.append(("M", 512, b[0] + Fr(1, 2 ** k), b[1]))
    # exactly at a pole
    evals.append(("F", b[0], b[1])); evals.append(("D", b[0], b[1], 0)); evals.append(("M", 128, b[0], b[1]))
    if n <= 10:
        e = rng.choice([-200, 200])
        evals.append(("D", dy(rng, 53, 0), dy(rng, 53, 0), e))
    return {"kind": "S", "cls": cls, "n": n, "ab": ab, "evals": evals}

# ----------------------------------------------------------------------------- protocol text
def dec_string(q, style):
    """decimal string for mps_monomial_poly_set_coefficient_s: 'n/d', or a finite decimal when there is one"""
    q = Fr(q)
    if q.denominator == 1: return str(q.numerator)
    d = q.denominator
    if style:   # finite decimal expansion iff d = 2^a 5^b
        dd = d
        while dd % 2 == 0: dd //= 2
        while dd % 5 == 0: dd //= 5
        if dd == 1 and d.bit_length() < 60:
            k = 0
            while (q * 10 ** k).denominator != 1: k += 1
            m = int(q * 10 ** k); sgn = "-" if m < 0 else ""; m = abs(m)
            digits = str(m).rjust(k + 1, "0")
            return sgn + digits[:-k] + "." + digits[-k:]
    return "%d/%d" % (q.numerator, q.denominator)

def pline(case, cmd="P"):
    if case["kind"] in "MC":
        setter = case.get("setter", "q") if case["kind"] == "M" else "q"
        if setter == "s" and case.get("sstr"):
            body = " ".join(a + " " + b for (a, b) in case["sstr"])
        elif setter == "s":
            body = " ".join(dec_string(r, j % 2) + " " + dec_string(i, (j + 1) % 2) for j, (r, i) in enumerate(case["coeffs"]))
        else:
            body = " ".join(qhex(r) + " " + qhex(i) for (r, i) in case["coeffs"])
        kind = case["kind"] + ("" if setter == "q" else setter)
        extra = (" %d" % case["fprec"]) if setter == "f" else ""
        return "%s %s %d%s %s" % (cmd, kind, case["n"], extra, body)
    body = " ".join("%s %s %s %s" % (qhex(a[0]), qhex(a[1]), qhex(b[0]), qhex(b[1])) for (a, b) in case["ab"])
    return "%s S %d %s" % (cmd, case["n"], body)

def eline(ev):
    if ev[0] == "F": return "F %s %s" % (qhex(ev[1]), qhex(ev[2]))
    if ev[0] == "D": return "D %s %s %d" % (qhex(ev[1]), qhex(ev[2]), ev[3])
    return "%s %d %s %s" % (ev[0], ev[1], qhex(ev[2]), qhex(ev[3]))

def ev_point(ev):
    if ev[0] == "F": return ev[1], ev[2]
    if ev[0] == "D":
        s = Fr(2) ** ev[3]; return ev[1] * s, ev[2] * s
    return ev[2], ev[3]

def mline(case, ev):
    xr, xi = ev_point(ev)
    if case["kind"] in "MC":
        # a common scale factor s of all coefficients is taken out: the twin evaluates p0 = p / s (p(x) = s p0(x) and
        # p~(|x|) = s p0~(|x|) exactly; the twin cancels only factors 2, so 10^-400 would make its denominators explode)
        s = case.get("mscale", 1)
        body = " ".join(qhex(r / s) + " " + qhex(i / s) for (r, i) in case["coeffs"])
        return "%s %d %s %s %s" % (case["kind"], case["n"] + 1, body, qhex(xr), qhex(xi))
    body = " ".join("%s %s %s %s" % (qhex(a[0]), qhex(a[1]), qhex(b[0]), qhex(b[1])) for (a, b) in case["ab"])
    return "S %d %s %s %s" % (case["n"], body, qhex(xr), qhex(xi))

def case_to_json(case, ev):
    c = {"kind": case["kind"], "cls": case["cls"], "n": case["n"], "pline": pline(case), "eline": eline(ev), "mline": mline(case, ev)}
    if case["kind"] == "M":
        c["setter"] = case.get("setter", "q"); c["fprec"] = case.get("fprec", 0)
        c["coeffs_q"] = [[str(r), str(i)] for (r, i) in case["coeffs"]]
        if case.get("sstr"): c["sstr"] = [list(t) for t in case["sstr"]]
        if case.get("scale"): c["scale"] = case["scale"]
        if case.get("mscale"): c["mscale"] = str(case["mscale"])
    return c

# ----------------------------------------------------------------------------- judging
def bound_for(kind, n, arith_mp, wp, cond, sparse=False):
    mu = MU_MP if arith_mp else MU_FP
    u = Fr(1, 2 ** wp) if arith_mp else U53
    if kind == "M" and sparse:
        # C14_sparse_apriori: exponent 2^q + q - 1 with the code's q = ceil(log2(#coefficients + 1))
        q = (n + 1).bit_length()          # smallest q with 2^q >= n + 2
        k = Fr(10, 9) * mu * (2 ** q + q - 1) + 2
    elif kind == "M": k = Fr(20, 9) * mu * n + 2
    elif kind == "C": k = Fr(10, 9) * (3 * n + 2) * mu
    else: k = Fr(10, 9) * (3 * n + 4) * (mu if arith_mp else MU_FP_DIV)     # C14_b64_secular_poly_apriori_linear
    return k * u * cond

class Judge:
    def __init__(self, ctx):
        self.ctx = ctx
        self.evals = 0; self.nontrivial = 0
        self.hist = {}; self.samples = []
        self.max_ratio = {}          # worst observed |err| / bound per (kind, arith)
        self.max_est_ratio = {}      # worst observed |err| / estimate per kind (MP)
        self.pole_ok = 0; self.noimpl = 0; self.flags_bad = 0; self.skipped = 0
        self.est_judged = {}; self.est_below = {}; self.est_zero = {}
        self.tie = {}                # estimate tie: which modelled formula the exported estimate equals
        self.tie_worst = {}          # worst |exported - modelled| / tolerance per (kind/arith)
        self.tie_bad = {}            # first mismatching record per (kind/arith)
        self.witness = {"replayed": 0, "error_above_estimate": 0}

    def tie_estimate(self, kind, arith, n, wp, est, model, rep, cond):
        """every exported secular / Chebyshev estimate must equal the estimate of the Coq model (sec_poly_est_fl,
        cheb_est_fl resp. the repaired cheb_fix_est) up to the roundings the model's theorems allow: the twin gives the
        unrounded formula (sec_est_q / cheb_est_q), the window is relative (8n+10) 2^-48 plus, for Chebyshev, the
        propagated rounding of the computed T_k relative to their majorants"""
        key = "%s/%s" % (kind, arith)
        rel = Fr(8 * n + 10, 2 ** 48)
        cands = []
        if kind == "S":
            E = parse_qhex(model[6])
            if arith == "M":
                cands.append(("coded:4*2^(1-wp)", E * Fr(8, 2 ** wp), rel * E * Fr(8, 2 ** wp)))
                cands.append(("coded:4*2^1(p->prec==0)", E * 8, rel * E * 8))
            else:
                cands.append(("coded:4*DBL_EPSILON", E * Fr(1, 2 ** 50), rel * E * Fr(1, 2 ** 50)))
        else:
            E = parse_qhex(model[5]); M = parse_qhex(model[6]); u = Fr(1, 2 ** wp)
            dev = Fr(10, 9) * (4 * n + 4) * MU_MP * u * M
            cands.append(("coded:2*2^-wp", 2 * u * E, 2 * u * (rel * E + dev)))
            cands.append(("repaired:4n*2^-wp", 4 * n * u * cond, 4 * n * u * cond * (rel + Fr(1, 2 ** 40))))
        best = None
        for name, val, tol in cands:
            d = abs(est - val)
            if tol > 0:
                q = d / tol
                r = float(q) if q < 10 ** 30 else 1e30
            else: r = 0.0 if d == 0 else 1e30
            if best is None or r < best[1]: best = (name, r)
        if best[1] <= 1.0:
            k2 = key + ":" + best[0]
            self.tie[k2] = self.tie.get(k2, 0) + 1
            if best[1] > self.tie_worst.get(key, -1.0): self.tie_worst[key] = best[1]
        else:
            self.tie[key + ":MISMATCH"] = self.tie.get(key + ":MISMATCH", 0) + 1
            if key not in self.tie_bad:
                r2 = dict(rep); r2["exported_estimate"] = str(float(est)) if est < 10 ** 300 else "huge"
                r2["modelled"] = {nm: str(float(v)) if v < 10 ** 300 else "huge" for nm, v, _ in cands}; r2["distance_over_tolerance"] = best[1]
                self.tie_bad[key] = r2

    def h(self, key):
        self.hist[key] = self.hist.get(key, 0) + 1

    def ratio(self, table, key, num2, den):
        # num2 = squared error (Fraction), den = bound; store float ratio for the evidence only
        try:
            if den == 0: r = 0.0 if num2 == 0 else float("inf")
            else: r = math.sqrt(float(num2 / (den * den)))
        except (OverflowError, ValueError): r = 1e300          # beyond the float range: record as huge
        if r > table.get(key, -1.0): table[key] = r

    def judge_value(self, case, ev, tag, ok, vre, vim, est, wp, model):
        """one evaluation record against the model output `model` (token list)"""
        ctx = self.ctx; kind = case["kind"]; n = case["n"]
        arith = ev[0] if ev[0] != "X" else "M"
        rep = case_to_json(case, ev); rep["record"] = tag
        sig_base = "%s:%s:%s" % ({"M": "monomial", "C": "chebyshev", "S": "secular"}[kind], tag, case["cls"])
        if model[0] == "S" and model[1] == "POLE":
            # x equals some b_i: the interface must report failure
            if ok:
                ctx.violation(sig_base + ":value-at-pole n=%d" % n, "secular evaluation returned a value at x = b_i", rep)
            else:
                self.pole_ok += 1; self.h("pole-reported")
            return
        if not ok:
            ctx.violation(sig_base + ":no-value n=%d x=%s" % (n, rep["eline"]),
                          "evaluation reported failure at a regular point", rep)
            return
        if vre is None or vim is None:
            ctx.violation(sig_base + ":non-finite n=%d x=%s" % (n, rep["eline"]),
                          "evaluation returned a non-finite value inside the documented range", rep)
            return
        if kind == "S":
            pre, pim, cond = parse_qhex(model[3]), parse_qhex(model[4]), parse_qhex(model[5])
        else:
            pre, pim, cond = parse_qhex(model[1]), parse_qhex(model[2]), parse_qhex(model[3])
            if case.get("mscale"):
                pre, pim, cond = pre * case["mscale"], pim * case["mscale"], cond * case["mscale"]
            if model[4] != "1":
                self.flags_bad += 1
                ctx.violation("correspondence:exact-twin-scheme-differs:%s" % kind,
                              "the exact twin of the coded scheme differs from the specification value", rep, no_input=True)
        B = bound_for(kind, n, arith == "M", wp, cond, sparse=(tag == "meval-sparse"))
        e2 = abs2(vre - pre, vim - pim)
        self.evals += 1
        if e2 != 0: self.nontrivial += 1
        self.h("%s/%s" % (kind, arith)); self.h("cls:%s/%s" % (kind, case["cls"]))
        if kind == "M": self.h("setter:_%s" % {"q": "q", "i": "int", "d": "d", "f": "f", "s": "s"}[case.get("setter", "q")])
        self.h("deg<=%d" % (5 if n <= 5 else 20 if n <= 20 else 60))
        if arith == "M": self.h("prec:%d" % wp)
        if case.get("scale"):
            # coefficient moduli outside the range of double: per scale, per evaluator, near a root or not
            self.h("xrange:scale=%s" % case["scale"]); self.h("xrange:%s/%s" % (case["cls"][7:], tag))
            nearroot = abs2(pre, pim) * 2 ** 40 < cond * cond     # |p(x)| < 2^-20 p~(|x|)
            self.h("xrange:point=%s" % ("at-root" if (pre, pim) == (0, 0) else "cancellation>=2^20" if nearroot else "generic"))
            if est is not None:
                self.ratio(self.max_est_ratio, "M/%s:xrange" % arith, e2, est)
        self.ratio(self.max_ratio, "%s/%s" % (kind, arith), e2, B)
        if est is not None and len(model) > 6 and tag in ("feval", "deval", "meval"):
            if kind == "S" or (kind == "C" and arith == "M" and n >= 1):
                self.tie_estimate(kind, arith, n, wp, est, model, rep, cond)
        if case["cls"] == "witness" and est is not None:
            self.witness["replayed"] += 1
            if e2 > est * est: self.witness["error_above_estimate"] += 1
        if len(self.samples) < 6 and e2 != 0 and self.evals % 97 == 1:
            self.samples.append({"kind": kind, "cls": case["cls"], "n": n, "eval": rep["eline"][:80],
                                 "err_over_bound": math.sqrt(float(e2 / (B * B))) if B else None})
        if e2 > B * B:
            rep["error_over_bound"] = self.max_ratio.get("%s/%s" % (kind, arith))
            ctx.violation(sig_base + ":apriori-bound n=%d x=%s" % (n, rep["eline"]),
                          "|value - exact| exceeds the a-priori bound (%s, degree %d, %s)" % (kind, n, tag), rep)
        if arith != "M":
            # double / DPE: the property only asks the multiprecision estimate to be a bound; the
            # double and DPE estimates are recorded as statistics (the monomial eps*p~ carries no factor n)
            if est is not None:
                key = "%s/%s" % (kind, arith)
                self.ratio(self.max_est_ratio, key, e2, est)
                self.est_judged[key] = self.est_judged.get(key, 0) + 1
                if e2 > est * est:
                    self.est_below[key] = self.est_below.get(key, 0) + 1
                    if est == 0: self.est_zero[key] = self.est_zero.get(key, 0) + 1
        if arith == "M":
            if est is None:
                ctx.violation(sig_base + ":estimate-non-finite n=%d" % n, "MP estimate is not finite", rep)
            else:
                self.ratio(self.max_est_ratio, kind + "/M", e2, est)
                self.est_judged[kind + "/M"] = self.est_judged.get(kind + "/M", 0) + 1
                if e2 > est * est:
                    rep["estimate"] = str(float(est)) if est < 10 ** 300 else "huge"
                    # one signature per evaluator (call site): the estimate formula is the unit that is wrong
                    ctx.violation("%s:%s:mp-estimate" % (sig_base.split(":")[0], tag),
                                  "multiprecision error estimate is smaller than the actual error", rep)
        return (vre, vim, B)

def parse_mrec(t, i):
    """t[i:] = ok prec sign mant exp sign mant exp em ee  -> (ok, wp, re, im, est), next index"""
    ok = t[i] == "1"; wp = int(t[i + 1])
    re = mpf_to_fr(t[i + 2], t[i + 3], t[i + 4]); im = mpf_to_fr(t[i + 5], t[i + 6], t[i + 7])
    est = rdpe_to_fr(t[i + 8], t[i + 9])
    return (ok, wp, re, im, est), i + 10

def run_cases(ctx, harness, cases, judge):
    """run all cases through the harness (one process per chunk) and the model; judge every record"""
    # model input
    # the exact value depends on (input, point) only: one model evaluation serves the double, DPE and
    # multiprecision records at that point
    mlines = []; index = []; uniq = {}
    for ci, case in enumerate(cases):
        for ei, ev in enumerate(case["evals"]):
            ml = mline(case, ev)
            if ml not in uniq: uniq[ml] = len(mlines); mlines.append(ml)
            index.append(((ci, ei), uniq[ml]))
    judge.model_evaluations = getattr(judge, "model_evaluations", 0) + len(mlines)
    # longest first, dealt round-robin, so that the chunks finish together
    order = sorted(range(len(mlines)), key=lambda i: -len(mlines[i]))
    nchunk = 16
    chunk_idx = [order[i::nchunk] for i in range(nchunk)]
    chunks = [[mlines[i] for i in ch] for ch in chunk_idx]
    def run_model(lines):
        if not lines: return []
        out = ctx.run_model("eval", "\n".join(lines) + "\n")
        res = out.strip().split("\n")
        if len(res) != len(lines): raise vf.InfraError("model driver returned %d lines for %d inputs" % (len(res), len(lines)))
        return res
    def run_harness(sub):
        text = []
        for case in sub:
            text.append(pline(case))
            for ev in case["evals"]: text.append(eline(ev))
        rc, out, err = vf.sh([harness], input="\n".join(text) + "\n", timeout=900, env=ctx.san_env())
        return rc, out, err
    hchunks = [cases[i::8] for i in range(8)]
    with concurrent.futures.ThreadPoolExecutor(max_workers=16) as ex:
        mf = [ex.submit(run_model, c) for c in chunks]
        hf = [ex.submit(run_harness, c) for c in hchunks]
        mres = [f.result() for f in mf]
        hres = [f.result() for f in hf]
    model = [None] * len(mlines)
    for k in range(nchunk):
        for i, r in zip(chunk_idx[k], mres[k]): model[i] = r.split()
    model_by = {}
    for key, mi in index: model_by[key] = model[mi]
    for k, sub in enumerate(hchunks):
        rc, out, err = hres[k]
        if rc != 0:
            tail = err[-1500:]
            kindm = "asan" if rc == 97 else "ubsan" if rc == 98 else "rc%d" % rc
            ctx.violation("harness:%s" % kindm, "harness run ended abnormally (%s): %s" % (kindm, tail.strip().split("\n")[0] if tail.strip() else ""),
                          {"stderr": tail, "input_cases": [pline(c)[:200] for c in sub[:3]]})
            continue
        lines = out.strip().split("\n"); li = 0
        for sj, case in enumerate(sub):
            ci = k + sj * 8
            li += 1   # the P answer
            for ei, ev in enumerate(case["evals"]):
                t = lines[li].split(); li += 1
                m = model_by[(ci, ei)]
                if t[1] == "NOIMPL":
                    judge.noimpl += 1; judge.h("noimpl:%s/%s" % (case["kind"], ev[0]))
                    if case["kind"] == "C" and ev[0] in "FD":
                        ctx.violation("chebyshev:%seval-null-pointer" % ev[0].lower(),
                                      "Chebyshev polynomials install no %seval: mps_polynomial_%seval would call a NULL pointer" % (ev[0].lower(), ev[0].lower()),
                                      case_to_json(case, ev))
                    continue
                if t[0] == "F":
                    judge.judge_value(case, ev, "feval", t[1] == "1", dbits_to_fr(t[2]), dbits_to_fr(t[3]), dbits_to_fr(t[4]), 53, m)
                elif t[0] == "D":
                    judge.judge_value(case, ev, "deval", t[1] == "1", rdpe_to_fr(t[2], t[3]), rdpe_to_fr(t[4], t[5]), rdpe_to_fr(t[6], t[7]), 53, m)
                elif t[0] == "M":
                    (ok, wp, re, im, est), _ = parse_mrec(t, 1)
                    judge.judge_value(case, ev, "meval", ok, re, im, est, wp, m)
                elif t[0] == "X":
                    (ok, wp, re, im, est), nx = parse_mrec(t, 1)
                    (ok2, wp2, re2, im2, est2), _ = parse_mrec(t, nx)
                    d = judge.judge_value(case, ev, "meval-dense", ok, re, im, est, wp, m)
                    s = judge.judge_value(case, ev, "meval-sparse", ok2, re2, im2, est2, wp2, m)
                    if d and s:
                        diff2 = abs2(d[0] - s[0], d[1] - s[1]); B = d[2]
                        judge.h("sparse-vs-dense")
                        if diff2 > 4 * B * B:
                            ctx.violation("monomial:sparse-vs-dense:%s n=%d x=%s" % (case["cls"], case["n"], eline(ev)),
                                          "sparse and dense multiprecision evaluation differ by more than twice the bound", case_to_json(case, ev))

def defect_probe(ctx, harness, rng):
    """DESIGN.md section 4 row 15: the secular evaluators loop to the context's degree s->n, not to the
    equation's: evaluate a 3-term secular equation through the polynomial interface while the context
    is sized for a degree-12 polynomial.  A heap-buffer-overflow report is the violation."""
    big = {"kind": "M", "n": 12, "coeffs": [(Fr(j + 1), Fr(0)) for j in range(13)], "cls": "int"}
    sec = {"kind": "S", "n": 3, "cls": "real",
           "ab": [((Fr(1), Fr(0)), (Fr(1), Fr(0))), ((Fr(2), Fr(0)), (Fr(-1), Fr(0))), ((Fr(1, 2), Fr(0)), (Fr(3), Fr(0)))]}
    out = {}
    for cmd in ("F 5 0", "D 5 0 0", "M 64 5 0"):
        text = pline(big) + "\n" + pline(sec, "Q") + "\n" + cmd + "\n"
        rc, o, e = vf.sh([harness], input=text, timeout=120, env=ctx.san_env())
        out[cmd[0]] = rc
        if rc == 97 or "AddressSanitizer" in e:
            ctx.violation("secular:%seval:loop-bound-is-context-degree" % cmd[0].lower(),
                          "mps_secular_%seval_with_error loops to the context's s->n instead of the equation's degree: out-of-bounds read when the context is sized for another polynomial" % cmd[0].lower(),
                          {"input": text, "stderr": e[-1200:]})
        elif rc != 0:
            ctx.violation("secular:%seval:probe-rc%d" % (cmd[0].lower(), rc), "defect probe ended abnormally", {"input": text, "stderr": e[-1200:]})
        else:
            # no sanitizer report: the value must then be the right one (exact S(5) P(5) known from the model)
            m = ctx.run_model("eval", mline(sec, ("F", Fr(5), Fr(0))) + "\n").split()
            t = o.strip().split("\n")[-1].split()
            j = Judge(ctx)
            if t[0] == "F": j.judge_value(sec, ("F", Fr(5), Fr(0)), "feval-foreign-context", t[1] == "1", dbits_to_fr(t[2]), dbits_to_fr(t[3]), dbits_to_fr(t[4]), 53, m)
            elif t[0] == "D": j.judge_value(sec, ("D", Fr(5), Fr(0), 0), "deval-foreign-context", t[1] == "1", rdpe_to_fr(t[2], t[3]), rdpe_to_fr(t[4], t[5]), rdpe_to_fr(t[6], t[7]), 53, m)
            else:
                (ok, wp, re, im, est), _ = parse_mrec(t, 1)
                j.judge_value(sec, ("M", 64, Fr(5), Fr(0)), "meval-foreign-context", ok, re, im, est, wp, m)
    return out

def report_tie(ctx, judge):
    """model/implementation difference of the estimates that does not violate the predicate: broken correspondence"""
    for key, r2 in sorted(judge.tie_bad.items()):
        ctx.violation("correspondence:estimate-model:%s" % key,
                      "the exported error estimate of the %s evaluator (%s) equals none of the modelled estimate formulas (%d records); the estimate theorems no longer describe the code"
                      % ({"S": "secular product-form", "C": "Chebyshev"}[key[0]], key, judge.tie.get(key + ":MISMATCH", 0)), r2, no_input=True)

def replay(ctx, harness, obj):
    if "pline" not in obj:
        if "input" in obj:
            rc, o, e = vf.sh([harness], input=obj["input"], timeout=120, env=ctx.san_env())
            if rc != 0:
                ctx.violation(obj.get("signature", "replay"), obj.get("what", "replayed input fails"), obj)
        return
    # rebuild a one-evaluation case from the stored protocol lines
    pl = obj["pline"].split(); el = obj["eline"].split()
    kind = pl[1][0]; n = int(pl[2]); vals = [] if "coeffs_q" in obj else [parse_qhex(x) for x in pl[3:]]
    case = {"kind": kind, "n": n, "cls": obj.get("cls", "replay")}
    if "coeffs_q" in obj:
        case["coeffs"] = [(Fr(a), Fr(b)) for a, b in obj["coeffs_q"]]; case["setter"] = obj.get("setter", "q"); case["fprec"] = obj.get("fprec", 0)
        if obj.get("sstr"): case["sstr"] = [tuple(t) for t in obj["sstr"]]
        if obj.get("scale"): case["scale"] = obj["scale"]
        if obj.get("mscale"): case["mscale"] = Fr(obj["mscale"])
    elif kind in "MC": case["coeffs"] = [(vals[2 * j], vals[2 * j + 1]) for j in range(n + 1)]
    else: case["ab"] = [((vals[4 * j], vals[4 * j + 1]), (vals[4 * j + 2], vals[4 * j + 3])) for j in range(n)]
    if el[0] == "F": ev = ("F", parse_qhex(el[1]), parse_qhex(el[2]))
    elif el[0] == "D": ev = ("D", parse_qhex(el[1]), parse_qhex(el[2]), int(el[3]))
    else: ev = (el[0], int(el[1]), parse_qhex(el[2]), parse_qhex(el[3]))
    case["evals"] = [ev]
    j = Judge(ctx)
    run_cases(ctx, harness, [case], j)
    report_tie(ctx, j)

# ----------------------------------------------------------------------------- main
def run(ctx):
    ctx.prove()
    harness = ctx.compile_harness(["c14_eval.c"], "c14_eval", mode="san")
    ctx.model_bin("eval")
    rng = ctx.rng
    judge = Judge(ctx)
    if ctx.replay:
        replay(ctx, harness, json.load(open(ctx.replay)))
        return ctx.finish("proof", {"evaluations": judge.evals, "replay": ctx.replay})
    quick = ctx.quick()
    nm, nc, ns = ctx.pick((40, 12, 20), (640, 200, 300))
    cases = fixed_monos() + [gen_mono(ctx, rng, i, quick) for i in range(nm)]
    cases += [gen_mono_sparsehigh(ctx, rng, i) for i in range(ctx.pick(4, 40))]
    xoff = rng.randint(0, 59)        # the (scale, shape, setter) cycle has period 60: the seed picks where the quick tier enters it
    cases += [gen_mono_xrange(ctx, rng, xoff + i) for i in range(ctx.pick(10, 60))]
    cases += [gen_cheb(ctx, rng, i, quick) for i in range(nc)]
    cases += [gen_cheb_witness(ctx, rng, i) for i in range(ctx.pick(2, 8))]
    cases += [gen_sec(ctx, rng, i, quick) for i in range(ns)]
    ctx.log("generated %d inputs, %d evaluations" % (len(cases), sum(len(c["evals"]) for c in cases)))

    def search():
        # failing-input search when a proof obligation no longer checks: the same generators, aimed at the
        # error-accumulation and cancellation classes; a violation reported there counts
        before = len(ctx.violations)
        run_cases(ctx, harness, cases, judge)
        return len(ctx.violations) > before
    if ctx.proof and not ctx.proof.get("ok"):
        ctx.proof_violation_if_broken(search=search)
    else:
        run_cases(ctx, harness, cases, judge)
    report_tie(ctx, judge)
    probe = defect_probe(ctx, harness, rng)
    ctx.log("estimate tie: %s ; worst distance/tolerance %s" % (json.dumps(dict(sorted(judge.tie.items()))), json.dumps({k: round(v, 4) for k, v in judge.tie_worst.items()})))
    ctx.log("Chebyshev refutation witness (0,0,K) replayed: %s" % json.dumps(judge.witness))
    ctx.log("evaluations judged: %d (non-zero error %d), poles %d, noimpl %d" % (judge.evals, judge.nontrivial, judge.pole_ok, judge.noimpl))
    ctx.log("worst |err|/bound: %s" % json.dumps({k: round(v, 4) for k, v in judge.max_ratio.items()}))
    ctx.log("worst |err|/estimate: %s" % json.dumps({k: (round(v, 6) if v < 1e300 else "inf") for k, v in judge.max_est_ratio.items()}))
    ctx.log("coefficient moduli outside the range of double (records): %s" % json.dumps({k[7:]: v for k, v in sorted(judge.hist.items()) if k.startswith("xrange:")}))
    ctx.log("double/DPE estimates below the error (statistic): %s ; exactly zero: %s" % (json.dumps(judge.est_below), json.dumps(judge.est_zero)))
    cov = {
        "evaluations": judge.evals,
        "distinct_nontrivial": judge.nontrivial,
        "rule": "evaluation records (input, point, arithmetic/precision) whose exported value differs from the exact value, i.e. where rounding actually happened; all inputs and points are distinct by construction (seeded generator)",
        "samples": judge.samples,
        "histogram": dict(sorted(judge.hist.items())),
        "inputs": len(cases),
        "model_evaluations": getattr(judge, "model_evaluations", 0),
        "poles_reported_as_failure": judge.pole_ok,
        "no_evaluator": judge.noimpl,
        "worst_error_over_apriori_bound": {k: round(v, 6) for k, v in judge.max_ratio.items()},
        "worst_error_over_estimate": {k: (round(v, 6) if v < 1e300 else "inf") for k, v in judge.max_est_ratio.items()},
        "estimates_judged": dict(sorted(judge.est_judged.items())),
        "double_dpe_estimate_below_error": dict(sorted(judge.est_below.items())),
        "double_dpe_estimate_zero_with_nonzero_error": dict(sorted(judge.est_zero.items())),
        "coefficients_outside_double_range": {k[7:]: v for k, v in sorted(judge.hist.items()) if k.startswith("xrange:")},
        "defect_probe_exit_codes": probe,
        "estimate_tie": dict(sorted(judge.tie.items())),
        "estimate_tie_worst_distance_over_tolerance": {k: round(v, 6) for k, v in judge.tie_worst.items()},
        "chebyshev_refutation_witness": judge.witness,
        "constants": {"mu_over_u_double_dpe": MU_FP, "mu_over_u_double_dpe_with_division": MU_FP_DIV, "mu_over_u_mp": MU_MP,
                      "monomial": "(20/9 mu/u n + 2) u p~(|x|)", "chebyshev": "(10/9)(3n+2) mu sum|c_k|T~_k(|x|)",
                      "secular": "(10/9)(3n+4) mu (sum|a_i|/|x-b_i| + 1) prod|x-b_i|"},
        "trusted_base": [
            "Coq 8.16.1 kernel; Coquelicot Complex; axioms of the standard library reals as printed by Print Assumptions",
            "extraction (ExtrOcamlBasic, ExtrOcamlNativeString only) of the exact Gaussian-rational twin; ocaml/eval_driver.ml (number parsing/printing)",
            "harness/c14_eval.c (exports double bit patterns, DPE mantissa+exponent, mpf mantissa exactly) and Python fractions for the predicate; for the inputs with coefficients outside the range of double (histogram keys xrange:*) the common scale factor s (a power of 10 or 2) is divided out before the exact twin runs and multiplied back in Python (p = s p0 and p~ = s p0~ hold exactly)",
            "proved for binary64 (Flocq FLX 53, round to nearest even, no overflow/underflow): cplx_add/sub/mul/inv/div of mt.c as coded satisfy the standard model (3u, 11u with division); that gcc/x86-64 double arithmetic is IEEE binary64 without contraction (-ffp-contract=off) is trusted",
            "modelled, not verified: that the DPE and GMP arithmetic satisfy the standard model with the constants mu above (C12/C13 are about that); the guard-bit hypotheses of C14_mp_estimate_bounds_error, C14_secular_poly_estimate_bounds_error, C14_chebyshev_fixed_estimate_bounds_error about GMP, whose consequence (estimate >= error) is tested on every MP run",
            "the rational bound of p~(|x|) computed by the twin is PROVED to be an upper bound (C14_twin_bound; excess about 2^-60 per rounding); the analogous bounds chebabs_q and sec_abs_q of the Chebyshev and secular condition quantities use the same proved roundings qsqrt_up/qup but their end-to-end statement is not proved",
        ],
    }
    assumptions = [
        "complex operations satisfy the standard model with mu = 3u, 11u with division (PROVED for the double operations of mt.c as coded, C14_b64_std_model; assumed for DPE) resp. 24 * 2^-wp (GMP mpf + 3-multiplication mpc_mul)",
        "double variant: no overflow/underflow (generators keep |x|^n max|a_j| within 2^+-900)",
        "x, value and coefficients are held at the same multiprecision wp = mpc_get_prec(x)",
        "a secular equation is evaluated with the context sized for it (mps_context_set_input_poly); the foreign-context case is the listed finding",
    ]
    return ctx.finish("proof", cov, assumptions)
