"""C03 - solver totality.

(1) Proof part: coq/Total/*.v + Props/Properties_C03.v -- control skeletons of the drivers (unisolve main +
    fsolve/dsolve/msolve packets, improve, secular-ga loop) with arbitrary oracles for the numerics:
    explicit step bounds for the classic driver and for improve with an input precision; the secular loop
    and improve with exact input are shown NOT bounded by their caps (adversarial oracle).
(2) Sweep: a large seeded set of (input, configuration) pairs through harness/vf_solve.c built with
    ASan+UBSan, each under a wall-clock budget.  Outcome classes:
       ok          roots for every root of the equation (n + zero_roots = effective degree, lastphase != no_phase)
       solve-err   error flag set with a non-empty message                (both fine)
       sanitizer / crash / timeout-hard / bad-result                      => VIOLATION with input + options as replay
    Budget T (stated in the evidence): CPU seconds of the solve process, which with the single worker thread (-j 1) of
    the main sweep is the solve's own work and does not depend on the load of the machine; 1.2 GB resident memory;
    a wall-clock backstop for deadlocks.  First pass: 20 CPU-s (thorough 60).  What exceeds it is re-run ALONE, one
    after the other, with the hard cap (quick 30 CPU-s, thorough 900): only exceeding the hard cap alone (or the memory
    cap) is a violation `timeout-hard` -- this is how a hang is caught.  Soft budget max(20 s, 30 x median CPU time of
    the class (algorithm, goal, digits bucket, degree bucket)): runs above it are counted `slow`, never reported.
    Threads: the main sweep is single-threaded (reproducible); a separate small group runs with -j 2..8 and is judged
    only by fail / no fail per (input class, options).
    Search sets whose boundary carries a root (or whose roots are not known exactly) are excluded from the
    termination clause: a timeout there is counted `excluded-timeout`.
(3) Tie: about a third of the small solves run with the event trace (-T, caps -P 300 -W 16384 so that the unary
    acceptor can evaluate the bound); every trace (phases, packets, precision changes, improve steps; iterations and
    precision raises of the secular loop) must be accepted by the extracted acceptors check_u / check_s (bin/total,
    theorems C03_trace_accept_sound_*): it is then the trace of a run of the skeleton, within the proved bound for
    the classic driver.  A rejected trace is a correspondence violation.
"""
import os, re, json, time, subprocess, collections, statistics, itertools
from fractions import Fraction as Fr
import vf, solve as S, polygen as G

# ----------------------------------------------------------------------------- option space
FACTORS = [
    ("a", ["u", "s"]),
    ("G", ["i", "a", "c"]),
    ("o", [None, "15", "100", "300"]),
    ("t", [None, "f", "d"]),
    ("b", [False, True]),
    ("r", [False, True]),
    ("c", [False, True]),
    ("m", [False, True]),
    ("S", ["a", "r", "l", "u", "d", "i", "o", "R", "I"]),
    ("D", ["n", "r", "i", "b"]),
    ("O", [None, "c", "b", "g", "gf", "v", "f"]),
    ("i", [None, "50"]),
]
FLAGS = ("b", "r", "c", "m")


def pairwise(rng, factors):
    """greedy pairwise covering array: rows are dicts factor -> value; every pair of values of two different
    factors occurs in at least one row."""
    names = [f for f, _ in factors]
    vals = dict(factors)
    need = set()
    for (f1, v1s), (f2, v2s) in itertools.combinations(factors, 2):
        for a in range(len(v1s)):
            for b in range(len(v2s)):
                need.add((f1, a, f2, b))
    rows = []
    while need:
        best, bestc = None, -1
        for _ in range(40):
            # seed a candidate with one uncovered pair, fill the rest greedily in random order
            f1, a, f2, b = rng.choice(sorted(need)) if _ == 0 else rng.sample(sorted(need), 1)[0]
            row = {f1: a, f2: b}
            order = [n for n in names if n not in row]; rng.shuffle(order)
            for n in order:
                sc = []
                for k in range(len(vals[n])):
                    c = 0
                    for m, mv in row.items():
                        key = (m, mv, n, k) if names.index(m) < names.index(n) else (n, k, m, mv)
                        if key in need: c += 1
                    sc.append((c, rng.random(), k))
                row[n] = max(sc)[2]
            c = sum(1 for (g1, x, g2, y) in need if row[g1] == x and row[g2] == y)
            if c > bestc: best, bestc = row, c
        rows.append(best)
        need = {(g1, x, g2, y) for (g1, x, g2, y) in need if not (best[g1] == x and best[g2] == y)}
    return [{n: vals[n][r[n]] for n in names} for r in rows]


def opts_of(row):
    o = ["-a", row["a"], "-G", row["G"]]
    for k in ("o", "t", "j", "i"):
        if row.get(k) is not None: o += ["-" + k, row[k]]
    for k in FLAGS:
        if row.get(k): o.append("-" + k)
    if row.get("S", "a") != "a": o += ["-S", row["S"]]
    if row.get("D", "n") != "n": o += ["-D", row["D"]]
    if row.get("O") is not None: o += ["-O", row["O"]]
    if row.get("P") is not None: o += ["-P", str(row["P"])]
    if row.get("W") is not None: o += ["-W", str(row["W"])]
    return o


def off_boundary(roots, sset):
    """True when the exact roots are known and none lies on the boundary of the search set"""
    if sset == "a": return True
    if roots is None: return False
    for re_, im_ in roots:
        if sset in "rl" and re_ == 0: return False
        if sset in "ud" and im_ == 0: return False
        if sset in "io" and re_ * re_ + im_ * im_ == 1: return False
        if sset == "R" and im_ == 0: return False      # the real line is its own boundary
        if sset == "I" and re_ == 0: return False
    return True


# ----------------------------------------------------------------------------- inputs
def _mk(name, cls, text, eff, roots=None):
    return {"name": name, "cls": cls, "text": text, "eff_degree": eff, "roots": roots}


def _dense(kind, lines, n, cplx=False, extra=()):
    head = ["Monomial;", "Degree=%d;" % n, "%s;" % kind, "Complex;" if cplx else "Real;"] + list(extra) + ["Dense;"]
    return "\n".join(head) + "\n\n" + "\n".join(lines) + "\n"


def special_cases(rng, thorough):
    out = []
    # degree 1
    out.append(_mk("deg1-int", "degree-1", _dense("Integer", ["-7", "3"], 1), 1))
    out.append(_mk("deg1-rat", "degree-1", _dense("Rational", ["5/3", "-2/7"], 1), 1))
    out.append(_mk("deg1-fp", "degree-1", _dense("FloatingPoint", ["1.5e3", "-2.25"], 1), 1))
    out.append(_mk("deg1-cplx", "degree-1", _dense("Integer", ["3 4", "1 -2"], 1, True), 1))
    out.append(_mk("deg1-zero-root", "degree-1", _dense("Integer", ["0", "5"], 1), 1))
    # huge / tiny coefficients
    H = "1" + "0" * 4000
    out.append(_mk("huge-int-const", "huge-tiny", _dense("Integer", ["-" + H, "0", "0", "1"], 3), 3))
    out.append(_mk("huge-int-lead", "huge-tiny", _dense("Integer", ["-1", "3", "0", H], 3), 3))
    out.append(_mk("huge-tiny-rat", "huge-tiny", _dense("Rational", ["1/" + H, "1/1", H + "/1"], 2), 2))
    out.append(_mk("tiny-rat", "huge-tiny", _dense("Rational", ["1/" + H, "-3/" + H, "2/" + H, "1/" + H], 3), 3))
    out.append(_mk("huge-fp", "huge-tiny", _dense("FloatingPoint", ["-1e4000", "0", "1"], 2), 2))
    out.append(_mk("tiny-fp", "huge-tiny", _dense("FloatingPoint", ["1e-4000", "1", "1e4000"], 2), 2))
    out.append(_mk("huge-fp-prec", "huge-tiny", _dense("FloatingPoint", ["1.25e4000", "-3e-4000", "0", "7"], 3, extra=["Precision=60;"]), 3))
    out.append(_mk("mixed-fp-cplx", "huge-tiny", _dense("FloatingPoint", ["1e300 1e-300", "1 1", "1e-300 1e300"], 2, True), 2))
    out.append(_mk("huge-int-deg12", "huge-tiny", _dense("Integer", [str(rng.randint(-9, 9) or 1) + "0" * (350 * k) for k in range(13)], 12), 12))
    # x^n : everything but the leading coefficient is zero
    for n in (1, 2, 7, 30):
        out.append(_mk("xpow%d" % n, "x^n", _dense("Integer", ["0"] * n + ["3"], n), n))
    out.append(_mk("xpow5-sparse", "x^n", "Monomial;\nDegree=5;\nInteger;\nReal;\nSparse;\n\n5 2\n", 5))
    # zero leading coefficients (declared degree larger than the true degree)
    for k, n in ((1, 3), (3, 5), (6, 2)):
        c = [str(x) for x in (6, -9, 8, -1, 4, 7)[:n + 1]]
        out.append(_mk("zerolead%d_%d" % (n, k), "zero-leading", _dense("Integer", c + ["0"] * k, n + k), n))
    out.append(_mk("zerolead-rat", "zero-leading", _dense("Rational", ["1/2", "-3/4", "5/1", "0/1", "0/3"], 4), 2))
    out.append(_mk("zerolead-fp", "zero-leading", _dense("FloatingPoint", ["1.5", "2", "-1", "0", "0.0"], 4), 2))
    out.append(_mk("zerolead-zerotrail", "zero-leading", _dense("Integer", ["0", "0", "2", "-3", "1", "0", "0"], 6), 4))
    out.append(_mk("zerolead-sparse", "zero-leading", "Monomial;\nDegree=9;\nInteger;\nReal;\nSparse;\n\n0 1\n4 -2\n9 0\n", 4))
    out.append(_mk("zerolead-to-const", "zero-leading", _dense("Integer", ["4", "0", "0"], 2), 0))
    # zero trailing coefficients
    out.append(_mk("zerotrail", "zero-trailing", _dense("Integer", ["0", "0", "0", "1", "-2", "5"], 5), 5))
    out.append(_mk("zerotrail-rat-cplx", "zero-trailing", _dense("Rational", ["0/1 0/1", "1/2 1/3", "0/1 0/1", "2/1 -1/7"], 3, True), 3))
    # multiple roots (the digits are chosen by the configuration rows)
    for nm, rs in (("mult-2", [(Fr(1), Fr(0))] * 2),
                   ("mult-3-2", [(Fr(1, 2), Fr(0))] * 3 + [(Fr(-2), Fr(1))] * 2),
                   ("mult-5", [(Fr(3, 4), Fr(1, 4))] * 5),
                   ("mult-2-2-2", [(Fr(1), Fr(0))] * 2 + [(Fr(-1), Fr(0))] * 2 + [(Fr(0), Fr(1))] * 2 + [(Fr(5), Fr(0))])):
        c = G.from_roots_case(nm, "multiple-roots", rs, rng)
        out.append(_mk(nm, "multiple-roots", c["text"], len(rs), rs))
    # secular / chebyshev edge shapes
    out.append(_mk("sec-deg1", "secular", "Secular;\nDegree=1;\nRational;\nReal;\n\n1/2 3/4\n", 1))
    out.append(_mk("sec-fp", "secular", "Secular;\nDegree=3;\nFloatingPoint;\nReal;\n\n1.5 2\n-0.25 3\n1e10 -1\n", 3))
    out.append(_mk("sec-huge", "secular", "Secular;\nDegree=2;\nFloatingPoint;\nReal;\n\n1e400 2\n1e-400 3\n", 2))
    out.append(_mk("cheb-deg1", "chebyshev", "Chebyshev;\nDegree=1;\nRational;\nReal;\n\n1/2\n3/4\n", 1))
    out.append(_mk("cheb-fp", "chebyshev", "Chebyshev;\nDegree=3;\nFloatingPoint;\nReal;\n\n0.5\n1.25\n-3\n2\n", 3))
    out.append(_mk("cheb-zerolead", "chebyshev", "Chebyshev;\nDegree=3;\nRational;\nReal;\n\n1/2\n3/4\n1/5\n0/1\n", 2))
    if thorough:
        out.append(_mk("sparse-1e5", "sparse-huge-degree", "Monomial;\nDegree=100000;\nInteger;\nReal;\nSparse;\n\n0 -1\n100000 1\n", 100000))
        out.append(_mk("sparse-1e5-3", "sparse-huge-degree", "Monomial;\nDegree=100000;\nInteger;\nReal;\nSparse;\n\n0 3\n17 -2\n100000 1\n", 100000))
    return out


def gauss_cases(rng, count):
    """integer (Gaussian) polynomials whose exact roots avoid the boundary of every search set"""
    out = []
    for i in range(count):
        rs = []
        k = rng.randint(2, 6)
        while len(rs) < k:
            z = (Fr(rng.randint(-5, 5)), Fr(rng.randint(-5, 5)))
            if z[0] == 0 or z[1] == 0 or z[0] * z[0] + z[1] * z[1] == 1: continue
            if z in rs and rng.random() < 0.7: continue
            rs.append(z)
        c = G.from_roots_case("gauss%d" % i, "gaussian-integer-roots", rs, rng)
        out.append(_mk(c["name"], c["cls"], c["text"], len(rs), rs))
    # conjugate pairs: real integer coefficients, no real and no imaginary roots
    for i in range(max(2, count // 3)):
        rs = []
        for _ in range(rng.randint(1, 3)):
            a, b = rng.choice([-3, -2, 2, 3, 4]), rng.choice([1, 2, 3])
            if a * a + b * b == 1: continue
            rs += [(Fr(a), Fr(b)), (Fr(a), Fr(-b))]
        if not rs: rs = [(Fr(2), Fr(1)), (Fr(2), Fr(-1))]
        c = G.from_roots_case("conj%d" % i, "real-integer-nonreal-roots", rs, rng)
        out.append(_mk(c["name"], c["cls"], c["text"], len(rs), rs))
    return out


def std_cases(rng, count, maxdeg):
    out = []
    for c in G.standard_cases(rng, count, maxdeg=maxdeg):
        out.append(_mk(c["name"], c["cls"], c["text"], c["degree"], c["roots"]))
    return out


# ----------------------------------------------------------------------------- running
RSS_CAP_KB = 1200000     # memory budget per solve (resident set, ASan overhead included): 1.2 GB


def _rss_kb(pid):
    try:
        with open("/proc/%d/status" % pid) as f:
            for ln in f:
                if ln.startswith("VmRSS:"): return int(ln.split()[1])
    except Exception:
        pass
    return 0


def run_one(binary, path, opts, env, cpu_cap, wall_cap=None):
    """Run one solve.  Budgets: CPU time of the process (user+sys; with -j 1 this is the solve's own work and does not
    depend on what else the machine is doing), resident memory, and a wall-clock backstop (deadlocks).  Exceeding one
    of them sets r['timeout'] (resource budget exceeded); r['why'] tells which."""
    import tempfile
    t0 = time.time()
    if wall_cap is None: wall_cap = 8 * cpu_cap + 30
    cmd = [binary, path] + list(opts)
    r = {"rc": None, "out": "", "err": "", "wall": 0.0, "cpu": 0.0, "timeout": False, "mem": False, "why": ""}
    tck = os.sysconf("SC_CLK_TCK")
    def cpu_of(pid):
        try:
            with open("/proc/%d/stat" % pid) as f: t = f.read().rsplit(")", 1)[1].split()
            return (int(t[11]) + int(t[12])) / tck
        except Exception:
            return 0.0
    with tempfile.TemporaryFile() as fo, tempfile.TemporaryFile() as fe:
        p = subprocess.Popen(cmd, stdout=fo, stderr=fe, env=env)
        while True:
            try:
                pid, status, ru = os.wait4(p.pid, os.WNOHANG)
            except ChildProcessError:
                pid, status, ru = p.pid, 0, None
            if pid != 0:
                p.returncode = os.waitstatus_to_exitcode(status)
                if ru is not None: r["cpu"] = ru.ru_utime + ru.ru_stime
                break
            cpu = cpu_of(p.pid)
            if cpu > cpu_cap: r["timeout"] = True; r["why"] = "cpu"
            elif _rss_kb(p.pid) > RSS_CAP_KB: r["timeout"] = True; r["mem"] = True; r["why"] = "memory"
            elif time.time() - t0 > wall_cap: r["timeout"] = True; r["why"] = "wall"
            if r["timeout"]:
                r["cpu"] = cpu
                p.kill()
                try: os.wait4(p.pid, 0)
                except ChildProcessError: pass
                p.returncode = -9
                break
            time.sleep(0.05)
        fo.seek(0); fe.seek(0)
        r["out"] = fo.read().decode("utf-8", "replace"); r["err"] = fe.read().decode("utf-8", "replace")[-6000:]
        if not r["timeout"]: r["rc"] = p.returncode
    r["wall"] = time.time() - t0
    return r


def san_signature(err):
    m = re.search(r"ERROR: AddressSanitizer: ([A-Za-z0-9_-]+)", err)
    if m: kind = m.group(1)
    else:
        m = re.search(r"([\w./-]+:\d+):\d+: runtime error: ([^\n]*)", err)
        kind = ("ub:" + re.sub(r"[^A-Za-z]+", "-", m.group(2))[:40] + "@" + os.path.basename(m.group(1))) if m else "unknown"
    fn = "?"
    for m in re.finditer(r"#\d+ 0x[0-9a-f]+ in (\S+) (\S+)", err):
        if "src/libmps" in m.group(2) or "harness/vf_solve" in m.group(2):
            fn = m.group(1); break
    return kind, fn


def classify(job, r):
    """-> (klass, detail).  klass in ok | solve-err | parse-err | sanitizer | crash | timeout | bad-result"""
    if r["timeout"]: return "timeout", ""
    rc, out, err = r["rc"], r["out"], r["err"]
    if rc != 0:
        if rc in (97, 98) or "AddressSanitizer" in err or "runtime error:" in err:
            k, fn = san_signature(err)
            return "sanitizer", "%s:%s" % (k, fn)
        return "crash", ("signal%d" % -rc) if rc < 0 else ("exit%d" % rc)
    try:
        res = S.parse_export(out)
    except Exception as ex:
        # lib/solve.py converts every exported number exactly; values with astronomically large exponents (e.g. the
        # never-assigned multiprecision fields of a crude-mode solve) make it give up.  C03 only needs the counts.
        job["light"] = True
        if re.search(r"^SOLVE-ERR msg=\S", out, re.M): return "solve-err", re.search(r"^SOLVE-ERR msg=(.*)$", out, re.M).group(1)[:200]
        mm = re.search(r"^META degree=\d+ n=(\d+) zero_roots=(\d+) over_max=\d+ lastphase=(\d+)", out, re.M)
        pd = re.search(r"^PARSED degree=(\d+)", out, re.M)
        if not mm or "OUTPUT-END" not in out: return "bad-result", "no-META-no-error"
        n, zr, lp = int(mm.group(1)), int(mm.group(2)), int(mm.group(3))
        eff = job["case"]["eff_degree"]
        if eff is None and pd: eff = int(pd.group(1))
        if n + zr != eff: return "bad-result", "root-count:%s" % ("fewer" if n + zr < eff else "more")
        if lp == 0 and n > 0: return "bad-result", "lastphase-no_phase"
        if len(re.findall(r"^ACCA ", out, re.M)) != n + zr or len(re.findall(r"^ACCD ", out, re.M)) != n: return "bad-result", "accessor-count"
        return "ok", ""
    job["res"] = res
    if res.kind == "parse-err": return "parse-err", res.msg[:200]
    if res.kind == "solve-err":
        return ("solve-err", res.msg[:200]) if res.msg.strip() else ("bad-result", "error-flag-without-message")
    if res.kind != "ok": return "bad-result", "no-META-no-error"
    m = res.meta
    eff = job["case"]["eff_degree"]
    if eff is None: eff = res.parsed_degree
    if m["n"] + m["zero_roots"] != eff:
        return "bad-result", "root-count:%s" % ("fewer" if m["n"] + m["zero_roots"] < eff else "more")
    if m["lastphase"] == 0 and m["n"] > 0:
        return "bad-result", "lastphase-no_phase"
    if len(res.acca) != m["n"] + m["zero_roots"] or len(res.accd) != m["n"]:
        return "bad-result", "accessor-count"
    return "ok", ""


def signature_of(job, klass, detail):
    c = job["case"]; alg = job["row"]["a"]
    ptype = "?"
    mm = re.search(r"POLY type=(\S+)", job["r"]["out"])
    if mm: ptype = mm.group(1)
    if klass == "sanitizer" and alg == "s" and job["row"].get("r") and job["row"].get("t") == "d" \
       and (detail.startswith("FPE:") or detail.startswith("ub:signed-integer-overflow") or detail.startswith("unknown")):
        # recursive starting strategy (-r) with a DPE start (-t d): mps_recursive_dstart is an empty function, the DPE
        # approximations are never assigned and whatever the memory holds is iterated on.  Where the garbage surfaces
        # (GMP invalid operation in mpf_set_d, exponent overflow ...) depends on the input, so the signature is the cause.
        return "sanitizer:unset-dpe-start:recursive-dstart:%s:alg=s" % ptype
    if klass == "sanitizer" and c["cls"] == "zero-leading" and alg == "s" and (detail.startswith("ub:signed-integer-overflow") or detail.startswith("unknown")):
        # one root cause (runaway approximation of a root that does not exist), many overflow sites in mt.c
        return "sanitizer:dpe-exponent-overflow:zero-leading:%s:alg=s" % ptype
    return "%s:%s:%s:alg=%s" % (klass, detail, ptype, alg)


SPECIAL_CLS = ("zero-leading", "huge-tiny", "x^n", "degree-1", "zero-trailing", "sparse-huge-degree", "secular", "chebyshev")


def tgroup(j):
    """group / signature of a run that did not end: the switches that matter for termination, and the input class
    when it is one of the special shapes"""
    c = j["case"]; row = j["row"]
    ptype = "secular" if c["text"].startswith("Secular") else "chebyshev" if c["text"].startswith("Chebyshev") else "monomial"
    cls = c["cls"] if c["cls"] in SPECIAL_CLS else "generic"
    if cls == "generic" and row["a"] == "s" and row.get("b") and row.get("o") is not None:
        # Jacobi-style iterations (-b) with an explicit output precision: the Jacobi packets never ask for more precision
        # (best_approx is not set after a regeneration), whatever the other switches are -- round 6 triage
        return "generic:%s:alg=s:jacobi-with-digits" % ptype
    if cls == "generic" and row["a"] == "s" and row.get("c") and row["G"] == "a":
        # crude approximation mode with goal approximate: mps_improve has nothing it can refine and no cap (exact input)
        return "generic:%s:alg=s:crude-approximate" % ptype
    if row.get("D", "n") != "n" and cls == "generic":
        # real/imaginary detection (-D) is what keeps these runs from stopping, whatever the other switches are;
        # asking for more output digits than the input has is a cause of its own (nothing stops the mp loop at the input precision)
        beyond = row.get("i") is not None and row.get("o") is not None and int(row["o"]) > int(row["i"])
        return "generic:%s:alg=%s:detect=real/imag%s" % (ptype, row["a"], ":digits-beyond-input" if beyond else "")
    return "%s:%s:alg=%s:G=%s:searchset=%s:detect=%s" % (cls, ptype, row["a"], row["G"], "plane" if row.get("S", "a") == "a" else "restricted",
                                                     "none" if row.get("D", "n") == "n" else "real/imag")


def digits_bucket(row):
    o = row.get("o")
    return "default" if o is None else o


def deg_bucket(n):
    return "<=8" if n <= 8 else "<=20" if n <= 20 else "<=64" if n <= 64 else ">64"


GOALN = {"i": "0", "a": "1", "c": "2"}


def trace_line(job):
    """one line for bin/total (extracted acceptors check_u / check_s):
    'U|S max_pack max_it mpwp_max goal in_prec ferr finc avoid ; tokens'   (see ocaml/total_driver.ml)"""
    out = job["r"]["out"]
    ev = re.findall(r"^EV (\S+) (-?\d+)$", out, re.M)
    me = re.search(r"^EVEND max_pack=(\d+) max_it=(\d+) mpwp_max=(\d+)", out, re.M)
    mp = re.search(r"^POLY .* prec=(-?\d+)", out, re.M)
    if not me or not mp: return None
    classic = job["row"]["a"] == "u"
    if not classic and int(mp.group(1)) > 0 and not re.search(r"^POLY type=(mps_monomial_poly|mps_secular_equation) ", out, re.M):
        # a polynomial type without Newton correction and an input precision: mps_validate_inclusions cannot work on it (NULL call at
        # HEAD, known finding; a warning and no switch to the MP phase with fixes/C03_validate_inclusions_needs_newton.patch).  The
        # first secular skeleton (SkelDefs.sstep, shared with C18) has no such case; the extended one (check_x) models the repaired code.
        return None
    toks = []
    if classic:
        m = {"uphase-f": "Pf", "uphase-d": "Pd", "uphase-m": "Pm", "pack": "K", "uovermax": "NC", "uinputprec": "NC"}
        for t, v in ev:
            if t in m: toks.append(m[t])
            elif t == "umpwp": toks.append("W:" + v)
            elif t == "improve": toks.append("I:" + v)
    else:
        prev = None
        for t, v in ev:
            if t in ("sga-f", "sga-d", "sga-m"):
                if not (t == "sga-d" and prev == "sga-f"): toks.append("IT")     # float packet that fell through to DPE: one iteration
            elif t == "sga-switch": toks.append("R")
            elif t == "sga-raise":
                if prev != "sga-switch": toks.append("R")                         # switch_phase raises the precision itself
            elif t == "improve": toks.append("I:" + v)
            elif t == "sga-stop": continue
            else: continue
            prev = t
    ferr = job["klass"] == "solve-err"
    finc = ferr and "inclusion disks" in job["detail"]
    return "%s %s %s %s %s %s %d %d %d ; %s" % ("U" if classic else "S", me.group(1), me.group(2), me.group(3), GOALN[job["row"]["G"]],
                                               max(0, int(mp.group(1))), ferr, finc, 1 if job["row"].get("m") else 0, " ".join(toks))


XTAGS = {"seceq", "cd-f", "cd-d", "pre", "pre-fpe", "back", "swd", "regfail", "starts", "cleanerr", "it-f", "it-d", "it-m", "it-fpe", "stop",
         "avoid", "switch", "raise", "regraise", "reg1fail", "cleanup"}


def xtrace_line(job):
    """one line for bin/total, extended secular skeleton (Total.check_x, coq/Total/SecExtAccept.v):
    'X max_pack max_it mpwp_max goal in_prec ferr lastphase avoid kind startphase crude jacobi canimprove ; tokens'
    tokens = the EVX lines of harness/c03_solve.c in log order"""
    out = job["r"]["out"]
    if not re.search(r"^EVXEND algorithm=1$", out, re.M): return None         # MPS_ALGORITHM_SECULAR_GA
    me = re.search(r"^EVEND max_pack=(\d+) max_it=(\d+) mpwp_max=(\d+)", out, re.M)
    mp = re.search(r"^POLY type=(\S+) .* prec=(-?\d+)", out, re.M)
    if not me or not mp: return None
    toks = []
    for t, v in re.findall(r"^EVX (\S+) (-?\d+)$", out, re.M):
        if t == "improve": toks.append("improve:" + v)
        elif t in XTAGS: toks.append(t)
    ferr = job["klass"] == "solve-err"
    lp = "0"
    mm = re.search(r"^META .* lastphase=(\d+)", out, re.M)
    if mm and not ferr: lp = mm.group(1)
    ptype = mp.group(1)
    kind = "s" if ptype == "mps_secular_equation" else "m" if ptype == "mps_monomial_poly" else "o"
    row = job["row"]
    sp = {"n": "0", "m": "3"}.get(job.get("phase_env") or "", "2" if row.get("t") == "d" else "1")
    return "X %s %s %s %s %d %d %s %d %s %s %d %d %d ; %s" % (
        me.group(1), me.group(2), me.group(3), GOALN[row["G"]], max(0, int(mp.group(2))), ferr, lp, 1 if row.get("m") else 0, kind, sp,
        1 if row.get("c") else 0, 1 if row.get("b") else 0, 0 if kind == "o" else 1, " ".join(toks))


def run(ctx):
    ctx.prove()
    ctx.proof_violation_if_broken()
    # harness/c03_solve.c = harness/vf_solve.c (included unchanged) + C03_PHASE override + EVX event lines
    binary = ctx.compile_harness(["c03_solve.c"], "c03_solve", mode="san")
    env = ctx.san_env()
    # known/C03.json is the source of the C03 entries of known_findings.json (lib/mkmanifest.py merges it); it is read here as
    # well so that the check does not depend on when the merge was last run
    try:
        frag = json.load(open(os.path.join(vf.VERIF, "known", "C03.json"))).get("findings", [])
        have = {k.get("signature") for k in ctx.known}
        ctx.known += [dict(f, property="C03") for f in frag if f.get("status", "open") == "open" and f.get("signature") not in have]
    except Exception as ex:
        ctx.log("known/C03.json not read: %s" % ex)
    thorough = not ctx.quick()
    FLOOR = 20.0
    rng = ctx.rng
    workdir = os.path.join(ctx.scratch, "jobs"); os.makedirs(workdir, exist_ok=True)

    jobs = []
    def add(case, row, why):
        row = dict(row)
        # digits 300 only on small inputs in the quick tier (cost), Chebyshev never with -r etc: no such filtering --
        # every combination is legitimate; only the search-set rule below is applied
        excluded = not off_boundary(case["roots"], row.get("S", "a"))
        jobs.append({"case": case, "row": row, "opts": opts_of(row), "why": why, "excluded": excluded})

    if ctx.replay:
        rp = json.load(open(ctx.replay))
        case = _mk(rp.get("case", "replay"), rp.get("cls", "replay"), rp["text"], rp.get("eff_degree"), None)
        row = rp["row"]
        jobs.append({"case": case, "row": row, "opts": rp["opts"], "why": "replay", "excluded": bool(rp.get("excluded")), "phase_env": rp.get("phase_env")})
    else:
        specials = special_cases(rng, thorough)
        gauss = gauss_cases(rng, ctx.pick(12, 40))
        std = std_cases(rng, ctx.pick(60, 400), ctx.pick(12, 30))
        base = {"a": "u", "G": "i", "o": None, "t": None, "b": False, "r": False, "c": False, "m": False, "j": None,
                "S": "a", "D": "n", "O": None, "i": None}
        # (A) every special input under both algorithms and the three goals
        for c in specials:
            big = c["cls"] == "sparse-huge-degree"
            for a in (("u",) if big else ("u", "s")):
                for g, o in (("i", None), ("a", "15"), ("c", None)) if not big else (("a", "15"),):
                    add(c, dict(base, a=a, G=g, o=o), "special")
            if not big:
                add(c, dict(base, a="s", G="a", o="100", t="d"), "special")
                add(c, dict(base, a="u", G="a", o="100", t="d"), "special")
                add(c, dict(base, a="u", G="i", P=1), "special-maxpack1")
                add(c, dict(base, a="s", G="i", P=1), "special-maxpack1")
        # (B) multiple roots at 15 / 100 / 300 digits, both algorithms
        for c in [x for x in specials if x["cls"] == "multiple-roots"]:
            for a in ("u", "s"):
                for o in ("15", "100", "300"):
                    add(c, dict(base, a=a, G="a", o=o), "multiple-digits")
        # (C) pairwise covering array over the switches; inputs: those whose roots are known off every boundary when a
        #     search set is selected, else round-robin over everything
        rows = pairwise(rng, FACTORS)
        reps = ctx.pick(1, 4)
        pool_all = std + gauss + [x for x in specials if x["cls"] != "sparse-huge-degree"]
        k = 0
        for rep in range(reps):
            for row in rows:
                if row["S"] != "a":
                    ok = [c for c in gauss + std if off_boundary(c["roots"], row["S"])]
                    c = ok[k % len(ok)] if ok else gauss[k % len(gauss)]
                else:
                    c = pool_all[k % len(pool_all)]
                if row["o"] == "300" and c["eff_degree"] is not None and c["eff_degree"] > 12 and not thorough:
                    c = gauss[k % len(gauss)]
                add(c, row, "pairwise")
                k += 1
        # (D) standard classes under a few common configurations
        common = [dict(base, a="u", G="i"), dict(base, a="s", G="i"), dict(base, a="u", G="a", o="30"), dict(base, a="s", G="a", o="30"),
                  dict(base, a="s", G="i", b=True), dict(base, a="u", G="i", t="d"), dict(base, a="s", G="c", j="4"),
                  dict(base, a="u", G="a", o="100", r=True), dict(base, a="u", G="i", P=2), dict(base, a="s", G="a", P=3, o="50")]
        for i, c in enumerate(std):
            for j in range(ctx.pick(2, 3)):
                add(c, common[(i + j * 3) % len(common)], "standard")
        # (E) search sets with a root ON the boundary: excluded from the termination clause, still must not crash
        onb = [_mk("onb-real", "on-boundary", G.from_roots_case("onb", "x", [(Fr(1), Fr(0)), (Fr(0), Fr(1)), (Fr(0), Fr(0)), (Fr(2), Fr(3))], rng)["text"], 4,
                   [(Fr(1), Fr(0)), (Fr(0), Fr(1)), (Fr(0), Fr(0)), (Fr(2), Fr(3))])]
        for sset in ("r", "u", "i", "R", "I"):
            for a in ("u", "s"):
                add(onb[0], dict(base, a=a, S=sset), "on-boundary")
    # (F) the precision cap at work: roots 2^-40 apart / high multiplicity with a small mpwp_max (-W): the classic driver has
    #     to stop at the cap (over_max), the trace shows the doublings
    if not ctx.replay:
        tight = G.from_roots_case("tight40", "clustered-2^-40", [(Fr(1), Fr(0)), (Fr(1) + Fr(1, 1 << 40), Fr(0)), (Fr(-2), Fr(1))], rng)
        tight = _mk(tight["name"], tight["cls"], tight["text"], 3, tight["roots"])
        m5 = [x for x in specials if x["name"] == "mult-5"][0]
        for c in (tight, m5):
            for row in (dict(base, a="u", G="i", W=128), dict(base, a="u", G="a", o="200", W=256), dict(base, a="u", G="i", W=64, t="d"),
                        dict(base, a="s", G="i", W=128), dict(base, a="s", G="a", o="200", W=256)):
                add(c, row, "precision-cap")
    # (G) the set-up of the secular driver (coq/Total/SecExtDefs.v): starting phase requested or not (C03_PHASE=n: no_phase, what the
    #     command line does without -t, mps_check_data is then called; m: mp_phase, API only, "Unrecognized starting phase"),
    #     inputs whose float phase raises exceptions (huge / tiny coefficients: restart in DPE), -m, crude mode, Jacobi packets,
    #     secular-equation and Chebyshev inputs
    if not ctx.replay:
        setup_in = [x for x in specials if x["name"] in ("huge-int-const", "huge-int-lead", "huge-fp", "tiny-fp", "tiny-rat", "mixed-fp-cplx", "deg1-int", "xpow7",
                                                         "mult-3-2", "sec-fp", "sec-deg1", "cheb-fp", "zerotrail", "zerolead3_1")] + gauss[:3]
        setup_rows = [dict(base, a="s", G="i"), dict(base, a="s", G="a", o="30"), dict(base, a="s", G="i", m=True, o="100"), dict(base, a="s", G="i", c=True),
                      dict(base, a="s", G="i", b=True), dict(base, a="s", G="a", o="30", t="d"), dict(base, a="s", G="c", i="50")]
        for i, c in enumerate(setup_in):
            for k, row in enumerate(setup_rows):
                for pe in ((None, "n") if (i + k) % 4 else (None, "n", "m")):
                    if pe and row.get("t"): continue
                    jobs.append({"case": c, "row": dict(row), "opts": opts_of(row), "why": "secular-setup", "excluded": False, "phase_env": pe})
        # the rest of the sweep: a secular solve without -t runs with no_phase (like the command line) in about half of the cases
        for j in jobs:
            if "phase_env" not in j:
                j["phase_env"] = "n" if (j["row"]["a"] == "s" and j["row"].get("t") is None and rng.random() < 0.5) else None
    # every solve of the main sweep runs with ONE worker thread: reproducible runs (the thread pool's scheduling
    # is what made sanitizer reports come and go); threads are exercised by the separate group below
    for j in jobs:
        if j["why"] != "replay":
            j["row"]["j"] = "1"; j["opts"] = opts_of(j["row"])
    # trace subset (tie): small inputs; traced solves get small caps (-P 300, -W 16384) so that the acceptor, which
    # counts in unary, can evaluate the proved bound
    for j in jobs:
        j["trace"] = (j["case"]["eff_degree"] or 0) <= 12 and (rng.random() < ctx.pick(0.4, 0.3) or j["why"] in ("precision-cap", "secular-setup")) and j["why"] != "replay"
        if j["trace"]:
            if j["row"].get("P") is None: j["row"]["P"] = 300
            if j["row"].get("W") is None: j["row"]["W"] = 16384
            j["opts"] = opts_of(j["row"]) + ["-T"]
    # multi-threaded group: fixed configurations with -j 2..8; verdict = did the run fail or not, keyed by input class
    # and options (never by the sanitizer's report site, which depends on the interleaving)
    mt_jobs = []
    if not ctx.replay:
        mtc = [dict(base, a="u", G="i", j="2"), dict(base, a="s", G="i", j="4"), dict(base, a="u", G="a", o="30", j="8"),
               dict(base, a="s", G="a", o="30", j="3"), dict(base, a="s", G="i", b=True, j="2"), dict(base, a="u", G="i", t="d", j="4"),
               dict(base, a="s", G="c", j="8"), dict(base, a="u", G="a", o="100", j="3")]
        mtin = [x for x in specials if x["name"] in ("deg1-int", "huge-int-lead", "xpow7", "zerotrail", "mult-3-2", "mult-2-2-2", "sec-fp", "cheb-deg1")]
        mtin += gauss[:4] + [c for c in std if c["cls"] in ("random-integer", "clustered-2^-16", "wilkinson", "secular", "sparse", "kac")][:8]
        for i, c in enumerate(mtin):
            for k in range(2):
                row = dict(mtc[(i + 3 * k) % len(mtc)])
                mt_jobs.append({"case": c, "row": row, "opts": opts_of(row), "why": "multithreaded", "excluded": False, "trace": False, "mt": True})
    elif json.load(open(ctx.replay)).get("mt"):
        jobs[0]["mt"] = True; mt_jobs = jobs; jobs = []
    ctx.log("jobs: %d single-threaded + %d multi-threaded (pairwise rows: %s)" % (len(jobs), len(mt_jobs), "replay" if ctx.replay else len(rows)))

    T1 = ctx.pick(20, 60)        # CPU seconds, first pass
    HARD = ctx.pick(30, 900)     # CPU seconds, the budget that decides
    alljobs = jobs + mt_jobs
    def go(ij, cap=None, wall=None):
        i, j = ij
        path = os.path.join(workdir, "job%d.pol" % i)
        with open(path, "w") as f: f.write(j["case"]["text"])
        jenv = dict(env, C03_PHASE=j["phase_env"]) if j.get("phase_env") else env
        j["r"] = run_one(binary, path, j["opts"], jenv, cap if cap else T1, wall)
        try: os.remove(path)
        except OSError: pass
        return None
    import concurrent.futures
    with concurrent.futures.ThreadPoolExecutor(max_workers=16) as ex:
        list(ex.map(go, list(enumerate(alljobs))))
    ctx.log("first pass done (%d solves, cap %d CPU-s each)" % (len(alljobs), T1))
    # second pass: what exceeded the first-pass CPU or wall budget is re-run ALONE, one after the other, with the hard
    # cap; only a run that exceeds the hard cap alone is a violation.  (A run stopped by the memory cap is final: memory
    # does not depend on the load.)  One representative per signature group is re-run first; if it is over budget again the other
    # members of the group (same switches that matter for termination) share that verdict, otherwise each is re-run too.
    late = [(i, j) for i, j in enumerate(alljobs) if j["r"]["timeout"] and not j["excluded"] and not j["r"]["mem"]]
    groups = collections.defaultdict(list)
    for i, j in late: groups[tgroup(j)].append((i, j))
    reps = [groups[g][0] for g in sorted(groups)]
    for ij in reps:
        go(ij, HARD, 6 * HARD + 60)
    nrer = len(reps)
    for g in sorted(groups):
        members = groups[g]; rep = members[0][1]
        for ij in members[1:]:
            if rep["r"]["timeout"]: ij[1]["inherited"] = True          # same switches, same verdict: still over budget
            else: go(ij, HARD, 6 * HARD + 60); nrer += 1                # the representative ended: judge every member by its own run
    ctx.log("second pass done (%d late in %d groups, %d re-run alone with cap %d CPU-s)" % (len(late), len(reps), nrer, HARD))

    stats = collections.Counter(); hist_cls = collections.Counter(); hist_opt = collections.Counter()
    walls = collections.defaultdict(list)
    for j in jobs:
        klass, detail = classify(j, j["r"])
        j["klass"], j["detail"] = klass, detail
        key = (j["row"]["a"], j["row"]["G"], digits_bucket(j["row"]), deg_bucket(j["case"]["eff_degree"] or 0))
        j["key"] = key
        if klass in ("ok", "solve-err"): walls[key].append(j["r"]["cpu"])
    samples = []; slow = []; nontrivial = set(); errmsgs = collections.Counter()
    for j in jobs:
        klass, detail, c = j["klass"], j["detail"], j["case"]
        stats[klass] += 1; hist_cls[c["cls"]] += 1
        for k, v in j["row"].items():
            if v not in (None, False): hist_opt["%s=%s" % (k, v)] += 1
        rp = {"case": c["name"], "cls": c["cls"], "text": c["text"] if len(c["text"]) < 200000 else c["text"][:200000], "opts": [o for o in j["opts"] if o != "-T"],
              "row": j["row"], "eff_degree": c["eff_degree"], "excluded": j["excluded"], "wall": round(j["r"]["wall"], 2), "stderr": j["r"]["err"][-1500:],
              "phase_env": j.get("phase_env")}
        if j.get("phase_env"): hist_opt["starting_phase=%s" % {"n": "no_phase", "m": "mp_phase"}[j["phase_env"]]] += 1
        if klass == "timeout":
            if j["excluded"]:
                stats["excluded-timeout"] += 1
            else:
                ctx.violation("timeout-hard:" + tgroup(j),
                              "solve of %s with %s exceeded its resource budget also when run alone (%s; hard cap %d CPU-s, memory cap %d MB) -- hang or budget exceeded" % (c["name"], " ".join(rp["opts"]), j["r"].get("why", "?"), HARD, RSS_CAP_KB // 1000), rp)
            continue
        if klass in ("sanitizer", "crash", "bad-result"):
            what = {"sanitizer": "sanitizer report", "crash": "process killed / abnormal exit", "bad-result": "solve ended with neither roots for all nor an error message"}[klass]
            ctx.violation(signature_of(j, klass, detail), "%s (%s) solving %s [%s] with %s" % (what, detail, c["name"], c["cls"], " ".join(rp["opts"])), rp)
            continue
        if klass == "parse-err":
            stats["parse-err(not-in-scope)"] += 1; continue
        if klass == "solve-err": errmsgs[j["detail"][:70]] += 1
        med = statistics.median(walls[j["key"]]) if walls[j["key"]] else 0.0
        budget = max(FLOOR, 30 * med)
        if j["r"]["cpu"] > budget:
            stats["slow"] += 1
            slow.append({"case": c["name"], "opts": rp["opts"], "cpu_s": round(j["r"]["cpu"], 1), "budget": round(budget, 1)})
        nontrivial.add((c["name"], tuple(rp["opts"])))
        if len(samples) < 6 and (klass == "solve-err" or len(samples) < 3):
            samples.append({"case": c["name"], "cls": c["cls"], "opts": rp["opts"], "outcome": klass, "detail": detail, "wall": round(j["r"]["wall"], 3)})

    # ---------------------------------------------------------------- multi-threaded group: fail / no fail per (input class, options)
    mtstats = collections.Counter()
    for j in mt_jobs:
        klass, detail = classify(j, j["r"]); c = j["case"]
        j["klass"], j["detail"] = klass, detail
        hist_cls[c["cls"]] += 1
        if klass in ("ok", "solve-err", "parse-err"):
            mtstats[klass] += 1; nontrivial.add((c["name"], tuple(j["opts"]))); continue
        mtstats["fail"] += 1
        opts = [o for o in j["opts"] if o != "-T"]
        ctx.violation("mt-failure:%s:%s" % (c["cls"], " ".join(opts)),
                      "multi-threaded solve of %s [%s] with %s did not end with roots or an error message (%s %s)" % (c["name"], c["cls"], " ".join(opts), klass, detail),
                      {"case": c["name"], "cls": c["cls"], "text": c["text"], "opts": opts, "row": j["row"], "eff_degree": c["eff_degree"], "excluded": False,
                       "mt": True, "stderr": j["r"]["err"][-1500:]})

    # ---------------------------------------------------------------- tie: traces accepted by the extracted skeleton
    tlines = []; tjobs = []
    for j in jobs:
        if j.get("trace") and j["klass"] in ("ok", "solve-err"):
            ln = trace_line(j)
            if ln is not None: tlines.append(ln); tjobs.append(j)
    tstats = collections.Counter(); tmax = 0; tsteps = 0; closest = None
    if tlines:
        outs = ctx.run_model_lines("total", tlines)
        for ln, j, src in zip(outs, tjobs, tlines):
            t = ln.split()
            kind = "classic" if j["row"]["a"] == "u" else "secular"
            if t and t[0] == "OK":
                tstats["accepted:" + kind] += 1
                n, b = int(t[1]), int(t[2])
                tmax = max(tmax, len(src.split(";")[1].split())); tsteps += n
                if b and (closest is None or n / b > closest[0]): closest = (n / b, n, b)
                if len(src.split(";")[1].split()) >= 4: nontrivial.add(("trace", src))
            else:
                tstats["rejected:" + kind] += 1
                c = j["case"]
                if tstats["rejected:" + kind] <= 8: ctx.log("trace rejected: %s | %s | %s %s" % (ln, src[:400], c["name"], " ".join(j["opts"])))
                # correspondence: the skeleton does not describe this run (or the run left its bound).  The property's own
                # predicate (terminates with roots or an error, no crash) held for this run, so there is no failing input here.
                ctx.violation("correspondence:trace-rejected:%s" % kind,
                              "event trace of the real solver is not accepted as a run of the control skeleton within its bound (%s): %s with %s; trace: %s"
                              % (ln, c["name"], " ".join(j["opts"]), src[:300]),
                              {"case": c["name"], "cls": c["cls"], "text": c["text"], "opts": [o for o in j["opts"] if o != "-T"], "row": j["row"],
                               "eff_degree": c["eff_degree"], "excluded": j["excluded"], "trace": src[:4000], "model": ln}, no_input=True)
    # ---------------------------------------------------------------- tie of the extended secular skeleton (check_x): every traced
    # secular solve again, now with the events of the set-up, the phase of every iteration, switch / raise, the cleanup
    xlines = []; xjobs = []
    for j in jobs:
        if j.get("trace") and j["klass"] in ("ok", "solve-err") and j["row"]["a"] == "s":
            ln = xtrace_line(j)
            if ln is not None: xlines.append(ln); xjobs.append(j)
    xstats = collections.Counter(); xevents = collections.Counter(); xsteps = 0; xsetup = collections.Counter()
    if xlines:
        outs = ctx.run_model_lines("total", xlines)
        for ln, j, src in zip(outs, xjobs, xlines):
            t = ln.split(); toks = src.split(";")[1].split()
            for tk in toks: xevents[tk.split(":")[0]] += 1
            hd = src.split(";")[0].split()
            xsetup["kind=%s start_phase=%s crude=%s jacobi=%s avoid_mp=%s in_prec=%s" % (hd[9], hd[10], hd[11], hd[12], hd[8], "0" if hd[5] == "0" else ">0")] += 1
            if t and t[0] == "OK":
                xstats["accepted"] += 1; xsteps += int(t[1])
                if len(toks) >= 4: nontrivial.add(("xtrace", src))
            else:
                xstats["rejected"] += 1
                c = j["case"]
                if xstats["rejected"] <= 8: ctx.log("ext trace rejected: %s | %s | %s %s phase=%s" % (ln, src[:500], c["name"], " ".join(j["opts"]), j.get("phase_env")))
                # the property's own predicate (ends with roots or an error message, no crash) held for this run: broken correspondence
                ctx.violation("correspondence:trace-rejected:secular-ext",
                              "event trace of the real secular driver is not a run of the extended skeleton SecExtDefs.xstep (%s): %s with %s, C03_PHASE=%s; trace: %s"
                              % (ln, c["name"], " ".join(j["opts"]), j.get("phase_env"), src[:300]),
                              {"case": c["name"], "cls": c["cls"], "text": c["text"], "opts": [o for o in j["opts"] if o != "-T"], "row": j["row"],
                               "eff_degree": c["eff_degree"], "excluded": j["excluded"], "phase_env": j.get("phase_env"), "trace": src[:4000], "model": ln}, no_input=True)
    cov = {"evaluations": len(alljobs), "distinct_nontrivial": len(nontrivial),
           "rule": "one evaluation = one (input, configuration) solve under ASan+UBSan; distinct+non-trivial = distinct (input, options) that ended ok or solve-err",
           "outcomes": dict(stats), "class_histogram": dict(hist_cls), "option_histogram": dict(hist_opt),
           "error_messages": dict(errmsgs.most_common(12)),
           "budget": {"unit": "CPU seconds of the solve process (single worker thread), independent of machine load; wall-clock only as a backstop (8 x cap + 30 s)", "memory_cap_MB": RSS_CAP_KB // 1000, "stopped_by_memory_cap": sum(1 for j in alljobs if j["r"].get("mem")), "hard_cap_cpu_s": HARD, "first_pass_cap_cpu_s": T1, "soft": "max(%g s, 30 x median CPU time of (alg, goal, digits, degree bucket))" % FLOOR,
                      "class_medians": {"/".join(k): round(statistics.median(v), 3) for k, v in sorted(walls.items())[:40]},
                      "max_cpu_s": round(max([j["r"]["cpu"] for j in alljobs] or [0]), 2), "slow": slow[:20]},
           "pairwise_rows": 0 if ctx.replay else len(rows), "exports_read_by_the_light_parser": sum(1 for j in alljobs if j.get("light")),
           "trace_tie": {"traced_solves": len(tlines), "verdicts": dict(tstats), "longest_trace_events": tmax, "skeleton_steps_total": tsteps,
                         "closest_to_bound": ({"steps": closest[1], "bound": closest[2]} if closest else None)},
           "trace_tie_secular_ext": {"traced_solves": len(xlines), "verdicts": dict(xstats), "skeleton_steps_total": xsteps,
                                     "event_histogram": dict(xevents), "configuration_histogram": dict(xsetup)},
           "multithreaded_group": dict(mtstats), "programs": len(alljobs), "disagreements_checked": sum(v for k, v in tstats.items() if k.startswith("rejected")) + xstats["rejected"],
           "samples": samples,
           "trusted_base": ["Coq kernel (skeleton theorems: no axioms)", "the control skeletons in coq/Total (SkelDefs.v, SecExtDefs.v) are hand-written models of unisolve/main.c, unisolve/solve.c, common/improve.c, secsolve/secular-ga.c (+ the exception flag of secsolve/secular-iteration.c); numerics are an arbitrary oracle",
                            "memory safety / no signal: observed by ASan+UBSan (-fno-sanitize=shift-base) on the sweep only, no theorem",
                            "extraction ExtrOcamlBasic+ExtrOcamlNativeString; ocaml/total_driver.ml; harness/c03_solve.c = harness/vf_solve.c + starting phase override (C03_PHASE) + EVX lines (-T trace filtered from the library's debug log, -P sets max_pack); lib/solve.py parser"]}
    return ctx.finish("proof", cov,
                      ["termination of the real numerics is observed under a wall-clock cap, not proved: the skeleton theorems bound control steps for every oracle",
                       "search sets with a root on the boundary (or unknown roots) are excluded from the termination clause",
                       "inputs that the parser rejects are C09/C10's business and only counted"])
