"""C06 -- thread pool: every task executed exactly once, wait is a barrier, limit change / free
lose nothing, block nowhere and join every worker.

Proof: coq/Props/Properties_C06.v (model coq/Conc/PoolModel.v).
Tie  : the REAL pool (threading.c, built with the pthread calls redirected to the scheduler shim
       harness/vf_sched.c) is run over scripts of the pool API under every schedule within a
       delay/preemption bound (stateless DFS, forked re-execution), plus random and PCT schedules
       on an ASan+UBSan build.  Every run
         (1) asserts the property's own predicate inside the harness (execution counter of each
             task == 1 and finished flag set when wait returns; no task body runs twice; after
             free no thread unfinished and no task lost; the shim reports deadlock), and
         (2) is replayed event by event through the extracted `step` of the Coq model, with the
             executable invariants checked in every state (bin/pool).
       The Coq refutation witness (limit lowered while the freed worker runs) is replayed on the
       real pool: same events, deadlock.
"""
import os, json, re, shlex, time, concurrent.futures as cf
import vf

KNOWN_SCRIPT = "n2 a1 l1 w f"
SIG_KNOWN = "deadlock:limit-lowered-while-freed-worker-runs:script=n2_a1_l1_w_f"


def jobs_for(ctx):
    """(script, harness args, strict model?, build) -- deterministic list; sizes measured, see evidence."""
    J = []
    q = ctx.quick()
    def dfs(script, bound, extra="", strict=True, shards=1, build="shim"):
        for i in range(shards):
            a = "--dfs %d %s" % (bound, extra)
            if shards > 1: a += " --shard %d/%d" % (i, shards)
            J.append((script, a.strip(), strict, build))
    # single round, every pool size 1..4 and 0..4 tasks, then free
    for n in range(1, 5):
        for k in range(0, 5):
            s = "n%d a%d w f" % (n, k)
            big = n * k >= 6
            if q:
                dfs(s, 2, shards=4 if big else 1)
            else:
                dfs(s, 3 if n * k <= 4 else 2, shards=8 if (big or n * k >= 3) else 2)
    # preemption bounding proper (non-preemptive switches free) on the small pools
    for s in ["n2 a1 w f", "n2 a2 w f"]:
        dfs(s, 2, "--free-switch", shards=4)
    if not q:
        # preemption bound 3 (context switches at blocking points free) on the 2-worker pools
        for s in ["n2 a1 w f", "n2 a2 w f", "n2 a1 w a1 w f", "n2 a1 w l1 a1 w f"]:
            dfs(s, 3, "--free-switch", shards=16)
    # repeated rounds, limit changes between rounds (always on an idle pool), strict_async, spurious wake-ups
    multi = ["n2 a1 w l1 a1 w f", "n3 a2 w l1 a1 w l2 a2 w f", "n1 a1 w l3 a2 w f", "n2 s a1 w l1 a1 w f",
             "n1 s a2 w f", "n2 a2 w a1 w a0 w f", "n2 f", "n2 l1 f", "n4 a0 w l2 a2 w l4 a3 w f",
             "n2 a1 w l2 a1 w l1 S a1 w f", "n3 a1 w l3 a3 w l1 a2 w f"]
    for s in multi:
        dfs(s, 2 if q else 3 if len(s) < 16 else 2, shards=4)
        dfs(s, 1, "--spurious 1")
    dfs("n2 a2 w f", 2, "--spurious 2", shards=2)
    # tasks that call assign from inside a worker: harness-level predicate only (not in the model)
    for s in ["n2 N1 w f", "n3 N2 w f"]:
        dfs(s, 2 if q else 3, shards=4)
    # the documented misuse: limit lowered while tasks run -> deadlocks are the known finding
    dfs(KNOWN_SCRIPT, 2, strict=False)
    # sampling on the sanitizer build (bigger scripts)
    seed = ctx.seed
    nr = 150 if q else 3000
    for s in ["n4 a4 w l2 a3 w l4 a4 w f", "n3 a4 w a4 w a4 w f", "n4 s a4 w l1 a4 w f", "n2 a2 w l1 a1 w f"]:
        J.append((s, "--random %d --seed %d --spurious 2" % (nr, seed), True, "shimsan"))
        for d in (2, 3, 4):
            J.append((s, "--pct %d --depth %d --seed %d" % (nr // 3, d, seed * 10 + d), True, "shimsan"))
    return J


def parse_out(out):
    bad, summ = [], None
    for line in out.splitlines():
        if line.startswith("BAD "):
            d = dict(re.findall(r'(\w+)=("[^"]*"|\S+)', line))
            bad.append(d)
        elif line.startswith("SUMMARY "):
            summ = dict(re.findall(r"(\w+)=(\S+)", line))
    return bad, summ


def run_job(job, bins, pool, env):
    script, args, strict, build = job
    cmd = "%s --script %s %s 2>/dev/null | %s %s" % (shlex.quote(bins[build]), shlex.quote(script), args,
                                                   shlex.quote(pool), "--strict" if strict else "")
    t0 = time.time()
    rc, out, err = vf.sh(["bash", "-o", "pipefail", "-c", cmd], timeout=2400, env=env)
    return job, rc, out, (err or "") + "\n[job %.1fs]" % (time.time() - t0)


def report(ctx, job, bad, stats):
    """Turn the BAD lines of one job into violations (or known findings)."""
    script, args, strict, build = job
    us = script.replace(" ", "_")
    seen = stats.setdefault("_seen", set())
    for d in bad:
        kind = d.get("kind", "?")
        key = (kind, d.get("what"), script)
        if kind == "deadlock": stats["deadlocks"] += 1
        if key in seen: continue
        seen.add(key)
        rep = {"script": script, "args": args, "build": build, "schedule": d.get("sched", "-"), "detail": d,
               "how": "harness/c06_pool --script '%s' --replay <schedule> [--spurious k] | bin/pool   (or ./check C06 --replay <this file>)" % script}
        m = re.search(r"--spurious (\d+)", args)
        rep["spurious"] = int(m.group(1)) if m else 0
        if kind == "deadlock":
            if script == KNOWN_SCRIPT:
                if d.get("model_dead") == "true":
                    seen.discard(key)   # every deadlock of the known script must be model-confirmed
                    stats["known_deadlocks_model_confirmed"] += 1
                    ctx.violation(SIG_KNOWN, "mps_thread_pool_wait blocks forever after the limit was lowered while the freed worker ran a task", rep)
                else:
                    ctx.violation("correspondence:deadlock-not-dead-in-model:script=%s" % us,
                                  "the real pool deadlocks in a state the model does not consider dead", rep, no_input=False)
            else:
                ctx.violation("deadlock:script=%s" % us, "pool deadlocks (no runnable thread) under schedule %s" % d.get("sched"), rep)
        elif kind == "harness":
            what = d.get("what", "?")
            ctx.violation("harness:%s:script=%s" % (what, us),
                          "property predicate fails on the real pool: %s (status %s) under schedule %s" % (what, d.get("status"), d.get("sched")), rep)
        else:
            # accepted by the harness predicate but not by the model / its invariants: the correspondence is broken.
            # The search for a concrete failing input is the exploration itself (every explored schedule evaluates
            # the predicate); nothing failed it for this run.
            if d.get("status") in ("0",):
                stats["model_rejects"] += 1
                ctx.violation("correspondence:%s:script=%s" % (kind, us),
                              "trace of the real pool not accepted by the model (%s at event %s: %s), predicate true on this run"
                              % (kind, d.get("idx"), d.get("event")), rep, no_input=True)


def run(ctx):
    ctx.prove()
    # known fragment may not be merged yet
    try:
        frag = json.load(open(os.path.join(vf.VERIF, "known", "C06.json")))["findings"]
        have = set(k.get("signature") for k in ctx.known)
        ctx.known += [f for f in frag if f.get("signature") not in have and f.get("status", "open") == "open"]
    except Exception:
        pass
    bins = {"shim": ctx.compile_harness(["vf_sched.c", "c06_pool.c"], "c06_pool", mode="shim")}
    pool = ctx.model_bin("pool")
    env = ctx.san_env()
    stats = {"deadlocks": 0, "known_deadlocks_model_confirmed": 0, "model_rejects": 0}

    if ctx.replay:
        r = json.load(open(ctx.replay))
        b = r.get("build", "shim")
        if b not in bins: bins[b] = ctx.compile_harness(["vf_sched.c", "c06_pool.c"], "c06_pool_" + b, mode=b)
        args = "--replay %s --spurious %d" % (r.get("schedule", "-"), int(r.get("spurious", 0)))
        if r.get("follow"): args = "--follow %s" % r["follow"]
        job = (r["script"], args, False, b)
        _, rc, out, err = run_job(job, bins, pool, env)
        bad, summ = parse_out(out)
        ctx.log("replay:", out.strip()[-600:])
        report(ctx, job, bad, stats)
        return ctx.finish("proof", {"evaluations": 1, "distinct_nontrivial": 1, "rule": "replay of one stored schedule",
                                    "samples": [r], "trusted_base": ["replay only"]}, [])

    bins["shimsan"] = ctx.compile_harness(["vf_sched.c", "c06_pool.c"], "c06_pool_san", mode="shimsan")

    # ---- 1. the Coq refutation witness on the real pool
    rc, wout, _ = vf.sh([pool, "--witness", "limit_running"])
    wl = [l for l in wout.splitlines() if l and not l.startswith("follow")]
    follow = [l for l in wout.splitlines() if l.startswith("follow ")][0].split()[1]
    rc, rout, _ = vf.sh([bins["shim"], "--script", KNOWN_SCRIPT, "--follow", follow], timeout=120)
    real = [l for l in rout.splitlines() if l and not l.startswith("#") and not re.search(r" (minit|mdestroy|cinit|cdestroy) ", l)]
    hdr = (rout.splitlines() or [""])[0]
    witness_ok = (" status 1 " in hdr) and (" div 0 " in hdr) and real == wl
    wrep = {"script": KNOWN_SCRIPT, "follow": follow, "build": "shim", "schedule": hdr.split(" sched ")[-1] if " sched " in hdr else "-"}
    if witness_ok:
        ctx.violation(SIG_KNOWN, "Coq witness witness_limit_running reproduces on the real pool event for event and deadlocks", wrep)
    else:
        ctx.violation("correspondence:refutation-witness-not-reproduced",
                      "the trace of C06_pool_limit_while_running_refuted is not an execution of the real pool any more (header: %s)" % hdr[:200],
                      wrep, no_input=True)

    # ---- 2. exploration + trace validation
    jobs = jobs_for(ctx)
    tot = {"runs": 0, "events": 0, "ok": 0, "distinct": 0, "distinct_nontrivial": 0, "skipped_model": 0, "spurious": 0, "taus": 0, "max_trace_len": 0}
    hist, per_script, samples = {}, {}, []
    with cf.ThreadPoolExecutor(max_workers=int(os.environ.get("VERIF_JOBS", "16"))) as ex:
        for job, rc, out, err in ex.map(lambda j: run_job(j, bins, pool, env), jobs):
            script, args, strict, build = job
            bad, summ = parse_out(out)
            if rc != 0 or summ is None:
                raise vf.InfraError("C06 job failed rc=%s: %s %s\n%s" % (rc, script, args, (err or out)[-1500:]))
            n = int(summ["runs"])
            mt = re.search(r"\[job ([0-9.]+)s\]", err)
            if mt and float(mt.group(1)) > 15: ctx.log("slow job %ss runs=%d: %s %s" % (mt.group(1), n, script, args))
            tot["runs"] += n; tot["events"] += int(summ["events"]); tot["ok"] += int(summ["ok"])
            tot["distinct"] += int(summ["distinct_traces"]); tot["skipped_model"] += int(summ["skipped_model"])
            tot["spurious"] += int(summ["spurious"]); tot["taus"] += int(summ["taus"])
            tot["max_trace_len"] = max(tot["max_trace_len"], int(summ["max_trace_len"]))
            ntasks = sum(int(t[1:]) for t in script.split() if t[0] in "aN")
            if ntasks >= 1 and not script.startswith("n1 "):
                tot["distinct_nontrivial"] += int(summ["distinct_traces"])
            for kv in summ.get("hist", "").split(","):
                if ":" in kv:
                    k, v = kv.rsplit(":", 1); hist[k] = hist.get(k, 0) + int(v)
            key = "%s | %s" % (script, re.sub(r" --shard \S+| --seed \d+", "", args))
            per_script[key] = per_script.get(key, 0) + n
            report(ctx, job, bad, stats)
            if len(samples) < 4 and n > 0 and "--shard" not in args:
                samples.append({"script": script, "explore": args, "runs": n, "events": int(summ["events"])})
    ctx.log("explored %d schedules (%d events), %d accepted by model+predicate, %d deadlocks (%d known, model-confirmed)"
            % (tot["runs"], tot["events"], tot["ok"], stats["deadlocks"], stats["known_deadlocks_model_confirmed"]))
    samples.append({"witness_trace_head": wl[:25], "witness_follow": follow, "reproduced_on_real_pool": witness_ok})

    def search():
        # the proof no longer checks: every explored schedule already evaluated the predicate on the real pool
        return bool(ctx.violations)
    ctx.proof_violation_if_broken(search)

    cov = {
        "evaluations": tot["runs"],
        "distinct_nontrivial": tot["distinct_nontrivial"],
        "rule": "one evaluation = one complete execution of a pool script on the real threading.c under one schedule "
                "(DFS: every schedule within the stated delay/preemption bound, each exactly once; random/PCT: seeded); "
                "distinct = different event traces (digest), non-trivial = at least one task on a pool with >= 2 workers",
        "exhaustive": True,
        "exhaustive_scope": "all schedules with at most B non-default choices (B = --dfs value; --free-switch: only preemptions and spurious wake-ups cost) per script listed in per_script_runs; sampling jobs (--random/--pct) are not exhaustive",
        "events_validated_by_model": tot["events"],
        "runs_accepted_model_and_predicate": tot["ok"],
        "runs_predicate_only": tot["skipped_model"],
        "model_rejects": stats["model_rejects"],
        "deadlocks_seen": stats["deadlocks"],
        "known_deadlocks_model_confirmed": stats["known_deadlocks_model_confirmed"],
        "refutation_witness_reproduced": witness_ok,
        "spurious_wakeups_injected": tot["spurious"],
        "alive_reads_modelled": tot["taus"],
        "max_trace_len": tot["max_trace_len"],
        "op_histogram": hist,
        "per_script_runs": per_script,
        "samples": samples,
        "trusted_base": [
            "Coq 8.16.1 kernel; all C06 theorems closed under the global context (no axioms)",
            "extraction ExtrOcamlBasic + ExtrOcamlNativeString, hand-written ocaml/pool_driver.ml (line parser, eager firing of LTau)",
            "harness/vf_sched.c: its model of mutex/condvar/join semantics IS the pthread semantics assumed (mutual exclusion, cond_wait atomically releases, signal wakes one waiter if any, spurious wake-ups allowed); sequentially consistent memory (one thread runs at a time)",
            "harness/c06_pool.c assertions (execution counters, finished flags, unfinished-thread count)",
            "modelled, not verified: granularity (code between two pthread calls atomic, except after unlock and the read of thread->alive); a single client thread calls the pool API; tasks do not call the API (nested assign is explored on the real code with the harness predicate only); malloc never fails",
            "small scope of the tie: pools of 1..4 workers, <= 4 tasks per round, <= 3 rounds; schedules within the bound only",
            "termination of wait (C06_pool_wait_terminates) assumes progress (an enabled non-spurious step is eventually taken) and finitely many spurious wake-ups; no fairness between threads is needed",
        ],
    }
    assumptions = ["limit lowered / pool freed only on a quiescent pool (C06_pool_limit_when_idle_ok); otherwise known finding " + SIG_KNOWN,
                   "single API-calling thread per pool"]
    return ctx.finish("proof", cov, assumptions)
