"""C06 -- thread pool: every task executed exactly once, wait is a barrier, limit change / free
lose nothing, block nowhere and join every worker.

Proof: coq/Props/Properties_C06.v (model coq/Conc/PoolModel.v).
Tie  : the REAL pool (threading.c, built with the pthread calls redirected to the scheduler shim
       harness/vf_sched.c) is run over scripts of the pool API under every schedule within a
       delay/preemption bound (stateless DFS, forked re-execution), plus random and PCT schedules
       on an ASan+UBSan build.  Every run
         (1) asserts the property's own predicate inside the harness (execution counter of each
             task == 1 and finished flag set when wait returns; no task body runs twice; after
             free no thread unfinished and no task lost; the shim reports deadlock), and
         (2) is replayed event by event through the extracted `step` of the Coq model, with the
             executable invariants checked in every state (bin/pool).
       Scripts include NESTED ASSIGN (N/B/D: task bodies calling assign on the same pool, queue path and
       inline nesting on the client and on a worker) and free on a busy pool (F).
       The Coq refutation witness (limit lowered while the freed worker runs) is replayed on the
       real pool: same events, deadlock; the example traces of Props/Properties_C06.v are replayed too.
       A tree that carries fixes/C06_limit_while_busy.patch is recognised and validated against the
       repaired model (init_r): no deadlock may remain, also when the limit is lowered on a busy pool.
"""
import os, json, re, shlex, time, concurrent.futures as cf
import vf

KNOWN_SCRIPT = "n2 a1 l1 w f"
SIG_KNOWN = "deadlock:limit-lowered-while-freed-worker-runs:script=n2_a1_l1_w_f"


EXAMPLES = [("nested", "n2 N1 w f"), ("inline", "n1 D2 w"), ("worker_inline", "n1 s D1 S w")]
REPAIRED_EXAMPLE = ("repaired", "n2 a1 l1 w f")
# limit lowered / pool freed while tasks run: explored only on a repaired tree (no deadlock may remain)
REPAIRED_SCRIPTS = ["n2 a2 l1 w f", "n3 N2 l1 w f", "n2 D2 l1 w f", "n3 a3 l1 a1 w f", "n2 a2 l1 F", "n3 B2 l2 w l1 a1 w f"]


def ensure_pool_bin(ctx):
    """bin/pool must be the extraction of the CURRENT model: rebuild it when a source is newer."""
    coq, oc, b = os.path.join(vf.VERIF, "coq"), os.path.join(vf.VERIF, "ocaml"), os.path.join(vf.VERIF, "bin", "pool")
    srcs = [os.path.join(coq, "Conc", f) for f in ("PoolModel.v", "PoolWitness.v")] + \
           [os.path.join(coq, "Extract", "Extract_pool.v"), os.path.join(oc, "pool_driver.ml")]
    if os.path.exists(b) and all(os.path.getmtime(x) <= os.path.getmtime(b) for x in srcs):
        return b
    os.makedirs(os.path.join(vf.VERIF, "bin"), exist_ok=True)
    cmd = ("set -e; mkdir -p %s/bin; cd %s; for f in Conc/PoolModel Conc/PoolWitness; do "
           "if [ ! -e $f.vo ] || [ $f.v -nt $f.vo ]; then coqc -q -R . MPSV $f.v > /dev/null; fi; done; "
           "coqc -q -R . MPSV Extract/Extract_pool.v > /dev/null; cd %s; T=$(mktemp -d); cp pool.ml pool.mli pool_driver.ml $T/; cd $T; "
           "ocamlfind ocamlopt -O2 -w -a -package str,unix,zarith -linkpkg pool.mli pool.ml pool_driver.ml -o pool.new 2>/dev/null || "
           "ocamlfind ocamlopt -w -a -package str,unix,zarith -linkpkg pool.mli pool.ml pool_driver.ml -o pool.new; "
           "mv pool.new %s; rm -rf $T") % (vf.VERIF, coq, oc, b)
    rc, o, e = vf.sh(["bash", "-c", "flock %s/bin/.pool.lock bash -c %s" % (vf.VERIF, shlex.quote(cmd))], timeout=900)
    if rc != 0 or not os.path.exists(b):
        raise vf.InfraError("rebuilding bin/pool failed:\n%s" % (e or o)[-2000:])
    ctx.log("rebuilt bin/pool (model sources newer than the binary)")
    return b


def tree_is_repaired(ctx):
    """fixes/C06_limit_while_busy.patch applied?  (the bottom of mps_thread_mainloop gives the busy slot back)"""
    try:
        src = open(os.path.join(ctx.snap("shim"), "src", "libmps", "system", "threading.c"), errors="replace").read()
    except Exception:
        return False
    m = re.search(r"mps_thread_mainloop\s*\(void \* thread_ptr\)(.*?)\n}\n", src, re.S)
    body = m.group(1) if m else ""
    tail = body[body.rfind("pthread_cond_wait"):] if "pthread_cond_wait" in body else ""
    return "busy_counter--" in tail and "work_completed_mutex" in tail


def jobs_for(ctx, repaired=False):
    """(script, harness args, strict model?, build) -- deterministic list; sizes measured, see evidence."""
    J = []
    q = ctx.quick()
    def dfs(script, bound, extra="", strict=True, shards=1, build="shim"):
        for i in range(shards):
            a = "--dfs %d %s" % (bound, extra)
            if shards > 1: a += " --shard %d/%d" % (i, shards)
            J.append((script, a.strip(), strict, build))
    # single round, every pool size 1..4 and 0..4 tasks, then free
    for n in range(1, 5):
        for k in range(0, 5):
            s = "n%d a%d w f" % (n, k)
            big = n * k >= 6
            if q:
                dfs(s, 2, shards=4 if big else 1)
            else:
                dfs(s, 3 if n * k <= 4 else 2, shards=8 if (big or n * k >= 3) else 2)
    # preemption bounding proper (non-preemptive switches free) on the small pools
    for s in ["n2 a1 w f", "n2 a2 w f"]:
        dfs(s, 2, "--free-switch", shards=4)
    if not q:
        # preemption bound 3 (context switches at blocking points free) on the 2-worker pools
        for s in ["n2 a1 w f", "n2 a2 w f", "n2 a1 w a1 w f", "n2 a1 w l1 a1 w f"]:
            dfs(s, 3, "--free-switch", shards=16)
    # repeated rounds, limit changes between rounds (always on an idle pool), strict_async, spurious wake-ups
    multi = ["n2 a1 w l1 a1 w f", "n3 a2 w l1 a1 w l2 a2 w f", "n1 a1 w l3 a2 w f", "n2 s a1 w l1 a1 w f",
             "n1 s a2 w f", "n2 a2 w a1 w a0 w f", "n2 f", "n2 l1 f", "n4 a0 w l2 a2 w l4 a3 w f",
             "n2 a1 w l2 a1 w l1 S a1 w f", "n3 a1 w l3 a3 w l1 a2 w f"]
    for s in multi:
        dfs(s, 2 if q else 3 if len(s) < 16 else 2, shards=4)
        dfs(s, 1, "--spurious 1")
    dfs("n2 a2 w f", 2, "--spurious 2", shards=2)
    # NESTED ASSIGN (in the model): task bodies call assign on the same pool.  N: k tasks spawn one each,
    # B: breadth, D: chain (depth <= 3); n1: inline nesting on the client; n1 s: queue path from the single
    # worker; n1 s .. S: strict cleared while queued -> inline nesting ON the worker; l3: limit raised on a busy pool
    for s in ["n2 N1 w f", "n2 B2 w f", "n2 D2 w f", "n1 D3 w f", "n1 B2 a1 w f", "n1 s D2 w f", "n1 s D2 S w f", "n1 s N2 S w f",
              "n2 N1 w N1 w f"]:
        dfs(s, 2 if q else 3, shards=4)
    for s in ["n3 N2 w f", "n2 D2 l3 w f", "n3 D3 w f"]:
        dfs(s, 1 if q else 2, shards=4)
    dfs("n2 N1 w f", 1, "--spurious 1")
    dfs("n2 D2 w f", 2, "--free-switch", shards=4)
    # free on a pool that may be busy (no wait): never blocks, joins everybody, loses exactly the queued tasks
    for s in ["n2 a2 F", "n2 N1 F", "n1 s a2 F", "n3 a3 F", "n2 a1 w a2 F"]:
        dfs(s, 2 if q else 3, strict=False, shards=2)
    # the documented misuse: limit lowered while tasks run -> deadlocks are the known finding
    # (on a repaired tree: no deadlock may remain, here and in further scripts of the same kind)
    dfs(KNOWN_SCRIPT, 2, strict=False)
    if repaired:
        for s in REPAIRED_SCRIPTS:
            dfs(s, 2 if q else 3, strict=False, shards=4)
    # sampling on the sanitizer build (bigger scripts)
    seed = ctx.seed
    nr = 150 if q else 3000
    for s in ["n4 a4 w l2 a3 w l4 a4 w f", "n3 a4 w a4 w a4 w f", "n4 s a4 w l1 a4 w f", "n2 a2 w l1 a1 w f",
              "n3 N2 w B3 w l2 D3 w f", "n1 s B3 S N2 w f"] + (["n4 N2 l2 B2 w l1 a2 F"] if repaired else []):
        J.append((s, "--random %d --seed %d --spurious 2" % (nr, seed), "l1 a2 F" not in s, "shimsan"))
        for d in (2, 3, 4):
            J.append((s, "--pct %d --depth %d --seed %d" % (nr // 3, d, seed * 10 + d), "l1 a2 F" not in s, "shimsan"))
    return J


def parse_out(out):
    bad, summ = [], None
    for line in out.splitlines():
        if line.startswith("BAD "):
            d = dict(re.findall(r'(\w+)=("[^"]*"|\S+)', line))
            bad.append(d)
        elif line.startswith("SUMMARY "):
            summ = dict(re.findall(r"(\w+)=(\S+)", line))
    return bad, summ


def run_job(job, bins, pool, env, repaired=False):
    script, args, strict, build = job
    cmd = "%s --script %s %s 2>/dev/null | %s %s %s" % (shlex.quote(bins[build]), shlex.quote(script), args,
                                                      shlex.quote(pool), "--strict" if strict else "", "--repaired" if repaired else "")
    t0 = time.time()
    rc, out, err = vf.sh(["bash", "-o", "pipefail", "-c", cmd], timeout=2400, env=env)
    return job, rc, out, (err or "") + "\n[job %.1fs]" % (time.time() - t0)


def report(ctx, job, bad, stats):
    """Turn the BAD lines of one job into violations (or known findings)."""
    script, args, strict, build = job
    us = script.replace(" ", "_")
    seen = stats.setdefault("_seen", set())
    for d in bad:
        kind = d.get("kind", "?")
        key = (kind, d.get("what"), script)
        if kind == "deadlock": stats["deadlocks"] += 1
        if key in seen: continue
        seen.add(key)
        rep = {"script": script, "args": args, "build": build, "schedule": d.get("sched", "-"), "detail": d,
               "how": "harness/c06_pool --script '%s' --replay <schedule> [--spurious k] | bin/pool   (or ./check C06 --replay <this file>)" % script}
        m = re.search(r"--spurious (\d+)", args)
        rep["spurious"] = int(m.group(1)) if m else 0
        if kind == "deadlock":
            if script == KNOWN_SCRIPT and not stats.get("repaired"):
                if d.get("model_dead") == "true":
                    seen.discard(key)   # every deadlock of the known script must be model-confirmed
                    stats["known_deadlocks_model_confirmed"] += 1
                    ctx.violation(SIG_KNOWN, "mps_thread_pool_wait blocks forever after the limit was lowered while the freed worker ran a task", rep)
                else:
                    ctx.violation("correspondence:deadlock-not-dead-in-model:script=%s" % us,
                                  "the real pool deadlocks in a state the model does not consider dead", rep, no_input=False)
            else:
                ctx.violation("deadlock:script=%s" % us, "pool deadlocks (no runnable thread) under schedule %s" % d.get("sched"), rep)
        elif kind == "harness":
            what = d.get("what", "?")
            ctx.violation("harness:%s:script=%s" % (what, us),
                          "property predicate fails on the real pool: %s (status %s) under schedule %s" % (what, d.get("status"), d.get("sched")), rep)
        else:
            # accepted by the harness predicate but not by the model / its invariants: the correspondence is broken.
            # The search for a concrete failing input is the exploration itself (every explored schedule evaluates
            # the predicate); nothing failed it for this run.
            if d.get("status") in ("0",):
                stats["model_rejects"] += 1
                ctx.violation("correspondence:%s:script=%s" % (kind, us),
                              "trace of the real pool not accepted by the model (%s at event %s: %s), predicate true on this run"
                              % (kind, d.get("idx"), d.get("event")), rep, no_input=True)


def run(ctx):
    ctx.prove()
    # known fragment may not be merged yet
    try:
        frag = json.load(open(os.path.join(vf.VERIF, "known", "C06.json")))["findings"]
        have = set(k.get("signature") for k in ctx.known)
        ctx.known += [f for f in frag if f.get("signature") not in have and f.get("status", "open") == "open"]
    except Exception:
        pass
    bins = {"shim": ctx.compile_harness(["vf_sched.c", "c06_pool.c"], "c06_pool", mode="shim")}
    pool = ensure_pool_bin(ctx)
    env = ctx.san_env()
    stats = {"deadlocks": 0, "known_deadlocks_model_confirmed": 0, "model_rejects": 0}
    repaired = tree_is_repaired(ctx)
    stats["repaired"] = repaired
    if repaired: ctx.log("this tree carries the busy-slot repair (fixes/C06_limit_while_busy.patch): validating against init_r")

    if ctx.replay:
        r = json.load(open(ctx.replay))
        b = r.get("build", "shim")
        if b not in bins: bins[b] = ctx.compile_harness(["vf_sched.c", "c06_pool.c"], "c06_pool_" + b, mode=b)
        args = "--replay %s --spurious %d" % (r.get("schedule", "-"), int(r.get("spurious", 0)))
        if r.get("follow"): args = "--follow %s" % r["follow"]
        job = (r["script"], args, False, b)
        _, rc, out, err = run_job(job, bins, pool, env, repaired)
        bad, summ = parse_out(out)
        ctx.log("replay:", out.strip()[-600:])
        report(ctx, job, bad, stats)
        return ctx.finish("proof", {"evaluations": 1, "distinct_nontrivial": 1, "rule": "replay of one stored schedule",
                                    "samples": [r], "trusted_base": ["replay only"]}, [])

    bins["shimsan"] = ctx.compile_harness(["vf_sched.c", "c06_pool.c"], "c06_pool_san", mode="shimsan")

    # ---- 1. Coq traces on the real pool: the refutation witness (same events, deadlock) and the example traces
    def replay_model_trace(name, script):
        rc, wout, _ = vf.sh([pool, "--witness", name])
        wl = [l for l in wout.splitlines() if l and not l.startswith("follow")]
        fl = [l for l in wout.splitlines() if l.startswith("follow ")]
        follow = fl[0].split()[1] if fl else "-"
        rc, rout, _ = vf.sh([bins["shim"], "--script", script, "--follow", follow], timeout=120)
        real = [l for l in rout.splitlines() if l and not l.startswith("#") and not re.search(r" (minit|mdestroy|cinit|cdestroy) ", l)]
        hdr = (rout.splitlines() or [""])[0]
        return wl, follow, real, hdr
    witness_ok, examples_ok = False, {}
    if not repaired:
        wl, follow, real, hdr = replay_model_trace("limit_running", KNOWN_SCRIPT)
        witness_ok = (" status 1 " in hdr) and (" div 0 " in hdr) and real == wl
        wrep = {"script": KNOWN_SCRIPT, "follow": follow, "build": "shim", "schedule": hdr.split(" sched ")[-1] if " sched " in hdr else "-"}
        if witness_ok:
            ctx.violation(SIG_KNOWN, "Coq witness witness_limit_running reproduces on the real pool event for event and deadlocks", wrep)
        else:
            ctx.violation("correspondence:refutation-witness-not-reproduced",
                          "the trace of C06_pool_limit_while_running_refuted is not an execution of the real pool any more (header: %s)" % hdr[:200],
                          wrep, no_input=True)
    else:
        wl, follow = [], "-"
        ctx.log("repaired tree: C06_pool_limit_while_running_refuted is a statement about the unrepaired code; its witness is not replayed")
    # (a trace that contains a worker leaving through the bottom exit -- script with f -- differs between the two trees)
    for name, script in ([e for e in EXAMPLES if "f" not in e[1].split()] + [REPAIRED_EXAMPLE]) if repaired else EXAMPLES:
        el, ef, ereal, ehdr = replay_model_trace(name, script)
        ok = (" status 0 " in ehdr) and (" div 0 " in ehdr) and (" rc 0 " in ehdr) and ereal == el and len(el) > 10
        examples_ok[name] = ok
        if not ok:
            ctx.violation("correspondence:example-trace-not-reproduced:%s" % name,
                          "the Coq trace example_%s (Conc/PoolWitness.v) is not an execution of the real pool on script '%s' (header: %s)" % (name, script, ehdr[:160]),
                          {"script": script, "follow": ef, "build": "shim"}, no_input=True)

    # ---- 2. exploration + trace validation
    jobs = jobs_for(ctx, repaired)
    tot = {"runs": 0, "events": 0, "ok": 0, "distinct": 0, "distinct_nontrivial": 0, "skipped_model": 0, "nested_runs": 0, "spurious": 0, "taus": 0, "max_trace_len": 0}
    kinds = {"plain": 0, "nested_queue_or_inline(N/B/D)": 0, "free_on_busy_pool(F)": 0, "limit_change": 0, "strict_async": 0, "limit_lowered_while_busy": 0}
    hist, per_script, samples = {}, {}, []
    with cf.ThreadPoolExecutor(max_workers=int(os.environ.get("VERIF_JOBS", "16"))) as ex:
        for job, rc, out, err in ex.map(lambda j: run_job(j, bins, pool, env, repaired), jobs):
            script, args, strict, build = job
            bad, summ = parse_out(out)
            if rc != 0 or summ is None:
                raise vf.InfraError("C06 job failed rc=%s: %s %s\n%s" % (rc, script, args, (err or out)[-1500:]))
            n = int(summ["runs"])
            mt = re.search(r"\[job ([0-9.]+)s\]", err)
            if mt and float(mt.group(1)) > 15: ctx.log("slow job %ss runs=%d: %s %s" % (mt.group(1), n, script, args))
            tot["runs"] += n; tot["events"] += int(summ["events"]); tot["ok"] += int(summ["ok"])
            tot["distinct"] += int(summ["distinct_traces"]); tot["skipped_model"] += int(summ["skipped_model"])
            tot["spurious"] += int(summ["spurious"]); tot["taus"] += int(summ["taus"]); tot["nested_runs"] += int(summ.get("nested_runs", 0))
            toks = script.split()
            if any(t[0] in "NBD" for t in toks): kinds["nested_queue_or_inline(N/B/D)"] += n
            if "F" in toks: kinds["free_on_busy_pool(F)"] += n
            if any(t[0] == "l" for t in toks): kinds["limit_change"] += n
            if any(t in ("s", "S") for t in toks): kinds["strict_async"] += n
            if script == KNOWN_SCRIPT or script in REPAIRED_SCRIPTS: kinds["limit_lowered_while_busy"] += n
            if not any(t[0] in "NBDFlsS" for t in toks): kinds["plain"] += n
            tot["max_trace_len"] = max(tot["max_trace_len"], int(summ["max_trace_len"]))
            ntasks = sum(int(t[1:]) for t in script.split() if t[0] in "aNBD")
            if ntasks >= 1 and not script.startswith("n1 "):
                tot["distinct_nontrivial"] += int(summ["distinct_traces"])
            for kv in summ.get("hist", "").split(","):
                if ":" in kv:
                    k, v = kv.rsplit(":", 1); hist[k] = hist.get(k, 0) + int(v)
            key = "%s | %s" % (script, re.sub(r" --shard \S+| --seed \d+", "", args))
            per_script[key] = per_script.get(key, 0) + n
            report(ctx, job, bad, stats)
            if len(samples) < 4 and n > 0 and "--shard" not in args:
                samples.append({"script": script, "explore": args, "runs": n, "events": int(summ["events"])})
    ctx.log("explored %d schedules (%d events), %d accepted by model+predicate, %d deadlocks (%d known, model-confirmed)"
            % (tot["runs"], tot["events"], tot["ok"], stats["deadlocks"], stats["known_deadlocks_model_confirmed"]))
    samples.append({"witness_trace_head": wl[:25], "witness_follow": follow, "reproduced_on_real_pool": witness_ok,
                    "example_traces_reproduced": examples_ok, "tree_repaired": repaired})

    # ---- 3. solver discipline: real solves under the shim with the pool entry points wrapped at link time.
    # The precondition of C06_pool_no_stuck_state (limit lowered / pool freed only on a quiescent pool) is
    # checked at every call the library (or the harness, for the async private pool) makes.
    WRAP = " ".join("-Wl,--wrap=" + f for f in ["mps_thread_pool_set_concurrency_limit", "mps_thread_pool_free",
                                                 "mps_thread_pool_assign", "mps_thread_pool_wait"])
    hsolve = ctx.compile_harness(["vf_sched.c", "c06_solve.c"], "c06_solve", mode="shim", extra_ldflags=WRAP)
    solve_cov = {}
    nr, npct = (40, 20) if ctx.quick() else (600, 300)
    for sc in ["j2", "reuse", "small", "cheb", "async", "secular"]:
        for jobs in ("4", "2"):
            rc, out, err = vf.sh([hsolve, "--scenario", sc, "--jobs", jobs, "--random", str(nr), "--pct", str(npct), "--seed", str(ctx.seed)],
                                 timeout=1200, env=env)
            runs = [dict(re.findall(r"(\w+)=(\S+)", l)) for l in out.splitlines() if l.startswith("RUN ")]
            scheds = [l[6:] for l in out.splitlines() if l.startswith("SCHED ")]
            if rc != 0 or len(runs) != 1 + nr + npct:
                raise vf.InfraError("c06_solve failed rc=%s scenario=%s: %s" % (rc, sc, (err or out)[-800:]))
            c = solve_cov.setdefault(sc, {"runs": 0, "events": 0, "setlimit": 0, "lowering": 0, "lowering_busy": 0, "free": 0, "free_busy": 0,
                                          "assign": 0, "nested_assign": 0, "wait": 0, "bad": 0})
            for r in runs:
                c["runs"] += 1
                for k, kk in (("events", "events"), ("setlimit", "setlimit"), ("lowering", "lowering"), ("lowering_busy", "lowering_busy"),
                              ("free", "free"), ("free_busy", "free_busy"), ("assign", "assign"), ("nested", "nested_assign"), ("wait", "wait")):
                    c[kk] += int(r.get(k, 0))
                if r.get("status") != "0" or r.get("rc") != "0":
                    c["bad"] += 1
                    what = r.get("what", "-")
                    if r.get("status") == "1" and what == "-": what = "deadlock"
                    rep = {"scenario": sc, "jobs": jobs, "mode": r.get("mode"), "seed": r.get("seed"), "schedule": scheds.pop(0) if scheds else "-",
                           "how": "harness/c06_solve --scenario %s --jobs %s (mode %s seed %s)" % (sc, jobs, r.get("mode"), r.get("seed"))}
                    if what.startswith("discipline:"):
                        ctx.violation("%s:scenario=%s" % (what, sc),
                                      "the library lowers the concurrency limit / frees a pool that is not quiescent (busy_counter != 0 or queue non-empty) "
                                      "during a real solve: the precondition of C06_pool_no_stuck_state is not met, the next wait can block forever", rep)
                    else:
                        ctx.violation("solve:%s:scenario=%s" % (what, sc), "real solve under the scheduler shim fails: %s (status %s rc %s)"
                                      % (what, r.get("status"), r.get("rc")), rep)
    # call sites of the three entry points in the library (read off the snapshot; recorded, no verdict)
    call_sites = []
    try:
        root = os.path.join(ctx.snap("shim"), "src", "libmps")
        for dp, _, fs in os.walk(root):
            for f in sorted(fs):
                if f.endswith((".c", ".cpp")) and f != "threading.c":
                    for i, line in enumerate(open(os.path.join(dp, f), errors="replace"), 1):
                        m = re.search(r"\b(mps_thread_pool_(?:set_concurrency_limit|free|new|assign|wait))\s*\(", line)
                        if m: call_sites.append("%s:%d:%s" % (os.path.relpath(os.path.join(dp, f), root), i, m.group(1)))
    except Exception as e:
        ctx.log("call site scan failed: %s" % e)
    tot_solve = sum(c["runs"] for c in solve_cov.values())
    ctx.log("solver discipline: %d real solves under the shim, %d limit-lowering calls, %d pool frees, all on a quiescent pool: %s"
            % (tot_solve, sum(c["lowering"] for c in solve_cov.values()), sum(c["free"] for c in solve_cov.values()),
               all(c["lowering_busy"] == 0 and c["free_busy"] == 0 for c in solve_cov.values())))

    def search():
        # the proof no longer checks: every explored schedule already evaluated the predicate on the real pool
        return bool(ctx.violations)
    ctx.proof_violation_if_broken(search)

    cov = {
        "evaluations": tot["runs"],
        "distinct_nontrivial": tot["distinct_nontrivial"],
        "rule": "one evaluation = one complete execution of a pool script on the real threading.c under one schedule "
                "(DFS: every schedule within the stated delay/preemption bound, each exactly once; random/PCT: seeded); "
                "distinct = different event traces (digest), non-trivial = at least one task on a pool with >= 2 workers",
        "exhaustive": True,
        "exhaustive_scope": "all schedules with at most B non-default choices (B = --dfs value; --free-switch: only preemptions and spurious wake-ups cost) per script listed in per_script_runs; sampling jobs (--random/--pct) are not exhaustive",
        "events_validated_by_model": tot["events"],
        "runs_accepted_model_and_predicate": tot["ok"],
        "runs_predicate_only": tot["skipped_model"],
        "runs_with_nested_assign_validated_by_model": tot["nested_runs"],
        "script_kind_histogram": kinds,
        "tree_repaired": repaired,
        "solver_discipline": {"real_solves_under_shim": tot_solve, "per_scenario": solve_cov, "library_call_sites": sorted(call_sites),
                              "rule": "every call of set_concurrency_limit / free / assign / wait made during real solves (scenarios: -j2, context re-use, degree < threads, Chebyshev, async private pool, secular; MPS_JOBS 4 and 2; default + random + PCT schedules) is intercepted at link time; a limit-lowering or free on a pool with busy_counter != 0 or a non-empty queue is a violation; nested_assign counts assigns made by a worker of the same pool"},
        "model_start_state": "init_r (repaired)" if repaired else "init",
        "example_traces_reproduced": examples_ok,
        "model_rejects": stats["model_rejects"],
        "deadlocks_seen": stats["deadlocks"],
        "known_deadlocks_model_confirmed": stats["known_deadlocks_model_confirmed"],
        "refutation_witness_reproduced": witness_ok,
        "spurious_wakeups_injected": tot["spurious"],
        "alive_reads_modelled": tot["taus"],
        "max_trace_len": tot["max_trace_len"],
        "op_histogram": hist,
        "per_script_runs": per_script,
        "samples": samples,
        "trusted_base": [
            "Coq 8.16.1 kernel; all C06 theorems closed under the global context (no axioms)",
            "extraction ExtrOcamlBasic + ExtrOcamlNativeString, hand-written ocaml/pool_driver.ml (line parser, eager firing of LTau)",
            "harness/vf_sched.c: its model of mutex/condvar/join semantics IS the pthread semantics assumed (mutual exclusion, cond_wait atomically releases, signal wakes one waiter if any, spurious wake-ups allowed); sequentially consistent memory (one thread runs at a time)",
            "harness/c06_pool.c assertions (execution counters, finished flags for every task handed over by the client or by a task body, unfinished-thread count)",
            "modelled, not verified: granularity (code between two pthread calls atomic, except after unlock and the read of thread->alive); a single client thread calls new/wait/set_concurrency_limit/free; task bodies call only assign, after their yield; malloc never fails",
            "harness/c06_solve.c: link-time wrappers (--wrap) of the four pool entry points reading busy_counter / queue of the pool at each call; real solves on small polynomials only (degree <= 7), sampled schedules",
            "small scope of the tie: pools of 1..4 workers, <= 4 tasks per round, <= 3 rounds, nesting depth <= 3; schedules within the bound only",
            "termination of wait (C06_pool_wait_terminates) assumes progress (an enabled non-spurious step is eventually taken), finitely many spurious wake-ups and finitely many nested assigns; no fairness between threads is needed",
            "recognition of a repaired tree is textual (bottom of mps_thread_mainloop gives the busy slot back under work_completed_mutex); it only selects the model (init / init_r) every trace is then validated against",
        ],
    }
    assumptions = ["limit lowered / pool freed only on a quiescent pool (C06_pool_limit_when_idle_ok); otherwise known finding " + SIG_KNOWN
                   + " (free / set_concurrency_limit themselves never block: C06_pool_stuck_only_in_wait; with fixes/C06_limit_while_busy.patch no precondition is left: C06_pool_repaired_no_stuck_state)",
                   "single thread calling new/wait/set_concurrency_limit/free per pool; task bodies may call assign"]
    return ctx.finish("proof", cov, assumptions)
