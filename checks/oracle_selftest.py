#!/usr/bin/env python3
"""Self-test of the certified root oracle (not a property check).
    python3 checks/oracle_selftest.py [-v]
Exits 0 iff every expectation holds.  Must run in < 60 s."""
import os, sys, time, random
from fractions import Fraction as F

sys.path.insert(0, os.path.join(os.path.dirname(os.path.dirname(os.path.abspath(__file__))), "lib"))
from oracle import (Oracle, OracleError, secular_to_monomial, chebyshev_to_monomial,   # noqa
                    secular_to_monomial_py, chebyshev_to_monomial_py)

VERBOSE = "-v" in sys.argv
fails = []
ncases = 0


def expect(cond, what):
    global ncases
    ncases += 1
    if not cond:
        fails.append(what)
        print("FAIL:", what)
    elif VERBOSE:
        print("ok:  ", what)


def from_roots(rs):
    """prod (x - r) with r exact (Fraction or (re, im))"""
    p = [(F(1), F(0))]
    for r in rs:
        r = r if isinstance(r, tuple) else (F(r), F(0))
        q = [(F(0), F(0))] * (len(p) + 1)
        for i, c in enumerate(p):
            q[i + 1] = (q[i + 1][0] + c[0], q[i + 1][1] + c[1])
            q[i] = (q[i][0] - (c[0] * r[0] - c[1] * r[1]), q[i][1] - (c[0] * r[1] + c[1] * r[0]))
        p = q
    return p


def certified(name, coeffs, target=-200, degree=None, route=None):
    t = time.time()
    o = Oracle(coeffs)
    ok = o.certify(target)
    dt = time.time() - t
    expect(ok, "%s certifies (%s) [%.2fs]" % (name, o.why, dt))
    if ok:
        if degree is not None:
            expect(o.degree_certified == degree, "%s: multiplicities sum to the degree %d" % (name, degree))
        if route is not None:
            expect(o.why == route, "%s: route %s" % (name, route))
        expect(all(r["radius"] < F(2) ** target for r in o.roots), "%s: radii below 2^%d" % (name, target))
    return o if ok else None


def main():
    t0 = time.time()
    rng = random.Random(12345)

    # 1. x^2 - 1
    o = certified("x^2-1", [-1, 0, 1], degree=2, route="simple")
    if o:
        c = o.count([(F(1), 0, F(1, 2)), (0, 0, 2), (5, 0, 1), (0, 0, 1), (F(1, 2), 0, F(1, 2))])
        expect(c == [(1, 1), (2, 2), (0, 0), (0, 2), (0, 1)], "x^2-1 counts incl. boundary-straddling discs: %r" % (c,))
        cov = o.cover([(F(1), 0, F(1, 10)), (0, 0, 3), (7, 0, 1)])
        expect(sorted(map(tuple, cov)) == [(0, 1), (1,)] and o.all_covered, "x^2-1 cover %r" % (cov,))
        cov = o.cover([(F(1), 0, F(1, 10)), (F(-1), 0, F(1, 10 ** 70))])
        expect(not o.all_covered, "x^2-1: one disc does not cover both roots")
        expect(sorted(o.uncovered) == [False, False], "x^2-1: root -1 straddles a too small disc: undecided")
        cov = o.cover([(F(1), 0, F(1, 10)), (F(-2), 0, F(1, 2))])
        expect(sorted(o.uncovered) == [False, True] and not o.all_covered, "x^2-1: root -1 certainly uncovered")
        expect(sorted(o.sides("re")) == ["+", "-"], "x^2-1 sides re")
        expect(o.sides("unit") == ["0", "0"], "x^2-1: roots on the unit circle straddle")
        expect(o.sides("im") == ["0", "0"], "x^2-1: real roots straddle the real axis")
        expect(o.real_flags() == [True, True], "x^2-1 roots certified real")
        o.close()

    # 2. Wilkinson 10
    o = certified("wilkinson10", from_roots(range(1, 11)), degree=10, route="simple")
    if o:
        c = o.count([(k, 0, F(1, 3)) for k in range(0, 12)] + [(F(11, 2), 0, 1), (F(11, 2), 0, F(1, 2))])
        expect(c == [(0, 0)] + [(1, 1)] * 10 + [(0, 0), (2, 2), (0, 2)], "wilkinson10 counts %r" % (c,))
        o.close()

    # 3. multiple roots (x-1)^3 (x+2)
    o = certified("(x-1)^3(x+2)", from_roots([1, 1, 1, -2]), degree=4, route="sqf")
    if o:
        expect(sorted(r["mult"] for r in o.roots) == [1, 3], "(x-1)^3(x+2): multiplicities 1 and 3")
        c = o.count([(1, 0, F(1, 1000)), (-2, 0, F(1, 1000)), (0, 0, 3), (0, 0, F(1, 2))])
        expect(c == [(3, 3), (1, 1), (4, 4), (0, 0)], "(x-1)^3(x+2) counts %r" % (c,))
        o.close()

    # 4. complex coefficients, complex multiple root: (x - i)^2 (x - (1+2i)) (x + 3)
    o = certified("complex multiple", from_roots([(F(0), F(1)), (F(0), F(1)), (F(1), F(2)), -3]), degree=4, route="sqf")
    if o:
        c = o.count([(0, 1, F(1, 10)), (1, 2, F(1, 10)), (0, 0, F(1, 2))])
        expect(c == [(2, 2), (1, 1), (0, 0)], "complex multiple counts %r" % (c,))
        expect(sorted(o.sides("im")) == ["+", "+", "0"], "complex multiple sides im %r" % (o.sides("im"),))
        o.close()

    # 5. complex Gaussian-rational coefficients, simple roots
    o = certified("complex rational", [(1, 2), (0, 1), (F(1, 3), F(-2, 7)), (1, 0)], degree=3, route="simple")
    if o:
        expect(o.count([(0, 0, 10), (0, 0, F(1, 10))]) == [(3, 3), (0, 0)], "complex rational counts")
        expect(o.real_flags() == [False] * 3, "complex rational: no root flagged real")
        o.close()

    # 6. rational coefficients with big denominators
    o = certified("rational", [F(rng.randint(-10 ** 30, 10 ** 30), rng.randint(1, 10 ** 30)) for _ in range(8)], degree=7)
    if o:
        expect(o.count([(0, 0, 10 ** 40)]) == [(7, 7)], "rational: all roots in a huge disc")
        o.close()

    # 7. degree 30 random integer coefficients
    o = certified("random30", [rng.randint(-1000, 1000) for _ in range(30)] + [1], target=-30, degree=30)
    if o:
        expect(o.count([(0, 0, 2000)]) == [(30, 30)], "random30: Cauchy bound disc has all 30 roots")
        n_in = o.sides("unit").count("-"); n_out = o.sides("unit").count("+")
        c = o.count([(0, 0, 1)])[0]
        expect(c[0] == n_in and c[1] == 30 - n_out, "random30: unit-disc count agrees with side query")
        o.close()

    # 8. clustered roots 1 +- 2^-30
    e = F(1, 2 ** 30)
    o = certified("cluster", from_roots([1 - e, 1 + e, -1]), degree=3, route="simple")
    if o:
        c = o.count([(1, 0, F(1, 2 ** 20)), (1 + e, 0, F(1, 2 ** 31)), (1, 0, e), (1, 0, F(1, 2 ** 31))])
        expect(c == [(2, 2), (1, 1), (0, 2), (0, 0)], "cluster counts %r" % (c,))
        o.close()

    # 9. x^n - 1
    for n in (7, 16):
        o = certified("x^%d-1" % n, [-1] + [0] * (n - 1) + [1], target=-64, degree=n, route="simple")
        if o:
            expect(o.count([(0, 0, 2), (0, 0, F(1, 2)), (1, 0, F(1, 100))]) == [(n, n), (0, 0), (1, 1)], "x^%d-1 counts" % n)
            expect(o.sides("unit") == ["0"] * n, "x^%d-1: all roots straddle the unit circle" % n)
            o.close()

    # 10. input with zero leading coefficients and a zero root of multiplicity 2
    o = certified("x^2(x-3) padded", [0, 0, -3, 1, 0, 0], degree=3)
    if o:
        expect(o.count([(0, 0, 1), (3, 0, 1)]) == [(2, 2), (1, 1)], "padded counts")
        o.close()

    # 11. secular / Chebyshev conversions feeding the oracle
    sec = secular_to_monomial([1, 2, F(1, 2)], [0, 1, -1])       # 1/x + 2/(x-1) + (1/2)/(x+1) = 1
    expect(sec == [(F(1), F(0)), (F(-5, 2), F(0)), (F(-7, 2), F(0)), (F(1), F(0))], "secular numerator %r" % (sec,))
    o = certified("secular", sec, degree=3)
    if o:
        o.close()
    # extracted Coq conversion versus the python re-implementation, random Gaussian-rational data
    for _ in range(5):
        k = rng.randint(1, 6)
        rq = lambda: (F(rng.randint(-50, 50), rng.randint(1, 20)), F(rng.randint(-50, 50), rng.randint(1, 20)))
        aa = [rq() for _ in range(k)]; bb = [rq() for _ in range(k)]
        expect(secular_to_monomial(aa, bb) == secular_to_monomial_py(aa, bb), "secular: Coq == python (n=%d)" % k)
        cc = [rq() for _ in range(k + 2)]
        expect(chebyshev_to_monomial(cc) == chebyshev_to_monomial_py(cc), "chebyshev: Coq == python (n=%d)" % (k + 1))
    ch = chebyshev_to_monomial([0, 0, 0, 1])                      # T_3 = 4x^3 - 3x
    expect(ch == [(F(0), F(0)), (F(-3), F(0)), (F(0), F(0)), (F(4), F(0))], "T_3 monomial %r" % (ch,))
    o = certified("T_5+T_2", chebyshev_to_monomial([0, 0, 1, 0, 0, 1]), degree=5)
    if o:
        expect(o.count([(0, 0, F(11, 10))]) == [(5, 5)], "T_5+T_2: all roots near [-1,1]")
        o.close()

    # 12. both Newton tests (exact integer arithmetic / truncated ball arithmetic) on the same input
    o = Oracle([3, -1, 0, 2, 0, -7, 1])
    he = o.get_hints(-80, exact_only=True)
    ht = o.get_hints(-80)
    expect(he.get("ok") and [f["prec"] for f in he["factors"]] == [0], "exact-only hints use prec 0")
    expect(ht.get("ok") and all(f["prec"] > 0 for f in ht["factors"]), "default hints use the truncated test")
    if he.get("ok") and ht.get("ok"):
        expect(o.check_hints(he), "exact Newton test accepts")
        ce = o.count([(0, 0, 1), (0, 0, 10)])
        expect(o.check_hints(ht), "truncated Newton test accepts")
        expect(o.count([(0, 0, 1), (0, 0, 10)]) == ce and ce[1] == (6, 6), "both give the same counts %r" % (ce,))
        # a precision that is far too small must fail (or pass soundly), never crash
        import copy
        hl = copy.deepcopy(ht); hl["factors"][0]["prec"] = 3
        expect(not o.check_hints(hl) and "newton" in o.why, "truncated test with 3 bits rejects (%s)" % o.why)
    o.close()

    # 13. the driver's integer parsing/printing (trusted): decimal and hex literals round-trip
    import subprocess
    from oracle import CERT_BIN
    good = True
    for nd in (1, 17, 18, 19, 37, 200):
        a, b, s_ = rng.randint(-10 ** nd, 10 ** nd), rng.randint(-10 ** nd, 10 ** nd), rng.randint(1, 10 ** nd)
        r = rng.randint(0, 10 ** nd)
        body = "poly 1\n%d 1 %d 1\n%d 1 0 1\npint 1 1\n%d %d\n%d 0\nfactor 1 1\n%d %d\n%d 0\n" % (-a, -b, s_, -a, -b, s_, -a, -b, s_)
        for lits in (("%d %d %d %d" % (a, b, r, s_)), ("%s %s %s %s" % (hex(a), hex(b), hex(r), hex(s_)))):
            out = subprocess.run([CERT_BIN], input=body + "tinyq 0 " + lits + "\ncheck\nroots\nhexout\nroots\n",
                                 stdout=subprocess.PIPE, text=True).stdout.split("\n")
            good = good and out[0] == "CERT OK" and [int(x) for x in out[2].split()[1:]] == [a, b, r, s_] \
                and [int(x, 0) for x in out[4].split()[1:]] == [a, b, r, s_]
    expect(good, "driver integer literals round-trip (decimal and hex, up to 200 digits)")

    # ---- failure paths: a wrong hint must give CERT FAIL, never a wrong yes ----
    o = Oracle([-1, -1, 0, 0, 0, 1])              # x^5 - x - 1: no rational root
    h = o.get_hints(-100)
    expect(h.get("ok"), "hints for failure-path tests")
    if h.get("ok"):
        import copy
        expect(o.check_hints(h), "unmodified hints pass")
        # (a) centre moved away by 2^20 radii
        h1 = copy.deepcopy(h); t = h1["factors"][0]["tiny"][0]; t[0] = str(int(t[0]) + int(t[2]) * 2 ** 20)
        expect(not o.check_hints(h1) and "newton" in o.why, "moved centre rejected (%s)" % o.why)
        try:
            o.count([(0, 0, 10)])
            expect(False, "queries refused after CERT FAIL")
        except OracleError:
            expect(True, "queries refused after CERT FAIL")
        # (b) radius shrunk to 0
        h2 = copy.deepcopy(h); h2["factors"][0]["tiny"][1][2] = "0"
        expect(not o.check_hints(h2) and "newton" in o.why, "zero radius rejected (%s)" % o.why)
        # (c) one disc dropped / duplicated
        h3 = copy.deepcopy(h); h3["factors"][0]["tiny"].pop()
        expect(not o.check_hints(h3) and "shape" in o.why, "missing disc rejected (%s)" % o.why)
        h4 = copy.deepcopy(h); h4["factors"][0]["tiny"][0] = list(h4["factors"][0]["tiny"][1])
        expect(not o.check_hints(h4) and "disjoint" in o.why, "duplicated disc rejected (%s)" % o.why)
        # (d) wrong factor polynomial
        h5 = copy.deepcopy(h); h5["factors"][0]["q"][0][0] = str(int(h5["factors"][0]["q"][0][0]) + 1)
        expect(not o.check_hints(h5) and "product" in o.why, "wrong factor rejected (%s)" % o.why)
        # (e) wrong scaling
        h6 = copy.deepcopy(h); h6["scale"] = "2"
        expect(not o.check_hints(h6) and "scaling" in o.why, "wrong scale rejected (%s)" % o.why)
        # (f) huge radius: discs overlap
        h7 = copy.deepcopy(h)
        for t in h7["factors"][0]["tiny"]:
            t[2] = str(2 ** 130)
        expect(not o.check_hints(h7) and "disjoint" in o.why, "overlapping discs rejected (%s)" % o.why)
        # (g) multiplicity lie
        h8 = copy.deepcopy(h); h8["factors"][0]["m"] = 2
        expect(not o.check_hints(h8) and "product" in o.why, "wrong multiplicity rejected (%s)" % o.why)
    o.close()
    # multiple root claimed simple: (x-1)^2 with two discs around 1
    o = Oracle([1, -2, 1])
    hbad = {"ok": True, "scale": "1", "pint": [["1", "0"], ["-2", "0"], ["1", "0"]], "g": ["1", "0"], "a": ["1", "0"],
            "factors": [{"m": 1, "q": [["1", "0"], ["-2", "0"], ["1", "0"]],
                         "tiny": [["1025", "0", "1", "-10"], ["1023", "0", "1", "-10"]]}]}
    expect(not o.check_hints(hbad), "double root claimed as two simple roots rejected (%s)" % o.why)
    o.close()
    # zero polynomial
    o = Oracle([0, 0])
    expect(not o.certify(-50), "zero polynomial is not certified (%s)" % o.why)
    o.close()

    dt = time.time() - t0
    print("oracle_selftest: %d expectations, %d failed, %.1f s" % (ncases, len(fails), dt))
    expect(dt < 60, "runs in < 60 s")
    return 1 if fails else 0


if __name__ == "__main__":
    sys.exit(main())
