"""C11 -- inline expressions denote the polynomial of ordinary algebra; ill-formed ones are rejected.

Stages
  1. translator: yacc-parser.y of the source snapshot -> coq/Inline/Gen/GrammarGen.v (c11_yacc_reader);
     the Coq obligation `grammar_gen = expected_grammar` ties the proofs to the grammar file.
  2. ctx.prove(): re-checks Props/Properties_C11.v.
  1b. translator: tokenizer.l of the source snapshot -> coq/Inline/Gen/LexerGen.v (c11_flex_reader); obligation `lexer_gen = expected_lexer`.
     The committed LexerGen.v is the reading of tokenizer.l WITH fixes/C11_newline.patch; the reading of the unpatched file is recognised
     by its hash (known finding illformed-accepted:stray-newline, witness replayed on the real code).
  4. scanner stage (harness/c11_lex.c): the real yylex is called directly (token names, lexemes, yylval, what is written to yyout) together with
     mps_parse_inline_poly_from_string on hex-encoded inputs (newlines, bytes >= 128) and compared with the extracted GENERATED scanner, the
     pipeline over it, the hand-written scanner model, the model of the C literal conversion and a Python reading of the rules.
  3. correspondence / property predicate on the real code (harness/c11_inline.c, ASan+UBSan):
       every generated expression TREE is printed (minimal parentheses, plus redundant-parenthesis /
       whitespace variants), its polynomial is computed here with exact Gaussian-rational arithmetic
       (= the property's "polynomial the expression denotes"), and compared with
         (a) mps_parse_inline_poly_from_string (exact mpq coefficients)      -> property predicate
         (b) the extracted Coq model, both readings of every string: lex + parse_ref + denote (+ formal-poly
             model) AND the pipeline as generated (flex token names -> bison's imported table run by the yacc
             skeleton model -> grammar actions on the formal-polynomial model); the driver prints LRDIFF /
             FPDIFF when they differ                                              -> correspondence
     ill-formed strings are produced by construction (mutation classes) and must give ERR in both.

Language decisions (see coq/Inline/InlineModel.v header): "1/2" is one rational-constant token and '/'
is no operator; an exponent is an integer literal; `x^2^3` = (x^2)^3; one `i` per constant; a unary minus
may start any operand; a character outside the token set or a zero denominator makes a string ill-formed.
Strings whose status is debatable (`x^2.0`, `x^1e1`, `x^4/2`: exponent constants with an integer *value*;
the other variable letters y z X Y Z of the tokenizer; a bare `i`) are not generated.
"""
import os, sys, re, json, hashlib, zlib
from fractions import Fraction as Fr
from concurrent.futures import ThreadPoolExecutor
import vf
import c11_yacc_reader as yr
import c11_bison_report as br
import c11_flex_reader as fr

VERIF = os.path.dirname(os.path.dirname(os.path.abspath(__file__)))
GEN = os.path.join(VERIF, "coq", "Inline", "Gen", "GrammarGen.v")
AUT = os.path.join(VERIF, "coq", "Inline", "Gen", "AutomatonGen.v")
LEXGEN = os.path.join(VERIF, "coq", "Inline", "Gen", "LexerGen.v")
# translator output for the grammar of /repo HEAD before fixes/C11_grammar.patch (sha1 of the generated text)
UNPATCHED_GRAMMAR_SHA1 = "b7109e49beb196000c4035217ec50870d3fc0d24"
# translator output for tokenizer.l before fixes/C11_newline.patch (catch-all rule `.` instead of `.|\n`)
UNPATCHED_LEXER_SHA1 = "063303298bfe7c44ac421e9217767c76eb3a4e21"

# ----------------------------------------------------------------------------- exact arithmetic
Z0 = (Fr(0), Fr(0))


def cadd(a, b): return (a[0] + b[0], a[1] + b[1])
def cneg(a): return (-a[0], -a[1])
def cmul(a, b): return (a[0] * b[0] - a[1] * b[1], a[1] * b[0] + a[0] * b[1])


def pnorm(p):
    p = list(p)
    while p and p[-1] == Z0: p.pop()
    return tuple(p)


def padd(p, q):
    n = max(len(p), len(q))
    return pnorm([cadd(p[i] if i < len(p) else Z0, q[i] if i < len(q) else Z0) for i in range(n)])


def pneg(p): return tuple(cneg(a) for a in p)


def pmul(p, q):
    if not p or not q: return ()
    r = [Z0] * (len(p) + len(q) - 1)
    for i, a in enumerate(p):
        if a == Z0: continue
        for j, b in enumerate(q):
            r[i + j] = cadd(r[i + j], cmul(a, b))
    return pnorm(r)


def ppow(p, k):
    r = ((Fr(1), Fr(0)),)
    for _ in range(k): r = pmul(r, p)
    return r


# ----------------------------------------------------------------------------- trees
# ('x',) ('num', text, value(Fr), imag) ('add',a,b) ('sub',a,b) ('mul',a,b) ('neg',a) ('pow',a,k)
_den = {}


def denote(t):
    k = id(t)
    if k in _den: return _den[k][1]
    op = t[0]
    if op == 'x': r = (Z0, (Fr(1), Fr(0)))
    elif op == 'num': r = pnorm([(Fr(0), t[2]) if t[3] else (t[2], Fr(0))])
    elif op == 'add': r = padd(denote(t[1]), denote(t[2]))
    elif op == 'sub': r = padd(denote(t[1]), pneg(denote(t[2])))
    elif op == 'mul': r = pmul(denote(t[1]), denote(t[2]))
    elif op == 'neg': r = pneg(denote(t[1]))
    elif op == 'pow': r = ppow(denote(t[1]), t[2])
    _den[k] = (t, r)          # keep t alive so that id() stays unique
    return r


LEVEL = {'add': 0, 'sub': 0, 'mul': 1, 'neg': 2, 'pow': 3, 'x': 3, 'num': 3}


def show(t, l=0, rng=None, noise=0.0):
    """minimal parentheses (mirror of Coq print_at); with rng: random redundant parentheses / blanks"""
    op = t[0]
    sp = (lambda: rng.choice(["", "", " ", "  ", "\t"])) if (rng and noise) else (lambda: "")
    if op == 'x': s = "x"
    elif op == 'num': s = t[1] + ("i" if t[3] else "")
    elif op == 'add': s = show(t[1], 0, rng, noise) + sp() + "+" + sp() + show(t[2], 1, rng, noise)
    elif op == 'sub': s = show(t[1], 0, rng, noise) + sp() + "-" + sp() + show(t[2], 1, rng, noise)
    elif op == 'mul': s = show(t[1], 1, rng, noise) + sp() + "*" + sp() + show(t[2], 2, rng, noise)
    elif op == 'neg': s = "-" + sp() + show(t[1], 2, rng, noise)
    elif op == 'pow': s = show(t[1], 3, rng, noise) + sp() + "^" + sp() + str(t[2])
    if LEVEL[op] < l or (rng and noise and rng.random() < noise):
        s = "(" + sp() + s + sp() + ")"
    return s


def show_full(t):
    op = t[0]
    if op == 'x': return "x"
    if op == 'num': return t[1] + ("i" if t[3] else "")
    if op == 'neg': return "(-" + show_full(t[1]) + ")"
    if op == 'pow': return "(" + show_full(t[1]) + "^" + str(t[2]) + ")"
    return "(" + show_full(t[1]) + {'add': '+', 'sub': '-', 'mul': '*'}[op] + show_full(t[2]) + ")"


def degree_bound(t):
    op = t[0]
    if op == 'x': return 1
    if op == 'num': return 0
    if op in ('add', 'sub'): return max(degree_bound(t[1]), degree_bound(t[2]))
    if op == 'mul': return degree_bound(t[1]) + degree_bound(t[2])
    if op == 'neg': return degree_bound(t[1])
    return degree_bound(t[1]) * t[2]


def coeff_bits(t):
    """largest numerator/denominator bit length over the denotations of all subtrees (the extracted model's
    Qc arithmetic is slow on huge numbers; generated inputs are kept below a bound)"""
    m = 0
    for c in denote(t):
        for q in c:
            m = max(m, abs(q.numerator).bit_length(), q.denominator.bit_length())
    for c in t[1:]:
        if isinstance(c, tuple): m = max(m, coeff_bits(c))
    return m


def size(t):
    return 1 + sum(size(c) for c in t[1:] if isinstance(c, tuple))


def ops_of(t, acc):
    acc[t[0]] = acc.get(t[0], 0) + 1
    for c in t[1:]:
        if isinstance(c, tuple): ops_of(c, acc)
    return acc


def lit(text):
    """numeric literal as written -> ('num', text, value, False); decimal reading of every digit string"""
    m = re.fullmatch(r"(\d+)/(\d+)", text)
    if m: return ('num', text, Fr(int(m.group(1)), int(m.group(2))), False)
    m = re.fullmatch(r"(\d+)(?:\.(\d*))?(?:[eE]([+-]?\d+))?", text)
    mant = int(m.group(1) + (m.group(2) or ""))
    v = Fr(mant, 10 ** len(m.group(2) or "")) * (Fr(10) ** int(m.group(3) or "0"))
    return ('num', text, v, False)


def ilit(text):
    t = lit(text); return ('num', t[1], t[2], True)


def fmt_q(q):
    return str(q.numerator) if q.denominator == 1 else "%d/%d" % (q.numerator, q.denominator)


def fmt_poly(p):
    p = p if p else (Z0,)
    return "OK %d %s" % (len(p) - 1, " ".join("%s %s" % (fmt_q(a), fmt_q(b)) for a, b in p))


# unpatched-grammar reading of a tree: MINUS binds to the bare monomial before '^'
def push_neg_into_pow(t):
    """-a^k1^k2 (a a bare atom, possibly behind more unary minuses) read as ((-a)^k1)^k2"""
    op = t[0]
    if op in ('x', 'num'): return t
    if op == 'neg':
        n, u = 0, t
        while u[0] == 'neg': n += 1; u = u[1]
        ks = []
        while u[0] == 'pow': ks.append(u[2]); u = u[1]
        if ks and u[0] in ('x', 'num'):
            for _ in range(n): u = ('neg', u)
            for k in reversed(ks): u = ('pow', u, k)
            return u
        return ('neg', push_neg_into_pow(t[1]))
    if op == 'pow': return ('pow', push_neg_into_pow(t[1]), t[2])
    return (op, push_neg_into_pow(t[1]), push_neg_into_pow(t[2]))


def has_neg_pow_atom(t):
    op = t[0]
    if op in ('x', 'num'): return False
    if op == 'neg':
        u = t
        while u[0] == 'neg': u = u[1]
        v = u
        while v[0] == 'pow': v = v[1]
        if u[0] == 'pow' and v[0] in ('x', 'num'): return True
    return any(has_neg_pow_atom(c) for c in t[1:] if isinstance(c, tuple))


# ----------------------------------------------------------------------------- generators
LEAVES = [('x',), lit("2"), lit("3/4"), lit("1.5"), ilit("2")]


def exhaustive(depth, pows):
    """all trees of depth <= depth over LEAVES with + - * unary- and ^k (k in pows)"""
    levels = [list(LEAVES)]
    for _ in range(depth - 1):
        prev = levels[-1]
        cur = list(LEAVES)
        for a in prev:
            cur.append(('neg', a))
            for k in pows: cur.append(('pow', a, k))
        for op in ('add', 'sub', 'mul'):
            for a in prev:
                for b in prev:
                    cur.append((op, a, b))
        levels.append(cur)
    return levels[-1]


LITS = ["0", "1", "2", "7", "10", "007", "1234567891", "3/4", "1/2", "10/4", "0/5", "3/010", "5/08", "06/09", "0.0", "0.00e1", "0000", "00007", "00000000/3", "0000.50", "0000/5", "000012/00008", "00000e2",
        "1.5", "0.25", "0.010", "00.5", "2.", "1.e2", "1e-3", "1E+2", "12.5e1", "1.5e3", "0e5", "2.50E-2", "1e010"]


def rand_literal(rng):
    """a random numeric literal text over the case splits of the scanner / the conversion: leading zeros, N/D with leading zeros in
    D, trailing point, empty / zero fractions, exponents with and without sign (|exponent| <= 40)"""
    def digits(lo, hi, lz=0.3):
        s = "".join(rng.choice("0123456789") for _ in range(rng.randrange(lo, hi + 1)))
        return ("0" * rng.randrange(1, 4) + s) if rng.random() < lz else s
    r = rng.random()
    if r < 0.15: return digits(1, 8)
    if r < 0.40:
        d = digits(1, 5)
        while int(d) == 0: d = digits(1, 5)
        return digits(1, 6) + "/" + d
    t = digits(1, 5)
    if rng.random() < 0.7: t += "." + (digits(0, 5, 0.2) if rng.random() < 0.85 else "")
    if rng.random() < 0.6: t += rng.choice("eE") + rng.choice(["", "+", "-"]) + ("0" * rng.randrange(0, 3)) + str(rng.randrange(0, 41))
    return t


def rand_leaf(rng):
    r = rng.random()
    if r < 0.45: return ('x',)
    t = rng.choice(LITS) if rng.random() < 0.7 else str(rng.randrange(0, 50))
    return ilit(t) if rng.random() < 0.25 else lit(t)


def rand_tree(rng, depth):
    if depth <= 1 or rng.random() < 0.12: return rand_leaf(rng)
    r = rng.random()
    if r < 0.22: return ('add', rand_tree(rng, depth - 1), rand_tree(rng, depth - 1))
    if r < 0.42: return ('sub', rand_tree(rng, depth - 1), rand_tree(rng, depth - 1))
    if r < 0.64: return ('mul', rand_tree(rng, depth - 1), rand_tree(rng, depth - 1))
    if r < 0.82: return ('neg', rand_tree(rng, depth - 1))
    return ('pow', rand_tree(rng, depth - 1), rng.choice([0, 1, 2, 2, 3, 3, 4, 5, 7]))


def cancelling(rng):
    """sub-expressions that cancel to a constant or to zero"""
    a = rand_tree(rng, 4)
    k = rng.choice([2, 3])
    forms = [('sub', a, a), ('add', a, ('neg', a)), ('mul', ('sub', a, a), rand_tree(rng, 3)),
             ('sub', ('pow', ('add', ('x',), lit("1")), 2), ('add', ('add', ('pow', ('x',), 2), ('mul', lit("2"), ('x',))), lit("1"))),
             ('add', ('mul', ilit("1"), ilit("1")), lit("1")),
             ('sub', ('pow', a, k), ('mul', a, ('pow', a, k - 1))),
             ('pow', ('sub', a, a), 0), ('sub', ('mul', ('x',), lit("0.5")), ('mul', lit("1/2"), ('x',)))]
    return rng.choice(forms)


def sparse_product(rng):
    """operands of operator* / '^' with interior zero entries (stale degree fields), partial and total
    cancellation inside the double loop, and leading-zero trimming after the last diagonal"""
    X = ('x',)
    def xp(k): return ('pow', X, k) if k != 1 else X
    def sp():
        a, b = rng.choice([2, 3, 4, 5, 7]), rng.choice([0, 1, 2])
        c = rng.choice([lit("1"), lit("2"), lit("3/4"), ilit("1"), lit("0.5"), ilit("3/2")])
        t = (rng.choice(['add', 'sub']), xp(a), ('mul', c, xp(b)) if b else c)
        if rng.random() < 0.3: t = ('add', t, ('mul', lit("0"), xp(a + 1)))        # a trailing zero term, trimmed
        if rng.random() < 0.2: t = ('sub', t, xp(a))                                # the leading term cancels
        return t
    p, q = sp(), sp()
    forms = [('mul', p, q), ('pow', p, rng.choice([2, 3, 4])), ('mul', ('mul', p, q), sp()),
             ('sub', ('mul', ('add', X, lit("1")), ('sub', X, lit("1"))), ('sub', xp(2), lit("1"))),
             ('mul', ('sub', p, p), q), ('pow', ('mul', ('add', X, ilit("1")), ('sub', X, ilit("1"))), rng.choice([2, 3])),
             ('sub', ('mul', p, q), ('mul', q, p)), ('pow', ('sub', xp(3), xp(3)), rng.choice([0, 1, 2])),
             ('mul', ('pow', p, 0), q), ('neg', ('pow', ('neg', p), 3))]
    return rng.choice(forms)


def flat_chain(rng):
    """long operator chains without parentheses (10..40 operands): deep LR stacks, every adjacent pair of
    operators out of + - * ^ and unary minus -- far beyond the length bound of the bounded table theorem"""
    n = rng.randrange(10, 41)
    def operand():
        t = rand_leaf(rng) if rng.random() < 0.8 else ('x',)
        while rng.random() < 0.3: t = ('pow', t, rng.choice([0, 1, 2, 3]))
        while rng.random() < 0.25: t = ('neg', t)
        return t
    # build by precedence: split into sums of products
    terms, cur = [], operand()
    ops = []
    for _ in range(n - 1):
        o = rng.choice(['add', 'sub', 'mul', 'mul'])
        b = operand()
        if o == 'mul':
            if cur[0] == 'neg' and False: pass
            cur = ('mul', cur, b)
        else:
            terms.append(cur); ops.append(o); cur = b
    terms.append(cur)
    t = terms[0]
    for o, b in zip(ops, terms[1:]): t = (o, t, b)
    return t


def n_tokens(text):
    return len(re.findall(r"\d+(?:/\d+|\.\d*)?(?:[eE][+-]?\d+)?|\S", text))


ILL_KINDS = ["dangling-operator", "leading-binary-operator", "doubled-operator", "unbalanced-paren", "empty-parens",
             "missing-operator", "non-integer-exponent", "imaginary-exponent", "negative-exponent", "parenthesised-exponent",
             "missing-exponent", "repeated-imaginary-unit", "stray-character", "zero-denominator", "slash-operator", "empty"]


def ill_formed(rng, kind):
    a = show(rand_tree(rng, 3)); b = show(rand_tree(rng, 3), 3)
    if kind == "dangling-operator": return a + rng.choice(["+", "-", "*", "^"])
    if kind == "leading-binary-operator": return rng.choice(["+", "*", "^"]) + a
    if kind == "doubled-operator": return b + rng.choice(["+*", "*+", "**", "++", "-*", "^^", "*^", "-+"]) + b
    if kind == "unbalanced-paren": return rng.choice(["(" + a, a + ")", "((" + a + ")", "(" + a + "))", ")" + a + "("])
    if kind == "empty-parens": return rng.choice(["()", a + "+()", "()*" + b, "(" + ")^2"])
    if kind == "missing-operator": return rng.choice(["2x", "x2", "x x", "x 2", b + " " + b, "(" + a + ")(" + a + ")", "2(" + a + ")", "(" + a + ")x", "2 3", "xi", "2ix"])
    if kind == "non-integer-exponent": return b + "^" + rng.choice(["1/2", "3/2", "1.5", "0.5", "2.5e0", "7/3"]) + rng.choice(["", "-3", "+x"])
    if kind == "imaginary-exponent": return b + "^" + rng.choice(["2i", "1i", "3i", "0i"]) + rng.choice(["", "+1"])
    if kind == "negative-exponent": return b + "^-" + rng.choice(["1", "2"])
    if kind == "parenthesised-exponent": return b + "^(" + rng.choice(["2", "x", "1+1"]) + ")"
    if kind == "missing-exponent": return b + rng.choice(["^", "^+1", "^*2", "^x", "^)"])
    if kind == "repeated-imaginary-unit": return rng.choice(["2ii", "1.5ii+x", "x*3iii", "2i i"])
    if kind == "stray-character":
        c = rng.choice("#$&=,;:!?@_~%|\\[]{}<>'\"abw")
        s = a
        p = rng.randrange(0, len(s) + 1)
        return s[:p] + c + s[p:]
    if kind == "zero-denominator": return rng.choice(["1/0", "x+3/0", "5/00*x", "x^2-0/0"])
    if kind == "slash-operator": return rng.choice(["x/2", "(x+1)/2", "1/x", "x^2/3/4", "2/ 3", "2 /3", "1.5/2", "1e2/3"])
    if kind == "empty": return rng.choice(["", " ", "\t", "   "])
    raise ValueError(kind)


# stray characters that the tokenizer itself turns into something else than an error are still ill-formed for
# the property; but letters y z X Y Z are variables for the tokenizer (not judged) -> regenerate without them
NOT_JUDGED_CHARS = set("yzXYZ")


# ----------------------------------------------------------------------------- running
def run_impl(ctx, h, lines):
    """-> list of result strings ('ERR' | 'OK ...' | 'CRASH <what>' | ...), one per input line"""
    env = ctx.san_env({"MPS_JOBS": "1"})
    res = [None] * len(lines)
    noise = [0]

    def chunk(lo, hi):
        start = 0
        sub = lines[lo:hi]
        text = "".join(s + "\n" for s in sub)
        while start < len(sub):
            rc, out, err = vf.sh([h, str(start)], input=text, timeout=1200, env=env)
            got = -1
            for ln in out.splitlines():
                if ln.startswith("@@ "):
                    _, n, rest = ln.split(" ", 2)
                    res[lo + int(n)] = rest; got = int(n)
            if got + 1 >= len(sub) and rc == 0: break
            # the process died on input got+1
            k = max(got + 1, start)
            if k >= len(sub): break
            what = "rc=%s" % rc
            if "AddressSanitizer" in err or "runtime error" in err:
                m = re.search(r"SUMMARY: (\w+Sanitizer: [\w-]+)", err) or re.search(r"runtime error: ([^\n]{0,60})", err)
                what = "sanitizer " + (m.group(1) if m else "report")
            elif "terminate called" in err:
                m = re.search(r"what\(\):\s*([^\n]*)", err); what = "uncaught-exception " + (m.group(1) if m else "")
            res[lo + k] = "CRASH " + what
            start = k + 1
    n = len(lines); step = max(1, (n + 15) // 16)
    with ThreadPoolExecutor(max_workers=16) as ex:
        list(ex.map(lambda lo: chunk(lo, min(n, lo + step)), range(0, n, step)))
    return res


def run_model_parallel(ctx, texts, ways=16):
    """extracted model on strided slices of the inputs (big random expressions are slow in Qc arithmetic)"""
    mb = ctx.model_bin("inline")
    res = [None] * len(texts)

    def part(i):
        sub = texts[i::ways]
        if not sub: return
        rc, out, err = vf.sh([mb], input="".join(s + "\n" for s in sub), timeout=1800)
        lines = out.split("\n")
        if lines and lines[-1] == "": lines.pop()
        if rc != 0 or len(lines) != len(sub):
            raise vf.InfraError("model driver: rc=%d, %d lines for %d inputs: %s" % (rc, len(lines), len(sub), err[-500:]))
        res[i::ways] = lines
    with ThreadPoolExecutor(max_workers=ways) as ex:
        list(ex.map(part, range(ways)))
    return res


def classify_wellformed(tree, text, expect, got):
    """signatures (possibly two) for a well-formed input on which the implementation fails the predicate;
    each class predicate demands the exact wrong reading that the known defect produces"""
    if got == "ERR" and tree_has_neg_paren(text):
        return ["wellformed-rejected:unary-minus-before-parenthesis"]
    if got.startswith("CRASH"):
        return crash_class(text, got)
    if got.startswith("OK"):
        negpow = has_neg_pow_atom(tree)
        octal = re.search(r"/0\d", text) is not None
        if negpow and got == fmt_poly(denote(push_neg_into_pow(tree))):
            return ["wrong-value:unary-minus-bound-before-power"]
        if octal and got == fmt_poly(denote(octal_reading(tree))):
            return ["wrong-value:leading-zero-denominator-read-as-octal"]
        if negpow and octal and got == fmt_poly(denote(octal_reading(push_neg_into_pow(tree)))):
            return ["wrong-value:unary-minus-bound-before-power", "wrong-value:leading-zero-denominator-read-as-octal"]
    return []


def tree_has_neg_paren(text):
    """a '-' in operand position (start, after an operator or '(') whose operand -- after more unary minuses -- is '('"""
    s = re.sub(r"\s+", "", text)
    return re.search(r"(^|[-+*(])-+\(", s) is not None


def octal_reading(t):
    op = t[0]
    if op == 'x': return t
    if op == 'num':
        m = re.fullmatch(r"(\d+)/(0\d+)", t[1])
        if m and not re.search(r"[89]", m.group(2)):
            return ('num', t[1], Fr(int(m.group(1)), int(m.group(2), 8)), t[3])
        return t
    if op == 'neg': return ('neg', octal_reading(t[1]))
    if op == 'pow': return ('pow', octal_reading(t[1]), t[2])
    return (op, octal_reading(t[1]), octal_reading(t[2]))


def crash_class(text, got):
    """the three known ways a numeric literal kills the process; the literal must be present in the text"""
    if got.startswith("CRASH uncaught-exception") and re.search(r"(?<![\d.eE/])0+(/\d|\.0+(?!\d))", text):
        return ["crash:zero-valued-literal-with-denominator"]
    if got.startswith("CRASH uncaught-exception") and re.search(r"/0\d*[89]", text):
        return ["crash:leading-zero-denominator-invalid-octal"]
    if got.startswith("CRASH sanitizer AddressSanitizer: FPE") and re.search(r"/0+(?!\d)", text):
        return ["crash:zero-denominator"]
    return []


def classify_illformed(kind, text, got):
    if got.startswith("OK") and kind in ("non-integer-exponent", "imaginary-exponent", "repeated-imaginary-unit", "stray-character"):
        return ["illformed-accepted:" + kind]
    if got.startswith("CRASH"):
        return crash_class(text, got)
    return []


def regen_grammar(ctx):
    y = os.path.join(ctx.snap("san"), "src", "libmps", "monomial", "yacc-parser.y")
    try:
        return yr.to_coq(yr.read_grammar(open(y).read()))
    except Exception as ex:
        return "(* grammar file could not be read: %s *)\nDefinition grammar_gen := tt.\n" % (str(ex).replace("*)", "* )"),)


def regen_lexer(ctx):
    l = os.path.join(ctx.snap("san"), "src", "libmps", "monomial", "tokenizer.l")
    try:
        rules = fr.read_lexer(open(l, encoding="latin-1").read())
        return fr.to_coq(rules), rules
    except Exception as ex:
        return "(* tokenizer.l could not be read: %s *)\nDefinition lexer_gen := tt.\n" % (str(ex).replace("*)", "* )")[:300],), None


# ----------------------------------------------------------------------------- the scanner stage
def hx(s): return s.encode("latin-1").hex()


LEX_PIECES = ["0", "1", "7", "12", "007", "10", "/", "/0", "/5", "/00", "/08", ".", ".5", ".0", "e", "E", "e+", "e-", "E+", "e5", "E-3", "e+2",
              "e0", "+", "-", "x", "X", "y", "Y", "z", "Z", "i", "(", ")", "*", "^", " ", "\t", "  ", "\n", "\r", "#", "a", "w", "I", "\x7f",
              "\x80", "\xff", "\x01", "_", ",", "//", "..", "ee", "1/2", "3.25e-1", "2.", "1e", "1e+", "1.e1", "0/0"]
LEX_ALPHABET = ["1", "0", "/", ".", "e", "+", "-", "x", " ", "\n", "i", "E"]


def lex_input_in_range(s):
    """decimal exponents below 1000 and a bounded product of '^' exponents (the exact models are slow beyond; huge exponents are
    outside the tested range, see ASSUME)"""
    if re.search(r"[eE][+-]?\d{4,}", s): return False
    prod = 1
    for m in re.finditer(r"\^[ \t]*(\d+)", s):
        if len(m.group(1)) > 3: return False
        prod *= int(m.group(1)) + 1
    return prod <= 150 and len(s) <= 400


def lex_inputs(ctx, rng, texts):
    """strings for the scanner tie: (a) every string of length <= 4 over an alphabet that spans the RATIONAL / FLOATING_POINT
    overlaps, blanks and the newline; (b) random concatenations of lexeme fragments incl. bytes outside the token set;
    (c) a sample of the expression strings of the main stage, some with a character replaced / inserted"""
    out, kinds = [], []
    def rec(prefix, depth):
        out.append(prefix); kinds.append("exhaustive-len<=%d" % ctx.pick(4, 5))
        if depth == 0: return
        for a in LEX_ALPHABET: rec(prefix + a, depth - 1)
    rec("", ctx.pick(4, 5))
    for _ in range(ctx.pick(9000, 60000)):
        out.append("".join(rng.choice(LEX_PIECES) for _ in range(rng.randrange(1, 9)))); kinds.append("fragment-soup")
    for s in rng.sample(texts, min(len(texts), ctx.pick(3000, 20000))):
        r = rng.random()
        if r < 0.5 or not s: out.append(s); kinds.append("expression")
        else:
            p = rng.randrange(0, len(s) + 1); c = rng.choice(LEX_PIECES)
            out.append(s[:p] + c + s[p + (1 if r < 0.75 else 0):]); kinds.append("expression-mutated")
    seen, u, k = set(), [], []
    for s, kd in zip(out, kinds):
        if s in seen or "\x00" in s or not lex_input_in_range(s): continue
        seen.add(s); u.append(s); k.append(kd)
    return u, k


def run_lex_impl(ctx, h, inputs):
    """harness/c11_lex.c on hex lines -> list of (tokens-and-echo string, parse result)"""
    env = ctx.san_env({"MPS_JOBS": "1"})
    res = [None] * len(inputs)

    def chunk(lo, hi):
        start = 0
        sub = inputs[lo:hi]
        text = "".join(hx(s) + "\n" for s in sub)
        while start < len(sub):
            rc, out, err = vf.sh([h, str(start)], input=text, timeout=1200, env=env)
            got = -1
            tok = {}
            for ln in out.splitlines():
                if not ln.startswith("@@ "): continue
                w = ln.split(" ", 3)
                n = int(w[1])
                if w[2] == "TOKENS": tok[n] = ("TOKENS " + (w[3] if len(w) > 3 else "")).split(" | PARSE")[0].strip()
                elif w[2] == "RESULT":
                    res[lo + n] = (tok.get(n, "?"), w[3] if len(w) > 3 else ""); got = n
            if got + 1 >= len(sub) and rc == 0: break
            k = max(got + 1, start)
            if k >= len(sub): break
            what = "rc=%s" % rc
            if "AddressSanitizer" in err or "runtime error" in err:
                m = re.search(r"SUMMARY: (\w+Sanitizer: [\w-]+)", err) or re.search(r"runtime error: ([^\n]{0,60})", err)
                what = "sanitizer " + (m.group(1) if m else "report")
            elif "terminate called" in err:
                m = re.search(r"what\(\):\s*([^\n]*)", err); what = "uncaught-exception " + (m.group(1) if m else "")
            res[lo + k] = (tok.get(k, "?"), "CRASH " + what)
            start = k + 1
    n = len(inputs); step = max(1, (n + 15) // 16)
    with ThreadPoolExecutor(max_workers=16) as ex:
        list(ex.map(lambda lo: chunk(lo, min(n, lo + step)), range(0, n, step)))
    return res


def run_lex_model(ctx, inputs, ways=16):
    mb = ctx.model_bin("inline")
    res = [None] * len(inputs)

    def part(i):
        sub = inputs[i::ways]
        if not sub: return
        rc, out, err = vf.sh([mb, "lex"], input="".join(hx(s) + "\n" for s in sub), timeout=1800)
        lines = out.split("\n")
        if lines and lines[-1] == "": lines.pop()
        if rc != 0 or len(lines) != len(sub):
            raise vf.InfraError("model driver (lex): rc=%d, %d lines for %d inputs: %s" % (rc, len(lines), len(sub), err[-500:]))
        res[i::ways] = lines
    with ThreadPoolExecutor(max_workers=ways) as ex:
        list(ex.map(part, range(ways)))
    out = []
    for ln in res:
        a, rest = ln.split(" | PARSE ", 1)
        b, rest = rest.split(" | HAND ", 1)
        hand, lit = rest.split(" | LIT ", 1)
        out.append((a.strip(), b.strip(), hand.strip(), lit.strip()))
    return out


def py_flex(rules, s):
    """independent reading of the rules (Python's re on the reader's regular expressions): longest match, first rule;
    the default rule echoes -> (token list as the harness prints it, echoed bytes)"""
    cres = [re.compile(fr.rx_py(r), re.S) for r, _ in rules]
    b = s.encode("latin-1")
    toks, echo, pos = [], b"", 0
    while pos < len(b):
        best, bi = 0, None
        for i, cre in enumerate(cres):
            # longest match of rule i at pos: try all prefixes (inputs are short)
            for end in range(len(b), pos + best, -1):
                if cre.fullmatch(b, pos, end): best, bi = end - pos, i; break
        if bi is None:
            echo += b[pos:pos + 1]; pos += 1; continue
        a = rules[bi][1]
        text = b[pos:pos + best]; pos += best
        if a[0] == "return": toks.append("%s:%s" % (a[1], text.hex()))
        elif a[0] == "char": toks.append("CHR:%s" % text[:1].hex())
        elif a[0] == "echo": echo += text
        elif a[0] == "other": toks.append("BAD")
    return (("TOKENS " + " ".join(toks)).strip() + " | ECHO " + echo.hex()).strip()


def lexer_stage(ctx, rng, texts, lexer_state, lex_rules, found):
    """real flex scanner (yylex called directly) and mps_parse_inline_poly_from_string vs the extracted GENERATED scanner and the
    pipeline over it; returns coverage"""
    h = ctx.compile_harness(["c11_lex.c"], "c11_lex", mode="san")
    inputs, kinds = lex_inputs(ctx, rng, texts)
    # does the snapshot's scanner let a newline fall through to flex's default rule (tokenizer.l without fixes/C11_newline.patch, possibly
    # with other edits)?  Then the known finding applies to every input with a newline.
    unpatched = lexer_state == "unpatched-newline" or (lex_rules is not None and py_flex(lex_rules, "\n").endswith("ECHO 0a"))
    # on the tree without fixes/C11_newline.patch a newline is echoed and skipped: same tokens and result as with a blank in its place
    model_in = [s.replace("\n", " ") if unpatched else s for s in inputs]
    model = run_lex_model(ctx, model_in)
    impl = run_lex_impl(ctx, h, inputs)
    hist, tokhist, results, bad_corr, hand_diff, nl_known, pyref_diff = {}, {}, {}, 0, 0, 0, 0
    n_lits = 0
    for s, kd, (mt, mp, hand, lit), r in zip(inputs, kinds, model, impl):
        hist[kd] = hist.get(kd, 0) + 1
        n_lits += int(lit.split()[1])
        if not lit.startswith("ok"):
            ctx.violation("correspondence:literal-payload-vs-conversion-model:" + hx(s)[:60],
                          "a numeric literal of %r: the payload of the scanner model differs from what the model of Monomial::Monomial (const char *, long) "
                          "computes from its text (excluded by theorem C11_literal_value)" % s, {"hex": hx(s)}, no_input=True)
        it, ip = r if r is not None else ("?", "CRASH no-output")
        for w in it.split(" | ECHO")[0].split()[1:]:
            nm = w.split(":")[0]; tokhist[nm] = tokhist.get(nm, 0) + 1
        results[ip.split(" ")[0]] = results.get(ip.split(" ")[0], 0) + 1
        if hand != "same":
            hand_diff += 1
            ctx.violation("correspondence:hand-lexer-vs-generated-lexer:" + hx(s)[:60],
                          "the hand-written scanner model and the scanner generated from tokenizer.l deliver different tokens for %r (excluded by theorem C11_generated_lexer_agrees)" % s,
                          {"hex": hx(s)}, no_input=True)
        expect_t = mt
        if unpatched and "\n" in s:
            expect_t = mt.split(" | ECHO")[0].strip() + " | ECHO " + "0a" * s.count("\n")
        if lex_rules is not None and lexer_state == "expected" and len(s) <= 12:
            if py_flex(lex_rules, s) != mt:
                pyref_diff += 1
                ctx.violation("correspondence:flex-reader-vs-coq-lexer:" + hx(s)[:60],
                              "Python reading of the rules gives %s, the extracted Coq scanner %s for %r" % (py_flex(lex_rules, s)[:100], mt[:100], s),
                              {"hex": hx(s)}, no_input=True)
        if ip == mp and it == expect_t:
            if unpatched and "\n" in s and ip.startswith("OK"): nl_known += 1
            continue
        # the property's predicate: the result of the parse (accept with these coefficients / reject)
        if ip != mp:
            sig = ("sanitizer:" if ip.startswith("CRASH sanitizer") else "mismatch:lex:") + hx(s)[:80]
            if ctx.violation(sig, "%r: mps_parse_inline_poly_from_string gives %s, the pipeline over the generated scanner gives %s (tokens: real %s / model %s)"
                             % (s, ip[:100], mp[:100], it[:120], expect_t[:120]), {"hex": hx(s), "expect": mp, "got": ip, "kind": "lexer-stage"}):
                found[0] = True
        else:
            bad_corr += 1
            ctx.violation("correspondence:flex-vs-generated-lexer:" + hx(s)[:60],
                          "%r: same parse result %s but yylex returns %s and the generated scanner model %s" % (s, ip[:60], it[:160], expect_t[:160]),
                          {"hex": hx(s)}, no_input=True)
    if unpatched:
        # the witness of C11_newline_falls_through_refuted on the real code
        w = "x\n+1"
        r = run_lex_impl(ctx, h, [w])[0]
        if r is not None and r[1].startswith("OK"):
            ctx.violation("illformed-accepted:stray-newline",
                          "ill-formed %r (a newline is not a character of the language) is accepted as %s and the newline is ECHOed to stdout: "
                          "the catch-all rule `.` of tokenizer.l does not match '\\n', flex's default rule applies" % (w, r[1]),
                          {"hex": hx(w), "expect": "ERR", "got": r[1], "kind": "lexer-stage"})
    return {"lexer_inputs": len(inputs), "input_class": hist, "tokens_returned_by_yylex": tokhist, "parse_result": results,
            "token_or_echo_mismatches_with_equal_result": bad_corr, "hand_vs_generated_lexer_differences": hand_diff,
            "python_reading_vs_coq_lexer_differences": pyref_diff, "numeric_literals_checked_against_conversion_model": n_lits, "newline_inputs_accepted(known finding)": nl_known,
            "samples": [inputs[i] for i in sorted(rng.sample(range(len(inputs)), min(8, len(inputs))))]}


def run(ctx):
    rng = ctx.rng
    # known/C11.json is this property's fragment of known_findings.json (merged by lib/mkmanifest.py); entries that have not been
    # merged yet are honoured as well, so that a finding published together with the check is quiet from the first run on
    try:
        have = {k.get("signature") for k in ctx.known}
        for k in json.load(open(os.path.join(VERIF, "known", "C11.json"))).get("findings", []):
            if k.get("property") == "C11" and k.get("status", "open") == "open" and k.get("signature") not in have:
                ctx.known.append(k)
    except (OSError, ValueError):
        pass
    committed = open(GEN).read()
    gen = regen_grammar(ctx)
    grammar_state = "expected"
    restore = None
    if gen != committed:
        if hashlib.sha1(gen.encode()).hexdigest() == UNPATCHED_GRAMMAR_SHA1:
            grammar_state = "unpatched"
            ctx.violation("grammar:unpatched-unary-minus",
                          "yacc-parser.y is the grammar without fixes/C11_grammar.patch (unary minus reduced before '^', exponent = any number)",
                          {"file": "src/libmps/monomial/yacc-parser.y"})
        else:
            grammar_state = "changed"
            restore = committed
            with open(GEN, "w") as f: f.write(gen)
    # bison's own automaton for the snapshot's grammar file (what build_repo.sh compiled into the library)
    aut_state, restore_aut = "expected", None
    if grammar_state != "unpatched":
        committed_aut = open(AUT).read()
        try:
            aut = br.generate(os.path.join(ctx.snap("san"), "src", "libmps", "monomial", "yacc-parser.y"))
        except Exception as ex:
            aut = "(* bison report could not be read: %s *)\nDefinition automaton_gen := tt.\n" % (str(ex).replace("*)", "* )")[:300],)
        if aut != committed_aut:
            aut_state, restore_aut = "changed", committed_aut
            with open(AUT, "w") as f: f.write(aut)
    # the scanner: tokenizer.l of the snapshot -> Gen/LexerGen.v (the committed file is the reading of tokenizer.l WITH fixes/C11_newline.patch)
    committed_lex = open(LEXGEN).read()
    lexgen, lex_rules = regen_lexer(ctx)
    lexer_state, restore_lex = "expected", None
    if lexgen != committed_lex:
        if hashlib.sha1(lexgen.encode()).hexdigest() == UNPATCHED_LEXER_SHA1:
            lexer_state = "unpatched-newline"      # reported with its witness on the real code in lexer_stage
        else:
            lexer_state, restore_lex = "changed", committed_lex
            with open(LEXGEN, "w") as f: f.write(lexgen)
    try:
        ctx.prove()
    finally:
        stale = []
        if restore_lex is not None:
            with open(LEXGEN, "w") as f: f.write(restore_lex)
            stale += ["Gen/LexerGen", "LexPipeline", "LexPipelineProofs", "LexAgree", "LexLiteral", "LexLiteralScan", "InlineYaccModel"]
        if restore is not None:
            with open(GEN, "w") as f: f.write(restore)
            stale += ["Gen/GrammarGen", "InlineGrammarShape", "InlineLRCheck"]
        if restore_aut is not None:
            with open(AUT, "w") as f: f.write(restore_aut)
            stale += ["Gen/AutomatonGen", "InlineLRCheck", "InlineLRComplete", "InlineLRAll", "InlineYaccModel"]
        for base in stale:
            for ext in (".vo", ".glob", ".vok", ".vos"):
                try: os.remove(os.path.join(VERIF, "coq", "Inline", base + ext))
                except OSError: pass

    h = ctx.compile_harness(["c11_inline.c"], "c11_inline", mode="san")
    found = [False]

    # ------------------------------------------------------------------ replay of one stored case
    if ctx.replay:
        case = json.load(open(ctx.replay))
        if "hex" in case:
            hl = ctx.compile_harness(["c11_lex.c"], "c11_lex", mode="san")
            s = bytes.fromhex(case["hex"]).decode("latin-1")
            got = run_lex_impl(ctx, hl, [s])[0]
            got = got[1] if got is not None else "CRASH no-output"
            if got != case.get("expect", "ERR"):
                ctx.violation(case.get("signature", "replay"), "replay: %r gives %s, expected %s" % (s, got, case.get("expect", "ERR")), case)
            return ctx.finish("proof", {"evaluations": 1, "distinct_nontrivial": 1, "rule": "replayed case", "samples": [s],
                                        "histogram": {"replay": 1}, "trusted_base": TRUSTED}, ASSUME)
        if "expr" in case:
            got = run_impl(ctx, h, [case["expr"]])[0]
            if got != case["expect"]:
                ctx.violation(case.get("signature", "replay"), "replay: %r gives %s, expected %s" % (case["expr"], got, case["expect"]), case)
            return ctx.finish("proof", {"evaluations": 1, "distinct_nontrivial": 1, "rule": "replayed case", "samples": [case["expr"]],
                                        "histogram": {"replay": 1}, "trusted_base": TRUSTED}, ASSUME)

    # ------------------------------------------------------------------ inputs
    cases = []    # (text, tree|None, kind)
    ex_trees = exhaustive(3, [2, 3])
    for t in ex_trees: cases.append((show(t), t, "exhaustive-depth3"))
    n_var = ctx.pick(3000, 12000)
    for t in rng.sample(ex_trees, min(n_var, len(ex_trees))):
        cases.append((show_full(t), t, "exhaustive-fullparen"))
        cases.append((show(t, 0, rng, 0.25), t, "exhaustive-noisy"))
    n_rand = ctx.pick(10000, 80000)
    made = 0
    while made < n_rand:
        t = rand_tree(rng, rng.choice([4, 5, 6, 7, 8, 8])) if rng.random() < 0.85 else cancelling(rng)
        if degree_bound(t) > 60 or size(t) > 120 or coeff_bits(t) > 200: continue
        made += 1
        cases.append((show(t), t, "random"))
        if made % 3 == 0: cases.append((show(t, 0, rng, 0.2), t, "random-noisy"))
    n_sp = ctx.pick(1500, 8000)
    made = 0
    while made < n_sp:
        t = sparse_product(rng)
        if degree_bound(t) > 60 or size(t) > 120 or coeff_bits(t) > 200: continue
        made += 1
        cases.append((show(t), t, "sparse-product"))
    n_ch = ctx.pick(1500, 8000)
    made = 0
    while made < n_ch:
        t = flat_chain(rng)
        if degree_bound(t) > 60 or coeff_bits(t) > 200: continue
        made += 1
        cases.append((show(t), t, "flat-chain"))
    for s in LITS:
        cases.append((s, lit(s), "literal")); cases.append((s + "i", ilit(s), "literal"))
        cases.append(("x^2*" + s + "-" + s + "i", ('sub', ('mul', ('pow', ('x',), 2), lit(s)), ilit(s)), "literal"))
    for _ in range(ctx.pick(1500, 10000)):
        s = rand_literal(rng)
        a = ilit(s) if rng.random() < 0.3 else lit(s)
        X_ = ('x',)
        t = rng.choice([a, ('mul', a, X_), ('add', ('pow', X_, 2), a), ('neg', a), ('sub', X_, ('mul', a, ('pow', X_, 3))), ('pow', a, 2)])
        cases.append((show(t), t, "literal-random"))
    # the four expressions of DESIGN.md section 4 row 5 and relatives
    X = ('x',)
    for t in [('add', ('neg', ('pow', X, 2)), lit("4")), ('add', ('neg', ('pow', ('add', X, lit("1")), 2)), lit("4")),
              ('pow', ('pow', X, 2), 3), ('mul', lit("2"), ('neg', X)), ('neg', ('neg', X)), ('sub', X, ('neg', X)),
              ('neg', ('pow', ilit("2"), 2)), ('pow', ('neg', X), 2), ('neg', ('pow', ('pow', X, 2), 3)), ('pow', lit("0"), 0),
              ('mul', ('neg', ('pow', X, 3)), ('neg', ('pow', X, 2)))]:
        cases.append((show(t), t, "design-witness"))
    n_ill = ctx.pick(200, 1500)
    for kind in ILL_KINDS:
        seen = set()
        for _ in range(n_ill * 3):
            s = ill_formed(rng, kind)
            if kind == "stray-character" and (set(s) & NOT_JUDGED_CHARS): continue
            if s in seen: continue
            seen.add(s); cases.append((s, None, "ill:" + kind))
            if len(seen) >= n_ill: break
    for s in ["x^1/2-3", "x^2i+1", "2ii", "x#+1", "1/0", "x^1.5", "x^-2", "x^(2)", "2x", "x+", "(x", "x)", "", "x^", "*x", "x**2", "3/4/5"]:
        kind = {"x^1/2-3": "non-integer-exponent", "x^1.5": "non-integer-exponent", "x^2i+1": "imaginary-exponent", "2ii": "repeated-imaginary-unit",
                "x#+1": "stray-character", "1/0": "zero-denominator"}.get(s, "misc")
        cases.append((s, None, "ill:" + kind))
    # de-duplicate on the text (keep first)
    seen, uniq = set(), []
    for c in cases:
        if "\n" in c[0] or c[0] in seen: continue
        seen.add(c[0]); uniq.append(c)
    cases = uniq
    ctx.log("generated %d distinct strings" % len(cases))

    # ------------------------------------------------------------------ run both sides
    texts = [c[0] for c in cases]
    model = run_model_parallel(ctx, texts)
    ctx.log("model done")
    impl = run_impl(ctx, h, texts)
    ctx.log("ran %d strings through implementation and model" % len(texts))

    hist, errkinds, nontrivial, corr_bad = {}, {}, 0, 0
    opshist, modelkinds, tokhist = {}, {}, {}
    for (text, tree, kind), m, g in zip(cases, model, impl):
        hist[kind] = hist.get(kind, 0) + 1
        modelkinds[m.split(" ")[0]] = modelkinds.get(m.split(" ")[0], 0) + 1
        nt = n_tokens(text)
        b = "<=6" if nt <= 6 else "7-12" if nt <= 12 else "13-24" if nt <= 24 else "25-48" if nt <= 48 else ">48"
        tokhist[b] = tokhist.get(b, 0) + 1
        expect = fmt_poly(denote(tree)) if tree is not None else "ERR"
        if tree is not None:
            ops_of(tree, opshist)
            if size(tree) > 1: nontrivial += 1
        else:
            nontrivial += 1
        if g is None: g = "CRASH no-output"
        errkinds[g.split(" ")[0]] = errkinds.get(g.split(" ")[0], 0) + 1
        # (b) correspondence of the model with the property's own reading
        if m != expect:
            corr_bad += 1
            what_m = "lr-pipeline-model-vs-reference-model:" if m.startswith("LRDIFF") else \
                     "generated-lexer-pipeline-vs-hand-lexer-pipeline:" if m.startswith("GENDIFF") else \
                     "formal-model-vs-denotation:" if m.startswith("FPDIFF") else "model-vs-denotation:"
            ctx.violation("correspondence:" + what_m + text[:60],
                          "Coq model gives %s for %r, the tree denotes / the mutation class demands %s" % (m[:80], text, expect[:80]),
                          {"expr": text, "expect": expect, "model": m}, no_input=True)
            continue
        # (a) property predicate on the implementation
        if g == expect: continue
        sigs = classify_wellformed(tree, text, expect, g) if tree is not None else classify_illformed(kind[4:], text, g)
        if not sigs:
            sigs = [("sanitizer:" if g.startswith("CRASH sanitizer") else "mismatch:") + text[:80]]
        what = ("well-formed %r parsed as %s, denotes %s" % (text, g[:100], expect[:100])) if tree is not None else \
               ("ill-formed (%s) %r not rejected: %s" % (kind[4:], text, g[:100]))
        for sig in sigs:
            if ctx.violation(sig, what, {"expr": text, "expect": expect, "got": g, "kind": kind}):
                found[0] = True

    # ------------------------------------------------------------------ the scanner generated from tokenizer.l vs the real flex scanner
    lexcov = lexer_stage(ctx, rng, texts, lexer_state, lex_rules, found)
    ctx.log("scanner stage: %d strings through yylex / mps_parse_inline_poly_from_string and the generated scanner model" % lexcov["lexer_inputs"])

    ctx.proof_violation_if_broken(search=lambda: found[0])
    if grammar_state == "changed" and ctx.proof and ctx.proof.get("ok"):
        ctx.notes.append("grammar data changed but obligations still check?")

    cov = {"evaluations": len(cases) + lexcov["lexer_inputs"], "distinct_nontrivial": nontrivial + lexcov["lexer_inputs"] - lexcov["input_class"].get("expression", 0),
           "rule": "distinct input strings that are not a single leaf (ill-formed strings count); every string goes through "
                   "the implementation, the extracted Coq model and (for trees) the exact denotation computed by the check; "
                   "plus the distinct strings of the scanner stage that are not plain expression strings of the first stage",
           "samples": [cases[i][0] for i in sorted(rng.sample(range(len(cases)), min(12, len(cases))))],
           "histogram": {"input_class": hist, "ast_nodes": opshist, "implementation_result": errkinds,
                         "model_result(OK/ERR = reference model and table-driven pipeline model agree)": modelkinds,
                         "tokens_per_input(bounded table theorem covers <=6)": tokhist},
           "scanner_stage(real yylex + parser vs generated scanner model)": lexcov,
           "lexer_state": lexer_state, "lexer_gen_sha1": hashlib.sha1(lexgen.encode()).hexdigest(),
           "grammar_state": grammar_state, "bison_automaton_state": aut_state, "grammar_gen_sha1": hashlib.sha1(gen.encode()).hexdigest(),
           "model_vs_denotation_mismatches": corr_bad,
           "trusted_base": TRUSTED}
    return ctx.finish("proof", cov, ASSUME)


TRUSTED = ["Coq 8.16.1 kernel (full .vo build), axiom-free development (Print Assumptions: closed under the global context)",
           "extraction: ExtrOcamlBasic + ExtrOcamlNativeString, hand-written ocaml/inline_driver.ml (decimal printing of positive/Z)",
           "checks/c11_yacc_reader.py (reader of yacc-parser.y; not verified, its output is pinned by grammar_gen = expected_grammar)",
           "harness/c11_inline.c reading initial_mqp_r/i of the returned mps_monomial_poly; ASan+UBSan build of the snapshot",
           "bison: its LALR table is imported from `bison -y --xml` on every run (checks/c11_bison_report.py, unverified reader); trusted: "
           "the XML report describes the tables in the generated yacc-parser.c, and the yacc skeleton behaves like InlineLR.lr_loop; "
           "the table passes InlineLRSound.lr_check (kernel computation on the imported table) on every run",
           "tokenizer.l: its rules are read on every run (checks/c11_flex_reader.py, unverified reader, output pinned by lexer_gen = expected_lexer and "
           "cross-examined by an independent Python reading of the same rules); trusted: flex implements its documented semantics (longest match, first "
           "rule on ties, default rule) and YY_INPUT delivers the bytes of the C string; the real scanner is called directly (harness/c11_lex.c: yylex, "
           "yytext, yylval, yyout) and compared token by token with the extracted generated scanner",
           "numeric literals: Monomial::Monomial (const char *, long) is represented by the character-level model of PolFile/DecRatModel.v (C10's tie) "
           "and by the exact comparison of the parsed coefficients with the check's own decimal reading of every literal",
           "table-driven parser: accepted <=> derivable in the declarative grammar with that AST, proved for all lengths; not formalised: "
           "completeness of the REFERENCE parser parse_ref for that grammar (so 'table accepts => parse_ref accepts' is bounded + differential)",
           "the check's own exact Gaussian-rational evaluation of generated trees (independent of the Coq model)"]
ASSUME = ["well-formedness is judged by the language fixed in coq/Inline/InlineModel.v (exponent = integer literal, one 'i' per constant, "
          "'/' only inside a rational constant); integer-valued non-literal exponents (x^2.0, x^4/2) are not judged; the six letters [xXzZyY] of "
          "tokenizer.l are all read as the variable x (the models follow the code: `x*Y` is x^2); a newline is not a character of the language",
          "inputs are C strings (no NUL byte); decimal exponents below 1000 and '^' exponents whose (k+1) product is <= 150 in the scanner stage",
          "degree <= 60 and exponents <= 9 in generated inputs; int overflow of huge exponents is outside the tested range"]
