"""C11 -- inline expressions denote the polynomial of ordinary algebra; ill-formed ones are rejected.

Stages
  1. translator: yacc-parser.y of the source snapshot -> coq/Inline/Gen/GrammarGen.v (c11_yacc_reader);
     the Coq obligation `grammar_gen = expected_grammar` ties the proofs to the grammar file.
  2. ctx.prove(): re-checks Props/Properties_C11.v.
  3. correspondence / property predicate on the real code (harness/c11_inline.c, ASan+UBSan):
       every generated expression TREE is printed (minimal parentheses, plus redundant-parenthesis /
       whitespace variants), its polynomial is computed here with exact Gaussian-rational arithmetic
       (= the property's "polynomial the expression denotes"), and compared with
         (a) mps_parse_inline_poly_from_string (exact mpq coefficients)      -> property predicate
         (b) the extracted Coq model, both readings of every string: lex + parse_ref + denote (+ formal-poly
             model) AND the pipeline as generated (flex token names -> bison's imported table run by the yacc
             skeleton model -> grammar actions on the formal-polynomial model); the driver prints LRDIFF /
             FPDIFF when they differ                                              -> correspondence
     ill-formed strings are produced by construction (mutation classes) and must give ERR in both.

Language decisions (see coq/Inline/InlineModel.v header): "1/2" is one rational-constant token and '/'
is no operator; an exponent is an integer literal; `x^2^3` = (x^2)^3; one `i` per constant; a unary minus
may start any operand; a character outside the token set or a zero denominator makes a string ill-formed.
Strings whose status is debatable (`x^2.0`, `x^1e1`, `x^4/2`: exponent constants with an integer *value*;
the other variable letters y z X Y Z of the tokenizer; a bare `i`) are not generated.
"""
import os, sys, re, json, hashlib, zlib
from fractions import Fraction as Fr
from concurrent.futures import ThreadPoolExecutor
import vf
import c11_yacc_reader as yr
import c11_bison_report as br

VERIF = os.path.dirname(os.path.dirname(os.path.abspath(__file__)))
GEN = os.path.join(VERIF, "coq", "Inline", "Gen", "GrammarGen.v")
AUT = os.path.join(VERIF, "coq", "Inline", "Gen", "AutomatonGen.v")
# translator output for the grammar of /repo HEAD before fixes/C11_grammar.patch (sha1 of the generated text)
UNPATCHED_GRAMMAR_SHA1 = "b7109e49beb196000c4035217ec50870d3fc0d24"

# ----------------------------------------------------------------------------- exact arithmetic
Z0 = (Fr(0), Fr(0))


def cadd(a, b): return (a[0] + b[0], a[1] + b[1])
def cneg(a): return (-a[0], -a[1])
def cmul(a, b): return (a[0] * b[0] - a[1] * b[1], a[1] * b[0] + a[0] * b[1])


def pnorm(p):
    p = list(p)
    while p and p[-1] == Z0: p.pop()
    return tuple(p)


def padd(p, q):
    n = max(len(p), len(q))
    return pnorm([cadd(p[i] if i < len(p) else Z0, q[i] if i < len(q) else Z0) for i in range(n)])


def pneg(p): return tuple(cneg(a) for a in p)


def pmul(p, q):
    if not p or not q: return ()
    r = [Z0] * (len(p) + len(q) - 1)
    for i, a in enumerate(p):
        if a == Z0: continue
        for j, b in enumerate(q):
            r[i + j] = cadd(r[i + j], cmul(a, b))
    return pnorm(r)


def ppow(p, k):
    r = ((Fr(1), Fr(0)),)
    for _ in range(k): r = pmul(r, p)
    return r


# ----------------------------------------------------------------------------- trees
# ('x',) ('num', text, value(Fr), imag) ('add',a,b) ('sub',a,b) ('mul',a,b) ('neg',a) ('pow',a,k)
_den = {}


def denote(t):
    k = id(t)
    if k in _den: return _den[k][1]
    op = t[0]
    if op == 'x': r = (Z0, (Fr(1), Fr(0)))
    elif op == 'num': r = pnorm([(Fr(0), t[2]) if t[3] else (t[2], Fr(0))])
    elif op == 'add': r = padd(denote(t[1]), denote(t[2]))
    elif op == 'sub': r = padd(denote(t[1]), pneg(denote(t[2])))
    elif op == 'mul': r = pmul(denote(t[1]), denote(t[2]))
    elif op == 'neg': r = pneg(denote(t[1]))
    elif op == 'pow': r = ppow(denote(t[1]), t[2])
    _den[k] = (t, r)          # keep t alive so that id() stays unique
    return r


LEVEL = {'add': 0, 'sub': 0, 'mul': 1, 'neg': 2, 'pow': 3, 'x': 3, 'num': 3}


def show(t, l=0, rng=None, noise=0.0):
    """minimal parentheses (mirror of Coq print_at); with rng: random redundant parentheses / blanks"""
    op = t[0]
    sp = (lambda: rng.choice(["", "", " ", "  ", "\t"])) if (rng and noise) else (lambda: "")
    if op == 'x': s = "x"
    elif op == 'num': s = t[1] + ("i" if t[3] else "")
    elif op == 'add': s = show(t[1], 0, rng, noise) + sp() + "+" + sp() + show(t[2], 1, rng, noise)
    elif op == 'sub': s = show(t[1], 0, rng, noise) + sp() + "-" + sp() + show(t[2], 1, rng, noise)
    elif op == 'mul': s = show(t[1], 1, rng, noise) + sp() + "*" + sp() + show(t[2], 2, rng, noise)
    elif op == 'neg': s = "-" + sp() + show(t[1], 2, rng, noise)
    elif op == 'pow': s = show(t[1], 3, rng, noise) + sp() + "^" + sp() + str(t[2])
    if LEVEL[op] < l or (rng and noise and rng.random() < noise):
        s = "(" + sp() + s + sp() + ")"
    return s


def show_full(t):
    op = t[0]
    if op == 'x': return "x"
    if op == 'num': return t[1] + ("i" if t[3] else "")
    if op == 'neg': return "(-" + show_full(t[1]) + ")"
    if op == 'pow': return "(" + show_full(t[1]) + "^" + str(t[2]) + ")"
    return "(" + show_full(t[1]) + {'add': '+', 'sub': '-', 'mul': '*'}[op] + show_full(t[2]) + ")"


def degree_bound(t):
    op = t[0]
    if op == 'x': return 1
    if op == 'num': return 0
    if op in ('add', 'sub'): return max(degree_bound(t[1]), degree_bound(t[2]))
    if op == 'mul': return degree_bound(t[1]) + degree_bound(t[2])
    if op == 'neg': return degree_bound(t[1])
    return degree_bound(t[1]) * t[2]


def coeff_bits(t):
    """largest numerator/denominator bit length over the denotations of all subtrees (the extracted model's
    Qc arithmetic is slow on huge numbers; generated inputs are kept below a bound)"""
    m = 0
    for c in denote(t):
        for q in c:
            m = max(m, abs(q.numerator).bit_length(), q.denominator.bit_length())
    for c in t[1:]:
        if isinstance(c, tuple): m = max(m, coeff_bits(c))
    return m


def size(t):
    return 1 + sum(size(c) for c in t[1:] if isinstance(c, tuple))


def ops_of(t, acc):
    acc[t[0]] = acc.get(t[0], 0) + 1
    for c in t[1:]:
        if isinstance(c, tuple): ops_of(c, acc)
    return acc


def lit(text):
    """numeric literal as written -> ('num', text, value, False); decimal reading of every digit string"""
    m = re.fullmatch(r"(\d+)/(\d+)", text)
    if m: return ('num', text, Fr(int(m.group(1)), int(m.group(2))), False)
    m = re.fullmatch(r"(\d+)(?:\.(\d*))?(?:[eE]([+-]?\d+))?", text)
    mant = int(m.group(1) + (m.group(2) or ""))
    v = Fr(mant, 10 ** len(m.group(2) or "")) * (Fr(10) ** int(m.group(3) or "0"))
    return ('num', text, v, False)


def ilit(text):
    t = lit(text); return ('num', t[1], t[2], True)


def fmt_q(q):
    return str(q.numerator) if q.denominator == 1 else "%d/%d" % (q.numerator, q.denominator)


def fmt_poly(p):
    p = p if p else (Z0,)
    return "OK %d %s" % (len(p) - 1, " ".join("%s %s" % (fmt_q(a), fmt_q(b)) for a, b in p))


# unpatched-grammar reading of a tree: MINUS binds to the bare monomial before '^'
def push_neg_into_pow(t):
    """-a^k1^k2 (a a bare atom, possibly behind more unary minuses) read as ((-a)^k1)^k2"""
    op = t[0]
    if op in ('x', 'num'): return t
    if op == 'neg':
        n, u = 0, t
        while u[0] == 'neg': n += 1; u = u[1]
        ks = []
        while u[0] == 'pow': ks.append(u[2]); u = u[1]
        if ks and u[0] in ('x', 'num'):
            for _ in range(n): u = ('neg', u)
            for k in reversed(ks): u = ('pow', u, k)
            return u
        return ('neg', push_neg_into_pow(t[1]))
    if op == 'pow': return ('pow', push_neg_into_pow(t[1]), t[2])
    return (op, push_neg_into_pow(t[1]), push_neg_into_pow(t[2]))


def has_neg_pow_atom(t):
    op = t[0]
    if op in ('x', 'num'): return False
    if op == 'neg':
        u = t
        while u[0] == 'neg': u = u[1]
        v = u
        while v[0] == 'pow': v = v[1]
        if u[0] == 'pow' and v[0] in ('x', 'num'): return True
    return any(has_neg_pow_atom(c) for c in t[1:] if isinstance(c, tuple))


# ----------------------------------------------------------------------------- generators
LEAVES = [('x',), lit("2"), lit("3/4"), lit("1.5"), ilit("2")]


def exhaustive(depth, pows):
    """all trees of depth <= depth over LEAVES with + - * unary- and ^k (k in pows)"""
    levels = [list(LEAVES)]
    for _ in range(depth - 1):
        prev = levels[-1]
        cur = list(LEAVES)
        for a in prev:
            cur.append(('neg', a))
            for k in pows: cur.append(('pow', a, k))
        for op in ('add', 'sub', 'mul'):
            for a in prev:
                for b in prev:
                    cur.append((op, a, b))
        levels.append(cur)
    return levels[-1]


LITS = ["0", "1", "2", "7", "10", "007", "1234567891", "3/4", "1/2", "10/4", "0/5", "3/010", "5/08", "06/09", "0.0", "0.00e1", "0000", "00007", "00000000/3", "0000.50", "0000/5", "000012/00008", "00000e2",
        "1.5", "0.25", "0.010", "00.5", "2.", "1.e2", "1e-3", "1E+2", "12.5e1", "1.5e3", "0e5", "2.50E-2", "1e010"]


def rand_leaf(rng):
    r = rng.random()
    if r < 0.45: return ('x',)
    t = rng.choice(LITS) if rng.random() < 0.7 else str(rng.randrange(0, 50))
    return ilit(t) if rng.random() < 0.25 else lit(t)


def rand_tree(rng, depth):
    if depth <= 1 or rng.random() < 0.12: return rand_leaf(rng)
    r = rng.random()
    if r < 0.22: return ('add', rand_tree(rng, depth - 1), rand_tree(rng, depth - 1))
    if r < 0.42: return ('sub', rand_tree(rng, depth - 1), rand_tree(rng, depth - 1))
    if r < 0.64: return ('mul', rand_tree(rng, depth - 1), rand_tree(rng, depth - 1))
    if r < 0.82: return ('neg', rand_tree(rng, depth - 1))
    return ('pow', rand_tree(rng, depth - 1), rng.choice([0, 1, 2, 2, 3, 3, 4, 5, 7]))


def cancelling(rng):
    """sub-expressions that cancel to a constant or to zero"""
    a = rand_tree(rng, 4)
    k = rng.choice([2, 3])
    forms = [('sub', a, a), ('add', a, ('neg', a)), ('mul', ('sub', a, a), rand_tree(rng, 3)),
             ('sub', ('pow', ('add', ('x',), lit("1")), 2), ('add', ('add', ('pow', ('x',), 2), ('mul', lit("2"), ('x',))), lit("1"))),
             ('add', ('mul', ilit("1"), ilit("1")), lit("1")),
             ('sub', ('pow', a, k), ('mul', a, ('pow', a, k - 1))),
             ('pow', ('sub', a, a), 0), ('sub', ('mul', ('x',), lit("0.5")), ('mul', lit("1/2"), ('x',)))]
    return rng.choice(forms)


def sparse_product(rng):
    """operands of operator* / '^' with interior zero entries (stale degree fields), partial and total
    cancellation inside the double loop, and leading-zero trimming after the last diagonal"""
    X = ('x',)
    def xp(k): return ('pow', X, k) if k != 1 else X
    def sp():
        a, b = rng.choice([2, 3, 4, 5, 7]), rng.choice([0, 1, 2])
        c = rng.choice([lit("1"), lit("2"), lit("3/4"), ilit("1"), lit("0.5"), ilit("3/2")])
        t = (rng.choice(['add', 'sub']), xp(a), ('mul', c, xp(b)) if b else c)
        if rng.random() < 0.3: t = ('add', t, ('mul', lit("0"), xp(a + 1)))        # a trailing zero term, trimmed
        if rng.random() < 0.2: t = ('sub', t, xp(a))                                # the leading term cancels
        return t
    p, q = sp(), sp()
    forms = [('mul', p, q), ('pow', p, rng.choice([2, 3, 4])), ('mul', ('mul', p, q), sp()),
             ('sub', ('mul', ('add', X, lit("1")), ('sub', X, lit("1"))), ('sub', xp(2), lit("1"))),
             ('mul', ('sub', p, p), q), ('pow', ('mul', ('add', X, ilit("1")), ('sub', X, ilit("1"))), rng.choice([2, 3])),
             ('sub', ('mul', p, q), ('mul', q, p)), ('pow', ('sub', xp(3), xp(3)), rng.choice([0, 1, 2])),
             ('mul', ('pow', p, 0), q), ('neg', ('pow', ('neg', p), 3))]
    return rng.choice(forms)


def flat_chain(rng):
    """long operator chains without parentheses (10..40 operands): deep LR stacks, every adjacent pair of
    operators out of + - * ^ and unary minus -- far beyond the length bound of the bounded table theorem"""
    n = rng.randrange(10, 41)
    def operand():
        t = rand_leaf(rng) if rng.random() < 0.8 else ('x',)
        while rng.random() < 0.3: t = ('pow', t, rng.choice([0, 1, 2, 3]))
        while rng.random() < 0.25: t = ('neg', t)
        return t
    # build by precedence: split into sums of products
    terms, cur = [], operand()
    ops = []
    for _ in range(n - 1):
        o = rng.choice(['add', 'sub', 'mul', 'mul'])
        b = operand()
        if o == 'mul':
            if cur[0] == 'neg' and False: pass
            cur = ('mul', cur, b)
        else:
            terms.append(cur); ops.append(o); cur = b
    terms.append(cur)
    t = terms[0]
    for o, b in zip(ops, terms[1:]): t = (o, t, b)
    return t


def n_tokens(text):
    return len(re.findall(r"\d+(?:/\d+|\.\d*)?(?:[eE][+-]?\d+)?|\S", text))


ILL_KINDS = ["dangling-operator", "leading-binary-operator", "doubled-operator", "unbalanced-paren", "empty-parens",
             "missing-operator", "non-integer-exponent", "imaginary-exponent", "negative-exponent", "parenthesised-exponent",
             "missing-exponent", "repeated-imaginary-unit", "stray-character", "zero-denominator", "slash-operator", "empty"]


def ill_formed(rng, kind):
    a = show(rand_tree(rng, 3)); b = show(rand_tree(rng, 3), 3)
    if kind == "dangling-operator": return a + rng.choice(["+", "-", "*", "^"])
    if kind == "leading-binary-operator": return rng.choice(["+", "*", "^"]) + a
    if kind == "doubled-operator": return b + rng.choice(["+*", "*+", "**", "++", "-*", "^^", "*^", "-+"]) + b
    if kind == "unbalanced-paren": return rng.choice(["(" + a, a + ")", "((" + a + ")", "(" + a + "))", ")" + a + "("])
    if kind == "empty-parens": return rng.choice(["()", a + "+()", "()*" + b, "(" + ")^2"])
    if kind == "missing-operator": return rng.choice(["2x", "x2", "x x", "x 2", b + " " + b, "(" + a + ")(" + a + ")", "2(" + a + ")", "(" + a + ")x", "2 3", "xi", "2ix"])
    if kind == "non-integer-exponent": return b + "^" + rng.choice(["1/2", "3/2", "1.5", "0.5", "2.5e0", "7/3"]) + rng.choice(["", "-3", "+x"])
    if kind == "imaginary-exponent": return b + "^" + rng.choice(["2i", "1i", "3i", "0i"]) + rng.choice(["", "+1"])
    if kind == "negative-exponent": return b + "^-" + rng.choice(["1", "2"])
    if kind == "parenthesised-exponent": return b + "^(" + rng.choice(["2", "x", "1+1"]) + ")"
    if kind == "missing-exponent": return b + rng.choice(["^", "^+1", "^*2", "^x", "^)"])
    if kind == "repeated-imaginary-unit": return rng.choice(["2ii", "1.5ii+x", "x*3iii", "2i i"])
    if kind == "stray-character":
        c = rng.choice("#$&=,;:!?@_~%|\\[]{}<>'\"abw")
        s = a
        p = rng.randrange(0, len(s) + 1)
        return s[:p] + c + s[p:]
    if kind == "zero-denominator": return rng.choice(["1/0", "x+3/0", "5/00*x", "x^2-0/0"])
    if kind == "slash-operator": return rng.choice(["x/2", "(x+1)/2", "1/x", "x^2/3/4", "2/ 3", "2 /3", "1.5/2", "1e2/3"])
    if kind == "empty": return rng.choice(["", " ", "\t", "   "])
    raise ValueError(kind)


# stray characters that the tokenizer itself turns into something else than an error are still ill-formed for
# the property; but letters y z X Y Z are variables for the tokenizer (not judged) -> regenerate without them
NOT_JUDGED_CHARS = set("yzXYZ")


# ----------------------------------------------------------------------------- running
def run_impl(ctx, h, lines):
    """-> list of result strings ('ERR' | 'OK ...' | 'CRASH <what>' | ...), one per input line"""
    env = ctx.san_env({"MPS_JOBS": "1"})
    res = [None] * len(lines)
    noise = [0]

    def chunk(lo, hi):
        start = 0
        sub = lines[lo:hi]
        text = "".join(s + "\n" for s in sub)
        while start < len(sub):
            rc, out, err = vf.sh([h, str(start)], input=text, timeout=1200, env=env)
            got = -1
            for ln in out.splitlines():
                if ln.startswith("@@ "):
                    _, n, rest = ln.split(" ", 2)
                    res[lo + int(n)] = rest; got = int(n)
            if got + 1 >= len(sub) and rc == 0: break
            # the process died on input got+1
            k = max(got + 1, start)
            if k >= len(sub): break
            what = "rc=%s" % rc
            if "AddressSanitizer" in err or "runtime error" in err:
                m = re.search(r"SUMMARY: (\w+Sanitizer: [\w-]+)", err) or re.search(r"runtime error: ([^\n]{0,60})", err)
                what = "sanitizer " + (m.group(1) if m else "report")
            elif "terminate called" in err:
                m = re.search(r"what\(\):\s*([^\n]*)", err); what = "uncaught-exception " + (m.group(1) if m else "")
            res[lo + k] = "CRASH " + what
            start = k + 1
    n = len(lines); step = max(1, (n + 15) // 16)
    with ThreadPoolExecutor(max_workers=16) as ex:
        list(ex.map(lambda lo: chunk(lo, min(n, lo + step)), range(0, n, step)))
    return res


def run_model_parallel(ctx, texts, ways=16):
    """extracted model on strided slices of the inputs (big random expressions are slow in Qc arithmetic)"""
    mb = ctx.model_bin("inline")
    res = [None] * len(texts)

    def part(i):
        sub = texts[i::ways]
        if not sub: return
        rc, out, err = vf.sh([mb], input="".join(s + "\n" for s in sub), timeout=1800)
        lines = out.split("\n")
        if lines and lines[-1] == "": lines.pop()
        if rc != 0 or len(lines) != len(sub):
            raise vf.InfraError("model driver: rc=%d, %d lines for %d inputs: %s" % (rc, len(lines), len(sub), err[-500:]))
        res[i::ways] = lines
    with ThreadPoolExecutor(max_workers=ways) as ex:
        list(ex.map(part, range(ways)))
    return res


def classify_wellformed(tree, text, expect, got):
    """signatures (possibly two) for a well-formed input on which the implementation fails the predicate;
    each class predicate demands the exact wrong reading that the known defect produces"""
    if got == "ERR" and tree_has_neg_paren(text):
        return ["wellformed-rejected:unary-minus-before-parenthesis"]
    if got.startswith("CRASH"):
        return crash_class(text, got)
    if got.startswith("OK"):
        negpow = has_neg_pow_atom(tree)
        octal = re.search(r"/0\d", text) is not None
        if negpow and got == fmt_poly(denote(push_neg_into_pow(tree))):
            return ["wrong-value:unary-minus-bound-before-power"]
        if octal and got == fmt_poly(denote(octal_reading(tree))):
            return ["wrong-value:leading-zero-denominator-read-as-octal"]
        if negpow and octal and got == fmt_poly(denote(octal_reading(push_neg_into_pow(tree)))):
            return ["wrong-value:unary-minus-bound-before-power", "wrong-value:leading-zero-denominator-read-as-octal"]
    return []


def tree_has_neg_paren(text):
    """a '-' in operand position (start, after an operator or '(') whose operand -- after more unary minuses -- is '('"""
    s = re.sub(r"\s+", "", text)
    return re.search(r"(^|[-+*(])-+\(", s) is not None


def octal_reading(t):
    op = t[0]
    if op == 'x': return t
    if op == 'num':
        m = re.fullmatch(r"(\d+)/(0\d+)", t[1])
        if m and not re.search(r"[89]", m.group(2)):
            return ('num', t[1], Fr(int(m.group(1)), int(m.group(2), 8)), t[3])
        return t
    if op == 'neg': return ('neg', octal_reading(t[1]))
    if op == 'pow': return ('pow', octal_reading(t[1]), t[2])
    return (op, octal_reading(t[1]), octal_reading(t[2]))


def crash_class(text, got):
    """the three known ways a numeric literal kills the process; the literal must be present in the text"""
    if got.startswith("CRASH uncaught-exception") and re.search(r"(?<![\d.eE/])0+(/\d|\.0+(?!\d))", text):
        return ["crash:zero-valued-literal-with-denominator"]
    if got.startswith("CRASH uncaught-exception") and re.search(r"/0\d*[89]", text):
        return ["crash:leading-zero-denominator-invalid-octal"]
    if got.startswith("CRASH sanitizer AddressSanitizer: FPE") and re.search(r"/0+(?!\d)", text):
        return ["crash:zero-denominator"]
    return []


def classify_illformed(kind, text, got):
    if got.startswith("OK") and kind in ("non-integer-exponent", "imaginary-exponent", "repeated-imaginary-unit", "stray-character"):
        return ["illformed-accepted:" + kind]
    if got.startswith("CRASH"):
        return crash_class(text, got)
    return []


def regen_grammar(ctx):
    y = os.path.join(ctx.snap("san"), "src", "libmps", "monomial", "yacc-parser.y")
    try:
        return yr.to_coq(yr.read_grammar(open(y).read()))
    except Exception as ex:
        return "(* grammar file could not be read: %s *)\nDefinition grammar_gen := tt.\n" % (str(ex).replace("*)", "* )"),)


def run(ctx):
    rng = ctx.rng
    committed = open(GEN).read()
    gen = regen_grammar(ctx)
    grammar_state = "expected"
    restore = None
    if gen != committed:
        if hashlib.sha1(gen.encode()).hexdigest() == UNPATCHED_GRAMMAR_SHA1:
            grammar_state = "unpatched"
            ctx.violation("grammar:unpatched-unary-minus",
                          "yacc-parser.y is the grammar without fixes/C11_grammar.patch (unary minus reduced before '^', exponent = any number)",
                          {"file": "src/libmps/monomial/yacc-parser.y"})
        else:
            grammar_state = "changed"
            restore = committed
            with open(GEN, "w") as f: f.write(gen)
    # bison's own automaton for the snapshot's grammar file (what build_repo.sh compiled into the library)
    aut_state, restore_aut = "expected", None
    if grammar_state != "unpatched":
        committed_aut = open(AUT).read()
        try:
            aut = br.generate(os.path.join(ctx.snap("san"), "src", "libmps", "monomial", "yacc-parser.y"))
        except Exception as ex:
            aut = "(* bison report could not be read: %s *)\nDefinition automaton_gen := tt.\n" % (str(ex).replace("*)", "* )")[:300],)
        if aut != committed_aut:
            aut_state, restore_aut = "changed", committed_aut
            with open(AUT, "w") as f: f.write(aut)
    try:
        ctx.prove()
    finally:
        stale = []
        if restore is not None:
            with open(GEN, "w") as f: f.write(restore)
            stale += ["Gen/GrammarGen", "InlineGrammarShape", "InlineLRCheck"]
        if restore_aut is not None:
            with open(AUT, "w") as f: f.write(restore_aut)
            stale += ["Gen/AutomatonGen", "InlineLRCheck", "InlineLRComplete", "InlineLRAll", "InlineYaccModel"]
        for base in stale:
            for ext in (".vo", ".glob", ".vok", ".vos"):
                try: os.remove(os.path.join(VERIF, "coq", "Inline", base + ext))
                except OSError: pass

    h = ctx.compile_harness(["c11_inline.c"], "c11_inline", mode="san")
    found = [False]

    # ------------------------------------------------------------------ replay of one stored case
    if ctx.replay:
        case = json.load(open(ctx.replay))
        if "expr" in case:
            got = run_impl(ctx, h, [case["expr"]])[0]
            if got != case["expect"]:
                ctx.violation(case.get("signature", "replay"), "replay: %r gives %s, expected %s" % (case["expr"], got, case["expect"]), case)
            return ctx.finish("proof", {"evaluations": 1, "distinct_nontrivial": 1, "rule": "replayed case", "samples": [case["expr"]],
                                        "histogram": {"replay": 1}, "trusted_base": TRUSTED}, ASSUME)

    # ------------------------------------------------------------------ inputs
    cases = []    # (text, tree|None, kind)
    ex_trees = exhaustive(3, [2, 3])
    for t in ex_trees: cases.append((show(t), t, "exhaustive-depth3"))
    n_var = ctx.pick(3000, 12000)
    for t in rng.sample(ex_trees, min(n_var, len(ex_trees))):
        cases.append((show_full(t), t, "exhaustive-fullparen"))
        cases.append((show(t, 0, rng, 0.25), t, "exhaustive-noisy"))
    n_rand = ctx.pick(10000, 80000)
    made = 0
    while made < n_rand:
        t = rand_tree(rng, rng.choice([4, 5, 6, 7, 8, 8])) if rng.random() < 0.85 else cancelling(rng)
        if degree_bound(t) > 60 or size(t) > 120 or coeff_bits(t) > 200: continue
        made += 1
        cases.append((show(t), t, "random"))
        if made % 3 == 0: cases.append((show(t, 0, rng, 0.2), t, "random-noisy"))
    n_sp = ctx.pick(1500, 8000)
    made = 0
    while made < n_sp:
        t = sparse_product(rng)
        if degree_bound(t) > 60 or size(t) > 120 or coeff_bits(t) > 200: continue
        made += 1
        cases.append((show(t), t, "sparse-product"))
    n_ch = ctx.pick(1500, 8000)
    made = 0
    while made < n_ch:
        t = flat_chain(rng)
        if degree_bound(t) > 60 or coeff_bits(t) > 200: continue
        made += 1
        cases.append((show(t), t, "flat-chain"))
    for s in LITS:
        cases.append((s, lit(s), "literal")); cases.append((s + "i", ilit(s), "literal"))
        cases.append(("x^2*" + s + "-" + s + "i", ('sub', ('mul', ('pow', ('x',), 2), lit(s)), ilit(s)), "literal"))
    # the four expressions of DESIGN.md section 4 row 5 and relatives
    X = ('x',)
    for t in [('add', ('neg', ('pow', X, 2)), lit("4")), ('add', ('neg', ('pow', ('add', X, lit("1")), 2)), lit("4")),
              ('pow', ('pow', X, 2), 3), ('mul', lit("2"), ('neg', X)), ('neg', ('neg', X)), ('sub', X, ('neg', X)),
              ('neg', ('pow', ilit("2"), 2)), ('pow', ('neg', X), 2), ('neg', ('pow', ('pow', X, 2), 3)), ('pow', lit("0"), 0),
              ('mul', ('neg', ('pow', X, 3)), ('neg', ('pow', X, 2)))]:
        cases.append((show(t), t, "design-witness"))
    n_ill = ctx.pick(200, 1500)
    for kind in ILL_KINDS:
        seen = set()
        for _ in range(n_ill * 3):
            s = ill_formed(rng, kind)
            if kind == "stray-character" and (set(s) & NOT_JUDGED_CHARS): continue
            if s in seen: continue
            seen.add(s); cases.append((s, None, "ill:" + kind))
            if len(seen) >= n_ill: break
    for s in ["x^1/2-3", "x^2i+1", "2ii", "x#+1", "1/0", "x^1.5", "x^-2", "x^(2)", "2x", "x+", "(x", "x)", "", "x^", "*x", "x**2", "3/4/5"]:
        kind = {"x^1/2-3": "non-integer-exponent", "x^1.5": "non-integer-exponent", "x^2i+1": "imaginary-exponent", "2ii": "repeated-imaginary-unit",
                "x#+1": "stray-character", "1/0": "zero-denominator"}.get(s, "misc")
        cases.append((s, None, "ill:" + kind))
    # de-duplicate on the text (keep first)
    seen, uniq = set(), []
    for c in cases:
        if "\n" in c[0] or c[0] in seen: continue
        seen.add(c[0]); uniq.append(c)
    cases = uniq
    ctx.log("generated %d distinct strings" % len(cases))

    # ------------------------------------------------------------------ run both sides
    texts = [c[0] for c in cases]
    model = run_model_parallel(ctx, texts)
    ctx.log("model done")
    impl = run_impl(ctx, h, texts)
    ctx.log("ran %d strings through implementation and model" % len(texts))

    hist, errkinds, nontrivial, corr_bad = {}, {}, 0, 0
    opshist, modelkinds, tokhist = {}, {}, {}
    for (text, tree, kind), m, g in zip(cases, model, impl):
        hist[kind] = hist.get(kind, 0) + 1
        modelkinds[m.split(" ")[0]] = modelkinds.get(m.split(" ")[0], 0) + 1
        nt = n_tokens(text)
        b = "<=6" if nt <= 6 else "7-12" if nt <= 12 else "13-24" if nt <= 24 else "25-48" if nt <= 48 else ">48"
        tokhist[b] = tokhist.get(b, 0) + 1
        expect = fmt_poly(denote(tree)) if tree is not None else "ERR"
        if tree is not None:
            ops_of(tree, opshist)
            if size(tree) > 1: nontrivial += 1
        else:
            nontrivial += 1
        if g is None: g = "CRASH no-output"
        errkinds[g.split(" ")[0]] = errkinds.get(g.split(" ")[0], 0) + 1
        # (b) correspondence of the model with the property's own reading
        if m != expect:
            corr_bad += 1
            what_m = "lr-pipeline-model-vs-reference-model:" if m.startswith("LRDIFF") else \
                     "formal-model-vs-denotation:" if m.startswith("FPDIFF") else "model-vs-denotation:"
            ctx.violation("correspondence:" + what_m + text[:60],
                          "Coq model gives %s for %r, the tree denotes / the mutation class demands %s" % (m[:80], text, expect[:80]),
                          {"expr": text, "expect": expect, "model": m}, no_input=True)
            continue
        # (a) property predicate on the implementation
        if g == expect: continue
        sigs = classify_wellformed(tree, text, expect, g) if tree is not None else classify_illformed(kind[4:], text, g)
        if not sigs:
            sigs = [("sanitizer:" if g.startswith("CRASH sanitizer") else "mismatch:") + text[:80]]
        what = ("well-formed %r parsed as %s, denotes %s" % (text, g[:100], expect[:100])) if tree is not None else \
               ("ill-formed (%s) %r not rejected: %s" % (kind[4:], text, g[:100]))
        for sig in sigs:
            if ctx.violation(sig, what, {"expr": text, "expect": expect, "got": g, "kind": kind}):
                found[0] = True

    ctx.proof_violation_if_broken(search=lambda: found[0])
    if grammar_state == "changed" and ctx.proof and ctx.proof.get("ok"):
        ctx.notes.append("grammar data changed but obligations still check?")

    cov = {"evaluations": len(cases), "distinct_nontrivial": nontrivial,
           "rule": "distinct input strings that are not a single leaf (ill-formed strings count); every string goes through "
                   "the implementation, the extracted Coq model and (for trees) the exact denotation computed by the check",
           "samples": [cases[i][0] for i in sorted(rng.sample(range(len(cases)), min(12, len(cases))))],
           "histogram": {"input_class": hist, "ast_nodes": opshist, "implementation_result": errkinds,
                         "model_result(OK/ERR = reference model and table-driven pipeline model agree)": modelkinds,
                         "tokens_per_input(bounded table theorem covers <=6)": tokhist},
           "grammar_state": grammar_state, "bison_automaton_state": aut_state, "grammar_gen_sha1": hashlib.sha1(gen.encode()).hexdigest(),
           "model_vs_denotation_mismatches": corr_bad,
           "trusted_base": TRUSTED}
    return ctx.finish("proof", cov, ASSUME)


TRUSTED = ["Coq 8.16.1 kernel (full .vo build), axiom-free development (Print Assumptions: closed under the global context)",
           "extraction: ExtrOcamlBasic + ExtrOcamlNativeString, hand-written ocaml/inline_driver.ml (decimal printing of positive/Z)",
           "checks/c11_yacc_reader.py (reader of yacc-parser.y; not verified, its output is pinned by grammar_gen = expected_grammar)",
           "harness/c11_inline.c reading initial_mqp_r/i of the returned mps_monomial_poly; ASan+UBSan build of the snapshot",
           "bison: its LALR table is imported from `bison -y --xml` on every run (checks/c11_bison_report.py, unverified reader); trusted: "
           "the XML report describes the tables in the generated yacc-parser.c, and the yacc skeleton behaves like InlineLR.lr_loop; "
           "the table passes InlineLRSound.lr_check (kernel computation on the imported table) on every run",
           "tokenizer.l is modelled by hand (InlineModel.lex, InlineLR.ylex with the token names), tied by the same differential",
           "table-driven parser: accepted <=> derivable in the declarative grammar with that AST, proved for all lengths; not formalised: "
           "completeness of the REFERENCE parser parse_ref for that grammar (so 'table accepts => parse_ref accepts' is bounded + differential)",
           "the check's own exact Gaussian-rational evaluation of generated trees (independent of the Coq model)"]
ASSUME = ["well-formedness is judged by the language fixed in coq/Inline/InlineModel.v (exponent = integer literal, one 'i' per constant, "
          "'/' only inside a rational constant); integer-valued non-literal exponents (x^2.0, x^4/2) and the variable letters y,z,X,Y,Z are not judged",
          "degree <= 60 and exponents <= 9 in generated inputs; int overflow of huge exponents is outside the tested range"]
