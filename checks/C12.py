"""C12 -- DPE numbers behave like the reals they represent.

prove (coq/Props/Properties_C12.v) -> build libmps (san + plain) and harness/c12_dpe.c ->
generated operands through (a) the real rdpe_*/cdpe_* functions, (b) the extracted Coq model
(bin/dpe) -> per case
  * the PROPERTY PREDICATE evaluated exactly (python integers) on the implementation's output:
    normalised, relative error <= K[op] ulps of the exact result, saturation on exponent
    overflow / underflow, comparison == exact order, no UBSan signed-overflow report;
  * the correspondence: implementation output == model output bit for bit.
A failing predicate is a violation (signature names op and failing class); model != implementation
with the predicate true is a broken correspondence.
"""
import os, sys, json, struct, re, time
from multiprocessing import Pool
import vf

LMAX = (1 << 63) - 1
LMIN = -(1 << 63)
U53 = 1 << 53

# ulps (units of 2^-53 relative) allowed per operation -- the property's "a few units in the last place".
# PROVED marks the constants that are the ones of a Coq theorem of Properties_C12.v (the predicate uses exactly the
# proved bound); the others are empirical allowances for operations without an error theorem.
K = {"set_d": 0, "set_2dl": 0, "neg": 0, "abs": 0, "neg_eq": 0, "abs_eq": 0,
     "mul_2exp": 0, "div_2exp": 0, "mul_eq_2exp": 0, "div_eq_2exp": 0,
     "mul": 1, "mul_eq": 1, "div": 1, "div_eq": 1, "inv": 1, "inv_eq": 1, "sqr": 1, "sqr_eq": 1,
     "sqrt": 1, "sqrt_eq": 1, "mul_d": 1, "mul_eq_d": 1, "div_d": 1, "div_eq_d": 1,
     "add": 2, "add_eq": 2, "sub": 2, "sub_eq": 2,
     # complex: error measured in modulus
     "cadd": 2, "csub": 2, "cmul_e": 1, "cdiv_e": 1,
     "cmul_d": 1, "cdiv_d": 1, "cinv": 6, "cinv_eq": 6, "cdiv": 9, "cmod": 4, "csmod": 4, "cset_d": 0}
# complex operations with a theorem in squared modulus: |res - exact|^2 <= K2 * 2^-106 * |exact|^2
K2 = {"cmul": 19, "cmul_eq": 19, "csqr": 11, "csqr_eq": 11, "cdiv": 72, "cmul_x": 19}
PROVED = {"mul": "C12_mul_rel", "mul_eq": "C12_mul_rel", "sqr": "C12_sqr_rel", "sqr_eq": "C12_sqr_rel", "div": "C12_div_rel",
          "div_eq": "C12_div_rel", "inv": "C12_inv_rel", "inv_eq": "C12_inv_rel", "sqrt": "C12_sqrt_rel", "sqrt_eq": "C12_sqrt_rel",
          "add": "C12_add_rel (1 ulp when |e1-e2| <= 53)", "add_eq": "C12_add_eq_rel", "sub": "C12_sub_rel", "sub_eq": "C12_sub_rel",
          "set_d": "C12_conv_double", "cmod": "C12_cmod_rel", "csmod": "C12_csmod_rel", "cmul": "C12_cmul_rel (k^2 = 19)",
          "cmul_eq": "C12_cmul_rel (k^2 = 19)", "csqr": "C12_csqr_rel (k^2 = 11)", "csqr_eq": "C12_csqr_rel (k^2 = 11)",
          "pow_si": "C12_pow_si_ulps (k = i + 1, 2|i| + 1 for i < 0)", "pow_eq_si": "C12_pow_si_ulps",
          "cpow_si": "C12_cpow_si_ulps (4.36 (i+1), 10.37 (|i|+1) for i < 0)", "cpow_eq_si": "C12_cpow_si_ulps",
          "get_d": "C12_get_d_partial (correctly rounded)", "cmp": "C12_cmp_correct", "lt": "C12_order_correct", "le": "C12_order_correct",
          "gt": "C12_order_correct", "ge": "C12_order_correct",
          "mul_2exp": "C12_scale_2exp (every unsigned long i)", "div_2exp": "C12_scale_2exp (every unsigned long i)",
          "mul_eq_2exp": "C12_scale_2exp", "div_eq_2exp": "C12_scale_2exp", "set_2dl": "C12_set_2dl_full",
          "mul_d": "C12_mul_d_rel (repaired code)", "mul_eq_d": "C12_mul_d_rel (repaired code)",
          "div_d": "C12_div_d_rel (repaired code)", "div_eq_d": "C12_div_d_rel (repaired code)",
          "cmul_e": "C12_cmul_e_rel (1 ulp per component)", "cdiv_e": "C12_cdiv_e_rel (1 ulp per component)",
          "cmul_d": "C12_cmul_d_rel (repaired code, 1 ulp per component)", "cdiv_d": "C12_cdiv_d_rel (repaired code, 1 ulp per component)"}
PROVED.update({"cadd": "C12_cadd_rel (2 ulps in modulus)", "csub": "C12_csub_rel (2 ulps in modulus)", "cadd_eq": "C12_cadd_eq_rel",
               "cinv": "C12_cinv_mod (6 ulps in modulus)", "cinv_eq": "C12_cinv_mod", "cdiv": "C12_cdiv_rel (k^2 = 72)", "cdiv_eq": "C12_cdiv_rel (k^2 = 72)",
               "cmul_x": "C12_cmul_x_rel (repaired code, k^2 = 19)", "cmul_eq_x": "C12_cmul_x_rel (repaired code, k^2 = 19)"})
PROVED["get_d"] = "C12_get_d_full (correctly rounded below 2^1024, infinity above, every exponent of long)"


def k_pow(i): return (i if i >= 0 else 2 * -i) + 1     # C12_pow_si_ulps: (1+u)^k - 1 <= (k+1) u, k = i or 2|i|
def k_cpow(i):
    """C12_cpow_si_ulps: 4.36 (i + 1) ulps for i >= 0, 10.37 (|i| + 1) for i < 0 (rounded up to an integer)"""
    n = abs(i) + 1
    return -((-436 * n) // 100) if i >= 0 else -((-1037 * n) // 100)


def k_addsub(a):
    """C12_add_rel / C12_sub_rel: one ulp when both operands are non-zero and |e1 - e2| <= 53 (or an operand is zero:
    exact), two ulps in the shortcut branch"""
    z1 = (int(a[0], 16) & ((1 << 63) - 1)) == 0; z2 = (int(a[2], 16) & ((1 << 63) - 1)) == 0
    if z1 or z2: return 0
    return 1 if abs(int(a[1]) - int(a[3])) <= 53 else 2


UNARY = ["neg", "abs", "inv", "sqr", "sqrt", "neg_eq", "abs_eq", "inv_eq", "sqr_eq", "sqrt_eq"]
BINARY = ["mul", "div", "add", "sub", "mul_eq", "div_eq", "add_eq", "sub_eq"]
RELOPS = ["cmp", "eq", "ne", "lt", "le", "gt", "ge"]
POW_OPS = ["pow_si", "pow_eq_si", "cpow_si", "cpow_eq_si"]
WITH_D = ["mul_d", "div_d", "mul_eq_d", "div_eq_d"]
WITH_UL = ["mul_2exp", "div_2exp", "mul_eq_2exp", "div_eq_2exp"]
CUN = ["cmod", "csmod", "cinv", "cinv_eq", "csqr", "csqr_eq"]
CBIN = ["cadd", "csub", "cmul", "cmul_eq", "cdiv"]

# ops whose arguments, model function and predicate are those of another op (the C function differs)
ALIAS = {"d": "set_d", "2dl": "set_2dl", "cd": "cset_d", "cx": "cset_d", "cset_x": "cset_d", "cpow_eq_si": "cpow_si",
         "cmul_eq_e": "cmul_e", "cdiv_eq_e": "cdiv_e", "cmul_eq_d": "cmul_d", "cdiv_eq_d": "cdiv_d",
         "cadd_eq": "cadd", "csub_eq": "csub", "cdiv_eq": "cdiv", "cmul_eq_x": "cmul_x",
         "cneg_eq": "cneg", "ccon_eq": "ccon", "crot_eq": "crot", "cflip_eq": "cflip",
         "add_eq_d": "add_d", "sub_eq_d": "sub_d", "c2dl": "cset_2dl",
         "set": "get_2dl", "ce": "cget_e", "cset_e": "cget_e", "cset": "cget_e"}
K.update({"add_d": 2, "sub_d": 2, "cmul_x": 5})      # cmul_x: K2 (k^2 = 19) is what the predicate uses

# protocol op -> public function of include/mps/mt.h it calls in harness/c12_dpe.c
COVER = {"set_d": "rdpe_set_d", "set_2dl": "rdpe_set_2dl", "get_d": "rdpe_get_d", "d": "rdpe_d", "2dl": "rdpe_2dl",
         "get_2dl": "rdpe_get_2dl", "set": "rdpe_set", "clear": "rdpe_clear", "swap": "rdpe_swap",
         "mul_d": "rdpe_mul_d", "div_d": "rdpe_div_d", "mul_eq_d": "rdpe_mul_eq_d", "div_eq_d": "rdpe_div_eq_d",
         "add_d": "rdpe_add_d", "sub_d": "rdpe_sub_d", "add_eq_d": "rdpe_add_eq_d", "sub_eq_d": "rdpe_sub_eq_d",
         "mul_2exp": "rdpe_mul_2exp", "div_2exp": "rdpe_div_2exp", "mul_eq_2exp": "rdpe_mul_eq_2exp", "div_eq_2exp": "rdpe_div_eq_2exp",
         "pow_si": "rdpe_pow_si", "pow_eq_si": "rdpe_pow_eq_si", "sgn": "rdpe_sgn", "eq_zero": "rdpe_eq_zero",
         "cmod": "cdpe_mod", "csmod": "cdpe_smod", "cinv": "cdpe_inv", "cinv_eq": "cdpe_inv_eq", "csqr": "cdpe_sqr", "csqr_eq": "cdpe_sqr_eq",
         "cadd": "cdpe_add", "csub": "cdpe_sub", "cmul": "cdpe_mul", "cdiv": "cdpe_div", "cmul_eq": "cdpe_mul_eq",
         "cadd_eq": "cdpe_add_eq", "csub_eq": "cdpe_sub_eq", "cdiv_eq": "cdpe_div_eq",
         "cmul_e": "cdpe_mul_e", "cdiv_e": "cdpe_div_e", "cmul_eq_e": "cdpe_mul_eq_e", "cdiv_eq_e": "cdpe_div_eq_e",
         "cmul_d": "cdpe_mul_d", "cdiv_d": "cdpe_div_d", "cmul_eq_d": "cdpe_mul_eq_d", "cdiv_eq_d": "cdpe_div_eq_d",
         "cmul_x": "cdpe_mul_x", "cmul_eq_x": "cdpe_mul_eq_x",
         "cmul_2exp": "cdpe_mul_2exp", "cdiv_2exp": "cdpe_div_2exp", "cmul_eq_2exp": "cdpe_mul_eq_2exp", "cdiv_eq_2exp": "cdpe_div_eq_2exp",
         "cpow_si": "cdpe_pow_si", "cpow_eq_si": "cdpe_pow_eq_si", "cset_d": "cdpe_set_d", "cget_d": "cdpe_get_d", "cget_x": "cdpe_get_x",
         "cd": "cdpe_d", "cx": "cdpe_x", "cset_x": "cdpe_set_x", "ce": "cdpe_e", "cset_e": "cdpe_set_e", "cget_e": "cdpe_get_e",
         "c2dl": "cdpe_2dl", "cset_2dl": "cdpe_set_2dl", "cset": "cdpe_set", "cclear": "cdpe_clear", "cswap": "cdpe_swap",
         "cneg": "cdpe_neg", "ccon": "cdpe_con", "crot": "cdpe_rot", "cflip": "cdpe_flip",
         "cneg_eq": "cdpe_neg_eq", "ccon_eq": "cdpe_con_eq", "crot_eq": "cdpe_rot_eq", "cflip_eq": "cdpe_flip_eq",
         "ceq_zero": "cdpe_eq_zero", "ceq": "cdpe_eq", "cne": "cdpe_ne"}
for _o in ["neg", "abs", "inv", "sqr", "sqrt", "neg_eq", "abs_eq", "inv_eq", "sqr_eq", "sqrt_eq", "mul", "div", "add", "sub",
           "mul_eq", "div_eq", "add_eq", "sub_eq", "cmp", "eq", "ne", "lt", "le", "gt", "ge"]:
    COVER[_o] = "rdpe_" + _o
# public functions deliberately outside the check
EXCLUDED = {
    "libm / decimal exponent (outside the property's operation list and outside the model)":
        ["rdpe_set_dl", "rdpe_get_dl", "rdpe_log", "rdpe_log10", "rdpe_exp", "rdpe_exp_eq", "rdpe_pow_d", "rdpe_pow_eq_d", "cdpe_set_dl"],
    "string / stream input-output (decimal, through rdpe_set_dl / rdpe_get_dl)":
        ["rdpe_set_str", "rdpe_get_str", "rdpe_out_str", "rdpe_out_str_u", "rdpe_inp_str", "rdpe_inp_str_u", "rdpe_inp_str_flex",
         "cdpe_set_str", "cdpe_get_str", "cdpe_out_str", "cdpe_out_str_u", "cdpe_inp_str", "cdpe_inp_str_u"],
    "array initialisation (loops over rdpe_clear / cdpe_clear, which are covered)": ["rdpe_vinit", "cdpe_vinit"],
    "factorial: not an operation of the property; a loop of rdpe_mul_eq_d, which is covered": ["rdpe_fac_ui"],
}

# ------------------------------------------------------------------ exact arithmetic helpers

def dec(mb):
    """double bit pattern -> (M, E) with value M*2^E, or None for inf/NaN"""
    s, ex, fr = mb >> 63, (mb >> 52) & 0x7ff, mb & ((1 << 52) - 1)
    if ex == 0x7ff: return None
    if ex == 0: M, E = fr, -1074
    else: M, E = fr | (1 << 52), ex - 1075
    return (-M if s else M, E)


def normalised(mb, e):
    ex, fr = (mb >> 52) & 0x7ff, mb & ((1 << 52) - 1)
    if ex == 0 and fr == 0: return e == 0
    return ex == 1022


def rval(mb, e):
    """exact value of an rdpe as (N, D=1, X)"""
    d = dec(mb)
    if d is None: return None
    M, E = d
    if M == 0: return (0, 1, 0)
    return (M, 1, E + e)


GAP = 2000


def x_add(a, b, sign=1):
    (n1, d1, x1), (n2, d2, x2) = a, b
    n2 = sign * n2
    if n1 == 0: return (n2, d2, x2)
    if n2 == 0: return (n1, d1, x1)
    # magnitudes further apart than 2^GAP: the small term is replaced by +-2^(big-GAP) (it keeps its
    # sign and stays below 2^-1900 relative, which cannot change any comparison made here except at exact ties,
    # where only its sign matters)
    ea, eb = x_exp((n1, d1, x1)), x_exp((n2, d2, x2))
    if ea - eb > GAP: n2, d2, x2 = (1 if n2 > 0 else -1), 1, ea - GAP
    elif eb - ea > GAP: n1, d1, x1 = (1 if n1 > 0 else -1), 1, eb - GAP
    x = min(x1, x2)
    return ((n1 * d2 << (x1 - x)) + (n2 * d1 << (x2 - x)), d1 * d2, x)


def x_mul(a, b): return (a[0] * b[0], a[1] * b[1], a[2] + b[2])


def x_div(a, b):
    n, d = a[0] * b[1], a[1] * b[0]
    if d < 0: n, d = -n, -d
    return (n, d, a[2] - b[2])


def x_neg(a): return (-a[0], a[1], a[2])


def x_exp(v):
    """e with 2^(e-1) <= |v| < 2^e (v != 0)"""
    n, d, x = abs(v[0]), v[1], v[2]
    t = n.bit_length() - d.bit_length()
    ge = (n >= (d << t)) if t >= 0 else ((n << -t) >= d)
    return x + t + (1 if ge else 0)


def x_cmp(a, b):
    d = x_add(a, b, -1)
    return (d[0] > 0) - (d[0] < 0)


def rel_ok(res, ex, k):
    """|res - ex| <= k 2^-53 |ex| ; res = (R,1,Xr)"""
    R, _, xr = res
    n, d, x = ex
    if n == 0: return R == 0
    if R == 0: return False
    if abs(x_exp(res) - x_exp(ex)) > 2: return False
    s = xr - x
    if s >= 0: return abs(((R * d) << s) - n) * U53 <= k * abs(n)
    return abs(R * d - (n << -s)) * U53 <= k * (abs(n) << -s)


def sqrt_ok(res, v, k):
    """|res - sqrt(v)| <= k 2^-53 sqrt(v), v = (N,1,X) >= 0"""
    R, _, xr = res
    n, d, x = v
    if n == 0: return R == 0
    if R <= 0 or n < 0: return False
    if abs(2 * x_exp(res) - x_exp(v)) > 3: return False
    s = 2 * xr - x
    a, lo, hi = R * R * d << 106, n * (U53 - k) ** 2, n * (U53 + k) ** 2
    if s >= 0: a <<= s
    else: lo <<= -s; hi <<= -s
    return lo <= a <= hi


def crel_ok(r1, r2, e1, e2, k, k2=None):
    """|(r1,r2) - (e1,e2)|^2 <= (k 2^-53)^2 |(e1,e2)|^2   (k2 = k^2 when given)"""
    d1 = x_add(r1, e1, -1); d2 = x_add(r2, e2, -1)
    lhs = x_add(x_mul(d1, d1), x_mul(d2, d2))
    rhs = x_add(x_mul(e1, e1), x_mul(e2, e2))
    rhs = (rhs[0] * (k2 if k2 is not None else k * k), rhs[1], rhs[2] - 106)
    return x_cmp(lhs, rhs) <= 0


# ------------------------------------------------------------------ predicate

def sign_of(mb):
    if (mb & ((1 << 63) - 1)) == 0: return 0
    return -1 if mb >> 63 else 1


def check_real(op, outm, oute, exact, k, sqrt_of=None):
    """property predicate for an rdpe result.  Returns None or (kind, class)."""
    if dec(outm) is None: return ("norm", "nan-or-inf")
    if not normalised(outm, oute): return ("norm", "not-normalised")
    res = rval(outm, oute)
    if sqrt_of is not None:
        return None if sqrt_ok(res, sqrt_of, k) else ("rel", "in-range")
    if exact[0] == 0:
        return None if res[0] == 0 else ("rel", "exact-zero")
    ee = x_exp(exact)
    sgn = 1 if exact[0] > 0 else -1
    saturated = (oute == LMAX and sign_of(outm) == sgn)
    flushed = (res[0] == 0) or (oute == LMIN and sign_of(outm) == sgn)
    if ee > LMAX: return None if saturated else ("sat", "ovf")
    if ee < LMIN: return None if flushed else ("sat", "unf")
    if rel_ok(res, exact, k): return None
    if ee >= LMAX - 1 and saturated: return None      # saturating one step early at the border
    if ee <= LMIN + 1 and flushed: return None
    return ("rel", "in-range")


def expclass(e):
    return "|e|>=2^31" if (e >= (1 << 31) or e < -(1 << 31)) else "e-in-int"


def sgnch(mb): return {0: "0", 1: "+", -1: "-"}[sign_of(mb)]


def evaluate(op, a, out):
    """a: argument tokens, out: output tokens of the implementation.
    Returns None (predicate holds), ("skip", why) or (kind, class)."""
    op = ALIAS.get(op, op)
    try:
        if op in ("get_2dl", "cget_e"):          # accessors / copies: bit-identical
            return None if [t.lower() for t in out] == [t.lower() for t in a] else ("rel", "copy-differs")
        if op in ("clear", "cclear"):
            return None if all(int(out[2 * j], 16) == 0 and int(out[2 * j + 1]) == 0 for j in range(len(out) // 2)) else ("rel", "not-zero")
        if op == "swap":
            return None if out == a[2:4] + a[0:2] else ("rel", "copy-differs")
        if op == "cswap":
            return None if out == a[4:8] else ("rel", "copy-differs")
        if op in ("cneg", "ccon", "crot", "cflip"):
            NEGB = 1 << 63
            fl = lambda t: "%016x" % (int(t, 16) ^ NEGB)
            want = {"cneg": [fl(a[0]), a[1], fl(a[2]), a[3]], "ccon": [a[0], a[1], fl(a[2]), a[3]],
                    "crot": [fl(a[2]), a[3], a[0], a[1]], "cflip": [a[2], a[3], a[0], a[1]]}[op]
            return None if out == want else ("rel", "structural")
        if op in ("add_d", "sub_d"):
            x = rval(int(a[0], 16), int(a[1])); d = dec(int(a[2], 16))
            if x is None or d is None: return ("skip", "non-finite")
            dv = (d[0], 1, d[1]) if d[0] else (0, 1, 0)
            return check_real(op, int(out[0], 16), int(out[1]), x_add(x, dv, 1 if op == "add_d" else -1), K[op])
        if op == "cset_2dl":
            for j in (0, 1):
                r = evaluate("set_2dl", a[2 * j:2 * j + 2], out[2 * j:2 * j + 2])
                if r: return r
            return None
        if op == "ceq_zero":
            want = int(sign_of(int(a[0], 16)) == 0 and sign_of(int(a[2], 16)) == 0)
            return None if int(out[0]) == want else ("order", "complex-zero-test")
        if op in ("ceq", "cne"):
            vs = [rval(int(a[2 * j], 16), int(a[2 * j + 1])) for j in range(4)]
            if any(v is None for v in vs): return ("skip", "non-finite")
            same = x_cmp(vs[0], vs[2]) == 0 and x_cmp(vs[1], vs[3]) == 0
            want = int(same) if op == "ceq" else int(not same)
            return None if int(out[0]) == want else ("order", "complex-equality")
        if op in ("set_d",):
            v = dec(int(a[0], 16))
            if v is None: return ("skip", "non-finite")
            return check_real(op, int(out[0], 16), int(out[1]), (v[0], 1, v[1]) if v[0] else (0, 1, 0), 0)
        if op == "set_2dl":
            v = dec(int(a[0], 16))
            if v is None: return ("skip", "non-finite")
            return check_real(op, int(out[0], 16), int(out[1]), (v[0], 1, v[1] + int(a[1])) if v[0] else (0, 1, 0), 0)
        if op == "get_d":
            mb, e = int(a[0], 16), int(a[1]); v = rval(mb, e)
            if v is None: return ("skip", "non-finite")
            neg = mb >> 63
            if v[0] == 0: exp_bits = mb & (1 << 63)
            else:
                ee = x_exp(v)
                if ee > 1024: exp_bits = 0x7ff0000000000000 | (neg << 63)
                elif ee < -1080: exp_bits = neg << 63
                else:
                    from fractions import Fraction
                    f = float(Fraction(v[0]) * Fraction(2) ** v[2])      # correctly rounded (python int division)
                    exp_bits = struct.unpack("<Q", struct.pack("<d", f))[0]
                    if f == 0.0: exp_bits = neg << 63
            return None if int(out[0], 16) == exp_bits else ("conv", expclass(e))
        if op in UNARY:
            mb, e = int(a[0], 16), int(a[1]); v = rval(mb, e)
            if v is None: return ("skip", "non-finite")
            om, oe = int(out[0], 16), int(out[1])
            base = op.replace("_eq", "")
            if base == "neg": return check_real(op, om, oe, x_neg(v), 0)
            if base == "abs": return check_real(op, om, oe, (abs(v[0]), 1, v[2]), 0)
            if base == "sqr": return check_real(op, om, oe, x_mul(v, v), K[op])
            if base == "inv":
                if v[0] == 0: return ("skip", "division by zero")
                return check_real(op, om, oe, x_div((1, 1, 0), v), K[op])
            if base == "sqrt":
                if v[0] < 0: return ("skip", "sqrt of negative")
                return check_real(op, om, oe, None, K[op], sqrt_of=v)
        if op in BINARY:
            x = rval(int(a[0], 16), int(a[1])); y = rval(int(a[2], 16), int(a[3]))
            if x is None or y is None: return ("skip", "non-finite")
            om, oe = int(out[0], 16), int(out[1])
            base = op.replace("_eq", "")
            if base == "mul": ex = x_mul(x, y)
            elif base == "div":
                if y[0] == 0: return ("skip", "division by zero")
                ex = x_div(x, y)
            elif base == "add": ex = x_add(x, y)
            else: ex = x_add(x, y, -1)
            return check_real(op, om, oe, ex, k_addsub(a) if base in ("add", "sub") else K[op])
        if op in WITH_D:
            x = rval(int(a[0], 16), int(a[1])); d = dec(int(a[2], 16))
            if x is None or d is None: return ("skip", "non-finite")
            dv = (d[0], 1, d[1]) if d[0] else (0, 1, 0)
            om, oe = int(out[0], 16), int(out[1])
            if op.startswith("mul"): ex = x_mul(x, dv)
            else:
                if dv[0] == 0: return ("skip", "division by zero")
                ex = x_div(x, dv)
            r = check_real(op, om, oe, ex, K[op])
            if r is not None and ex[0] != 0:
                # where does the double operation m*d or m/d land?
                m = dec(int(a[0], 16)); mv = (m[0], 1, m[1])
                pv = x_mul(mv, dv) if op.startswith("mul") else x_div(mv, dv)
                if x_exp(pv) < -1021: return ("rel", "mantissa-op-underflows-double")
                if x_exp(pv) > 1024: return ("rel", "mantissa-op-overflows-double")
            return r
        if op in WITH_UL:
            x = rval(int(a[0], 16), int(a[1]))
            if x is None: return ("skip", "non-finite")
            i = int(a[2]); om, oe = int(out[0], 16), int(out[1])
            ex = (x[0], 1, x[2] + (i if op.startswith("mul") else -i)) if x[0] else x
            if x[0] == 0:
                # zero with a shifted exponent is not normalised
                return None if normalised(om, oe) else ("norm", "zero-with-exponent")
            return check_real(op, om, oe, ex, 0)
        if op in ("pow_si", "pow_eq_si"):
            x = rval(int(a[0], 16), int(a[1])); i = int(a[2])
            if x is None: return ("skip", "non-finite")
            if x[0] == 0 and i <= 0: return ("skip", "0^nonpositive")
            om, oe = int(out[0], 16), int(out[1])
            if abs(i) > 4096:
                # huge exponents (LONG_MIN): only |x| = 1 has a power inside the range of long; otherwise saturation
                if abs(x[0]) == 1 << (abs(x[0]).bit_length() - 1) and x_exp(x) == 1:
                    return check_real(op, om, oe, (1 if (x[0] > 0 or i % 2 == 0) else -1, 1, 0), 0)
                return ("skip", "power with |i| > 4096: accuracy not evaluated")
            p = (x[0] ** abs(i), 1, x[2] * abs(i))
            if i < 0: p = x_div((1, 1, 0), p)
            return check_real(op, om, oe, p, k_pow(i))
        if op in RELOPS:
            ma, ea, mb_, eb = int(a[0], 16), int(a[1]), int(a[2], 16), int(a[3])
            x = rval(ma, ea); y = rval(mb_, eb)
            if x is None or y is None: return ("skip", "non-finite")
            c = x_cmp(x, y)
            want = {"cmp": c, "eq": int(c == 0), "ne": int(c != 0), "lt": int(c < 0), "le": int(c <= 0),
                    "gt": int(c > 0), "ge": int(c >= 0)}[op]
            if int(out[0]) == want: return None
            rel = "ea>eb" if ea > eb else ("ea<eb" if ea < eb else "ea=eb")
            return ("order", "a=%s,b=%s,%s" % (sgnch(ma), sgnch(mb_), rel))
        if op == "sgn":
            return None if int(out[0]) == sign_of(int(a[0], 16)) else ("order", "sgn")
        if op == "eq_zero":
            mb, e = int(a[0], 16), int(a[1])
            want = int(sign_of(mb) == 0)
            if int(out[0]) == want: return None
            return ("order", "zero-with-exponent" if sign_of(mb) == 0 else "nonzero")
        if op == "cset_d":
            for j in (0, 1):
                v = dec(int(a[j], 16))
                if v is None: return ("skip", "non-finite")
                r = check_real(op, int(out[2 * j], 16), int(out[2 * j + 1]), (v[0], 1, v[1]) if v[0] else (0, 1, 0), 0)
                if r: return r
            return None
        if op in ("cget_d", "cget_x"):
            for j in (0, 1):
                r = evaluate("get_d", a[2 * j:2 * j + 2], out[j:j + 1])
                if r: return r
            return None
        if op in ("cmul_2exp", "cdiv_2exp", "cmul_eq_2exp", "cdiv_eq_2exp"):
            for j in (0, 1):
                r = evaluate(op[1:], a[2 * j:2 * j + 2] + [a[4]], out[2 * j:2 * j + 2])
                if r: return r
            return None
        if op[0] == "c":
            return evaluate_complex(op, a, out)
    except (ValueError, IndexError) as ex:
        return ("harness", "unparsable output %r" % (out,))
    return ("skip", "no predicate for op")


def mant_op_class(mants, dvs, div):
    """*_d / *_x variants as they are: does a double operation  mantissa * d  (mantissa / d) leave the normal range of double?"""
    for mh in mants:
        m = dec(int(mh, 16))
        if m is None or m[0] == 0: continue
        for dv in dvs:
            if dv[0] == 0: continue
            pv = x_div((m[0], 1, m[1]), dv) if div else x_mul((m[0], 1, m[1]), dv)
            if x_exp(pv) < -1021 or x_exp(pv) > 1024: return "mantissa-op-leaves-double-range"
    return None


def evaluate_complex(op, a, out):
    def cval(t):
        r, i = rval(int(t[0], 16), int(t[1])), rval(int(t[2], 16), int(t[3]))
        return None if r is None or i is None else (r, i)
    def cmul(p, q): return (x_add(x_mul(p[0], q[0]), x_mul(p[1], q[1]), -1), x_add(x_mul(p[1], q[0]), x_mul(p[0], q[1])))
    def cinv(p):
        s = x_add(x_mul(p[0], p[0]), x_mul(p[1], p[1]))
        return (x_div(p[0], s), x_div(x_neg(p[1]), s))
    z = cval(a[0:4])
    if z is None: return ("skip", "non-finite")
    exps = [int(a[1]), int(a[3])]
    real_out = op in ("cmod", "csmod")
    k = None
    dclass = None        # *_d / *_x forms: set when the double operation mantissa (*|/) d leaves the normal range of double
    if op in CUN:
        rest = a[4:]
        base = op.replace("_eq", "")
        if base in ("cmod", "csmod"):
            s = x_add(x_mul(z[0], z[0]), x_mul(z[1], z[1]))
            if base == "csmod": exact = s
        elif base == "cinv":
            if z[0][0] == 0 and z[1][0] == 0: return ("skip", "division by zero")
            exact = cinv(z)
        else: exact = cmul(z, z)
        k = K.get(op)
    elif op in CBIN:
        w = cval(a[4:8]); exps += [int(a[5]), int(a[7])]
        if w is None: return ("skip", "non-finite")
        base = op.replace("_eq", "")
        if base == "cadd": exact = (x_add(z[0], w[0]), x_add(z[1], w[1]))
        elif base == "csub": exact = (x_add(z[0], w[0], -1), x_add(z[1], w[1], -1))
        elif base == "cmul": exact = cmul(z, w)
        else:
            if w[0][0] == 0 and w[1][0] == 0: return ("skip", "division by zero")
            exact = cmul(z, cinv(w))
        k = K.get(op)
    elif op in ("cmul_e", "cdiv_e"):
        e = rval(int(a[4], 16), int(a[5])); exps.append(int(a[5]))
        if e is None: return ("skip", "non-finite")
        if op == "cdiv_e" and e[0] == 0: return ("skip", "division by zero")
        f = x_mul if op == "cmul_e" else x_div
        exact = (f(z[0], e), f(z[1], e)); k = K[op]
    elif op in ("cmul_d", "cdiv_d"):
        d = dec(int(a[4], 16))
        if d is None: return ("skip", "non-finite")
        dv = (d[0], 1, d[1]) if d[0] else (0, 1, 0)
        if op == "cdiv_d" and dv[0] == 0: return ("skip", "division by zero")
        f = x_mul if op == "cmul_d" else x_div
        exact = (f(z[0], dv), f(z[1], dv)); k = K[op]
        dclass = mant_op_class([a[0], a[2]], [dv], op == "cdiv_d")
    elif op == "cmul_x":
        ds = [dec(int(a[4], 16)), dec(int(a[5], 16))]
        if ds[0] is None or ds[1] is None: return ("skip", "non-finite")
        w = tuple((d[0], 1, d[1]) if d[0] else (0, 1, 0) for d in ds)
        exact = cmul(z, w); k = K[op]
        dclass = mant_op_class([a[0], a[2]], list(w), False)
    elif op == "cpow_si":
        i = int(a[4])
        if abs(i) > 4096: return ("skip", "power with |i| > 4096: accuracy not evaluated")
        if z[0][0] == 0 and z[1][0] == 0 and i <= 0: return ("skip", "0^nonpositive")
        p = ((1, 1, 0), (0, 1, 0))
        for _ in range(abs(i)): p = cmul(p, z)          # dyadic (denominator 1) all along
        exact = p if i >= 0 else cinv(p); k = k_cpow(i)
    else:
        return ("skip", "no predicate for op")
    # outputs: normalised components
    if real_out:
        om, oe = int(out[0], 16), int(out[1])
        if dec(om) is None: return ("norm", "nan-or-inf")
        if not normalised(om, oe): return ("norm", "not-normalised")
    else:
        for j in (0, 1):
            om, oe = int(out[2 * j], 16), int(out[2 * j + 1])
            if dec(om) is None: return ("rel", dclass) if dclass else ("norm", "nan-or-inf")
            if not normalised(om, oe):
                return ("norm", "zero-with-exponent" if sign_of(om) == 0 else "not-normalised")
    # accuracy only where no intermediate can leave the exponent range (saturation of composite
    # complex operations is not specified by the property)
    lim = 1 << 58
    if op in K2 or op in ("cmod", "csmod", "cinv", "cinv_eq", "cadd", "csub", "cmul_d", "cdiv_d"):
        lim = 1 << 60      # csmall of C12_cmul_rel, C12_csqr_rel, C12_cmod_rel, C12_cinv_mod, C12_cdiv_rel (cadd/csub/c*_d: wider)
    if op == "cpow_si": lim = ((1 << 59) // max(1, abs(int(a[4]))) - 2200) // 3      # range hypothesis of C12_cpow_si_rel
    if any(abs(e) > lim for e in exps): return ("skip", "complex op with extreme exponents: accuracy not evaluated")
    if real_out:
        res = rval(int(out[0], 16), int(out[1]))
        if op.startswith("cmod"):
            return None if sqrt_ok(res, s, k) else ("rel", "in-range")
        return None if rel_ok(res, exact, k) else ("rel", "in-range")
    r1 = rval(int(out[0], 16), int(out[1])); r2 = rval(int(out[2], 16), int(out[3]))
    return None if crel_ok(r1, r2, exact[0], exact[1], k, K2.get(op)) else ("rel", dclass or "in-range")


# ------------------------------------------------------------------ generators

SPECIAL_E = [LMIN, LMIN + 1, LMIN + 2, -(1 << 62) - 1, -(1 << 62), -(1 << 62) + 1, -(1 << 32), -(1 << 31) - 1, -(1 << 31),
             -4097, -1075, -1074, -1022, -1021, 1023, 1024, 1025, 4097, (1 << 31) - 1, 1 << 31, 1 << 32,
             (1 << 62) - 1, 1 << 62, (1 << 62) + 1, LMAX - 2, LMAX - 1, LMAX] + list(range(-54, 55))
DELTAS = [0, 0, 0, 1, -1, 2, -2, 52, -52, 53, -53, 54, -54, 55, -55]


def clampl(e): return max(LMIN, min(LMAX, e))


def gen_mant(rng, allow_zero=True):
    r = rng.random()
    s = rng.getrandbits(1) << 63
    if allow_zero and r < 0.04: return s                                # +-0
    if r < 0.12: return s | 0x3fe0000000000000                          # 0.5
    if r < 0.18: return s | 0x3fefffffffffffff                          # 1 - 2^-53
    if r < 0.22: return s | 0x3fe0000000000001
    if r < 0.30: return s | 0x3fe0000000000000 | (1 << rng.randrange(52))   # two bits set
    return s | 0x3fe0000000000000 | rng.getrandbits(52)


def gen_exp(rng, scale=None):
    r = rng.random() if scale is None else scale
    if r < 0.30: return rng.choice(SPECIAL_E)
    if r < 0.55: return rng.randint(-100, 100)
    if r < 0.70: return rng.randint(-(1 << 40), 1 << 40)
    if r < 0.85: return rng.choice([1, -1]) * ((1 << rng.randrange(8, 63)) + rng.randint(-3, 3))
    return rng.randint(LMIN, LMAX)


def gen_r(rng, moderate=False, allow_zero=True):
    m = gen_mant(rng, allow_zero)
    if (m & ((1 << 63) - 1)) == 0:
        # zero: always normalised (e = 0)
        return (m, 0)
    if moderate:
        r = rng.random()
        e = rng.randint(-60, 60) if r < 0.6 else (rng.randint(-3000, 3000) if r < 0.8 else rng.randint(-(1 << 50), 1 << 50))
        return (m, e)
    return (m, gen_exp(rng))


def gen_pair(rng, moderate=False):
    a = gen_r(rng, moderate)
    r = rng.random()
    if r < 0.55 and (a[0] & ((1 << 63) - 1)):
        # related operand: exponent at a chosen distance, mantissa equal / adjacent / random, any sign
        d = rng.choice(DELTAS) if rng.random() < 0.8 else rng.randint(-70, 70)
        e = clampl(a[1] + d)
        q = rng.random()
        frac = a[0] & ((1 << 52) - 1)
        if q < 0.25: pass
        elif q < 0.5: frac = min((1 << 52) - 1, max(0, frac + rng.choice([1, -1, 2, -2])))
        else: frac = rng.getrandbits(52)
        s = rng.getrandbits(1) << 63 if rng.random() < 0.7 else (a[0] & (1 << 63))
        b = (s | 0x3fe0000000000000 | frac, e)
    elif r < 0.65 and (a[0] & ((1 << 63) - 1)) and not moderate:
        # exponent sums / differences at the ends of the long range
        t = rng.choice([LMAX, LMAX - 1, LMAX + 1, LMIN, LMIN + 1, LMIN - 1, LMAX - 54, LMIN + 54])
        e = clampl(t - a[1]) if rng.random() < 0.5 else clampl(a[1] - t)
        b = (gen_mant(rng, False), e)
    else:
        b = gen_r(rng, moderate)
    return (a, b) if rng.random() < 0.5 else (b, a)


def gen_double(rng):
    r = rng.random()
    s = rng.getrandbits(1) << 63
    if r < 0.05: return s
    if r < 0.45: return s | (rng.randint(1023 - 60, 1023 + 60) << 52) | rng.getrandbits(52)
    if r < 0.55: return s | (rng.randint(1023 - 10, 1023 + 10) << 52)               # power of two
    if r < 0.65: return struct.unpack("<Q", struct.pack("<d", float(rng.randint(1, 1000))))[0] | s
    if r < 0.90: return s | (rng.randint(1, 2046) << 52) | rng.getrandbits(52)      # any normal
    return s | rng.getrandbits(52) | (0 if rng.random() < 0.7 else 0)              # subnormal


def fr(x): return "%016x %d" % x
def fc(z): return fr(z[0]) + " " + fr(z[1])


def gen_extra(rng):
    """the remaining public functions: aliases, accessors, structural and _eq forms"""
    q = rng.random()
    mod = rng.random() < 0.9
    cz = lambda: (gen_r(rng, mod), gen_r(rng, mod))
    if q < 0.20:
        (a, b), (c, d) = gen_pair(rng, mod), gen_pair(rng, mod)
        w = (b, d) if rng.random() < 0.85 else (gen_r(rng, mod, allow_zero=False), gen_r(rng, mod))
        return "cdiv_eq %s %s" % (fc((a, c)), fc(w))
    if q < 0.32:
        (a, b), (c, d) = gen_pair(rng, mod), gen_pair(rng, mod)
        return "%s %s %s" % (rng.choice(["cadd_eq", "csub_eq"]), fc((a, c)), fc((b, d)))
    if q < 0.42:
        op = rng.choice(["cmul_eq_e", "cdiv_eq_e"])
        return "%s %s %s" % (op, fc(cz()), fr(gen_r(rng, mod, allow_zero=(op == "cmul_eq_e"))))
    if q < 0.50:
        return "%s %s %016x" % (rng.choice(["cmul_eq_d", "cdiv_eq_d"]), fc(cz()), gen_double(rng))
    if q < 0.60:
        return "%s %s %016x %016x" % (rng.choice(["cmul_x", "cmul_eq_x"]), fc((gen_r(rng, True), gen_r(rng, True))), gen_double(rng), gen_double(rng))
    if q < 0.68:
        return "%s %s %016x" % (rng.choice(["add_d", "sub_d", "add_eq_d", "sub_eq_d"]), fr(gen_r(rng)), gen_double(rng))
    if q < 0.76:
        return "%s %s" % (rng.choice(["cneg", "ccon", "crot", "cflip", "cneg_eq", "ccon_eq", "crot_eq", "cflip_eq"]), fc((gen_r(rng), gen_r(rng))))
    if q < 0.82:
        op = rng.choice(["ceq", "cne", "ceq_zero"])
        z = (gen_r(rng), gen_r(rng))
        if op == "ceq_zero": return "ceq_zero %s" % fc(z if rng.random() < 0.6 else ((0, 0), (rng.choice([0, 1 << 63]), 0)))
        w = z if rng.random() < 0.4 else (z[0], gen_r(rng)) if rng.random() < 0.5 else (gen_r(rng), gen_r(rng))
        return "%s %s %s" % (op, fc(z), fc(w))
    if q < 0.88:
        op = rng.choice(["d", "2dl", "cd", "cx", "cset_x", "c2dl", "cset_2dl"])
        if op == "d": return "d %016x" % gen_double(rng)
        if op == "2dl": return "2dl %016x %d" % (gen_double(rng), gen_exp(rng))
        if op in ("cd", "cx", "cset_x"): return "%s %016x %016x" % (op, gen_double(rng), gen_double(rng))
        return "%s %016x %d %016x %d" % (op, gen_double(rng), gen_exp(rng), gen_double(rng), gen_exp(rng))
    if q < 0.95:
        op = rng.choice(["get_2dl", "set", "clear", "swap", "ce", "cset_e", "cget_e", "cset", "cclear", "cswap"])
        if op in ("get_2dl", "set", "clear"): return "%s %s" % (op, fr(gen_r(rng)))
        if op in ("swap", "ce", "cset_e", "cget_e", "cset", "cclear"): return "%s %s" % (op, fc((gen_r(rng), gen_r(rng))))
        return "cswap %s %s" % (fc((gen_r(rng), gen_r(rng))), fc((gen_r(rng), gen_r(rng))))
    return "cpow_eq_si %s %d" % (fc((gen_r(rng, True), gen_r(rng, True))), rng.randint(-12, 12))


def gen_case(rng):
    if rng.random() < 0.15: return gen_extra(rng)
    r = rng.random()
    if r < 0.30:
        op = rng.choice(BINARY); a, b = gen_pair(rng)
        return "%s %s %s" % (op, fr(a), fr(b))
    if r < 0.48:
        op = rng.choice(RELOPS); a, b = gen_pair(rng)
        return "%s %s %s" % (op, fr(a), fr(b))
    if r < 0.62:
        op = rng.choice(UNARY); a = gen_r(rng)
        if op.startswith("sqrt"): a = (a[0] & ~(1 << 63), a[1])
        return "%s %s" % (op, fr(a))
    if r < 0.68:
        op = rng.choice(WITH_D)
        return "%s %s %016x" % (op, fr(gen_r(rng)), gen_double(rng))
    if r < 0.72:
        op = rng.choice(WITH_UL)
        q = rng.random()
        i = rng.randint(0, 200) if q < 0.5 else (rng.choice([1 << 31, 1 << 32, 1 << 62, LMAX, 1 << 63, (1 << 64) - 1])
                                                 if q < 0.7 else rng.getrandbits(64))
        if rng.random() < 0.2: return "c%s %s %d" % (op, fc((gen_r(rng), gen_r(rng))), i)
        return "%s %s %d" % (op, fr(gen_r(rng)), i)
    if r < 0.76:
        q = rng.random()
        if q < 0.3: return "set_d %016x" % gen_double(rng)
        if q < 0.6: return "set_2dl %016x %d" % (gen_double(rng), gen_exp(rng))
        if q < 0.9: return "get_d %s" % fr(gen_r(rng))
        return rng.choice(["sgn", "eq_zero"]) + " " + fr(gen_r(rng))
    if r < 0.81:
        op = rng.choice(["pow_si", "pow_eq_si"])
        i = rng.randint(-40, 40) if rng.random() < 0.8 else rng.randint(-600, 600)
        a = gen_r(rng, allow_zero=False)
        lim = (1 << 60) // (abs(i) + 1)
        a = (a[0], max(-lim, min(lim, a[1])))       # composite: intermediates stay in range
        return "%s %s %d" % (op, fr(a), i)
    # complex
    mod = rng.random() < 0.9
    if r < 0.87:
        op = rng.choice(CUN); z = (gen_r(rng, mod), gen_r(rng, mod))
        return "%s %s" % (op, fc(z))
    if r < 0.95:
        op = rng.choice(CBIN)
        (a, b), (c, d) = gen_pair(rng, mod), gen_pair(rng, mod)
        return "%s %s %s" % (op, fc((a, c)), fc((b, d)))
    if r < 0.97:
        op = rng.choice(["cmul_e", "cdiv_e"])
        return "%s %s %s" % (op, fc((gen_r(rng, mod), gen_r(rng, mod))), fr(gen_r(rng, mod, allow_zero=(op == "cmul_e"))))
    if r < 0.985:
        op = rng.choice(["cmul_d", "cdiv_d"])
        return "%s %s %016x" % (op, fc((gen_r(rng, mod), gen_r(rng, mod))), gen_double(rng))
    if r < 0.992:
        q = rng.random()
        if q < 0.4: return "cset_d %016x %016x" % (gen_double(rng), gen_double(rng))
        return rng.choice(["cget_d", "cget_x"]) + " " + fc((gen_r(rng), gen_r(rng)))
    i = rng.randint(-12, 12)
    return "cpow_si %s %d" % (fc((gen_r(rng, True), gen_r(rng, True))), i)


def targeted_cases():
    """the deterministic grid aimed at the case splits of the code (also the failing-input search)"""
    out = []
    H, T, A, B = 0x3fe0000000000000, 0x3fe8000000000000, 0x3fefffffffffffff, 0x3fe0000000000001
    NEG = 1 << 63
    mants = [H, T, A, B, H | NEG, T | NEG, A | NEG, B | NEG]
    # comparisons: sign x exponent relation x mantissa relation, zeros included
    for op in RELOPS:
        for ma in mants + [0, NEG]:
            for mb in mants + [0, NEG]:
                for ea, eb in [(0, 0), (3, 1), (1, 3), (-7, -7), (LMAX, LMAX), (LMIN, LMIN), (LMAX, LMAX - 1),
                               (1 << 40, -(1 << 40)), (60, 1), (1, 60)]:
                    a = (ma, ea if ma & ~NEG else 0); b = (mb, eb if mb & ~NEG else 0)
                    out.append("%s %s %s" % (op, fr(a), fr(b)))
    out += ["cmp %s %s" % (fr((H, LMAX)), fr((H, LMIN))), "cmp %s %s" % (fr((H, LMIN)), fr((H, LMAX))),
            "cmp %s %s" % (fr((H, 1 << 62)), fr((H | NEG, -(1 << 62))))]
    # exponent sums at the ends of the range, every sign combination
    for op in ["mul", "mul_eq", "div", "div_eq"]:
        for ma in [H, A, H | NEG, T | NEG, 0]:
            for mb in [H, A, T | NEG]:
                for ea, eb in [(LMAX, 1), (LMAX, 0), (LMAX - 1, 1), (LMAX - 1, 2), (1 << 62, 1 << 62), ((1 << 62) - 1, 1 << 62),
                               (LMIN, -1), (LMIN, 0), (LMIN, 1), (LMIN + 1, -1), (LMIN + 1, 0), (-(1 << 62), -(1 << 62)),
                               (-(1 << 62), -(1 << 62) - 1), (LMAX, LMIN), (LMIN, LMAX), (LMAX, LMAX), (LMIN, LMIN), (5, -5)]:
                    a = (ma, ea if ma & ~NEG else 0)
                    out.append("%s %s %s" % (op, fr(a), fr((mb, eb))))
                    out.append("%s %s %s" % (op, fr((mb, eb)), fr(a)) if (ma & ~NEG or not op.startswith("div")) else "mul %s %s" % (fr((mb, eb)), fr(a)))
    for op in ["mul_d", "mul_eq_d"]:
        for d in [0x4000000000000000, 0x3ff0000000000000, 0x3fe0000000000000, 0xc008000000000000, 0x7fe0000000000000,
                  0x0010000000000000, 0x0000000000000001, 0]:
            for e in [LMAX, LMAX - 1, LMAX - 1024, LMIN, LMIN + 1, LMIN + 1022, LMIN + 1080, 0, 7]:
                for m in [H, A, T | NEG]:
                    out.append("%s %s %016x" % (op, fr((m, e)), d))
    # addition / subtraction: delta in {0, +-1, +-52..55}, adjacent mantissas, overflow at LONG_MAX
    for op in ["add", "sub", "add_eq", "sub_eq"]:
        for d in [0, 1, -1, 2, 52, -52, 53, -53, 54, -54, 55, -55]:
            for ma in [H, A, B, T, H | NEG, A | NEG]:
                for mb in [H, A, B, H | NEG, A | NEG, B | NEG]:
                    for e in [0, 17, LMAX, LMIN, LMAX - 1, LMIN + 1]:
                        out.append("%s %s %s" % (op, fr((ma, e)), fr((mb, clampl(e + d)))))
        out.append("%s %s %s" % (op, fr((H, LMAX)), fr((H, LMIN))))
        out.append("%s %s %s" % (op, fr((H, LMIN)), fr((H, LMAX))))
        out.append("%s %s %s" % (op, fr((H | NEG, LMAX)), fr((H | NEG, LMAX))))
        out.append("%s %s %s" % (op, fr((H | NEG, LMAX)), fr((H, LMAX))))
    for op in UNARY:
        for m in [H, T, A, B] + ([] if op.startswith("sqrt") else [H | NEG, A | NEG]):
            for e in SPECIAL_E[:27] + [0, 1, 2, 3, -1, -2, -3]:
                out.append("%s %s" % (op, fr((m, e))))
    for e in SPECIAL_E[:27] + [0, 1, -1, 1024, 1025, -1073, -1074, -1075, -1076]:
        for m in [H, A, B, T | NEG]:
            out.append("get_d %s" % fr((m, e)))
            out.append("cget_d %s" % fc(((m, e), (H, 1))))
            out.append("cget_x %s" % fc(((H, 1), (m, e))))
    # the double operation on the mantissas at the ends of the double range
    for op in ["div_d", "div_eq_d", "mul_d", "mul_eq_d"]:
        for d in [0x7fe0000000000000, 0x7fefffffffffffff, 0x0010000000000000, 0x0000000000000001, 0x000fffffffffffff, 0x7fd0000000000000]:
            for m in [H, A, T | NEG]:
                out.append("%s %s %016x" % (op, fr((m, 3)), d))
    for op in ["div_d", "div_eq_d"]:
        for d, e in [(0x3fd0000000000000, LMAX), (0x3fd0000000000000, LMAX - 1), (0x4010000000000000, LMIN), (0x4010000000000000, LMIN + 1)]:
            for m in [H, A, T | NEG]:
                out.append("%s %s %016x" % (op, fr((m, e)), d))
    # component-wise complex operations at the ends of the exponent range
    for op in ["cmul_e", "cdiv_e"]:
        for e1, e2 in [(LMAX, 1), (LMAX, -1), (LMAX, 0), (LMIN, -1), (LMIN, 1), (LMIN, 0), (LMAX, LMIN), (LMIN, LMAX), (LMAX - 1, 1), (LMIN + 1, 1), (LMIN + 1, -1)]:
            for m1, m2 in [(H, H), (A, H), (H, A), (T | NEG, B)]:
                out.append("%s %s %s" % (op, fc(((m1, e1), (T, e1))), fr((m2, e2))))
    for op in ["cmul_d", "cdiv_d"]:
        for d in [0x4010000000000000, 0x3fd0000000000000, 0x3ff0000000000000, 0x4000000000000000, 0x3fe0000000000000]:
            for e in [LMAX, LMAX - 1, LMIN, LMIN + 1]:
                for m in [H, A, T | NEG]:
                    out.append("%s %s %016x" % (op, fc(((m, e), (T, 5))), d))
    for op in WITH_UL:
        for i in [0, 1, 5, LMAX, LMAX + 1, 1 << 63, (1 << 64) - 1, (1 << 64) - 2, 1 << 62]:
            for e in [0, -5, 5, LMAX, LMAX - 1, LMIN, LMIN + 1, -(1 << 62), 1 << 62, -3 - (1 << 63) + (1 << 63)]:
                for m in [H, A | NEG, 0, NEG]:
                    out.append("%s %s %d" % (op, fr((m, e if m & ~NEG else 0)), i))
                out.append("c%s %s %d" % (op, fc(((T, e), (0, 0))), i))
    for e in [LMAX, LMAX - 1, (1 << 62), LMIN, -(1 << 62)]:
        out.append("csqr %s" % fc(((T, e), (A, e)))); out.append("csqr_eq %s" % fc(((T, e), (A, e))))
        out.append("csqr %s" % fc(((T, e), (A, 3)))); out.append("csqr %s" % fc(((T, 3), (A, e))))
    for rc in [((H, 2), (0, 0)), ((T, 5), (A | NEG, 3)), ((0, 0), (H, 1)), ((B | NEG, -7), (T, -7))]:
        for c in [((H, 3), (0, 0)), ((T | NEG, 1), (A, 2)), ((0, 0), (H | NEG, 4))]:
            out.append("cdiv_eq %s %s" % (fc(rc), fc(c))); out.append("cdiv %s %s" % (fc(rc), fc(c)))
    out.append("cdiv_eq %s %s" % (fc(((B, 2), (T, 1))), fc(((H, 2), (T, 1)))))      # rc / c within a few ulps of c / c
    for m in [H, T | NEG]:
        out.append("csqr %s" % fc(((m, 2), (0, 0)))); out.append("csqr %s" % fc(((0, 0), (m, 2))))
        out.append("csqr_eq %s" % fc(((m, 2), (0, 0))))
    # ---- case splits of the round-4 proofs ----
    # C12_add_rel / C12_sub_rel: cancellation to zero and to the last bit, delta = 1 (Sterbenz range), both orders
    for op in ["add", "sub", "add_eq", "sub_eq"]:
        for e in [0, 5, -1021, 1 << 40, LMAX - 1024, LMIN + 1074, LMIN + 1073, LMAX - 1023, LMAX, LMIN]:
            for ma, mb in [(H, H), (A, A), (T, T), (A, B), (B, A), (H, B)]:
                sb = NEG if op.startswith("add") else 0          # effective subtraction
                out.append("%s %s %s" % (op, fr((ma, e)), fr((mb | sb, e))))
                out.append("%s %s %s" % (op, fr((ma | NEG, e)), fr(((mb | sb) ^ NEG, e))))
                if LMIN < e: out.append("%s %s %s" % (op, fr((H, e)), fr((A | sb, e - 1))))     # 0.5*2^e - (1-2^-53)*2^(e-1)
                if LMIN < e: out.append("%s %s %s" % (op, fr((A | sb, e - 1)), fr((H, e))))
    # C12_sqrt_rel: odd and even exponents at the ends of long and around zero
    for op in ["sqrt", "sqrt_eq"]:
        for e in [LMAX, LMAX - 1, LMAX - 2, LMIN, LMIN + 1, LMIN + 2, -3, -2, -1, 0, 1, 2, 3, (1 << 62) - 1, 1 << 62, -(1 << 62) - 1, -(1 << 62)]:
            for m in [H, A, B, T]:
                out.append("%s %s" % (op, fr((m, e))))
        out.append("%s %s" % (op, fr((0, 0))))
    # C12_pow_si_rel: exponents 0, +-1, +-2, 63, 64 (bit patterns of the loop), the limit of the range hypothesis, LONG_MIN
    for op in ["pow_si", "pow_eq_si"]:
        for i in [0, 1, -1, 2, -2, 3, -3, 7, 8, 63, 64, -64, 255, 256, -600, 600]:
            lim = (1 << 60) // (abs(i) + 1)
            for m, e in [(H, 1), (H, 2), (A, 0), (B, 1), (T | NEG, 2), (A | NEG, 5), (T, lim), (A, -lim), (B | NEG, lim - 1)]:
                out.append("%s %s %d" % (op, fr((m, e)), i))
        for m, e in [(H, 1), (H | NEG, 1), (H, 0), (H, 2), (H, 3), (T, 1), (A | NEG, -7)]:
            out.append("%s %s %d" % (op, fr((m, e)), LMIN))
            out.append("%s %s %d" % (op, fr((m, e)), LMIN + 1))
            out.append("%s %s %d" % (op, fr((m, e)), LMAX))
    for op in ["cpow_si", "cpow_eq_si"]:
        out.append("%s %s %d" % (op, fc(((H, 1), (0, 0))), LMIN))
        out.append("%s %s %d" % (op, fc(((T, 1), (A, 0))), LMIN))
        for i in [0, 1, -1, 2, -2]:
            out.append("%s %s %d" % (op, fc(((T, 1), (A | NEG, 0))), i))
    # C12_cpow_si_rel: bit patterns of the counter, zero components (pure real / imaginary bases), cancellation (1 + i), the range limit
    for op in ["cpow_si", "cpow_eq_si"]:
        for i in [0, 1, -1, 2, -2, 3, -3, 5, 7, 8, -8, 16, 31, -31, 64, 100, -100, 255]:
            lim = ((1 << 59) // max(1, abs(i)) - 2200) // 3
            for z in [((H, 1), (H, 1)), ((H, 1), (H | NEG, 1)), ((T, 2), (0, 0)), ((0, 0), (A, 1)), ((A, 0), (B | NEG, 0)), ((T | NEG, 3), (A, -2)),
                      ((B, lim), (T, lim - 1)), ((A, -lim), (H | NEG, -lim + 3))]:
                out.append("%s %s %d" % (op, fc(z), i))
    # C12_cmul_rel / C12_csqr_rel / C12_cmod_rel: cancellation in the real part, zero components, the limit 2^60
    for e in [0, 3, -1000, 1 << 60, -(1 << 60)]:
        for (a, b, c, d) in [(H, H, H, H), (A, B, B, A), (T, A, A, T), (H, 0, 0, H), (0, T, T, 0), (A, A | NEG, A, A)]:
            z = ((a, e if a & ~NEG else 0), (b, e if b & ~NEG else 0)); w = ((c, e if c & ~NEG else 0), (d, e if d & ~NEG else 0))
            out.append("cmul %s %s" % (fc(z), fc(w))); out.append("cmul_eq %s %s" % (fc(z), fc(w)))
            out.append("csqr %s" % fc(z)); out.append("csqr_eq %s" % fc(z)); out.append("cmod %s" % fc(z)); out.append("csmod %s" % fc(z))
    # C12_cinv_rel / C12_cdiv_rel / C12_cadd_rel / C12_csub_rel: zero components, equal moduli, the limits 2^60
    for e in [0, 7, -900, 1 << 60, -(1 << 60)]:
        for (a, b) in [(H, H), (A, B | NEG), (T, 0), (0, T | NEG), (A, A), (B | NEG, H)]:
            z = ((a, e if a & ~NEG else 0), (b, e if b & ~NEG else 0))
            out.append("cinv %s" % fc(z)); out.append("cinv_eq %s" % fc(z))
            for (c, d) in [(H, 0), (0, A), (T, T | NEG), (B, A)]:
                w = ((c, e if c & ~NEG else 0), (d, e if d & ~NEG else 0))
                out.append("cdiv %s %s" % (fc(w), fc(z))); out.append("cdiv_eq %s %s" % (fc(w), fc(z)))
                out.append("cadd %s %s" % (fc(w), fc(z))); out.append("csub %s %s" % (fc(w), fc(z))); out.append("cadd_eq %s %s" % (fc(w), fc(z)))
    # C12_get_d_partial: ties and borders of the subnormal range, C12_get_d_clamped
    for e in [-1021, -1022, -1023, -1073, -1074, -1075, -2200, -2201, -4096, -4097, 1024, 1025, 4096, 4097]:
        for m in [H, A, B, T, H | NEG]:
            out.append("get_d %s" % fr((m, e)))
    # ---- case splits of the round-6 proofs ----
    # C12_mul_d_rel / C12_div_d_rel / C12_cmul_d_rel / C12_cdiv_d_rel: d zero, subnormal, DBL_MIN, DBL_MAX; x zero; x at the range limits
    DS = [0, NEG, 1, 0x000fffffffffffff, 0x0010000000000000, 0x0010000000000001, 0x3ff8000000000000, 0xc008000000000000,
          0x7fe0000000000000, 0x7fefffffffffffff, 0x8000000000000001, 0xffefffffffffffff]
    for d in DS:
        for m, e in [(H, 0), (A, 3), (T | NEG, -7), (0, 0), (B, LMIN + 1074), (A | NEG, LMAX - 1026), (T, LMIN + 1025), (H, LMAX - 1075)]:
            for op in WITH_D:
                if op.startswith("div") and (d & ~NEG) == 0: continue
                out.append("%s %s %016x" % (op, fr((m, e)), d))
            for op in ["cmul_d", "cdiv_d", "cmul_eq_d", "cdiv_eq_d"]:
                if op.startswith("cdiv") and (d & ~NEG) == 0: continue
                out.append("%s %s %016x" % (op, fc(((m, e), (T, 2))), d)); out.append("%s %s %016x" % (op, fc(((A | NEG, -3), (m, e))), d))
        for d2 in [0x3ff0000000000000, 0x0010000000000000, 0x7fe0000000000000, 1]:
            out.append("cmul_x %s %016x %016x" % (fc(((T, 1), (A | NEG, 0))), d, d2)); out.append("cmul_eq_x %s %016x %016x" % (fc(((B, -2), (H, 3))), d2, d))
    # C12_norm_set_esp_sat / C12_inv_saturates / C12_div_saturates / C12_mul_saturates: exponent results one step around the ends of long
    for m in [H, A, T | NEG, B | NEG]:
        for e in [LMIN, LMIN + 1, LMIN + 2, LMIN + 3, LMAX, LMAX - 1, LMAX - 2]:
            out.append("inv %s" % fr((m, e))); out.append("inv_eq %s" % fr((m, e)))
        for m2 in [H, A | NEG, T]:
            for ea, eb in [(LMAX, -1), (LMAX, 0), (LMAX - 1, -1), (LMAX - 1, -2), (LMAX, 1), (LMIN, 1), (LMIN, 0), (LMIN + 1, 1), (LMIN + 1, 2), (LMIN, -1),
                           (0, LMIN), (-1, LMIN), (-2, LMIN), (1, LMAX), (0, LMAX), (-1, LMAX), (-2, LMAX)]:
                out.append("div %s %s" % (fr((m, ea)), fr((m2, eb)))); out.append("div_eq %s %s" % (fr((m, ea)), fr((m2, eb))))
                out.append("cdiv_e %s %s" % (fc(((m, ea), (T, ea))), fr((m2, eb)))); out.append("cmul_e %s %s" % (fc(((m, ea), (T, ea))), fr((m2, clampl(-eb)))))
    # C12_scale_2exp: one, two and three rounds of the loop of rdpe_shift_esp, results exactly at / one beyond the ends of long
    for op in WITH_UL:
        for e, i in [(LMIN, (1 << 64) - 1), (LMIN + 1, (1 << 64) - 1), (LMIN, (1 << 64) - 2), (LMAX, (1 << 64) - 1), (LMAX - 1, (1 << 64) - 1),
                     (-5, LMAX + 5), (-5, LMAX + 6), (-5, LMAX + 4), (5, LMAX + 6), (LMIN, LMAX), (LMIN, LMAX + 1), (LMIN, 2 * LMAX), (LMIN, 2 * LMAX + 1),
                     (0, LMAX), (0, LMAX + 1), (-1, LMAX + 1), (-2, LMAX + 1), (7, 2 * LMAX), (-7, 2 * LMAX), (LMAX, 2 * LMAX + 1), (LMAX, 2 * LMAX)]:
            for m in [T, A | NEG]:
                out.append("%s %s %d" % (op, fr((m, e)), i))
    # C12_set_2dl_full: l + frexp exponent at the ends of long, every kind of double
    for d in [1, 0x000fffffffffffff, 0x0010000000000000, 0x3fe0000000000000, 0x3ff0000000000000, 0xbff8000000000000, 0x7fefffffffffffff, 0, NEG]:
        for l in [LMAX, LMAX - 1, LMAX - 1023, LMAX - 1024, LMAX - 1025, LMAX - 1, LMIN, LMIN + 1, LMIN + 1072, LMIN + 1073, LMIN + 1074, LMIN + 1075, 0, -1, 1]:
            out.append("set_2dl %016x %d" % (d, l)); out.append("2dl %016x %d" % (d, l))
        out.append("cset_2dl %016x %d %016x %d" % (d, LMAX, d, LMIN))
    return out


# ------------------------------------------------------------------ running a batch

_G = {}


def ub_function(line_no):
    """innermost function of mt.c containing that line (from the snapshot the library was built from)"""
    best = "?"
    for ln, name in _G["funcs"]:
        if ln <= line_no: best = name
        else: break
    return best


def run_batch(lines):
    """lines -> list of per-case dicts {line, impl, model, ub, verdict}"""
    text = "\n".join(lines) + "\n"
    env = _G["env"]
    rc, out_san, err = vf.sh([_G["san"]], input=text, timeout=1200, env=env)
    so = out_san.split("\n")
    if rc != 0 or len(so) - 1 != len(lines):
        raise vf.InfraError("c12 harness (san) rc=%d, %d lines for %d cases: %s" % (rc, len(so) - 1, len(lines), err[-1500:]))
    rc, out_m, err = vf.sh([_G["model"], "new"], input=text, timeout=1800)
    mo = out_m.split("\n")
    if rc != 0 or len(mo) - 1 != len(lines):
        raise vf.InfraError("model driver rc=%d, %d lines for %d cases: %s" % (rc, len(mo) - 1, len(lines), err[-1500:]))
    ub_idx = [i for i in range(len(lines)) if so[i].startswith("UB ")]
    plain = {}
    if ub_idx:
        rc, out_p, err = vf.sh([_G["plain"]], input="\n".join(lines[i] for i in ub_idx) + "\n", timeout=1200)
        po = out_p.split("\n")
        if rc != 0 or len(po) - 1 != len(ub_idx):
            raise vf.InfraError("c12 harness (plain) rc=%d: %s" % (rc, err[-1500:]))
        plain = dict(zip(ub_idx, po))
    res = []
    mism = []
    for i, ln in enumerate(lines):
        t = ln.split()
        op, args = t[0], t[1:]
        impl = so[i]; ub = None
        if i in plain:
            u = impl.split()      # UB kind file:line lhs rhs
            lno = int(u[2].split(":")[1])
            ub = {"kind": u[1], "where": u[2], "fn": ub_function(lno), "lhs": int(u[3]), "rhs": int(u[4])}
            impl = plain[i]
            if impl == "SKIP" and op in POW_OPS and args[-1] == str(LMIN):
                impl = "NOT-RUN"      # x^LONG_MIN after the wrapped negation: the loop of the plain build would not terminate
        d = {"line": ln, "op": op, "impl": impl, "model": mo[i], "ub": ub, "v": None, "skip": None}
        if impl == "HANG":
            d["v"] = ("hang", "no-result-within-20s"); d["agree"] = False; res.append(d); continue
        if impl in ("SKIP", "ERR") or mo[i].startswith("ERR"):
            d["v"] = ("harness", "protocol-error"); res.append(d); continue
        ev = evaluate(op, args, impl.split())
        if ev is not None and ev[0] == "skip": d["skip"] = ev[1]; ev = None
        if ub is not None:
            benign = False
            if ub["kind"] == "shift" and ub["lhs"] < 0 and LMIN <= (ub["lhs"] << ub["rhs"]) <= LMAX and 0 <= ub["rhs"] < 64:
                benign = True            # left shift of a negative long whose result is representable: defined by gcc
            d["ub_benign"] = benign
            if not benign:
                if ub["kind"] in ("add", "mul", "shift"): di = "ovf" if ub["lhs"] > 0 else "unf"
                elif ub["kind"] == "sub": di = "ovf" if ub["lhs"] >= 0 else "unf"
                else: di = "min"
                ev = ("ub", "%s:%s:%s" % (ub["fn"], ub["kind"], di), ev)
        d["v"] = ev
        d["agree"] = (impl == mo[i])
        if not d["agree"]: mism.append(len(res))
        res.append(d)
    if mism:
        rc, out_o, err = vf.sh([_G["model"], "old"], input="\n".join(res[j]["line"] for j in mism) + "\n", timeout=600)
        oo = out_o.split("\n")
        for j, o in zip(mism, oo): res[j]["model_old"] = o
    return res


def split_class(op, a):
    """which case split of the round-4 proofs a case exercises (input distribution, printed into the evidence)"""
    try:
        base = op.replace("_eq", "")
        if base in ("add", "sub") and len(a) == 4:
            z1 = sign_of(int(a[0], 16)) == 0; z2 = sign_of(int(a[2], 16)) == 0
            if z1 or z2: return base + ":zero-operand"
            d = abs(int(a[1]) - int(a[3]))
            eff_sub = (sign_of(int(a[0], 16)) != sign_of(int(a[2], 16))) != (base == "sub")
            if d == 0: return base + (":delta=0,cancelling" if eff_sub else ":delta=0,same-sign")
            if d == 1: return base + ":delta=1"
            if d <= 52: return base + ":delta=2..52"
            if d == 53: return base + ":delta=53(last rounded)"
            if d == 54: return base + ":delta=54(first shortcut)"
            return base + ":delta>54(shortcut)"
        if base == "sqrt":
            e = int(a[1]); return "sqrt:%s%s" % ("odd" if e & 1 else "even", ",|e|>=2^62" if abs(e) >= (1 << 62) else "")
        if op in POW_OPS:
            i = int(a[-1])
            return "%s:i=%s" % (op.replace("_eq", ""), "LONG_MIN" if i == LMIN else "0" if i == 0 else "+-1" if abs(i) == 1 else
                                "|i|<=64" if abs(i) <= 64 else "|i|<=4096" if abs(i) <= 4096 else "huge")
        if op == "get_d":
            e = int(a[1]); return "get_d:" + ("e>1024" if e > 1024 else "normal" if e >= -1021 else "subnormal" if e >= -1074 else "below" if e >= -2200 else "below-2^-2200")
        if op in WITH_D or op in ("cmul_d", "cdiv_d", "cmul_eq_d", "cdiv_eq_d"):
            db = int(a[-1], 16); ex = (db >> 52) & 0x7ff
            kind = "zero" if (db & ((1 << 63) - 1)) == 0 else "subnormal" if ex == 0 else "non-finite" if ex == 0x7ff else \
                   "tiny(<2^-900)" if ex < 123 else "huge(>2^900)" if ex > 1923 else "moderate"
            return "%s:d-%s" % (op.replace("_eq", ""), kind)
        if op in WITH_UL:
            i = int(a[2]); return "2exp:" + ("i<=LONG_MAX(1 round)" if i <= LMAX else "i<=2*LONG_MAX(2 rounds)" if i <= 2 * LMAX else "i>2*LONG_MAX(3 rounds)")
        if op in ("set_2dl", "2dl"):
            d = dec(int(a[0], 16))
            if d is None or d[0] == 0: return "set_2dl:zero-or-non-finite"
            s_ = int(a[1]) + x_exp((d[0], 1, d[1]))
            return "set_2dl:" + ("saturates-high" if s_ > LMAX else "saturates-low" if s_ < LMIN else "in-range")
        if base in ("inv", "sqr", "div") and op in UNARY + BINARY:
            e1 = int(a[1]); s_ = -e1 if base == "inv" else 2 * e1 if base == "sqr" else e1 - int(a[3])
            return "%s:exact-exponent-%s" % (base, "above-long" if s_ > LMAX else "below-long" if s_ < LMIN else "at-the-ends" if (s_ >= LMAX - 2 or s_ <= LMIN + 2) else "inside")
    except (ValueError, IndexError):
        pass
    return None


def summarise(res, st):
    """fold a batch into the statistics dict; return the list of (signature, what, replay) to report"""
    rep = []
    for d in res:
        op = d["op"]
        st["ops"][op] = st["ops"].get(op, 0) + 1
        st["evaluations"] += 1
        st["distinct"].add(d["line"])
        sc = split_class(op, d["line"].split()[1:])
        if sc: st["splits"][sc] = st["splits"].get(sc, 0) + 1
        if d["skip"]: st["skipped"][d["skip"]] = st["skipped"].get(d["skip"], 0) + 1
        if d["ub"] is not None:
            key = "%s:%s%s" % (d["ub"]["fn"], d["ub"]["kind"], ":benign" if d.get("ub_benign") else "")
            st["ub_reports"][key] = st["ub_reports"].get(key, 0) + 1
        v = d["v"]
        if d.get("agree"): st["agree"] += 1
        elif "agree" in d:
            st["disagree"] += 1
            if d.get("model_old") == d["impl"] or d.get("model_old") == "OOM": st["disagree_matches_old_model"] += 1
        if v is None:
            st["predicate_true"] += 1
            prefix = bool(d["skip"]) and d.get("model_old") in (d["impl"], "OOM")
            if prefix: st["unevaluated_cases_matching_prefix_model"] = st.get("unevaluated_cases_matching_prefix_model", 0) + 1
            # (where the predicate is not evaluated -- composite complex operation at extreme exponents -- and the
            #  output is bit for bit the one of the pre-fix model, the difference is the known rdpe_mul* defect)
            if d.get("agree") is False and d["ub"] is None and not prefix and d.get("model_old") == d["impl"]:
                # the code is bit for bit the pre-fix model of this function, on an input where the pre-fix defect
                # does not break the predicate: reported under the defect's own transitional signature
                rep.append(("prefix:%s" % op, "`%s`: implementation %s equals the pre-fix model of %s (repaired model: %s); the "
                            "defect is not visible on this input" % (d["line"], d["impl"], op, d["model"]),
                            {"case": d["line"], "impl": d["impl"], "model": d["model"]}, False))
            elif d.get("agree") is False and d["ub"] is None and not prefix:
                # model != implementation, predicate true: the correspondence is broken
                rep.append(("correspondence:%s" % op, "model and implementation differ on `%s`: impl %s, model %s (predicate holds)"
                            % (d["line"], d["impl"], d["model"]), {"case": d["line"], "impl": d["impl"], "model": d["model"]}, True))
            continue
        st["predicate_false"] += 1
        if v[0] == "ub":
            sig = "ub:" + v[1]
            what = "UBSan %s overflow in %s (%s) on `%s`; wrapped result %s%s" % (
                d["ub"]["kind"], d["ub"]["fn"], d["ub"]["where"], d["line"], d["impl"],
                ("; predicate also fails: %s:%s" % (v[2][0], v[2][1])) if v[2] else "")
        else:
            sig = "%s:%s:%s" % (v[0], op, v[1])
            if d["impl"] == "3fe0000000000000 9223372036854775807" and v[0] in ("rel", "sat"): sig += ":got-RDPE_MAX"
            what = "%s fails (%s) on `%s`: implementation returns %s, model %s" % (v[0], v[1], d["line"], d["impl"], d["model"])
        st["fail_classes"][sig] = st["fail_classes"].get(sig, 0) + 1
        rep.append((sig, what, {"case": d["line"], "impl": d["impl"], "model": d["model"], "ub": d["ub"]}, False))
    return rep


def _worker(job):
    seed, n = job
    import random
    rng = random.Random(seed)
    lines = [gen_case(rng) for _ in range(n)]
    return run_batch(lines)


def new_stats():
    return {"ops": {}, "evaluations": 0, "distinct": set(), "skipped": {}, "ub_reports": {}, "agree": 0, "disagree": 0,
            "disagree_matches_old_model": 0, "predicate_true": 0, "predicate_false": 0, "fail_classes": {}, "splits": {}}


# Coq witnesses of the *_refuted theorems, replayed on the real code: (case, expected signature)
WITNESSES = [
    ("lt 3fe0000000000000 1 bfe0000000000000 1", "C12_order_unfixed_refuted: 1 < -1"),
    ("lt bfe0000000000000 3 bfe0000000000000 1", "C12_order_unfixed_refuted: -4 < -1"),
    ("mul 3fe0000000000000 -9223372036854775808 3fe0000000000000 -1", "C12_saturates_refuted: mul underflow"),
    ("sqr 3fe0000000000000 4611686018427387904", "C12_saturates_refuted: sqr wraps"),
    ("get_d 3fe0000000000000 4294967296", "C12_saturates_refuted: get_d int cast"),
    ("cmp 3fe0000000000000 9223372036854775807 3fe0000000000000 -9223372036854775808", "C12_cmp_refuted"),
    ("sqrt 3fe0000000000000 9223372036854775807", "C12_saturates_refuted: sqrt(RDPE_MAX)"),
    ("cdiv_eq 3fe0000000000000 2 0000000000000000 0 3fe0000000000000 3 0000000000000000 0", "C12_cdpe_div_eq_unfixed_refuted: 2/4 = 1"),
    ("pow_si 3fe0000000000000 3 -9223372036854775808", "C12_pow_si_long_min_refuted: 4^LONG_MIN, negation wraps, loop does not end"),
    ("mul_d 3fe8000000000000 0 0000000000000001", "C12_d_variants_unfixed_refuted: 0.75 * 2^-1074 (mantissa product rounds in the subnormals)"),
    ("div_d 3fe8000000000000 0 0000000000000001", "C12_d_variants_unfixed_refuted: 0.75 / 2^-1074 (mantissa quotient overflows)"),
]


def run(ctx):
    # the worker functions must be importable by name for multiprocessing: use the copy of this file
    # that `import C12` finds on sys.path (lib/vf.py loads checks under another module name)
    import C12 as me
    if me.run is not run: return me.run(ctx)
    ctx.prove()
    ctx.log("proof stage done: ok=%s" % (ctx.proof or {}).get("ok"))
    san = ctx.compile_harness(["c12_dpe.c"], "c12_dpe", mode="san")
    plain = ctx.compile_harness(["c12_dpe.c"], "c12_dpe", mode="plain")
    model = ctx.model_bin("dpe")
    src = open(os.path.join(ctx.snap("san"), "src/libmps/floating-point/mt.c"), errors="replace").read().split("\n")
    funcs = [(i + 1, m.group(1)) for i, l in enumerate(src) for m in [re.match(r"^((?:rdpe|cdpe|cplx)_\w+) \(", l)] if m]
    _G.update(san=san, plain=plain, model=model, env=ctx.san_env(), funcs=funcs)

    st = new_stats()
    reports = []

    seen = set()

    def report(rep):
        for sig, what, obj, no_input in rep:
            if sig in seen: continue
            seen.add(sig)
            ctx.violation(sig, what, obj, no_input=no_input)

    if ctx.replay:
        obj = json.load(open(ctx.replay))
        res = run_batch([obj["case"]])
        report(summarise(res, st))
        for d in res: ctx.log("replay:", d["line"], "impl", d["impl"], "model", d["model"], "verdict", d["v"])
        st["distinct"] = len(st["distinct"])
        return ctx.finish("proof", {"evaluations": st["evaluations"], "distinct_nontrivial": st["distinct"],
                                    "rule": "replay of one stored case", "samples": [r["line"] for r in res],
                                    "trusted_base": ["replay"], "stats": st}, [])

    # 1. deterministic grid + witnesses of the refutation theorems
    tcases = targeted_cases()
    res = run_batch(tcases + [w for w, _ in WITNESSES])
    wres = res[len(tcases):]
    witness_log = []
    for (w, name), d in zip(WITNESSES, wres):
        witness_log.append({"theorem": name, "case": w, "impl": d["impl"], "model_fixed": d["model"],
                            "reproduces_on_real_code": d["v"] is not None})
    report(summarise(res, st))
    samples = [dict(case=d["line"], impl=d["impl"], model=d["model"]) for d in res[:2]]
    # 2. random operands
    total = ctx.pick(60000, 3000000)
    chunk = ctx.pick(5000, 25000)
    jobs = [(ctx.rng.getrandbits(60), chunk) for _ in range(total // chunk)]
    with Pool(min(14, len(jobs))) as pool:
        for r in pool.imap(_worker, jobs):
            report(summarise(r, st))
            if len(samples) < 8:
                samples += [dict(case=d["line"], impl=d["impl"], model=d["model"]) for d in r[:2]]
    ctx.log("cases: %d, predicate false: %d, disagreements with the fixed model: %d (of which %d match the pre-fix model)"
            % (st["evaluations"], st["predicate_false"], st["disagree"], st["disagree_matches_old_model"]))

    # 3. proof stage broken?  the search is the run above: any unlisted failing input was reported already
    ctx.proof_violation_if_broken(search=lambda: any(not ni for _, _, _, ni in ctx.violations))

    coqchk = None
    if not ctx.quick():
        rc, o, e = vf.sh("timeout 900 coqchk -o -silent -Q . MPSV MPSV.Props.Properties_C12", cwd=vf.COQDIR, timeout=930)
        txt = o + e
        ax = []
        mm = re.search(r"\* Axioms:\s*(.*?)(?:\n\s*\* |\Z)", txt, re.S)
        if mm: ax = [a.strip() for a in mm.group(1).split("\n") if a.strip() and a.strip() != "<none>"]
        coqchk = {"rc": rc, "axioms": ax, "summary": txt[-2500:]}
        if rc != 0:
            ctx.violation("proof:coqchk", "coqchk rejects the compiled library of Properties_C12", coqchk, no_input=True)

    # every public rdpe_* / cdpe_* function of the header: exercised (by which protocol ops, how often) or excluded (why)
    hdr = open(os.path.join(ctx.snap("san"), "include/mps/mt.h"), errors="replace").read()
    public = sorted(set(re.findall(r"\b((?:rdpe|cdpe)_[a-z0-9_]+) \(", hdr)))
    byfn = {}
    for o, f in COVER.items(): byfn.setdefault(f, []).append(o)
    excl = {f: why for why, fs in EXCLUDED.items() for f in fs}
    api = {"public_functions": len(public),
           "covered": {f: {"ops": sorted(byfn[f]), "cases": sum(st["ops"].get(o, 0) for o in byfn[f])} for f in public if f in byfn},
           "excluded": {f: excl[f] for f in public if f in excl},
           "unaccounted": [f for f in public if f not in byfn and f not in excl]}
    api["covered_count"] = len(api["covered"]); api["excluded_count"] = len(api["excluded"])
    api["covered_but_never_run"] = [f for f, v in api["covered"].items() if v["cases"] == 0]
    if api["unaccounted"] or api["covered_but_never_run"]:
        ctx.notes.append("public DPE functions neither exercised nor excluded: %s; never run: %s" % (api["unaccounted"], api["covered_but_never_run"]))
    ctx.log("API coverage: %d public functions, %d exercised, %d excluded, unaccounted %s" % (len(public), api["covered_count"], api["excluded_count"], api["unaccounted"]))
    ndist = len(st["distinct"]); st["distinct"] = ndist
    cov = {
        "evaluations": st["evaluations"],
        "distinct_nontrivial": ndist,
        "rule": "each case = one call of an rdpe_*/cdpe_* function on generated operands (deterministic grid over the code's "
                "case splits + seeded random: mantissa patterns 0.5, 1-2^-53, adjacent, random, +-0; exponents from the special "
                "set {LONG_MIN.., -2^62, -2^31-1, -1075, -54..54, 2^31, 2^62, ..LONG_MAX} and random at 4 scales; exponent "
                "distance 0,1,52..55, sums at LONG_MAX/LONG_MIN; round 4: cancellation to zero / to the last bit, delta = 1, sqrt odd/even at the ends of long, "
                "pow_si 0, +-1, .., 600, LONG_MIN, LONG_MAX, complex operands with zero components and exponents at +-2^60, get_d at the subnormal borders and "
                "at the clamp -- see proof_case_split_histogram); distinct = distinct input lines; every case runs through the "
                "sanitised implementation, the extracted model and the exact predicate",
        "samples": samples,
        "api_coverage": api,
        "op_histogram": st["ops"],
        "proof_case_split_histogram": st["splits"],
        "predicate_true": st["predicate_true"], "predicate_false": st["predicate_false"],
        "failing_classes": st["fail_classes"],
        "predicate_not_evaluated": st["skipped"],
        "ubsan_reports": st["ub_reports"],
        "model_agrees_bit_exact": st["agree"], "model_disagrees": st["disagree"],
        "model_disagrees_but_matches_prefix_model": st["disagree_matches_old_model"],
        "refutation_witnesses_replayed": witness_log,
        "ulps_allowed": dict(K, pow_si="i+1 (i>=0), 2|i|+1 (i<0)", cpow_si="ceil(4.36 (i+1)) (i>=0), ceil(10.37 (|i|+1)) (i<0)", add="1 if |e1-e2|<=53 else 2 (0 with a zero operand)",
                             sub="1 if |e1-e2|<=53 else 2 (0 with a zero operand)", **{k + "^2": v for k, v in K2.items()}),
        "constants_proved_in_coq": PROVED,
        "trusted_base": [
            "Coq 8.16.1 kernel; Flocq 4 (IEEE754.BinarySingleNaN) as the semantics of binary64 +,-,*,/,sqrt,frexp,ldexp",
            "axioms: those printed by Print Assumptions (classical real numbers of the standard library)",
            "extraction: ExtrOcamlBasic + ExtrOcamlNativeString only; hand-written ocaml/dpe_driver.ml (parsing, printing)",
            "harness/c12_dpe.c (calls the real functions; overrides UBSan's abort handlers to record the report and longjmp)",
            "x86-64 SSE2 double arithmetic and glibc frexp/ldexp/sqrt taken as correctly rounded (checked bit for bit against Flocq by the differential)",
            "the exact predicate is evaluated by checks/C12.py with python integers, independently of the model",
            "modelled, not verified: the model follows the code as changed by fixes/C12_*.patch; the pre-fix code is kept as *_old "
            "and refuted; libm-based rdpe_set_dl/get_dl/log/exp/pow_d are outside the model",
        ],
    }
    if coqchk: cov["coqchk"] = coqchk
    assumptions = ["gcc wraps signed long overflow at -O1 in the plain build (used only to display the wrapped value of cases UBSan flags)",
                   "operands are finite; division by zero, sqrt of negatives, 0^-n are outside the property",
                   "accuracy of composite complex operations is evaluated for |exponent| <= 2^58 (2^60 for cmul, csqr, cmod, csmod: the range of their theorems) only"]
    return ctx.finish("proof", cov, assumptions)
